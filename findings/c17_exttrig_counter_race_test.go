package dastard

// Demonstration for C17 (finding F36): copy into the repository root and run
//   go test -race -run TestVerifExtTrigCounterRace .
// The core loop updates WritingState.externalTriggerNumberObserved in HandleExternalTriggers
// without the WritingState lock on every block, while RPC goroutines (SendAllStatus,
// broadcastWritingState) read it in ComputeState under that lock.

import (
	"testing"
	"time"
)

func TestVerifExtTrigCounterRace(t *testing.T) {
	ts := NewTriangleSource()
	config := TriangleSourceConfig{Nchan: 2, SampleRate: 100000.0, Min: 100, Max: 200}
	if err := ts.Configure(&config); err != nil {
		t.Fatal(err)
	}
	ts.heartbeats = make(chan Heartbeat, 1000)
	queuedRequests := make(chan func())
	if err := Start(ts, queuedRequests, 256, 1024); err != nil {
		t.Fatal(err)
	}
	deadline := time.Now().Add(300 * time.Millisecond)
	for time.Now().Before(deadline) {
		// what SourceControl.SendAllStatus / broadcastWritingState do in the RPC goroutine
		_ = ts.ComputeWritingState()
		for len(ts.heartbeats) > 0 {
			<-ts.heartbeats
		}
		time.Sleep(time.Millisecond)
	}
	ts.Stop()
}
