package dastard

// Demonstration for C10 (finding F14): copy into the repository root and run
//   go test -run TestVerifAbacoFailedStart .
// An Abaco UDP source is started while the hardware is not sending yet: Start fails (0 channels).
// The operator configures it again and starts it once packets flow.  Before the repair the
// socket bound by the failed Start was never closed, so every later Start failed with
// "bind: address already in use" until dastard itself was restarted.

import (
	"math"
	"net"
	"testing"
	"time"

	"github.com/usnistgov/dastard/packets"
)

func TestVerifAbacoFailedStart(t *testing.T) {
	const hostport = "127.0.0.1:45871"
	source, err := NewAbacoSource()
	if err != nil {
		t.Fatal(err)
	}
	var config AbacoSourceConfig
	config.HostPortUDP = []string{hostport}
	if err = source.Configure(&config); err != nil {
		t.Fatal(err)
	}
	queuedRequests := make(chan func())
	if err := Start(source, queuedRequests, 256, 1024); err == nil {
		t.Fatal("Start with no data flowing should fail")
	} else {
		t.Logf("first Start (no data yet): %v", err)
	}
	if source.GetState() != Inactive {
		t.Fatalf("state after failed start is %v, want Inactive", source.GetState())
	}

	// now the hardware starts sending
	stop := make(chan struct{})
	go func() {
		conn, err := net.Dial("udp", hostport)
		if err != nil {
			return
		}
		defer conn.Close()
		const Nchan, stride = 8, 400
		p := packets.NewPacket(10, 20, 100, 0)
		d := make([]int16, Nchan*stride)
		for i := range d {
			d[i] = int16(1000 * math.Sin(float64(i)))
		}
		ts := uint64(1000)
		tick := time.NewTicker(time.Millisecond)
		defer tick.Stop()
		for {
			select {
			case <-stop:
				return
			case <-tick.C:
				p.NewData(d, []int16{Nchan})
				ts += 40000
				p.SetTimestamp(&packets.PacketTimestamp{T: ts, Rate: 1e8})
				conn.Write(p.Bytes())
			}
		}
	}()
	defer close(stop)

	if err = source.Configure(&config); err != nil {
		t.Fatal(err)
	}
	if err := Start(source, queuedRequests, 256, 1024); err != nil {
		t.Fatalf("Start after the failed one, with data flowing: %v", err)
	}
	time.Sleep(100 * time.Millisecond)
	source.Stop()
}
