package dastard

// Demonstration for C17 (findings F28–F30): copy into the repository root and run
//   go test -race -run TestVerifAbacoHandoffRace .
// On the tree before the "fix: Abaco reader and block assembly ..." commit the race detector
// reports the reader goroutine (readerMainLoop -> distributePackets -> updateFrameTiming) and the
// block-assembly goroutine (getNextBlock -> distributeData -> extractExternalTriggers ->
// subframeCountFromTimestamp) touching AbacoSource.eTrigPackets, AnySource.nextFrameNum and the
// groups' FrameTimingCorrepondence with no synchronisation.

import (
	"bytes"
	"fmt"
	"math"
	"math/rand"
	"os"
	"path/filepath"
	"testing"
	"time"

	"github.com/usnistgov/dastard/packets"
	"github.com/usnistgov/dastard/ringbuffer"
)

func TestVerifAbacoHandoffRace(t *testing.T) {
	source, err := NewAbacoSource()
	if err != nil {
		t.Fatal(err)
	}
	cardnum := -rand.Intn(99998) - 1
	dev, err := NewAbacoRing(cardnum)
	if err != nil {
		t.Fatal(err)
	}
	source.arings[cardnum] = dev
	source.Nrings++
	var config AbacoSourceConfig
	config.ActiveCards = []int{cardnum}
	if err = source.Configure(&config); err != nil {
		t.Fatal(err)
	}
	rb, err := ringbuffer.NewRingBuffer(fmt.Sprintf("xdma%d_c2h_0_buffer", cardnum), fmt.Sprintf("xdma%d_c2h_0_description", cardnum))
	if err != nil {
		t.Fatal(err)
	}
	defer rb.Unlink()
	const packetAlign = 8192
	if err = rb.Create(256 * packetAlign); err != nil {
		t.Fatal(err)
	}

	// one real external-trigger packet from the repository's test data
	raw, err := os.ReadFile(filepath.Join("testData", "timer_packets.bin"))
	if err != nil {
		t.Fatal(err)
	}
	etp, err := packets.ReadPacket(bytes.NewReader(raw))
	if err != nil || !etp.IsExternalTrigger() {
		t.Fatalf("no external trigger packet: %v", err)
	}
	etBytes := raw[:etp.Length()]

	const Nchan = 8
	const Nsamp = 20000
	const stride = 500
	abortSupply := make(chan interface{})
	go func() {
		p := packets.NewPacket(10, 20, 100, 0)
		d := make([]int16, Nchan*Nsamp)
		for i := 0; i < Nchan; i++ {
			freq := (float64(i + 2)) / float64(Nsamp)
			for j := 0; j < Nsamp; j++ {
				d[i+Nchan*j] = int16(30000.0 * math.Cos(freq*float64(j)))
			}
		}
		empty := make([]byte, packetAlign)
		dims := []int16{Nchan}
		timer := time.NewTicker(10 * time.Millisecond)
		ts := uint64(1000)
		for {
			select {
			case <-abortSupply:
				return
			case <-timer.C:
				for i := 0; i < Nsamp; i += stride {
					p.NewData(d[i:i+stride*Nchan], dims)
					ts += 5000
					p.SetTimestamp(&packets.PacketTimestamp{T: ts, Rate: 1e8})
					b := p.Bytes()
					b = append(b, empty[:packetAlign-len(b)]...)
					if rb.BytesWriteable() >= len(b) {
						rb.Write(b)
					}
				}
				b := append([]byte{}, etBytes...)
				b = append(b, empty[:packetAlign-len(b)]...)
				if rb.BytesWriteable() >= len(b) {
					rb.Write(b)
				}
			}
		}
	}()

	queuedRequests := make(chan func())
	if err := Start(source, queuedRequests, 256, 1024); err != nil {
		t.Fatal(err)
	}
	time.Sleep(400 * time.Millisecond)
	source.Stop()
	close(abortSupply)
	source.RunDoneWait()
}
