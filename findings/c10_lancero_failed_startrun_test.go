package dastard

// Demonstration for C10 (finding F15): copy into the repository root and run
//   go test -run TestVerifLanceroFailedStartRun .
// The card's collector refuses its configuration once, in StartRun (a transient driver
// problem), after StartRun has already started the adapter.  Start fails.  Before the repair
// nothing stopped the adapter again, so the next Start failed in its sampling step
// ("StartAdapter: already started") for ever.

import (
	"fmt"
	"testing"
	"time"

	"github.com/usnistgov/dastard/lancero"
)

type flakyLancero struct {
	*lancero.NoHardware
	configureCalls int
	failOnCall     int
}

func (f *flakyLancero) CollectorConfigure(a, b int, c uint32, d int) error {
	f.configureCalls++
	if f.configureCalls == f.failOnCall {
		return fmt.Errorf("transient driver problem (injected)")
	}
	return f.NoHardware.CollectorConfigure(a, b, c, d)
}

func TestVerifLanceroFailedStartRun(t *testing.T) {
	const ncols, nrows, linePeriod = 1, 4, 1000
	source := new(LanceroSource)
	source.readPeriod = time.Millisecond
	source.devices = make(map[int]*LanceroDevice, 1)
	source.buffersChan = make(chan BuffersChanType, 25)
	lan, err := lancero.NewNoHardware(ncols, nrows, linePeriod)
	if err != nil {
		t.Fatal(err)
	}
	// call 1 is in the sampling step, call 2 is in StartRun
	dev := LanceroDevice{card: &flakyLancero{NoHardware: lan, failOnCall: 2}, devnum: 0}
	source.devices[0] = &dev
	source.ncards++
	config := LanceroSourceConfig{CardDelay: []int{0}, ActiveCards: []int{0}, FirstRow: 1}
	if err := source.Configure(&config); err != nil {
		t.Fatal(err)
	}
	dev.nrows = nrows
	dev.lsync = linePeriod
	if err := Start(source, nil, 256, 1024); err == nil {
		source.Stop()
		t.Fatal("Start should fail when the collector refuses its configuration")
	} else {
		t.Logf("first Start: %v", err)
	}
	if source.GetState() != Inactive {
		t.Fatalf("state after failed start is %v, want Inactive", source.GetState())
	}
	if err := Start(source, nil, 256, 1024); err != nil {
		t.Fatalf("Start after the failed one: %v", err)
	}
	time.Sleep(20 * time.Millisecond)
	source.Stop()
}
