package dastard

// Demonstration for C17 (finding F40): copy into the repository root and run
//   go test -race -run TestVerifViperConfigRace .
// The client-updater goroutine stores the latest status in the global viper configuration
// (saveState: viper.Set / viper.WriteConfigAs) while the goroutine serving RPC requests starts
// a source, which reads the saved trigger settings from the same store
// (AnySource.PrepareRun: viper.UnmarshalKey).  viper's store is a plain map without locking.

import (
	"sync"
	"testing"
	"time"
)

func TestVerifViperConfigRace(t *testing.T) {
	stop := make(chan struct{})
	var wg sync.WaitGroup
	wg.Add(1)
	go func() { // what RunClientUpdater does whenever a status message changed, and once a minute
		defer wg.Done()
		for i := 0; ; i++ {
			select {
			case <-stop:
				return
			default:
				saveState(map[string]interface{}{"STATUS": map[string]int{"Nsamples": i}})
				time.Sleep(time.Millisecond)
			}
		}
	}()
	for i := 0; i < 10; i++ { // what SourceControl.Start / Stop do
		ts := NewTriangleSource()
		config := TriangleSourceConfig{Nchan: 2, SampleRate: 100000.0, Min: 100, Max: 200}
		if err := ts.Configure(&config); err != nil {
			t.Fatal(err)
		}
		ts.heartbeats = make(chan Heartbeat, 1000)
		if err := Start(ts, make(chan func()), 256, 1024); err != nil {
			t.Fatal(err)
		}
		time.Sleep(5 * time.Millisecond)
		ts.Stop()
	}
	close(stop)
	wg.Wait()
}
