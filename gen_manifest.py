#!/usr/bin/env python3
"""Regenerates MANIFEST.json from the table below (kept in one place so the
claimed set, the not_applicable list and the texts stay consistent)."""
import json, subprocess, os, sys

HERE = os.path.dirname(os.path.abspath(__file__))

# property -> (technique, level text, level_note, design_ref)
CLAIMED = {
 "C11": ("path-occurrence counting on SSA CFG + call-graph confinement + guard dominance (static)",
         "Structural clauses decided for every path / call site: each request closure replies exactly once; the queueing function pairs one hand-off with one receive; state-writing data-source calls from RPC handlers are confined to request closures (start phase / after run-done barrier excepted); requests run synchronously in the block-processing goroutine; no panic/log.Fatal/os.Exit site reachable from request code; RPC-argument-derived indices/lengths are guarded on both sides before use. Not decided: runtime errors outside the modelled sink kinds, latency.",
         "go/ssa + VTA call graph faithful; net/rpc dispatch modelled as 'exported methods of registered types'; idiom tables in dlint/rules_c11*.go", "DESIGN.md §2 C11"),
 "C07": ("path-occurrence counting, must-pass-through and who-may-receive rules on SSA (static)",
         "Structural mechanism of record-atomic FIFO file writing decided for all schedules and stall patterns: <=1 fallible enqueue per record on every path of every per-record writer; multi-enqueue header writers only on a fresh queue with sufficient capacity; the enqueue is all-or-nothing with correct results per arm and is the only sender; single consumer goroutine, received slices go straight to bufio; drain-until-empty then bufio.Flush then acknowledge; Flush/Close wait for exactly one acknowledge; async writer closed before the file; enqueued bytes never backed by a writer-owned buffer. Not decided: disk write errors in the consumer, what callers do with a rejection.",
         "Go channel FIFO and bufio semantics assumed; anchors found structurally (chan []byte field, go statement in the constructor)", "DESIGN.md §2 C07"),
 "C10": ("typestate / must-pass-through / lockset dataflow on SSA, who-may-close, close-chain rule (static)",
         "Path skeleton of the source life cycle decided for every path and implementation: error exits of the start function reset the state; run-done WaitGroup balanced per exit; core loop defers deactivation at entry and returns on a closed block channel; every mutex released exactly once on all paths; life-cycle state written only under its mutex; nothing blocking under the state mutex; abort closed only through the close-once helper under the mutex, before the barrier wait; run state touched by Stop only after the barrier; abort/next-block channels re-made per start; abort arm of every looping producer closes the chain and every intermediate receiver forwards or closes. Not decided: deadlock freedom over all interleavings, runtime goroutine census, release of OS resources on failed start (R5 not built).",
         "life-cycle constants and the AnySource/SourceState types are name-keyed anchors; VTA resolves the six implementations", "DESIGN.md §2 C10"),
 "C05": ("field read-set vs assigned-set, argument provenance tables at installer call sites, serialisation-layout extraction of append-built records vs layouts parsed from doc/LJH.md and the OFF layout comment, key-set agreement, dominance/control of create-header-record (static)",
         "Structural clauses decided: every header field a writer serialises (directly or via JSON of exported fields) is assigned somewhere; at the three installer call sites each argument is the documented quantity of that same channel and inside the installers each parameter lands in the field of the same meaning; each per-record writer emits one fixed slot sequence (widths, int/float, parameter provenance, variable block last, declared size = parts) equal to the documented layout, with sub-frame count = framecount*divisions+offset, and PublishData passes each record's own fields in the documented units; reader/doc keys are written with identical spelling (one recorded known finding); per writer, creation and header precede the records, the header is guarded by the header-written flag, and every element of the published slice is written in order. Not decided: body = exactly the accepted records end to end, file length, matrix contents, LJH3 (no document) beyond internal consistency.",
         "json.Marshal serialises exactly the exported fields; parameter names of the installers carry their meaning (provenance table keyed by parameter name); doc formats as parsed by the rule's regexps", "DESIGN.md §2 C05"),
 "C06": ("sibling agreement, must-pass-through, loop-dominance and effect-before-rejection rules on SSA (static)",
         "Coupling of reported writing state and per-channel gates decided for every path of the write-control code: installers clear the pause flag; PAUSE/UNPAUSE set every processor then report the same value on every path; reported-inactive is dominated by removal of every handle from every processor; reported-active is dominated by the installing loop whose guards are the flags copied into the reported file types; constructed-error rejections have no prior effect; file writing is dominated by the not-paused and presence tests while publication is not; installers are dominated by a universal has-writer rejection loop; only write-control code writes Active/Paused/pause flag; START writes into a directory found absent and then created. Not decided: directory numbering, histories with I/O failures inside WritingState.Start/Stop.",
         "DataPublisher/WritingState are name-keyed anchors; handles, installers, removers, predicates and the processors field are discovered structurally", "DESIGN.md §2 C06"),
 "C16": ("value-flow of the live-config path into destructive argument positions, dominance, control-dependence and key-set agreement (static)",
         "Structural clauses decided: the live config path is never the old-path of a rename, removed, created/truncated or written directly, only atomically replaced by a rename whose source is the completely written, error-checked temporary file (so every kill point leaves a complete old or new file); in the updater loop remembering a message depends only on it having changed and on constant tags, and the replay arm ranges over the whole cache; every restored key is a published, persisted tag and saveState skips only the no-save list; restore loops do not alias a shared range variable. Not decided: YAML value round trip, fsync durability, SUB delivery.",
         "POSIX rename atomicity / link semantics; RunClientUpdater, publish, nosaveMessages, ClientUpdate are name-keyed anchors", "DESIGN.md §2 C16"),
 "C01": ("polynomial value congruence on SSA (GVN-style normal forms), dominance and value-flow ordering rules (static)",
         "Structural clauses decided for every execution: each DataRecord is a fresh slice filled by one copy from the processor's own stream whose window length equals the record length, with presamples = trigger index - window start, trigger frame = stream first frame + that index, trigger time = TimeOf(that index) and channel identity from the same processor; append/trim keep first-frame and first-time congruent with the retained samples; TimeOf formula; pipeline order and fork-join order of the block fan-out; only DataStream methods write stream bookkeeping. Not decided: sufficiency of retained history (C02), bit-identity over all block partitions, index safety, trigger search arithmetic.",
         "field names rawData/firstFrameIndex/firstTime/framesPerSample/framePeriod and the DataRecord/DataStream types are name-keyed anchors; congruence is modulo commutative-ring axioms with narrowing conversions opaque", "DESIGN.md §2 C01"),
 "C02": ("polynomial value congruence on SSA + must-pass-through (static)",
         "Structural preconditions of sound/complete triggering across block edges decided for every path: the two copies of the record length are congruent after every store that can change either; the history kept on trim is a*nsamp+b (a>=2,b>=0) of that copy; edge/level scan window = [max(LastTrigger-firstFrame+NSamples, NPresamples), len+NPresamples-NSamples), auto scan bounds, one-record dead time after an edge trigger; LastTrigger = last record's frame whenever records exist; reconfiguration resets the edge-multi state; the start path initialises the hold-off reference far in the past. Not decided: trigger criteria on sample values, non-overlap, auto-trigger gap bound.",
         "function and field names of the trigger passes are name-keyed anchors; scan-window formulas are compared as polynomials, so algebraically equivalent rewrites pass while a different window is reported", "DESIGN.md §2 C02"),
 "C08": ("carried-state rule on the edge loop, polynomial congruence of the gap quantities and returned record specifications, must-pass-through of the validity gate, window relation and guard dominance on the trigger index (static)",
         "Structural clauses decided: the edge search state (t, u, v, resume index) is seeded from the state object's fields and written back on every exit, the only re-seed being the guarded reset (block-boundary independence by construction); the gap quantities are min(post,u-t), min(pre,u-t-lastPost), min(post,v-u), the variable-length record is (u,pre',pre'+post'), fixed-length modes return exactly (u,npre,nsamp), the isolated mode only when both gaps reach full length, and the three sentinel states yield no record; reconfigurations end in the validity check whose clauses are the 4-sample margins and the monotone-count bound; last searchable index + look-ahead = len-1, look-ahead = nsamp-npre, first searchable index >= npre, and the trigger index entering a record is proven >= npre. Not decided: equality of record lists over all block partitions, non-overlap as a numeric fact, index safety inside the edge finder beyond the window relation; the history kept between blocks is C02.R2.",
         "EMTState field and function names are name-keyed anchors; a user-defined min/max is recognised by shape", "DESIGN.md §2 C08"),
 "C09": ("counter/set pairing by control dependence, guard dominance (E6), who-may-reset reachability, must-pass-through of the state report, loop-unconditional refresh (static)",
         "Structural clauses decided for every path: the connection counter gating the distribution fast path equals the set size by construction (insert stores true and is paired with an absence-test-controlled increment, delete with a presence-test-controlled decrement, wholesale reset replaces every set and zeroes the counter, no other writers, reset reachable only from the stop-coupling request); both endpoints of an inserted pair proven in range and distinct, every table index proven in range; the reported state is a full transcription of the live table, no cached copy exists, and every request closure that can change the table publishes the recomputed state afterwards on every path; distribution refreshes every processor's primaries unconditionally each cycle, merges exactly the receiver's sources and hands each processor its own list; edit errors reach the reply. Not decided: multiset equality of emitted secondaries per cycle (runtime values).",
         "TriggerBroker and its field names are name-keyed anchors; equal-length invariants are derived (make with the same size value, size field not written in the run phase)", "DESIGN.md §2 C09"),
 "C15": ("nil-guard dominance, guard dominance (E6) with loop-invariant inference and counting-loop parity, layout/table agreement, call-graph reachability of crash sites (static)",
         "Panic-freedom clauses of the packet decoder, accessors, constructors and encoder decided for every byte string / argument as far as visible in the code: every dereference of a header item the decoder may leave unset is dominated by its nil test; every integer divisor is proven non-zero; every slice index, slice bound, make size and fixed-width big-endian read is proven in range (TLV parser: inferred invariant len(remaining)==bytes remaining plus the size guards; shape loop by step parity); the fixed header is written and read as the same fields at the same offsets and widths and every emitted TLV tag is parsed; the decoder reads exactly 16, headerLength-16 and at most payloadLength bytes; no explicit panic is reachable. Two stated weaker clauses: ReadValue's index is proven below Frames() (the relation Frames() <= len(Data) is not decided); ReadPacketPlusPad's stride is an API precondition. Not decided: byte-swap stride arithmetic, round-trip equality of payload values.",
         "encoding/binary fixed-width readers panic exactly on short slices; io.ReadFull semantics; integer arithmetic in guards does not wrap (uint8/uint16 header arithmetic is guarded before use)", "DESIGN.md §2 C15"),
 "C14": ("serialisation-layout extraction (ordered buffer writes with sizes and value provenance) compared with the table parsed from doc/BINARY_FORMATS.md; escape check of the header buffer (static)",
         "Layout clauses decided for every record: each builder's header is exactly the documented (offset, width, int/float) slot sequence (36 and 48 bytes; the table is parsed from the document at run time); every slot carries the plain record field (conversions only), version 0 and the signedness-selected type code; both builders stamp the same time/frame expressions; the message is a two-frame literal of the bytes of a fresh, unshared header buffer and the byte view of the whole sample / coefficient slice; the first two bytes are the channel index; the publisher goroutine sends exactly the builder's result and the two ports use their own builders; byte-view helpers return exactly sizeof(T) / len*sizeof(elem) bytes of their argument. Not decided: end-to-end receipt on a SUB socket.",
         "little-endian host; bytes.Buffer.Write appends and never fails; doc/BINARY_FORMATS.md bullet format `* Byte N (k bytes): ...`", "DESIGN.md §2 C14"),
 "C20": ("typestate / must-pass-through on the stop and start paths, occurrence counting of writes per event, argument provenance, control dependence of the log write, who-may-touch (static)",
         "Structural clauses decided for every path: STOP flushes, closes and clears each open side file, writes the STOP label before closing the state file and clears all three file names unconditionally; START assigns the three names from the new pattern with distinct stems and writes the START label on every path; side files are created only from the current name under a nil test of the handle; an external-trigger block is written at most once as the byte view of the whole list, conditional only on writer-exists and list-non-empty; a block with drops while active appends exactly one line of (first frame, drop count), gated only by the drop count and the activity predicate; every accepted label request has passed exactly one label-line write; only the writing-state methods and the two block handlers touch the handles. Not decided: file contents versus an event log, I/O failure paths.",
         "WritingState handle fields discovered by type (*os.File, *bufio.Writer) and paired by name prefix", "DESIGN.md §2 C20"),
 "C19": ("bit-range abstract interpretation of the packer/accessors, index agreement, structure of the numbering loops, dominance of rejections, overlap-check idioms by polynomial congruence, must-precede of table re-creation (static)",
         "Structural clauses decided: the row/column code packs four 16-bit fields disjointly and each accessor extracts the field of the parameter it is named after; processors get name and number from the identity tables at their own index and are stored at that index; Lancero error/feedback partners share one number, have distinct constant name prefixes, sit at consecutive indices, the number advances once per pair and one group is recorded per column; Abaco name and number come from one value firstchan+row; Lancero rejections precede every table store and both separation checks test every active card (no early loop exit); the Abaco overlap check is one of two recognised idioms covering every channel number, with the sorted-neighbour form compared as a polynomial (off-by-one detected); every appended identity table is re-made on every path before its first append. Not decided: that the separations make numbers collision-free for every geometry.",
         "names of the identity tables and of rcCode/row/col/rows/cols are name-keyed anchors; an overlap check in a third form is reported as undecided", "DESIGN.md §2 C19"),
 "C12": ("carried-state rule on the sample loop (phis, uses of the loop index), value-shape congruence of output and offset stores, control pairing of state updates with their comparisons, dependence slice of the step limits (static)",
         "Structural clauses only (the numeric identities over all 16-bit sequences are not decided): all state carried between samples lives in receiver fields and the sample's position inside the call is used only to address it (call-split independence by construction); each output is the masked, shifted input plus the offset field and every offset store is previous +/- one quantum or the home offset, itself a multiple of the quantum; both paths reduce the input identically; the step is current minus last value, last value refreshed every sample; the offset is lowered under step > upper limit and raised under step < lower limit; the limits are one bias +/- half a quantum and the bias depends only on the configured bias level and bit counts; the away-counter is zeroed at home, incremented away, and the offset returns home when the counter exceeds the interval; the disabled path only zeroes the counter.",
         "PhaseUnwrapper field names are name-keyed anchors", "DESIGN.md §2 C12"),
 "C13": ("dominating-comparison facts, path rule, control dependence and flow-insensitive dependence slicing on SSA (static)",
         "Structural necessary conditions only (the numeric identities are not decided): projectors/basis installed only after the three shape equalities hold; record length never changed while projectors validated for another length stay installed; sample->float64 conversions under the matching arm of the signed flag; each analysis result depends on the record's own data/pre-trigger count (never on the per-channel length setting), model coefficients on the projector matrix, residual on the basis matrix; slices stored into a record are fresh per record.",
         "dependence is over-approximated through memory of locals, make() sites and struct-field storage; field names of DataRecord are name-keyed anchors", "DESIGN.md §2 C13"),
}

NOT_BUILT_REASON = "static rule designed in DESIGN.md but not built yet; not claimed until it is"
NA = {
 "C18": "every clause is pointer/length arithmetic over arbitrary operation histories (modulo and unsigned wrap-around); no clause is visible in the shape of the code and no sound numeric static argument is in reach of the available tooling (DESIGN.md §2 C18)",
}

def main():
    props = [json.loads(l)["id"] for l in open(os.path.join(HERE, "properties.jsonl"))]
    checks = []
    na = []
    for pid in props:
        if pid in CLAIMED:
            tech, text, note, ref = CLAIMED[pid]
            checks.append({
                "property_id": pid,
                "quick_cmd": "./check %s quick" % pid,
                "thorough_cmd": "./check %s thorough" % pid,
                "evidence_file": "evidence/%s.json" % pid,
                "replay_cmd_template": "cat {path}",
                "engine": "dlint",
                "level_claimed": {"category": "other", "text": text, "design_ref": ref},
                "level_note": note,
                "technique": tech,
            })
        else:
            na.append({"property_id": pid, "reason": NA.get(pid, NOT_BUILT_REASON)})
    m = {
        "version": 1,
        "setup_cmd": "cd /verif/dlint && GOFLAGS=-mod=mod GOPROXY=off GOSUMDB=off GOTOOLCHAIN=local GOWORK=off go build -o ../bin/dlint .",
        "hooks": {
            "guard": "verif",
            "enable": "none needed: the checks are static and read /repo's working tree; the thorough tier additionally loads the tree with -tags=verif so any guarded file is analysed too",
            "baseline_off_cmd": "cd /repo && GOFLAGS=-mod=mod GOPROXY=off GOSUMDB=off go test -vet=off -count=1 -timeout 25m ./...",
            "source_commits": [],
            "add_only": True,
        },
        "engines": [{
            "name": "dlint",
            "path": "dlint/",
            "serves_properties": sorted(CLAIMED),
            "kind_free_text": "repository-specific static analyser (go/packages + go/ssa + VTA call graph, x/tools v0.29.0): path-occurrence counting, must-pass-through, dominance, field-effect ownership, guard dominance, polynomial value congruence, serialisation-layout extraction",
        }],
        "checks": checks,
        "not_applicable": na,
        "notes": "All verdicts are computed from /repo's current source without executing it. Genuine defects are in known_findings.txt (known:/fixed: lines). Exit 2 + an UNDECIDED line means the analyser could not decide (anchor drift, type errors); it is never printed on the pinned tree.",
    }
    json.dump(m, open(os.path.join(HERE, "MANIFEST.json"), "w"), indent=1)
    print("claimed:", sorted(CLAIMED), "not_applicable:", [x["property_id"] for x in na])

if __name__ == "__main__":
    main()
