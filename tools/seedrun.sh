#!/bin/sh
# tools/seedrun.sh <patch.diff> <prop> [<prop>...] : apply a seeded change to /repo, run the named checks, undo it.
patch="$1"; shift
cd /repo || exit 9
if ! git diff --quiet; then echo "repo dirty, refusing"; exit 9; fi
if ! git apply --check "$patch" 2>/dev/null; then
  if git apply --3way --check "$patch" 2>/dev/null; then echo "(needs 3way)"; else echo "PATCH DOES NOT APPLY: $patch"; exit 8; fi
fi
git apply "$patch" 2>/dev/null || { echo "PATCH DOES NOT APPLY: $patch"; git checkout -- .; exit 8; }
( export GOFLAGS=-mod=mod GOPROXY=off GOSUMDB=off; go build ./... ) || { echo "BUILD FAILS"; git checkout -- . ; exit 7; }
for p in "$@"; do
  out=$(cd /verif && ./check "$p" quick 2>&1); code=$?
  echo "== $p exit=$code"; echo "$out" | grep -E "^  rule=|VIOLATION|UNDECIDED|KNOWN" | cut -c1-400
done
git checkout -- . && git clean -fdq
# restore the evidence files from the clean tree
for p in "$@"; do (cd /verif && ./check "$p" quick >/dev/null 2>&1); done
