#!/bin/sh
# tools/refactoring_coverage.sh : which functions carry obligations of the rule sets on /repo's
# current tree, and how many of the kept behaviour-preserving refactorings (refactorings/*/patch.diff)
# change a line of each.  Functions that carry obligations but were never restructured are where a
# rule has not yet been confronted with a moved mechanism (DESIGN 7.12); they are the targets of
# the next refactoring sample.  Writes nothing under /verif or /repo.
cd /verif || exit 9
export GOFLAGS=-mod=mod GOPROXY=off GOSUMDB=off GOTOOLCHAIN=local GOWORK=off
./check C01 quick >/dev/null 2>&1
tmp=$(mktemp -d)
for p in $(bin/dlint -list 2>/dev/null); do
  bin/dlint -property $p -dump -verif $tmp 2>/dev/null | grep "^discharged\|^violated\|^undecided" > $tmp/$p.obs &
done
wait
python3 tools/refactoring_coverage.py $tmp "$@"
rm -rf $tmp
