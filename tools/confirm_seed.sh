#!/bin/sh
# tools/confirm_seed.sh <seed-out-dir> <pkg-dir-for-demo> <test-run-regex> [timeout]
# Confirms in a scratch worktree of /repo HEAD: demo passes clean; with patch: builds, suite passes, demo fails.
out="$1"; pkg="$2"; re="$3"; to="${4:-120s}"
# RACE=1 runs the demonstration under the race detector (C17 seeds)
race=""; [ -n "${RACE:-}" ] && race="-race"
export GOFLAGS=-mod=mod GOPROXY=off GOSUMDB=off GOTOOLCHAIN=local
wt=$(mktemp -d /tmp/cs_XXXX); rmdir "$wt"
git -C /repo worktree add -q --detach "$wt" HEAD || exit 9
cd "$wt"
cp "$out"/demo_test.go "$pkg"/zz_demo_test.go 2>/dev/null || cp "$out"/*_test.go "$pkg"/
echo "--- clean tree demo:"; go test $race -vet=off -count=1 -timeout "$to" -run "$re" ./"$pkg" 2>&1 | tail -3
git checkout -q go.mod go.sum 2>/dev/null
if git apply "$out"/patch.diff; then
  echo "--- build:"; go build ./... && echo ok
  [ -n "${NOSUITE:-}" ] || { echo "--- suite with patch:"; go test -vet=off -count=1 -skip 'TestWriteControl|TestWritingFiles|TestDemo|TestC[0-9]+Demo|TestSeed' ./... 2>&1 | grep -v "^ok\|no test files" | tail -5; }
  echo "--- demo with patch:"; go test $race -vet=off -count=1 -timeout "$to" -run "$re" ./"$pkg" 2>&1 | tail -4
else echo "PATCH DOES NOT APPLY"; fi
cd /; git -C /repo worktree remove --force "$wt"
