#!/bin/sh
# tools/combo_one.sh <work> <Cxx> <refactoring-id> <seed-id> : worker of tools/combo.sh
work=$1; p=$2; r=$3; s=$4
export GOFLAGS=-mod=mod GOPROXY=off GOSUMDB=off GOTOOLCHAIN=local GOWORK=off
d=$work/$r.$s
mkdir -p $d
(cd /repo && git ls-files | tar cf - -T -) | tar xf - -C $d
sp=/verif/seeded/$s/patch.diff; [ -f /verif/seeded/$s/patch.adapted.diff ] && sp=/verif/seeded/$s/patch.adapted.diff
if ! (cd $d && patch -p1 -s --no-backup-if-mismatch < /verif/refactorings/$r/patch.diff >/dev/null 2>&1); then echo "COMBO $r $s SKIP(refactoring does not apply)"; rm -rf $d; exit 0; fi
if ! (cd $d && patch -p1 -s -F3 -l --no-backup-if-mismatch < $sp >/dev/null 2>&1); then echo "COMBO $r $s SKIP(seed does not apply on top)"; rm -rf $d; exit 0; fi
find $d -name '*.orig' -o -name '*.rej' | xargs rm -f
if ! (cd $d && go build ./... >/dev/null 2>&1); then echo "COMBO $r $s SKIP(does not build)"; rm -rf $d; exit 0; fi
mkdir -p $work/ev.$r.$s; cp /verif/known_findings.txt $work/ev.$r.$s/
(cd /verif && bin/dlint -repo $d -verif $work/ev.$r.$s -property $p >/dev/null 2>&1); code=$?
case $code in
  1) echo "COMBO $r $s DETECTED";;
  2) echo "COMBO $r $s UNDECIDED";;
  0) echo "COMBO $r $s MISSED";;
  *) echo "COMBO $r $s ERROR($code)";;
esac
rm -rf $d $work/ev.$r.$s
