#!/usr/bin/env python3
"""keep_seed.py <src-dir> <seed-id> <property> <demo-pkg-dir> <demo-run-regex> <detected-by|MISSED> <needs...>"""
import sys, os, shutil, json
src, sid, prop, pkg, rex, det = sys.argv[1:7]
needs = " ".join(sys.argv[7:])
dst = os.path.join("/verif/seeded", sid)
os.makedirs(dst, exist_ok=True)
for f in os.listdir(src):
    shutil.copy(os.path.join(src, f), dst)
meta = {
  "id": sid, "breaks_property": prop,
  "needs_to_manifest": needs,
  "demo": {"file": "demo_test.go", "package_dir": pkg, "run": "go test -vet=off -count=1 -run '%s' ./%s" % (rex, pkg)},
  "confirmed": "tools/confirm_seed.sh: demo passes on clean /repo HEAD; with patch.diff applied the tree builds, the existing suite passes (the two sandbox-failing tests excepted) and the demo fails",
  "ran": ["tools/confirm_seed.sh %s %s %s" % (dst, pkg, rex), "tools/seedrun.sh %s/patch.diff %s" % (dst, prop)],
  "detected_by": det,
  "origin": "independent sub-agent given only the property text and a scratch worktree",
}
json.dump(meta, open(os.path.join(dst, "meta.json"), "w"), indent=1)
print("kept", dst)
