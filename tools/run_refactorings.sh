#!/bin/sh
# tools/run_refactorings.sh [id ...] : overlay every kept behaviour-preserving refactoring
# (refactorings/<id>/patch.diff) on /repo's current files IN MEMORY and run all rule sets on it;
# prints one line per refactoring: SILENT, ALARM (with the reports) or UNAVAILABLE.  /repo is not touched.
cd /verif || exit 9
export GOFLAGS=-mod=mod GOPROXY=off GOSUMDB=off GOTOOLCHAIN=local GOWORK=off
./check C01 quick >/dev/null 2>&1   # make sure bin/dlint is current
ids="$*"
[ -n "$ids" ] || ids=$(ls refactorings)
tmp=$(mktemp -d)
echo $ids | tr ' ' '\n' | xargs -P ${JOBS:-10} -I{} sh -c 'bin/dlint -refactoring refactorings/{}/patch.diff > '"$tmp"'/{}.out 2>&1; echo $? > '"$tmp"'/{}.code'
bad=0
for id in $ids; do
  code=$(cat $tmp/$id.code)
  case $code in
    0) echo "$id SILENT";;
    3) echo "$id UNAVAILABLE $(head -1 $tmp/$id.out)";;
    *) bad=1; echo "$id ALARM"; grep "^ALARM" $tmp/$id.out | cut -c1-330 | head -8;;
  esac
done
rm -rf "$tmp"
exit $bad
