#!/bin/sh
# tools/run_selfcheck.sh [property ...] : positive and negative self-tests of the rules, written
# together with the rules (NOT independent evidence: that is seeded/ and refactorings/).
#   selfcheck/<Cxx>/mutants/<name>.diff   a small mutation of /repo that breaks one clause; the rule
#                                         set must report it with a `violated` line - and, when <name>
#                                         starts with a rule id (C10.R3a-1.diff), with that rule
#   selfcheck/<Cxx>/variants/<name>.diff  an equivalent rewrite: must be silent
# Files named *-miss-* are recorded blind spots and only listed.  Nothing is written to /repo.
cd /verif || exit 9
export GOFLAGS=-mod=mod GOPROXY=off GOSUMDB=off GOTOOLCHAIN=local GOWORK=off
./check C01 quick >/dev/null 2>&1
props="$*"; [ -n "$props" ] || props=$(ls selfcheck)
bad=0
for p in $props; do
  for m in selfcheck/$p/mutants/*.diff; do
    [ -f "$m" ] || continue
    n=$(basename $m .diff)
    rule=$(echo "$n" | sed -n 's/^\(C[0-9][0-9]\.R[0-9a-z]*\)-.*/\1/p')
    out=$(bin/dlint -refactoring $m -property $p 2>&1)
    case "$n" in *-miss-*) echo "$p $n RECORDED-BLIND-SPOT"; continue;; esac
    if [ -n "$rule" ]; then pat="^ALARM $p violated key=\"$rule|"; else pat="^ALARM $p violated"; fi
    if echo "$out" | grep -q "$pat"; then echo "$p $n REPORTED"; else echo "$p $n MISSED"; bad=1; fi
  done
  for m in selfcheck/$p/variants/*.diff; do
    [ -f "$m" ] || continue
    out=$(bin/dlint -refactoring $m -property $p 2>&1)
    if echo "$out" | grep -q "^SILENT"; then echo "$p $(basename $m .diff) SILENT"; else echo "$p $(basename $m .diff) ALARM: $(echo "$out" | head -1 | cut -c1-200)"; bad=1; fi
  done
done
exit $bad
