#!/bin/sh
# tools/run_seeds_mem.sh : fast regression over every kept seed without touching /repo: the patch is
# overlaid in memory (dlint -refactoring) and the rule sets named in meta.json detected_by must report.
# Prints DETECTED / MISSED / RECORDED-MISSED / UNAVAILABLE per seed; exit 1 if a seed recorded as detected is missed.
cd /verif || exit 9
export GOFLAGS=-mod=mod GOPROXY=off GOSUMDB=off GOTOOLCHAIN=local GOWORK=off
./check C01 quick >/dev/null 2>&1
tmp=$(mktemp -d)
for d in seeded/*/; do
  id=$(basename "$d")
  python3 - "$d" > $tmp/$id.props <<'PY'
import json,re,sys
m=json.load(open(sys.argv[1]+'/meta.json'))
s=str(m.get('detected_by',''))
if s.startswith('MISSED'):
    print('MISSED')
else:
    print(' '.join(sorted(set(re.findall(r'(C\d\d)\.R', s)))))
PY
done
ls seeded | xargs -P ${JOBS:-10} -I{} sh -c '
  props=$(cat '"$tmp"'/{}.props)
  patch=seeded/{}/patch.diff; [ -f seeded/{}/patch.adapted.diff ] && patch=seeded/{}/patch.adapted.diff
  if [ "$props" = "MISSED" ]; then echo RECORDED-MISSED > '"$tmp"'/{}.res; exit 0; fi
  res=DETECTED
  for p in $props; do
    out=$(bin/dlint -refactoring $patch -property $p 2>&1); code=$?
    if [ $code -eq 3 ]; then res=UNAVAILABLE; break; fi
    if [ $code -ne 1 ]; then res="MISSED($p)"; elif ! echo "$out" | grep -q "^ALARM $p violated"; then res="UNDECIDED-ONLY($p)"; fi
  done
  echo $res > '"$tmp"'/{}.res'
bad=0
for id in $(ls seeded); do
  r=$(cat $tmp/$id.res)
  echo "$id $r"
  case "$r" in MISSED*|UNDECIDED-ONLY*) bad=1;; esac
done
rm -rf "$tmp"
exit $bad
