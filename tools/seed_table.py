#!/usr/bin/env python3
"""Regenerates the seed table in DESIGN.md (between the SEED-TABLE markers) from seeded/*/meta.json."""
import json, glob, re
rows = ["| seed | files | needs to manifest | reported by |", "|------|-------|-------------------|-------------|"]
for d in sorted(glob.glob('/verif/seeded/*/')):
    m = json.load(open(d + 'meta.json'))
    patch = open(d + 'patch.diff').read()
    files = sorted(set(l[6:] for l in patch.split('\n') if l.startswith('+++ b/')))
    det = str(m.get('detected_by')).replace('|', '/')
    rows.append('| %s | %s | %s | %s |' % (m['id'], ', '.join(files), str(m.get('needs_to_manifest', '')).replace('|', '/'), det))
p = '/verif/DESIGN.md'
s = open(p).read()
a, b = '<!-- SEED-TABLE-BEGIN -->', '<!-- SEED-TABLE-END -->'
s = s[:s.index(a) + len(a)] + '\n' + '\n'.join(rows) + '\n' + s[s.index(b):]
open(p, 'w').write(s)
print(len(rows) - 2, "seeds")
