import re,glob,os,collections,json,sys
# function extents
funcs={}  # file -> list of (start,end,name)
for root,ds,fs in os.walk('/repo'):
    if '/.git' in root: continue
    for f in fs:
        if not f.endswith('.go') or f.endswith('_test.go'): continue
        path=os.path.join(root,f); rel=os.path.relpath(path,'/repo')
        lines=open(path).read().split('\n')
        cur=None; out=[]
        for i,l in enumerate(lines,1):
            m=re.match(r'func (\([^)]*\) )?(\w+)',l)
            if m and cur is None:
                recv=m.group(1) or ''
                rt=re.search(r'\*?(\w+)\)',recv)
                name=(rt.group(1)+'.' if rt else '')+m.group(2)
                cur=(i,name)
                if l.rstrip().endswith('}') and l.count('{')==l.count('}'): out.append((i,i,name)); cur=None
            elif l.startswith('}') and cur:
                out.append((cur[0],i,cur[1])); cur=None
        funcs[rel]=out
def fn_at(rel,line):
    for s,e,n in funcs.get(rel,[]):
        if s<=line<=e: return n
    return None
# touched functions by refactorings (old-side line ranges)
touched=collections.Counter()
for d in glob.glob('/verif/refactorings/*/patch.diff'):
    cur=None; seen=set()
    for l in open(d):
        if l.startswith('--- a/'): cur=l[6:].strip()
        m=re.match(r'@@ -(\d+)(?:,(\d+))? \+',l)
        if m and cur:
            s=int(m.group(1)); n=int(m.group(2) or 1)
            # exact changed old lines: walk hunk
            pass
    # precise: walk hunks
    cur=None; oldline=0
    for l in open(d):
        if l.startswith('--- a/'): cur=l[6:].strip(); continue
        if l.startswith('+++ '): continue
        m=re.match(r'@@ -(\d+)(?:,(\d+))? \+',l)
        if m: oldline=int(m.group(1)); continue
        if cur is None: continue
        if l.startswith('-'):
            fn=fn_at(cur,oldline)
            if fn: seen.add((cur,fn))
            oldline+=1
        elif l.startswith('+'):
            fn=fn_at(cur,oldline)
            if fn: seen.add((cur,fn))
        else:
            oldline+=1
    for k in seen: touched[k]+=1
# obligations per function
obfn=collections.defaultdict(lambda: collections.Counter())
for f in glob.glob(sys.argv[1]+'/C*.obs'):
    prop=os.path.basename(f)[:3]
    for l in open(f):
        m=re.search(r'^\w+\s+(C\d\d\.\w+)\|.*?@(\S+?):(\d+)',l)
        if not m: continue
        rule,rel,line=m.group(1),m.group(2),int(m.group(3))
        fn=fn_at(rel,line)
        if fn: obfn[(rel,fn)][rule]+=1
rows=[]
for k,rules in obfn.items():
    rows.append((touched.get(k,0),k,rules))
rows.sort(key=lambda x:(x[0],x[1]))
un=[r for r in rows if r[0]==0]
print("functions with obligations:",len(rows)," never touched by a refactoring:",len(un))
for t,k,rules in rows:
    if t<=1:
        print(t,k[0],k[1],dict(rules))
