#!/bin/sh
# tools/run_all_seeds.sh : regression over every kept seed: apply patch.diff to /repo's working tree,
# run the check of the property it breaks (plus any check named in detected_by), undo, and report
# DETECTED / MISSED / NOAPPLY per seed.  Never commits anything in /repo.
cd /verif || exit 9
for d in seeded/*/; do
  id=$(basename "$d")
  [ -f "$d/patch.diff" ] || continue
  prop=$(python3 -c "import json,sys;print(json.load(open('$d/meta.json'))['breaks_property'])")
  extra=$(python3 -c "
import json,re
m=json.load(open('$d/meta.json'))
s=str(m.get('detected_by',''))
ps=sorted(set(re.findall(r'C\d\d', s))-{m['breaks_property']})
print(' '.join(ps))")
  patch="$d/patch.diff"
  [ -f "$d/patch.adapted.diff" ] && patch="$d/patch.adapted.diff"
  out=$(tools/seedrun.sh "/verif/$patch" $prop $extra 2>&1)
  if echo "$out" | grep -q "DOES NOT APPLY"; then echo "$id NOAPPLY"; continue; fi
  if echo "$out" | grep -q "BUILD FAILS"; then echo "$id BUILDFAIL"; continue; fi
  if echo "$out" | grep -q "^VIOLATION"; then
     echo "$id DETECTED $(echo "$out" | grep -o 'rule=[A-Z0-9.a-z]*' | sort -u | tr '\n' ' ')"
  else
     echo "$id MISSED $(echo "$out" | grep -E 'exit=' | tr '\n' ' ')"
  fi
done
