#!/usr/bin/env python3
"""Regenerates the status table in DESIGN.md (between the STATUS-TABLE markers) from evidence/*.json
(run the thorough tier first so that the canary counts are present)."""
import json, glob, re
rows = ["| id | rules with obligations | obligations (known findings) | seed canaries fired / required |", "|----|------------------------|------------------------------|-------------------------------|"]
for f in sorted(glob.glob('/verif/evidence/C*.json')):
    e = json.load(open(f)); c = e['coverage']
    rules = sorted(set(re.match(r'(C\d\d\.R\w+)', r).group(1) for r in c['rules'] if re.match(r'(C\d\d\.R\w+)', r)))
    short = ', '.join(r.split('.')[1] for r in rules)
    rows.append('| %s | %s | %d (%d) | %s / %s |' % (e['property_id'], short, c['obligations'], c.get('violated_known', 0), c.get('canaries_fired', '-'), c.get('canaries_total', '-')))
p = '/verif/DESIGN.md'
s = open(p).read()
a, b = '<!-- STATUS-TABLE-BEGIN -->', '<!-- STATUS-TABLE-END -->'
s = s[:s.index(a) + len(a)] + '\n' + '\n'.join(rows) + '\n' + s[s.index(b):]
open(p, 'w').write(s)
print('\n'.join(rows))
