#!/bin/sh
# tools/refrun.sh <patch.diff> : apply a behaviour-preserving change to /repo's working tree, run EVERY
# check (quick) and report those that do not exit 0 (false alarms / undecided), then undo it.
patch="$1"
cd /repo || exit 9
if ! git diff --quiet; then echo "repo dirty, refusing"; exit 9; fi
git apply "$patch" 2>/dev/null || { echo "PATCH DOES NOT APPLY: $patch"; exit 8; }
( export GOFLAGS=-mod=mod GOPROXY=off GOSUMDB=off; go build ./... ) || { echo "BUILD FAILS"; git checkout -- . ; exit 7; }
cd /verif
props="C01 C02 C03 C04 C05 C06 C07 C08 C09 C10 C11 C12 C13 C14 C15 C16 C17 C19 C20"
tmp=$(mktemp -d)
echo $props | tr ' ' '\n' | xargs -P 6 -I{} sh -c './check {} quick > '"$tmp"'/{}.out 2>&1; echo $? > '"$tmp"'/{}.code'
bad=0
for p in $props; do
  code=$(cat $tmp/$p.code)
  if [ "$code" != "0" ]; then
    bad=1
    echo "== $p exit=$code"
    grep -E "^  rule=|^UNDECIDED" $tmp/$p.out | cut -c1-420 | head -6
  fi
done
[ $bad -eq 0 ] && echo "ALL CLEAN"
rm -rf "$tmp"
cd /repo && git checkout -- . && git clean -fdq
