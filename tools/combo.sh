#!/bin/sh
# tools/combo.sh [Cxx ...] : does a breaking change still get reported when the code has first been
# refactored?  For every pair (refactoring R, kept seed S) of the same property: copy /repo's files to a
# scratch directory outside /repo and /verif, apply R exactly, apply S with fuzz (its lines may have moved
# into a helper), build, and run the property's rule set on the copy (dlint -repo).  Pairs where S no longer
# applies or the result does not build are skipped.  Prints COMBO <R> <S> DETECTED|MISSED|SKIP.
cd /verif || exit 9
export GOFLAGS=-mod=mod GOPROXY=off GOSUMDB=off GOTOOLCHAIN=local GOWORK=off
./check C01 quick >/dev/null 2>&1
props="$*"
[ -n "$props" ] || props="C01 C02 C03 C04 C05 C06 C07 C08 C09 C10 C11 C12 C13 C14 C15 C16 C17 C19 C20"
work=$(mktemp -d /tmp/combo.XXXXXX)
pairs=$work/pairs
: > $pairs
for p in $props; do
  for r in refactorings/$p-*; do
    [ -f $r/patch.diff ] || continue
    for s in seeded/$p-*; do
      [ -f $s/meta.json ] || continue
      grep -q "\"detected_by\": \"MISSED" $s/meta.json && continue
      grep -q "$p\.R" $s/meta.json || continue
      echo "$p $(basename $r) $(basename $s)" >> $pairs
    done
  done
done
cat $pairs | xargs -P ${JOBS:-8} -L1 tools/combo_one.sh $work
rm -rf $work
