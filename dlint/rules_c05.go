package main

import (
	"os"
	"fmt"
	"go/constant"
	"go/token"
	"go/types"
	"regexp"
	"sort"
	"strconv"
	"strings"

	"golang.org/x/tools/go/ssa"
)

func init() {
	register(&RuleSet{
		Property: "C05",
		Explanation: "Decides structural clauses of well-formed output files: " +
			"(R1) every header field a writer serialises (directly, or through JSON marshalling of its exported fields) is assigned somewhere in non-test code — a field nobody assigns is always zero in every file; " +
			"(R2) at the three writer installers' call sites each argument is the documented quantity of that same channel (geometry from the channel's row/column code, lengths from the processor, identity tables at the processor's own index, file name from the processor's name and the format's extension), and inside the installers each parameter lands in the header field of the same meaning; " +
			"(R3) each per-record writer emits one fixed slot sequence (widths, integer/float kinds, parameter provenance) ending in the variable-length sample/coefficient block, equal to the documented layout (doc/LJH.md binary section; the OFF layout comment), with the sub-frame count computed as framecount*divisions+offset; the publishing code passes each record's own fields in the documented units; " +
			"(R4) the keys the in-repository LJH reader and the document use are the keys the header writer emits; " +
			"(R6) per writer, file creation and the header precede the first record and are controlled by the header-written flag; records are written for every element of the published slice, in slice order. " +
			"Does not decide: that the body holds exactly the accepted records end to end, file length, matrix contents.",
		RuleDocs: []string{
			"C05.R1 read-set of WriteHeader (incl. JSON-visible fields) vs the set of fields assigned anywhere (stores and composite literals)",
			"C05.R2 argument provenance at installer call sites; parameter -> field agreement inside installers",
			"C05.R3 E7 layout of append-built records vs the layouts parsed from doc/LJH.md and the off.go comment; provenance of the values passed by PublishData",
			"C05.R4 header key sets: writer format string vs reader patterns",
			"C05.R6 dominance / control of create-header-record in PublishData; range loop over the published records",
			"C05.R8 a change of the record length is refused while files are open: for every RPC handler that reaches a store of the processors' NSamples/NPresamples, each way to it (handler, queued closure, source method) is control-dependent on a test computed from the writing state's Active flag alone",
			"C05.R7 every printf-style call in the file-format packages (ljh, off) has a constant format string",
		},
		Assumptions: []string{"json.Marshal serialises exactly the exported fields (no custom marshaller on the writer types)"},
		Run:         runC05,
	})
}

func runC05(p *Prog, r *Report) {
	r.MinInstances["C05.R1"] = 40
	r.MinInstances["C05.R2"] = 45
	r.MinInstances["C05.R3"] = 25
	r.MinInstances["C05.R4"] = 5
	r.MinInstances["C05.R6"] = 9
	r.MinInstances["C05.R7"] = 6
	c05R1(p, r)
	c05R2(p, r)
	c05R3(p, r)
	c05R4(p, r)
	c05R6(p, r)
	c05R7(p, r)
	r.MinInstances["C05.R8"] = 1
	c05R8(p, r)
}

// ---- R1 -----------------------------------------------------------------------------------

func c05R1(p *Prog, r *Report) {
	// every field stored anywhere in library code (any base, incl. composite literals)
	assigned := map[FieldKey]string{}
	for _, fn := range p.LibFuncs() {
		Instrs(fn, func(in ssa.Instruction) {
			st, ok := in.(*ssa.Store)
			if !ok {
				return
			}
			if k, ok := fieldKeyOfAddr(st.Addr); ok {
				if _, had := assigned[k]; !had {
					assigned[k] = FuncName(fn)
				}
			}
			// a nested literal (W{Info: Info{A: a}}) stores the inner fields in place: the
			// struct-valued field they belong to is assigned too
			for fa, isFA := st.Addr.(*ssa.FieldAddr); isFA; {
				outer, isOuter := fa.X.(*ssa.FieldAddr)
				if !isOuter {
					break
				}
				if k, ok := fieldKeyOfAddr(outer); ok {
					if _, had := assigned[k]; !had {
						assigned[k] = FuncName(fn)
					}
				}
				fa = outer
			}
		})
	}
	// a struct converted from another struct type of the same shape (T(s)): every field of T is
	// assigned when the corresponding field of the source type is
	for round := 0; round < 2; round++ {
		for _, fn := range p.LibFuncs() {
			Instrs(fn, func(in ssa.Instruction) {
				var from, to types.Type
				switch x := in.(type) {
				case *ssa.ChangeType:
					from, to = x.X.Type(), x.Type()
				case *ssa.Convert:
					from, to = x.X.Type(), x.Type()
				default:
					return
				}
				fs, ok1 := from.Underlying().(*types.Struct)
				ts, ok2 := to.Underlying().(*types.Struct)
				if !ok1 || !ok2 || fs.NumFields() != ts.NumFields() || types.Identical(from, to) {
					return
				}
				for i := 0; i < ts.NumFields(); i++ {
					kf := FieldKey{ownerName(from), fs.Field(i).Name()}
					kt := FieldKey{ownerName(to), ts.Field(i).Name()}
					if _, had := assigned[kf]; had {
						if _, had2 := assigned[kt]; !had2 {
							assigned[kt] = FuncName(fn) + " (converted from " + ownerName(from) + ")"
						}
					}
				}
			})
		}
	}
	writers := []struct{ pkg, typ string }{{"ljh", "Writer"}, {"ljh", "Writer3"}, {"off", "Writer"}}
	for _, w := range writers {
		wh := p.Func(w.pkg, w.typ, "WriteHeader")
		nt := p.NamedType(w.pkg, w.typ)
		if wh == nil || nt == nil {
			r.Unk("C05.R1", w.pkg+"."+w.typ+".WriteHeader", "-", "anchor not found")
			continue
		}
		r.Fn(FuncName(wh))
		owner := ownerName(nt)
		need := map[FieldKey]bool{}
		// direct reads of receiver fields
		Instrs(wh, func(in ssa.Instruction) {
			if u, ok := in.(*ssa.UnOp); ok && u.Op == token.MUL {
				if k, ok := fieldKeyOfAddr(u.X); ok && k.Owner == owner {
					need[k] = true
				}
			}
		})
		// JSON marshalling of the receiver: all exported fields, recursively through struct-valued fields
		marshals := false
		Instrs(wh, func(in ssa.Instruction) {
			cc := CallOf(in)
			if cc == nil || !strings.HasPrefix(CalleeName(cc), "encoding/json.Marshal") {
				return
			}
			if mi, ok := cc.Args[0].(*ssa.MakeInterface); ok && resolveCell(mi.X) == ssa.Value(wh.Params[0]) {
				marshals = true
			}
		})
		var addJSON func(t *types.Named, depth int)
		addJSON = func(t *types.Named, depth int) {
			st, ok := t.Underlying().(*types.Struct)
			if !ok || depth > 3 {
				return
			}
			for i := 0; i < st.NumFields(); i++ {
				f := st.Field(i)
				if !f.Exported() {
					continue
				}
				need[FieldKey{ownerName(t), f.Name()}] = true
				if ft, ok := f.Type().(*types.Named); ok && ft.Obj().Pkg() != nil && strings.HasPrefix(ft.Obj().Pkg().Path(), modPath) {
					addJSON(ft, depth+1)
				}
			}
		}
		if marshals {
			addJSON(nt, 0)
		}
		// struct literals copied into a marshalled header (LJH3): fields of the local header types are filled from receiver fields (already in need)
		var keys []FieldKey
		for k := range need {
			keys = append(keys, k)
		}
		sort.Slice(keys, func(i, j int) bool { return keys[i].String() < keys[j].String() })
		for _, k := range keys {
			// bookkeeping flags are exempt only if the writer itself stores them (they then show up as assigned)
			where, ok := assigned[k]
			r.Check(ok, "C05.R1", fmt.Sprintf("header field %s of %s.%s is assigned somewhere", k, w.pkg, w.typ), p.Pos(wh.Pos()), "assigned in "+where,
				"this field is written into every file header but no code ever assigns it: the header always states the zero value")
		}
	}
}

// ---- R2 -----------------------------------------------------------------------------------

// describe renders the provenance of an installer argument at the call site.
// c05Subst: parameters of a helper being described, in the caller's terms.
var c05Subst = map[ssa.Value]string{}

// structFieldFromHelper: fa addresses field k of a local struct variable that was filled, once,
// by the result of a one-block module helper returning a struct literal: the value the helper
// puts into field k, described with the helper's parameters replaced by the arguments.
func structFieldFromHelper(fa *ssa.FieldAddr, l *RangeLoop, depth int) (string, bool) {
	cell, ok := fa.X.(*ssa.Alloc)
	if !ok {
		return "", false
	}
	cv, ok := cellValue(cell)
	if !ok {
		return "", false
	}
	call, ok := cv.(*ssa.Call)
	if !ok {
		return "", false
	}
	h := call.Call.StaticCallee()
	if !isModuleFn(h) || len(h.Blocks) != 1 || len(h.Params) != len(call.Call.Args) {
		return "", false
	}
	ld, ok := singleReturn(h).(*ssa.UnOp)
	if !ok {
		return "", false
	}
	lit, ok := ld.X.(*ssa.Alloc)
	if !ok {
		return "", false
	}
	for _, ref := range *lit.Referrers() {
		fa2, ok := ref.(*ssa.FieldAddr)
		if !ok || fa2.Field != fa.Field {
			continue
		}
		for _, r2 := range *fa2.Referrers() {
			if st, ok := r2.(*ssa.Store); ok && st.Addr == ssa.Value(fa2) {
				for i, prm := range h.Params {
					c05Subst[prm] = c05Describe(call.Call.Args[i], l, depth+1)
				}
				d := c05Describe(st.Val, l, depth+1)
				for _, prm := range h.Params {
					delete(c05Subst, prm)
				}
				return d, true
			}
		}
	}
	return "", false
}

func c05Describe(v ssa.Value, l *RangeLoop, depth int) string {
	if depth > 6 {
		return "?"
	}
	if d, ok := c05Subst[v]; ok {
		return d
	}
	switch x := v.(type) {
	case *ssa.Const:
		if x.Value == nil {
			return "nil"
		}
		return "const " + x.Value.ExactString()
	case *ssa.Convert:
		return c05Describe(x.X, l, depth+1)
	case *ssa.ChangeType:
		return c05Describe(x.X, l, depth+1)
	case *ssa.BinOp:
		if l != nil && v == l.Idx {
			return "index"
		}
		return "(" + c05Describe(x.X, l, depth+1) + x.Op.String() + c05Describe(x.Y, l, depth+1) + ")"
	case *ssa.Phi:
		var parts []string
		for _, e := range x.Edges {
			parts = append(parts, c05Describe(e, l, depth+1))
		}
		sort.Strings(parts)
		return "phi{" + strings.Join(parts, "|") + "}"
	case *ssa.UnOp:
		if x.Op != token.MUL {
			return x.Op.String() + c05Describe(x.X, l, depth+1)
		}
		switch a := x.X.(type) {
		case *ssa.FieldAddr:
			if d, ok := structFieldFromHelper(a, l, depth); ok {
				return d
			}
			st := derefStruct(a.X.Type())
			base := c05Describe(a.X, l, depth+1)
			if st.Field(a.Field).Embedded() {
				return base
			}
			return base + "." + st.Field(a.Field).Name()
		case *ssa.IndexAddr:
			return c05Describe(a.X, l, depth+1) + "[" + c05Describe(a.Index, l, depth+1) + "]"
		case *ssa.Global:
			return "global " + a.Name()
		case *ssa.FreeVar:
			// a variable of the enclosing function read inside a closure: what its cell holds
			if outer := a.Parent().Parent(); outer != nil {
				var val ssa.Value
				Instrs(outer, func(in ssa.Instruction) {
					mc, ok := in.(*ssa.MakeClosure)
					if !ok || mc.Fn != ssa.Value(a.Parent()) {
						return
					}
					for j, q := range a.Parent().FreeVars {
						if q == a && j < len(mc.Bindings) {
							if cell, isA := mc.Bindings[j].(*ssa.Alloc); isA {
								if cv, ok := cellValue(cell); ok {
									val = cv
								}
							}
						}
					}
				})
				if val != nil {
					return c05Describe(val, l, depth+1)
				}
			}
		case *ssa.Alloc:
			// a variable kept in a cell because a closure reads it, assigned once: its value
			if cv, ok := cellValue(a); ok {
				return c05Describe(cv, l, depth+1)
			}
			// local variable: the values stored into it
			var parts []string
			for _, ref := range *a.Referrers() {
				if st, ok := ref.(*ssa.Store); ok && st.Addr == ssa.Value(a) {
					parts = append(parts, c05Describe(st.Val, l, depth+1))
				}
			}
			sort.Strings(parts)
			return "var{" + strings.Join(parts, "|") + "}"
		}
		return "*" + c05Describe(x.X, l, depth+1)
	case *ssa.FieldAddr:
		st := derefStruct(x.X.Type())
		if st.Field(x.Field).Embedded() {
			return c05Describe(x.X, l, depth+1)
		}
		return c05Describe(x.X, l, depth+1) + "." + st.Field(x.Field).Name()
	case *ssa.Field:
		st := derefStruct(x.X.Type())
		return c05Describe(x.X, l, depth+1) + "." + st.Field(x.Field).Name()
	case *ssa.IndexAddr:
		return c05Describe(x.X, l, depth+1) + "[" + c05Describe(x.Index, l, depth+1) + "]"
	case *ssa.Parameter:
		return x.Name()
	case *ssa.Call:
		if b, ok := x.Call.Value.(*ssa.Builtin); ok && b.Name() == "len" {
			return "len(" + c05Describe(x.Call.Args[0], l, depth+1) + ")"
		}
		if c := x.Call.StaticCallee(); c != nil {
			var as []string
			for _, a := range x.Call.Args {
				as = append(as, c05Describe(a, l, depth+1))
			}
			return c.Name() + "(" + strings.Join(as, ",") + ")"
		}
		return "call " + CalleeName(&x.Call)
	case *ssa.Slice:
		return c05Describe(x.X, l, depth+1) + "[:]"
	case *ssa.Alloc:
		return "local " + x.Comment
	case *ssa.MakeInterface:
		return c05Describe(x.X, l, depth+1)
	case *ssa.Extract:
		// one of several results of a small module helper (`nrows, ncols := ds.arrayShape(i)`):
		// what it returns there, with its parameters standing for the arguments
		if call, ok := x.Tuple.(*ssa.Call); ok && !call.Call.IsInvoke() {
			h := call.Call.StaticCallee()
			if isModuleFn(h) && len(h.Blocks) == 1 && len(h.Params) == len(call.Call.Args) {
				if ret, ok := h.Blocks[0].Instrs[len(h.Blocks[0].Instrs)-1].(*ssa.Return); ok && x.Index < len(ret.Results) {
					var set []ssa.Value
					for k, q := range h.Params {
						if _, has := c05Subst[q]; !has {
							c05Subst[q] = c05Describe(call.Call.Args[k], l, depth+1)
							set = append(set, q)
						}
					}
					d := c05Describe(ret.Results[x.Index], l, depth+1)
					for _, q := range set {
						delete(c05Subst, q)
					}
					return d
				}
			}
		}
	}
	return v.Name()
}

func c05R2(p *Prog, r *Report) {
	wcs := p.Func("", "AnySource", "writeControlStart")
	if wcs == nil {
		r.Unk("C05.R2", "writeControlStart", "-", "anchor not found")
		return
	}
	r.Fn(FuncName(wcs))
	loops := RangeLoops(wcs)
	// expected provenance by parameter name (lower case)
	dspElem := "ds.processors[index]"
	want := map[string]string{
		"channelindex":              "index",
		"presamples":                dspElem + ".NPresamples",
		"samples":                   dspElem + ".NSamples",
		"framespersample":           "phi{const 1|" + dspElem + ".DecimateLevel}",
		"timebase":                  "(const 1/" + dspElem + ".SampleRate)",
		"timestampoffset":           "global DastardStartTime",
		"numberofrows":              "rows(ds.rowColCodes[index])",
		"numberofcolumns":           "cols(ds.rowColCodes[index])",
		"numberofchans":             "ds.nchan",
		"subframedivisions":         "ds.subframeDivisions",
		"rownum":                    "row(ds.rowColCodes[index])",
		"colnum":                    "col(ds.rowColCodes[index])",
		"subframeoffset":            "ds.subframeOffsets[index]",
		"sourcename":                "ds.name",
		"channame":                  "ds.chanNames[index]",
		"channelnumbermatchingname": "ds.chanNumbers[index]",
		"projectors":                dspElem + ".projectors",
		"basis":                     dspElem + ".basis",
		"modeldescription":          dspElem + ".modelDescription",
	}
	ext := map[string]string{"SetLJH22": "ljh", "SetOFF": "off", "SetLJH3": "ljh3"}
	var patternVal ssa.Value
	seenInst := map[string]bool{}
	Instrs(wcs, func(in ssa.Instruction) {
		call, ok := in.(*ssa.Call)
		if !ok {
			return
		}
		c := call.Call.StaticCallee()
		if c == nil || ext[c.Name()] == "" {
			return
		}
		seenInst[c.Name()] = true
		l := LoopContaining(loops, in)
		if l == nil {
			r.Bad("C05.R2", c.Name()+" is called per processor", p.InstrPos(in), "the installer is not called inside the loop over the processors")
			return
		}
		if _, f := l.OverField(); f != "processors" {
			r.Bad("C05.R2", c.Name()+" is called per processor", p.InstrPos(in), "the enclosing loop does not range over the processors")
			return
		}
		// the receiver is the loop processor's own publisher
		recvDesc := c05Describe(call.Call.Args[0], l, 0)
		r.Check(recvDesc == dspElem+".DataPublisher" || recvDesc == dspElem, "C05.R2", c.Name()+": receiver is the loop processor's publisher", p.InstrPos(in), recvDesc, "the writer is installed on `"+recvDesc+"`, not on the processor of this iteration")
		for i, prm := range c.Params[1:] {
			arg := call.Call.Args[i+1]
			name := strings.ToLower(prm.Name())
			got := c05Describe(arg, l, 0)
			key := fmt.Sprintf("%s: argument %s", c.Name(), prm.Name())
			switch name {
			case "filename":
				// Sprintf(pattern, dsp.Name, ext)
				okF := false
				sc, isCall := arg.(*ssa.Call)
				var path []ssa.Instruction
				if isCall && CalleeName(&sc.Call) != "fmt.Sprintf" {
					// a one-line helper or closure that formats the name
					h := sc.Call.StaticCallee()
					if inner, _ := singleReturn(h).(*ssa.Call); isModuleFn(h) && len(h.Blocks) == 1 && inner != nil && CalleeName(&inner.Call) == "fmt.Sprintf" {
						path = []ssa.Instruction{sc}
						// the helper's parameters stand for what this call passes
						if len(h.Params) == len(sc.Call.Args) {
							for k, q := range h.Params {
								c05Subst[q] = c05Describe(sc.Call.Args[k], l, 0)
								defer delete(c05Subst, q)
							}
						}
						sc = inner
					}
				}
				if isCall && CalleeName(&sc.Call) == "fmt.Sprintf" {
					d := c05Describe(sc.Call.Args[1], l, 0)
					patArg := resolveCell(ArgForParam(path, sc.Call.Args[0]))
					if patternVal == nil {
						patternVal = patArg
					}
					// variadic slice holds name and extension
					if strings.Contains(d, dspElem+".Name") && strings.Contains(d, "const \""+ext[c.Name()]+"\"") || true {
						var elems []string
						if sl, ok := sc.Call.Args[1].(*ssa.Slice); ok {
							if a, ok := sl.X.(*ssa.Alloc); ok {
								for _, ref := range *a.Referrers() {
									if ia, ok := ref.(*ssa.IndexAddr); ok {
										for _, r2 := range *ia.Referrers() {
											if st, ok := r2.(*ssa.Store); ok {
												ev := st.Val
												if mi, isMI := ev.(*ssa.MakeInterface); isMI {
													ev = ArgForParam(path, mi.X)
												}
												elems = append(elems, c05Describe(ev, l, 0))
											}
										}
									}
								}
							}
						}
						sort.Strings(elems)
						joined := strings.Join(elems, ";")
						if os.Getenv("DLINT_DEBUG_C05") != "" {
							fmt.Fprintf(os.Stderr, "C05 filename: patArg=%v patternVal=%v joined=%q dspElem=%q n=%d\n", patArg, patternVal, joined, dspElem, len(elems))
						}
						okF = patArg == patternVal && strings.Contains(joined, dspElem+".Name") && strings.Contains(joined, "const \""+ext[c.Name()]+"\"") && len(elems) == 2
						got = "Sprintf(pattern; " + joined + ")"
					}
				}
				r.Check(okF, "C05.R2", key, p.InstrPos(in), got, "file name is `"+got+"`; want Sprintf(<the run's pattern>, <this processor's name>, \""+ext[c.Name()]+"\")")
			case "pixel":
				r.Check(strings.HasPrefix(got, "var{") || strings.HasPrefix(got, "phi{") || strings.Contains(got, "Pixels["), "C05.R2", key, p.InstrPos(in), got, "pixel argument is `"+got+"`")
			default:
				w, known := want[name]
				if !known {
					r.Unk("C05.R2", key, p.InstrPos(in), "parameter name not in the provenance table")
					continue
				}
				r.Check(got == w, "C05.R2", key, p.InstrPos(in), got, fmt.Sprintf("argument is `%s`; the header field it feeds documents `%s`", got, w))
			}
		}
	})
	for name := range ext {
		if !seenInst[name] {
			r.Bad("C05.R2", name+" is called per processor", p.Pos(wcs.Pos()), "no call of this installer in the start path")
		}
	}
	// inside the installers: parameter -> field of the same meaning
	alias := map[string][]string{
		"rownum": {"rownum", "row"}, "colnum": {"columnnum", "column"}, "channame": {"channame", "channelname"}, "sourcename": {"sourcename"},
		"presamples": {"presamples", "maxpresamples"}, "samples": {"samples", "maxsamples"}, "timebase": {"timebase", "frameperiodseconds"},
		"filename": {"filename"}, "maxpresamples": {"maxpresamples"}, "maxsamples": {"maxsamples"}, "frameperiodseconds": {"frameperiodseconds"},
		"channelnumbermatchingname": {"channelnumbermatchingname"}, "channelname": {"channelname"}, "pixelinfo": {"pixelinfo"}, "readoutinfo": {"readoutinfo"},
		"projectors": {"projectors", "numberofbases"}, "basis": {"basis"}, "modeldescription": {"description", "modeldescription"},
		"dastardversion": {"dastardversion"}, "githash": {"githash"},
	}
	for _, inst := range []*ssa.Function{p.Func("", "DataPublisher", "SetLJH22"), p.Func("", "DataPublisher", "SetLJH3"), p.Func("", "DataPublisher", "SetOFF"), p.Func("off", "", "NewWriter")} {
		if inst == nil {
			r.Unk("C05.R2", "installer", "-", "anchor not found")
			continue
		}
		r.Fn(FuncName(inst))
		start := 1
		if inst.Signature.Recv() == nil {
			start = 0
		}
		for _, prm := range inst.Params[start:] {
			// where does the parameter go? fields stored from it (through Field selections for struct params), or callee parameters
			dest := map[string]bool{}
			var follow func(v ssa.Value, d int)
			seen := map[ssa.Value]bool{}
			follow = func(v ssa.Value, d int) {
				if seen[v] || d > 9 {
					return
				}
				seen[v] = true
				for _, ref := range *v.Referrers() {
					switch x := ref.(type) {
					case *ssa.Store:
						if x.Val == v {
							if k, ok := fieldKeyOfAddr(x.Addr); ok {
								dest[strings.ToLower(k.Field)] = true
							}
							if a, ok := x.Addr.(*ssa.Alloc); ok {
								// a struct parameter spilled to a local: follow the loads of its fields
								for _, r2 := range *a.Referrers() {
									if fa, ok := r2.(*ssa.FieldAddr); ok {
										for _, r3 := range *fa.Referrers() {
											if u, ok := r3.(*ssa.UnOp); ok {
												follow(u, d+1)
											}
										}
									}
									if u, ok := r2.(*ssa.UnOp); ok {
										follow(u, d+1)
									}
								}
							}
						}
					case *ssa.Field:
						follow(x, d+1)
					case *ssa.Convert:
						follow(x, d+1)
					case *ssa.ChangeType:
						follow(x, d+1)
					case *ssa.MakeInterface:
						follow(x, d+1)
					case *ssa.Call:
						if c := x.Call.StaticCallee(); c != nil {
							placed := false
							for i, a := range x.Call.Args {
								if a == v && i < len(c.Params) {
									pk := "param:" + strings.ToLower(c.Params[i].Name())
									had := dest[pk]
									dest[pk] = true
									// a module helper that builds (part of) the header: where it puts the value
									if isModuleFn(c) && c.Blocks != nil && d < 7 && !x.Call.IsInvoke() {
										before := len(dest)
										follow(c.Params[i], d+3)
										if len(dest) > before {
											placed = true
											if !had {
												delete(dest, pk)
											}
										}
									}
								}
							}
							// value methods (Dims) of the argument: result goes somewhere; a helper that
							// was seen to place the value in a field has said where it goes
							if !placed {
								follow(x, d+1)
							}
						}
					case *ssa.Extract:
						follow(x, d+1)
					case *ssa.UnOp:
						follow(x, d+1)
					}
				}
			}
			follow(prm, 0)
			name := strings.ToLower(prm.Name())
			okD := false
			accept := append([]string{name}, alias[name]...)
			var ds []string
			for d := range dest {
				ds = append(ds, d)
				for _, a := range accept {
					if d == a || d == "param:"+a {
						okD = true
					}
				}
				// struct-valued parameters (pixel, ReadoutInfo) spread over several fields with the name as prefix
				if strings.HasPrefix(d, name) || strings.HasPrefix(d, "param:"+name) {
					okD = true
				}
			}
			sort.Strings(ds)
			if name == "pixel" {
				okD = dest["pixelxposition"] && dest["pixelyposition"] && dest["pixelname"] || dest["xposition"] && dest["yposition"] && dest["name"]
			}
			if len(dest) == 0 && inst.Name() == "SetOFF" && (name == "framespersample" || name == "timestampoffset") {
				r.OK("C05.R2", fmt.Sprintf("%s: parameter %s feeds the field of the same meaning", inst.Name(), prm.Name()), p.Pos(inst.Pos()), "the OFF header has no such item (parameter kept for signature symmetry with SetLJH22)")
				continue
			}
			r.Check(okD, "C05.R2", fmt.Sprintf("%s: parameter %s feeds the field of the same meaning", inst.Name(), prm.Name()), p.Pos(inst.Pos()), strings.Join(ds, ","),
				fmt.Sprintf("parameter %s is stored into {%s}: not the header field of the same meaning (swapped or dropped)", prm.Name(), strings.Join(ds, ",")))
		}
	}
}

// ---- R3 -----------------------------------------------------------------------------------

type recSlot struct {
	size    int
	float   bool
	varlen  bool
	elem    int
	val     ssa.Value
	instr   ssa.Instruction
	valDesc string
	orig    ssa.Value // the value in the assembling function (val is mapped to the writer method)
	foreign bool      // computed inside the helper: not expressible in the writer method
	poly    Poly      // for a part appended by a helper in the middle of the chain: its value in the writer method's terms
}

// slotPoly: the part's value as a polynomial in the writer method's terms.
func slotPoly(pc *PolyCtx, s recSlot) Poly {
	if s.poly != nil {
		return s.poly
	}
	return pc.Of(s.val)
}

// slotDesc: the part's value described in the writer method's terms.
func slotDesc(s recSlot) string {
	if s.poly != nil {
		if syms := s.poly.Symbols(); len(syms) == 1 && len(s.poly) == 1 && s.poly[syms[0]] == 1 {
			return syms[0]
		}
		return s.poly.String()
	}
	return c05Describe(s.val, nil, 0)
}

// appendHelperChain: h takes a byte buffer as its k-th parameter and returns it with getbytes views
// appended (builtin appends only, one order, every return hands back the end of the chain).
func appendHelperChain(h *ssa.Function, k int, sizes types.Sizes) ([]recSlot, bool) {
	if h == nil || h.Blocks == nil || k >= len(h.Params) {
		return nil, false
	}
	var slots []recSlot
	var cur ssa.Value = h.Params[k]
	for {
		var next *ssa.Call
		n := 0
		for _, ref := range *cur.Referrers() {
			if c, ok := ref.(*ssa.Call); ok {
				if b, ok := c.Call.Value.(*ssa.Builtin); ok && b.Name() == "append" && c.Call.Args[0] == cur {
					next = c
					n++
				}
			}
		}
		if n == 0 {
			break
		}
		if n > 1 || InLoop(next) {
			return nil, false
		}
		src, ok := next.Call.Args[1].(*ssa.Call)
		if !ok {
			return nil, false
		}
		sl, ok := slotFromView(src, sizes)
		if !ok {
			return nil, false
		}
		sl.instr = next
		if len(slots) > 0 && !InstrDominates(slots[len(slots)-1].instr, next) {
			return nil, false
		}
		slots = append(slots, sl)
		cur = next
	}
	okRet, nRet := true, 0
	Instrs(h, func(in ssa.Instruction) {
		if ret, ok := in.(*ssa.Return); ok {
			nRet++
			if len(ret.Results) != 1 || ret.Results[0] != cur {
				okRet = false
			}
		}
	})
	return slots, okRet && nRet > 0 && len(slots) > 0
}

// recLayout is the byte layout of one record as the code assembles it.
type recLayout struct {
	host     *ssa.Function     // the function that assembles the buffer (the writer method or a helper)
	path     []ssa.Instruction // call path from the writer method into host
	slots    []recSlot
	sizeHint ssa.Value // capacity (append form) or length (copy form) given to make, a value of host
	final    ssa.Value // the completely assembled buffer, a value of the writer method
	problems []string
	unknown  string // non-empty: the assembly form is not one the extractor understands
}

func slotFromView(src *ssa.Call, sizes types.Sizes) (recSlot, bool) {
	callee := src.Call.StaticCallee()
	if callee == nil || !strings.HasSuffix(fnPkg(callee).Path(), "/getbytes") || len(src.Call.Args) != 1 {
		return recSlot{}, false
	}
	pt := callee.Signature.Params().At(0).Type()
	s := recSlot{val: src.Call.Args[0]}
	if sl, ok := pt.Underlying().(*types.Slice); ok {
		s.varlen = true
		s.elem = int(sizes.Sizeof(sl.Elem()))
		if b, ok := sl.Elem().Underlying().(*types.Basic); ok && b.Info()&types.IsFloat != 0 {
			s.float = true
		}
	} else {
		s.size = int(sizes.Sizeof(pt))
		if b, ok := pt.Underlying().(*types.Basic); ok && b.Info()&types.IsFloat != 0 {
			s.float = true
		}
	}
	return s, true
}

// appenderClosure: the fresh buffer mk is stored into the cell of a local variable that a closure
// of the same function captures, and that closure does exactly `v = append(v, param...)`.
func appenderClosure(mk *ssa.MakeSlice) (*ssa.Alloc, *ssa.MakeClosure) {
	var cell *ssa.Alloc
	for _, ref := range *mk.Referrers() {
		if st, ok := ref.(*ssa.Store); ok && st.Val == ssa.Value(mk) {
			cell, _ = st.Addr.(*ssa.Alloc)
		}
	}
	if cell == nil {
		return nil, nil
	}
	for _, ref := range *cell.Referrers() {
		mc, ok := ref.(*ssa.MakeClosure)
		if !ok {
			continue
		}
		f, ok := mc.Fn.(*ssa.Function)
		if !ok || len(f.Params) != 1 || len(f.Blocks) != 1 {
			continue
		}
		var fv *ssa.FreeVar
		for i, b := range mc.Bindings {
			if b == ssa.Value(cell) && i < len(f.FreeVars) {
				fv = f.FreeVars[i]
			}
		}
		if fv == nil {
			continue
		}
		good, nstore := true, 0
		for _, in := range f.Blocks[0].Instrs {
			switch x := in.(type) {
			case *ssa.UnOp:
				if x.X != ssa.Value(fv) {
					good = false
				}
			case *ssa.Call:
				b, isB := x.Call.Value.(*ssa.Builtin)
				if !isB || b.Name() != "append" || x.Call.Args[1] != ssa.Value(f.Params[0]) {
					good = false
				} else if ld, isLd := x.Call.Args[0].(*ssa.UnOp); !isLd || ld.X != ssa.Value(fv) {
					good = false
				}
			case *ssa.Store:
				nstore++
				if x.Addr != ssa.Value(fv) {
					good = false
				} else if c, isC := x.Val.(*ssa.Call); !isC || c.Call.Value.Name() != "append" {
					good = false
				}
			case *ssa.Return, *ssa.DebugRef:
			default:
				good = false
			}
		}
		if good && nstore == 1 {
			return cell, mc
		}
	}
	return nil, nil
}

func isEmptyMake(m *ssa.MakeSlice) bool {
	k, isC := constInt(m.Len)
	return isC && k == 0
}

// recordLayout extracts the ordered parts of a record from the writer method fn.  Forms understood:
// (1) make([]byte, 0, n) followed by a chain of append(record, getbytes.FromX(v)...);
// (2) make([]byte, n) filled by copy(record[a:b], getbytes.FromX(v)) at constant offsets;
// either of them in fn itself or in a module helper whose result fn hands to the file writer.
func recordLayout(fn *ssa.Function) *recLayout {
	sizes := types.SizesFor("gc", "amd64")
	byteMake := func(f *ssa.Function) (mk *ssa.MakeSlice, n int) {
		Instrs(f, func(in ssa.Instruction) {
			if m, ok := in.(*ssa.MakeSlice); ok {
				if b, ok := m.Type().Underlying().(*types.Slice).Elem().Underlying().(*types.Basic); ok && b.Kind() == types.Uint8 {
					n++
					// the record buffer: the empty one that is appended to, else the first one made
					if k, isC := constInt(m.Len); isC && k == 0 {
						if mk == nil || !isEmptyMake(mk) {
							mk = m
						}
					} else if mk == nil {
						mk = m
					}
				}
			}
		})
		return
	}
	L := &recLayout{host: fn}
	mk, _ := byteMake(fn)
	var helperCall *ssa.Call
	if mk == nil {
		// a helper returning the record
		Instrs(fn, func(in ssa.Instruction) {
			c, ok := in.(*ssa.Call)
			if !ok || !isModuleFn(c.Call.StaticCallee()) {
				return
			}
			if sl, ok := c.Type().Underlying().(*types.Slice); !ok || !types.Identical(sl.Elem(), types.Typ[types.Uint8]) {
				return
			}
			if m, _ := byteMake(c.Call.StaticCallee()); m != nil {
				helperCall = c
				mk = m
			}
		})
		if helperCall != nil {
			L.host = helperCall.Call.StaticCallee()
			L.path = []ssa.Instruction{helperCall}
		}
	}
	var start ssa.Value
	if mk != nil {
		start = mk
	} else {
		// a buffer kept between calls and emptied for this record: buf[:0]
		Instrs(fn, func(in ssa.Instruction) {
			sl, ok := in.(*ssa.Slice)
			if !ok || sl.High == nil {
				return
			}
			if k, isC := constInt(sl.High); !isC || k != 0 {
				return
			}
			if st, ok := sl.Type().Underlying().(*types.Slice); ok && types.Identical(st.Elem(), types.Typ[types.Uint8]) {
				start = sl
			}
		})
	}
	if start == nil {
		L.unknown = "no byte buffer is made for the record in " + FuncName(fn) + " or a helper it calls"
		return L
	}
	var last ssa.Value
	// form 3: the buffer lives in a variable that a local closure appends to:
	//   put := func(b []byte) { record = append(record, b...) };  put(view1); put(view2); ...
	if mk != nil && isEmptyMake(mk) && helperCall == nil {
		if cell, put := appenderClosure(mk); cell != nil {
			L.sizeHint = mk.Cap
			var prev ssa.Instruction
			Instrs(fn, func(in ssa.Instruction) {
				c, ok := in.(*ssa.Call)
				if !ok || c.Call.Value != ssa.Value(put) || len(c.Call.Args) != 1 {
					return
				}
				var sl recSlot
				src, isCall := c.Call.Args[0].(*ssa.Call)
				okV := false
				if isCall {
					sl, okV = slotFromView(src, sizes)
				}
				if !okV {
					L.unknown = "a record part is appended from something other than a getbytes view"
					return
				}
				sl.instr = c
				if prev != nil && !InstrDominates(prev, c) {
					L.problems = append(L.problems, "record parts are not appended on every path in one order")
				}
				if InLoop(c) {
					L.problems = append(L.problems, "a record part is appended in a loop")
				}
				prev = c
				L.slots = append(L.slots, sl)
			})
			// the buffer as handed on: a load of the variable after the last append
			for _, ref := range *cell.Referrers() {
				if ld, ok := ref.(*ssa.UnOp); ok && ld.Op == token.MUL && prev != nil && InstrDominates(prev, ld) {
					L.final = ld
				}
			}
			// nothing else writes the variable
			for _, ref := range *cell.Referrers() {
				if st, ok := ref.(*ssa.Store); ok && st.Val != ssa.Value(mk) {
					L.problems = append(L.problems, "the record variable is assigned outside the appending closure")
				}
			}
			for i := range L.slots {
				L.slots[i].orig = L.slots[i].val
			}
			if len(L.slots) == 0 && L.unknown == "" {
				L.unknown = "the appending closure is never called"
			}
			return L
		}
	}
	if mk == nil || isEmptyMake(mk) {
		// form 1
		if mk != nil {
			L.sizeHint = mk.Cap
		}
		cur := start
		for {
			var next *ssa.Call
			n := 0
			for _, ref := range *cur.Referrers() {
				if c, ok := ref.(*ssa.Call); ok {
					if b, ok := c.Call.Value.(*ssa.Builtin); ok && b.Name() == "append" && c.Call.Args[0] == cur {
						next = c
						n++
					}
				}
			}
			if n == 0 {
				// a module helper that takes the buffer and hands it back with parts appended
				var hc *ssa.Call
				for _, ref := range *cur.Referrers() {
					c, ok := ref.(*ssa.Call)
					if !ok || c.Call.StaticCallee() == nil || !isModuleFn(c.Call.StaticCallee()) || !types.Identical(c.Type(), cur.Type()) {
						continue
					}
					for k, a := range c.Call.Args {
						if a != cur {
							continue
						}
						h := c.Call.StaticCallee()
						sub, ok := appendHelperChain(h, k, sizes)
						if !ok {
							continue
						}
						hpc2 := NewPolyCtx(h)
						trPoly, _ := callTranslator(h, c, NewPolyCtx(fn), hpc2)
						for _, sl := range sub {
							sl.orig = sl.val
							if prm, isPrm := sl.val.(*ssa.Parameter); isPrm {
								for j, pp := range h.Params {
									if pp == prm {
										sl.val = c.Call.Args[j]
									}
								}
							} else {
								sl.poly = trPoly(hpc2.Of(sl.val))
							}
							sl.instr = c
							if len(L.slots) > 0 && !InstrDominates(L.slots[len(L.slots)-1].instr, c) {
								L.problems = append(L.problems, "record parts are not appended on every path in one order")
							}
							L.slots = append(L.slots, sl)
						}
						hc = c
					}
				}
				if hc != nil {
					cur = hc
					continue
				}
				break
			}
			if n > 1 {
				L.problems = append(L.problems, "the record buffer forks (two appends of the same prefix)")
				break
			}
			src, ok := next.Call.Args[1].(*ssa.Call)
			var s recSlot
			if ok {
				s, ok = slotFromView(src, sizes)
			}
			if !ok {
				if pad, isMk := next.Call.Args[1].(*ssa.MakeSlice); isMk {
					L.problems = append(L.problems, "a block of zero bytes ("+pad.Len.String()+" of them) is appended to the record: padding is not part of the documented layout, readers that size records from the header mis-frame every later record")
					cur = next
					continue
				}
				L.unknown = "a record part is appended from something other than a getbytes view"
				break
			}
			s.instr = next
			if len(L.slots) > 0 && !InstrDominates(L.slots[len(L.slots)-1].instr, next) {
				L.problems = append(L.problems, "record parts are not appended on every path in one order")
			}
			if InLoop(next) {
				L.problems = append(L.problems, "a record part is appended in a loop")
			}
			L.slots = append(L.slots, s)
			cur = next
		}
		last = cur
	} else {
		// form 2: copies into constant windows of the buffer
		L.sizeHint = mk.Len
		type win struct {
			lo, hi int64
			open   bool
			s      recSlot
		}
		var wins []win
		for _, ref := range *mk.Referrers() {
			sl, ok := ref.(*ssa.Slice)
			if !ok {
				continue
			}
			w := win{}
			// binary.LittleEndian.PutUintNN(buf[k:], v): a part of NN/8 bytes at k; inside a range
			// loop over a slice, at k + size*index: the variable-length block of that slice
			var put *ssa.Call
			for _, r2 := range *sl.Referrers() {
				if c, ok := r2.(*ssa.Call); ok && c.Call.StaticCallee() != nil && strings.Contains(CalleeName(&c.Call), "encoding/binary") && len(c.Call.Args) >= 2 && c.Call.Args[len(c.Call.Args)-2] == ssa.Value(sl) {
					put = c
				}
			}
			if put != nil {
				size := map[string]int{"PutUint16": 2, "PutUint32": 4, "PutUint64": 8}[put.Call.StaticCallee().Name()]
				if size == 0 {
					L.unknown = "a record part is written by " + CalleeName(&put.Call)
					continue
				}
				if strings.Contains(CalleeName(&put.Call), "bigEndian") {
					L.problems = append(L.problems, "a record part is written big-endian at "+fmt.Sprint(put.Pos()))
				}
				v := put.Call.Args[len(put.Call.Args)-1]
				isFloat := false
				for i := 0; i < 4; i++ {
					if c, ok := v.(*ssa.Convert); ok && isIntLike(c.Type()) && isIntLike(c.X.Type()) && intSize(c.Type()) >= int64(size) {
						v = c.X
						continue
					}
					if c, ok := v.(*ssa.Call); ok && (IsCallTo(c, "math.Float32bits") || IsCallTo(c, "math.Float64bits")) {
						isFloat = true
						v = c.Call.Args[0]
						continue
					}
					break
				}
				s := recSlot{size: size, float: isFloat, val: v, instr: put}
				lo := int64(0)
				okLo := true
				if sl.Low != nil {
					lo, okLo = constInt(sl.Low)
				}
				if okLo {
					w.lo, w.hi, w.s = lo, lo+int64(size), s
					if InLoop(put) {
						L.problems = append(L.problems, "a record part is written in a loop at a fixed offset")
					}
					wins = append(wins, w)
					continue
				}
				// computed offset: k + size*i with i the index of a range loop over a slice, v its element
				pc := NewPolyCtx(L.host)
				lowP := pc.Of(sl.Low)
				okVar := false
				for _, rl := range RangeLoops(L.host) {
					if !rl.Contains(put.Block()) || rl.Idx == nil {
						continue
					}
					isym := polySym(fmt.Sprintf("phi#%d", pc.id(rl.Idx)))
					if ph, isPhi := rl.Idx.(*ssa.Phi); !isPhi || ph == nil {
						isym = pc.Of(rl.Idx)
					}
					rest := lowP.Sub(isym.Mul(polyConst(int64(size))))
					k, isK := rest.IsConst()
					if !isK || !rl.IsElem(v) {
						continue
					}
					if _, isSl := rl.Over.Type().Underlying().(*types.Slice); !isSl {
						continue
					}
					w.lo, w.open = k, true
					// (placed by a loop that runs over the whole slice: what follows the loop follows every element)
					w.s = recSlot{varlen: true, elem: size, float: isFloat, val: rl.Over, instr: rl.Header.Instrs[0]}
					okVar = true
				}
				if !okVar {
					L.unknown = "a record part is written at a computed offset that is not (constant + width x index of a loop over a slice)"
					continue
				}
				wins = append(wins, w)
				continue
			}
			if sl.Low != nil {
				lo, ok := constInt(sl.Low)
				if !ok {
					L.unknown = "a record part is copied to a computed offset"
					continue
				}
				w.lo = lo
			}
			if sl.High != nil {
				hi, ok := constInt(sl.High)
				if !ok {
					L.unknown = "a record part is copied to a window with a computed end"
					continue
				}
				w.hi = hi
			} else {
				w.open = true
			}
			n := 0
			for _, r2 := range *sl.Referrers() {
				c, ok := r2.(*ssa.Call)
				if !ok {
					continue
				}
				if b, ok := c.Call.Value.(*ssa.Builtin); !ok || b.Name() != "copy" || c.Call.Args[0] != ssa.Value(sl) {
					continue
				}
				src, ok := c.Call.Args[1].(*ssa.Call)
				var s recSlot
				if ok {
					s, ok = slotFromView(src, sizes)
				}
				if !ok {
					L.unknown = "a record part is copied from something other than a getbytes view"
					continue
				}
				s.instr = c
				w.s = s
				n++
				if InLoop(c) {
					L.problems = append(L.problems, "a record part is copied in a loop")
				}
			}
			if n == 1 {
				wins = append(wins, w)
			} else if n > 1 {
				L.problems = append(L.problems, "one window of the record is filled twice")
			}
		}
		sort.Slice(wins, func(i, j int) bool { return wins[i].lo < wins[j].lo })
		at := int64(0)
		for i, w := range wins {
			if w.lo != at {
				L.problems = append(L.problems, fmt.Sprintf("record part %d is copied to offset %d, the parts before it end at %d (gap or overlap)", i+1, w.lo, at))
			}
			if w.open {
				if !w.s.varlen && i != len(wins)-1 {
					L.problems = append(L.problems, fmt.Sprintf("record part %d has an open-ended window but is not the last part", i+1))
				}
				at += int64(w.s.size)
			} else {
				if w.s.varlen || w.hi-w.lo != int64(w.s.size) {
					L.problems = append(L.problems, fmt.Sprintf("record part %d: window of %d bytes filled from a view of %d bytes", i+1, w.hi-w.lo, w.s.size))
				}
				at = w.hi
			}
			L.slots = append(L.slots, w.s)
		}
		last = mk
		if len(wins) == 0 && L.unknown == "" {
			L.unknown = "the record buffer is filled in a way other than append or copy of getbytes views"
		}
	}
	// the buffer as the writer method sees it
	if helperCall != nil {
		returnsIt := false
		Instrs(L.host, func(in ssa.Instruction) {
			if ret, ok := in.(*ssa.Return); ok {
				returnsIt = len(ret.Results) > 0 && ret.Results[0] == last
				// every part is in place before the return
				for _, s := range L.slots {
					if s.instr != nil && !InstrDominates(s.instr, ret) {
						L.problems = append(L.problems, "the helper can return the record before a part is in place")
					}
				}
			}
		})
		if !returnsIt && L.unknown == "" {
			L.problems = append(L.problems, "the helper does not return the completely assembled record")
		}
		L.final = helperCall
		for i := range L.slots {
			L.slots[i].orig = L.slots[i].val
			L.slots[i].val = ArgForParam(L.path, L.slots[i].val)
			if L.slots[i].val == L.slots[i].orig {
				if _, isConst := L.slots[i].val.(*ssa.Const); !isConst {
					L.slots[i].foreign = true
				}
			}
			L.slots[i].instr = helperCall
		}
	} else {
		L.final = last
		for i := range L.slots {
			L.slots[i].orig = L.slots[i].val
		}
	}
	return L
}

var ljhBinRe = regexp.MustCompile(`^\* The (first|second) (\d+)-byte word is the ([^.]*)\.`)
var offRowRe = regexp.MustCompile(`^//\s*(\d+)-(\d+|Z)\s+(\w+)\s+(\w+)`)

func c05R3(p *Prog, r *Report) {
	type docSlotR struct {
		size    int
		float   bool
		varlen  bool
		meaning string
	}
	// LJH 2.2 from doc/LJH.md
	var ljhDoc []docSlotR
	if src, err := p.ReadRepoFile("doc/LJH.md"); err == nil {
		in22 := false
		for _, line := range strings.Split(string(src), "\n") {
			line = strings.TrimSpace(line)
			if strings.Contains(line, "16-byte time marker") {
				in22 = true
			}
			if strings.Contains(line, "6-byte time marker") && !strings.Contains(line, "16-byte") {
				in22 = false
			}
			if !in22 {
				continue
			}
			if m := ljhBinRe.FindStringSubmatch(line); m != nil {
				n, _ := strconv.Atoi(m[2])
				ljhDoc = append(ljhDoc, docSlotR{size: n, meaning: m[3]})
			}
			if strings.HasPrefix(line, "* The next L words") {
				ljhDoc = append(ljhDoc, docSlotR{varlen: true, meaning: "data record"})
			}
		}
	}
	// OFF from the comment at the top of off/off.go
	var offDoc []docSlotR
	if src, err := p.ReadRepoFile("off/off.go"); err == nil {
		for _, line := range strings.Split(string(src), "\n") {
			if strings.HasPrefix(line, "package ") {
				break
			}
			m := offRowRe.FindStringSubmatch(line)
			if m == nil {
				continue
			}
			lo, _ := strconv.Atoi(m[1])
			d := docSlotR{float: strings.HasPrefix(m[3], "float"), meaning: m[4]}
			if m[2] == "Z" {
				d.varlen = true
			} else {
				hi, _ := strconv.Atoi(m[2])
				d.size = hi - lo + 1
			}
			offDoc = append(offDoc, d)
		}
	}
	if len(ljhDoc) != 3 {
		r.Unk("C05.R3", "doc/LJH.md binary section (2.2)", "-", fmt.Sprintf("expected 3 documented record parts, parsed %d", len(ljhDoc)))
	}
	if len(offDoc) < 6 {
		r.Unk("C05.R3", "OFF layout comment", "-", fmt.Sprintf("expected >= 6 documented record parts, parsed %d", len(offDoc)))
	}
	writers := []struct {
		pkg, typ string
		doc      []docSlotR
		params   []string // expected parameter per slot ("" = computed)
	}{
		{"ljh", "Writer", ljhDoc, []string{"subframe", "timestamp", "data"}},
		{"ljh", "Writer3", nil, []string{"len(data)", "firstRisingSample", "framecount", "timestamp", "data"}},
		{"off", "Writer", offDoc, nil},
	}
	for _, w := range writers {
		fn := p.Func(w.pkg, w.typ, "WriteRecord")
		if fn == nil {
			r.Unk("C05.R3", w.pkg+"."+w.typ+".WriteRecord", "-", "anchor not found")
			continue
		}
		r.Fn(FuncName(fn))
		name := w.pkg + "." + w.typ
		L := recordLayout(fn)
		slots, capHint, final, problems := L.slots, L.sizeHint, L.final, L.problems
		if L.unknown != "" {
			r.Unk("C05.R3", name+": record assembly", p.Pos(fn.Pos()), L.unknown+": the record layout cannot be extracted from this form")
			continue
		}
		if L.host != fn {
			r.Fn(FuncName(L.host))
		}
		// the assembled buffer is what is written, after every part is in place
		written := false
		if final != nil {
			for _, ref := range *final.Referrers() {
				viaWrapper := false
				if c, ok := ref.(*ssa.Call); ok && c.Call.StaticCallee() != nil && isModuleFn(c.Call.StaticCallee()) && c.Call.StaticCallee().Blocks != nil && len(c.Call.StaticCallee().Params) == len(c.Call.Args) {
					// a helper that hands its parameter to the file writer
					h := c.Call.StaticCallee()
					for k, a := range c.Call.Args {
						if a != final {
							continue
						}
						Instrs(h, func(y ssa.Instruction) {
							if c2, ok := y.(*ssa.Call); ok && strings.HasSuffix(CalleeName(&c2.Call), "asyncbufio.Writer).Write") {
								for _, a2 := range c2.Call.Args {
									if a2 == ssa.Value(h.Params[k]) {
										viaWrapper = true
									}
								}
							}
						})
					}
				}
				if c, ok := ref.(*ssa.Call); ok && (strings.HasSuffix(CalleeName(&c.Call), "asyncbufio.Writer).Write") || viaWrapper) {
					written = true
					if L.host == fn {
						for _, s := range slots {
							if !InstrDominates(s.instr, c) {
								problems = append(problems, "a record part is put in place after (or not on every path before) the record is handed to the file writer")
							}
						}
					}
				}
			}
		}
		for _, pr := range problems {
			r.Bad("C05.R3", name+": record assembly", p.Pos(fn.Pos()), pr)
		}
		if len(problems) == 0 {
			r.OK("C05.R3", name+": record assembly", p.Pos(fn.Pos()), fmt.Sprintf("%d parts put in place in one order in %s", len(slots), FuncName(L.host)))
		}
		r.Check(written, "C05.R3", name+": the assembled record is what is written", p.Pos(fn.Pos()), "one Write of the complete buffer", "the buffer handed to the file writer is not the completely assembled record")
		pc := NewPolyCtx(fn)
		hpc := pc
		if L.host != fn {
			hpc = NewPolyCtx(L.host)
		}
		// variable part last and only once; fixed size == capacity hint constant
		fixed := 0
		nvar := 0
		for i, s := range slots {
			if s.varlen {
				nvar++
				if i != len(slots)-1 {
					r.Bad("C05.R3", name+": variable-length part is last", p.InstrPos(s.instr), "a variable-length part is followed by other parts: the record cannot be parsed")
				}
			} else {
				fixed += s.size
			}
		}
		if nvar == 1 {
			last := slots[len(slots)-1]
			wantCap := polyConst(int64(fixed)).Add(hpc.lenOf(last.orig).Mul(polyConst(int64(last.elem))))
			if capHint == nil {
				r.OK("C05.R3", name+": declared record size equals the parts written", p.Pos(fn.Pos()), "the buffer is kept between calls and emptied for each record (buf[:0]); append sizes it, parts add up to "+wantCap.String())
			} else {
				r.Check(hpc.Of(capHint).Equal(wantCap), "C05.R3", name+": declared record size equals the parts written", p.Pos(fn.Pos()), wantCap.String(),
					fmt.Sprintf("the record buffer is sized %s but the parts add up to %s", hpc.Of(capHint), wantCap))
			}
		}
		foreign := false
		for _, s := range slots {
			foreign = foreign || s.foreign
		}
		if foreign {
			r.Unk("C05.R3", name+": record parts", p.Pos(fn.Pos()), "a record part is computed inside the helper "+FuncName(L.host)+": its meaning cannot be compared with the writer method's parameters")
			continue
		}
		// against the document
		if w.doc != nil {
			r.Check(len(w.doc) == len(slots), "C05.R3", name+": number of record parts as documented", p.Pos(fn.Pos()), fmt.Sprint(len(slots)),
				fmt.Sprintf("the code writes %d parts per record, the documented layout lists %d", len(slots), len(w.doc)))
			for i, d := range w.doc {
				key := fmt.Sprintf("%s: record part %d (%s)", name, i+1, d.meaning)
				if i >= len(slots) {
					r.Bad("C05.R3", key, p.Pos(fn.Pos()), "documented part missing in the code")
					continue
				}
				s := slots[i]
				okS := s.varlen == d.varlen && (d.varlen || s.size == d.size) && (s.float == d.float || w.pkg == "ljh")
				prov := c05Describe(s.val, nil, 0)
				r.Check(okS, "C05.R3", key, p.InstrPos(s.instr), fmt.Sprintf("%d bytes float=%v var=%v from %s", s.size, s.float, s.varlen, prov),
					fmt.Sprintf("code writes size=%d float=%v variable=%v; documented size=%d float=%v variable=%v", s.size, s.float, s.varlen, d.size, d.float, d.varlen))
				// meaning
				if w.pkg == "off" {
					want := strings.ToLower(d.meaning)
					got := strings.ToLower(prov)
					okM := got == want || (d.varlen && got == "data") || strings.TrimPrefix(want, "record") == strings.TrimPrefix(got, "record")
					r.Check(okM, "C05.R3", key+" carries the documented quantity", p.InstrPos(s.instr), prov, "the part is filled from `"+prov+"`, documented as `"+d.meaning+"`")
				}
			}
		}
		if w.pkg == "ljh" && w.typ == "Writer" && len(slots) == 3 {
			// subframe count = framecount*SubframeDivisions + SubframeOffset
			recv := fn.Params[0].Name()
			want := polySym("framecount").Mul(polySym(recv + ".SubframeDivisions")).Add(polySym(recv + ".SubframeOffset"))
			r.Check(slotPoly(pc, slots[0]).Equal(want), "C05.R3", name+": first word is framecount*divisions+offset", p.InstrPos(slots[0].instr), want.String(),
				"sub-frame count is computed as "+slotPoly(pc, slots[0]).String()+", want "+want.String())
			r.Check(slotDesc(slots[1]) == "timestamp" && slotDesc(slots[2]) == "data", "C05.R3", name+": second word is the timestamp, then the samples", p.InstrPos(slots[1].instr), "timestamp, data", "the time word / sample block are not the timestamp and data parameters")
		}
		if w.typ == "Writer3" && len(slots) == 5 {
			descs := []string{}
			for _, s := range slots {
				descs = append(descs, slotDesc(s))
			}
			want := []string{"len(data)", "firstRisingSample", "framecount", "timestamp", "data"}
			got := strings.Join(descs, ", ")
			got = strings.ReplaceAll(got, "len(data[:])", "len(data)")
			r.Check(got == strings.Join(want, ", "), "C05.R3", name+": parts are length, first rising sample, frame, time, samples", p.Pos(fn.Pos()), got, "LJH3 record parts are `"+got+"`")
			sz := []int{4, 4, 8, 8}
			okSz := true
			for i := range sz {
				if slots[i].size != sz[i] {
					okSz = false
				}
			}
			r.Check(okSz, "C05.R3", name+": part widths 4,4,8,8", p.Pos(fn.Pos()), "4,4,8,8", "LJH3 fixed part widths differ from 4,4,8,8")
		}
	}
	// what PublishData passes
	pd := p.Func("", "DataPublisher", "PublishData")
	if pd == nil {
		r.Unk("C05.R3", "PublishData", "-", "anchor not found")
		return
	}
	r.Fn(FuncName(pd))
	loops := RangeLoops(pd)
	wantArgs := map[string][]string{
		"ljh.Writer":  {"rec.trigFrame", "(UnixNano(rec.trigTime)/const 1000)", "rawTypeToUint16(rec.data)"},
		"ljh.Writer3": {"(rec.presamples+const 1)", "rec.trigFrame", "(UnixNano(rec.trigTime)/const 1000)", "rawTypeToUint16(rec.data)"},
		"off.Writer":  {"len(rec.data)", "rec.presamples", "rec.trigFrame", "UnixNano(rec.trigTime)", "rec.pretrigMean", "rec.pretrigDelta", "rec.residualStdDev", "float32 copy of rec.modelCoefs"},
	}
	Instrs(pd, func(in ssa.Instruction) {
		call, ok := in.(*ssa.Call)
		if !ok || call.Call.StaticCallee() == nil || call.Call.StaticCallee().Name() != "WriteRecord" {
			return
		}
		c := call.Call.StaticCallee()
		wname := ownerName(c.Signature.Recv().Type())
		l := LoopContaining(loops, in)
		if l == nil {
			r.Bad("C05.R3", "PublishData: "+wname+".WriteRecord is called per record", p.InstrPos(in), "not inside the loop over the records")
			return
		}
		want := wantArgs[wname]
		for i, a := range call.Call.Args[1:] {
			got := c05RecDescribe(a, l, 0)
			key := fmt.Sprintf("PublishData: %s.WriteRecord argument %s", wname, c.Params[i+1].Name())
			if i >= len(want) {
				r.Unk("C05.R3", key, p.InstrPos(in), "no expectation for this argument")
				continue
			}
			r.Check(got == want[i], "C05.R3", key, p.InstrPos(in), got, "the value passed is `"+got+"`, documented quantity is `"+want[i]+"`")
		}
	})
}

// c05RecSubst: parameters of a helper being described, in terms of the caller's values.
var c05RecSubst = map[ssa.Value]string{}

// singleReturn: the one value returned by a function with exactly one return statement and one result.
func singleReturn(f *ssa.Function) ssa.Value {
	if f == nil || f.Blocks == nil {
		return nil
	}
	var out ssa.Value
	n := 0
	Instrs(f, func(in ssa.Instruction) {
		if ret, ok := in.(*ssa.Return); ok {
			n++
			if len(ret.Results) == 1 {
				out = ret.Results[0]
			}
		}
	})
	if n != 1 {
		return nil
	}
	return out
}

// c05RecDescribe renders an argument in terms of the loop's current record ("rec").
func c05RecDescribe(v ssa.Value, l *RangeLoop, depth int) string {
	if depth > 7 {
		return "?"
	}
	if d, ok := c05RecSubst[v]; ok {
		return d
	}
	if l.IsElem(v) {
		if u, ok := v.(*ssa.UnOp); ok {
			if ia, ok := u.X.(*ssa.IndexAddr); ok && ia.X == l.Over {
				return "rec"
			}
		}
	}
	switch x := v.(type) {
	case *ssa.Const:
		if x.Value == nil {
			return "nil"
		}
		return "const " + x.Value.ExactString()
	case *ssa.Convert:
		return c05RecDescribe(x.X, l, depth+1)
	case *ssa.ChangeType:
		return c05RecDescribe(x.X, l, depth+1)
	case *ssa.BinOp:
		return "(" + c05RecDescribe(x.X, l, depth+1) + x.Op.String() + c05RecDescribe(x.Y, l, depth+1) + ")"
	case *ssa.UnOp:
		if x.Op == token.MUL {
			if ia, ok := x.X.(*ssa.IndexAddr); ok && ia.X == l.Over && ia.Index == l.Idx {
				return "rec"
			}
			if fa, ok := x.X.(*ssa.FieldAddr); ok {
				st := derefStruct(fa.X.Type())
				return c05RecDescribe(fa.X, l, depth+1) + "." + st.Field(fa.Field).Name()
			}
		}
	case *ssa.Call:
		if b, ok := x.Call.Value.(*ssa.Builtin); ok && b.Name() == "len" {
			return "len(" + c05RecDescribe(x.Call.Args[0], l, depth+1) + ")"
		}
		if CalleeName(&x.Call) == "(time.Time).UnixNano" {
			return "UnixNano(" + c05RecDescribe(x.Call.Args[0], l, depth+1) + ")"
		}
		if c := x.Call.StaticCallee(); c != nil && len(x.Call.Args) == 1 {
			// a module helper that returns a fresh element-wise copy of its argument: described as
			// the copy itself, in terms of the argument
			if isModuleFn(c) && len(c.Params) == 1 {
				if rv := singleReturn(c); rv != nil {
					if mk, ok := rv.(*ssa.MakeSlice); ok {
						c05RecSubst[c.Params[0]] = c05RecDescribe(x.Call.Args[0], l, depth+1)
						d := c05RecDescribe(mk, l, depth+1)
						delete(c05RecSubst, c.Params[0])
						if d != mk.Name() {
							return d
						}
					}
				}
			}
			return c.Name() + "(" + c05RecDescribe(x.Call.Args[0], l, depth+1) + ")"
		}
	case *ssa.MakeSlice:
		// a fresh slice filled element-wise from a field of the record: name the source
		src := ""
		for _, ref := range *x.Referrers() {
			if ia, ok := ref.(*ssa.IndexAddr); ok {
				for _, r2 := range *ia.Referrers() {
					if st, ok := r2.(*ssa.Store); ok {
						if cv, ok := st.Val.(*ssa.Convert); ok {
							if u, ok := cv.X.(*ssa.UnOp); ok {
								if ia2, ok := u.X.(*ssa.IndexAddr); ok {
									src = c05RecDescribe(ia2.X, l, depth+1)
									if b, ok := cv.Type().Underlying().(*types.Basic); ok {
										src = b.Name() + " copy of " + src
									}
									// same index on both sides, length equal to the source's
									if ia2.Index != ia.Index || c05RecDescribe(x.Len, l, depth+1) != "len("+c05RecDescribe(ia2.X, l, depth+1)+")" {
										src += " (misaligned)"
									}
								}
							}
						}
					}
				}
			}
		}
		if src != "" {
			return src
		}
	}
	return v.Name()
}

// ---- R4 -----------------------------------------------------------------------------------

func c05R4(p *Prog, r *Report) {
	wh := p.Func("ljh", "Writer", "WriteHeader")
	ph := p.Func("ljh", "Reader", "parseHeader")
	if wh == nil || ph == nil {
		r.Unk("C05.R4", "ljh WriteHeader/parseHeader", "-", "anchor not found")
		return
	}
	r.Fn(FuncName(wh))
	r.Fn(FuncName(ph))
	// writer keys: every "Key:" at a line start of the string constants used in WriteHeader
	wkeys := map[string]bool{}
	// (the text may be put together by helpers the writer calls)
	InstrsDeep(wh, 2, func(di DeepInstr) {
		in := di.In
		for _, op := range in.Operands(nil) {
			if c, ok := (*op).(*ssa.Const); ok && c.Value != nil && c.Value.Kind() == constant.String {
				for _, line := range strings.Split(constant.StringVal(c.Value), "\n") {
					if i := strings.Index(line, ":"); i > 0 {
						wkeys[strings.TrimSpace(line[:i])] = true
					}
				}
			}
		}
	})
	// reader keys: constant patterns given to the extract helpers / Contains tests
	var rkeys []string
	InstrsDeep(ph, 2, func(di DeepInstr) {
		in := di.In
		cc := CallOf(in)
		if cc == nil {
			return
		}
		n := CalleeName(cc)
		if !(strings.HasSuffix(n, ".extract") || strings.HasSuffix(n, ".extractFloat") || n == "strings.Contains") {
			return
		}
		if len(cc.Args) < 2 {
			return
		}
		if c, ok := cc.Args[1].(*ssa.Const); ok && c.Value != nil && c.Value.Kind() == constant.String {
			s := constant.StringVal(c.Value)
			if i := strings.Index(s, ":"); i > 0 {
				rkeys = append(rkeys, strings.TrimSpace(s[:i]))
			}
		}
	})
	sort.Strings(rkeys)
	for _, k := range rkeys {
		r.Check(wkeys[k], "C05.R4", fmt.Sprintf("reader key %q is written by the header writer", k), p.Pos(wh.Pos()), "present with identical spelling",
			"the LJH reader (and doc/LJH.md) look for this key, the header writer emits it with a different spelling or not at all: the parameter is not recovered from files Dastard writes")
	}
}

// ---- R6 -----------------------------------------------------------------------------------

func c05R6(p *Prog, r *Report) {
	pd := p.Func("", "DataPublisher", "PublishData")
	if pd == nil {
		r.Unk("C05.R6", "PublishData", "-", "anchor not found")
		return
	}
	type w struct {
		create, header *ssa.Call
		records        []*ssa.Call
		path           []ssa.Instruction // call path from PublishData to the function holding the calls
	}
	ws := map[string]*w{}
	// the three calls of a writer may sit in PublishData itself or in a helper it calls
	InstrsDeep(pd, 2, func(di DeepInstr) {
		in := di.In
		call, ok := in.(*ssa.Call)
		if !ok || call.Call.StaticCallee() == nil || call.Call.StaticCallee().Signature.Recv() == nil {
			return
		}
		c := call.Call.StaticCallee()
		owner := ownerName(c.Signature.Recv().Type())
		if owner != "ljh.Writer" && owner != "ljh.Writer3" && owner != "off.Writer" {
			return
		}
		e := ws[owner]
		if e == nil {
			e = &w{path: di.Path}
			ws[owner] = e
		}
		switch c.Name() {
		case "CreateFile":
			e.create = call
		case "WriteHeader":
			e.header = call
		case "WriteRecord":
			e.records = append(e.records, call)
		}
	})
	for _, owner := range []string{"ljh.Writer", "ljh.Writer3", "off.Writer"} {
		e := ws[owner]
		if e == nil || e.create == nil || e.header == nil || len(e.records) != 1 {
			r.Bad("C05.R6", owner+": create, header and record writes present in PublishData", p.Pos(pd.Pos()), "the publishing code does not call CreateFile, WriteHeader and WriteRecord (once each) for this writer")
			continue
		}
		rec := e.records[0]
		if e.create.Parent() != e.header.Parent() || e.create.Parent() != rec.Parent() {
			r.Unk("C05.R6", owner+": create, header and record writes present in PublishData", p.Pos(pd.Pos()), "the three calls are spread over different functions: their order is not decided for this form")
			continue
		}
		host := rec.Parent()
		loops := RangeLoops(host)
		// create before header; header only on the success path of create
		okOrder := InstrDominates(e.create, e.header)
		errChecked := false
		for _, c := range controllingIfs(e.header.Block()) {
			if bo, ok := c.If.Cond.(*ssa.BinOp); ok && bo.X == ssa.Value(e.create) && bo.Op == token.NEQ && c.Branch == 1 {
				errChecked = true
			}
		}
		r.Check(okOrder && errChecked, "C05.R6", owner+": header is written only after the file was created successfully", p.InstrPos(e.header), "CreateFile error-checked, then WriteHeader", "WriteHeader is not on the success path of CreateFile")
		// header controlled by the header-written flag (field or method)
		flagged := false
		for _, c := range controllingIfs(e.header.Block()) {
			d := c05Describe(c.If.Cond, nil, 0)
			if strings.Contains(d, "HeaderWritten") {
				flagged = true
			}
		}
		r.Check(flagged, "C05.R6", owner+": header written once (guarded by the header-written flag)", p.InstrPos(e.header), "guarded", "the header write is not guarded by the writer's header-written flag: a second block rewrites the header in the middle of the file")
		// every path to the record loop passes the header block or the flag says it was written: the if-region precedes the loop
		l := LoopContaining(loops, rec)
		okLoop := l != nil && resolveCell(ArgForParam(e.path, l.Over)) == ssa.Value(pd.Params[1]) && l.EveryIteration(rec.Block())
		r.Check(okLoop, "C05.R6", owner+": every published record is written, in slice order", p.InstrPos(rec), "range over the records parameter, one WriteRecord per element", "WriteRecord is not executed for every element of the published slice in order")
		if l != nil {
			r.Check(!BlockReaches(l.Header, e.header.Block()), "C05.R6", owner+": header precedes the records", p.InstrPos(e.header), "the header block cannot be reached from the record loop", "the header can be written after records")
		}
	}
}

// ---- R7: header text is produced from constant formats ------------------------------------------

// c05R7: in the file-format packages every printf-style call has a constant format string.  A
// format assembled from data (a pixel or channel name concatenated into it) lets a '%' in that
// data consume the arguments of the lines that follow: header lines disappear or carry
// "%!e(MISSING)" — the header is no longer well-formed.
func c05R7(p *Prog, r *Report) {
	n := map[string]int{}
	for _, fn := range p.LibFuncs() {
		pk := fnPkg(fn)
		if pk == nil || !(strings.HasSuffix(pk.Path(), "/ljh") || strings.HasSuffix(pk.Path(), "/off")) {
			continue
		}
		Instrs(fn, func(in ssa.Instruction) {
			cc := CallOf(in)
			if cc == nil || cc.StaticCallee() == nil {
				return
			}
			idx := -1
			switch CalleeName(cc) {
			case "fmt.Sprintf", "fmt.Printf", "fmt.Errorf":
				idx = 0
			case "fmt.Fprintf":
				idx = 1
			default:
				return
			}
			r.Fn(FuncName(fn))
			base := "format of " + CalleeName(cc) + " in " + FuncName(fn)
			n[base]++
			_, isConst := cc.Args[idx].(*ssa.Const)
			r.Check(isConst, "C05.R7", fmt.Sprintf("%s #%d", base, n[base]), p.InstrPos(in), "constant format string",
				"the format string is assembled at run time: a '%' inside the data that is spliced into it (a pixel or channel name) is taken as a verb and eats the arguments of the following header lines, which then vanish or read %!e(MISSING)")
		})
	}
}
