package main

// C09.R7: each error/feedback coupling request leaves exactly the connections of the requested
// kind.  The request handler (SetCoupling of a source that edits the broker) is analysed once per
// value of the request type, by conditional constant propagation: under `status == V` some
// branches cannot run; the broker edits that can run, in the order they can run, give each
// direction of an (error, feedback) pair a final state (made, broken, or untouched).

import (
	"fmt"
	"go/types"
	"sort"
	"strings"

	"golang.org/x/tools/go/ssa"
)

// coupEffect: direction -> "add" | "del" | "mixed".  Direction -1: the lower (error) channel of a
// pair is the source; +1: the higher (feedback) channel is the source.
type coupEffect map[int]string

func isBrokerEdit(f *ssa.Function) string {
	if f == nil || f.Signature.Recv() == nil || typeName(f.Signature.Recv().Type()) != "TriggerBroker" {
		return ""
	}
	switch f.Name() {
	case "AddConnection":
		return "add"
	case "DeleteConnection":
		return "del"
	case "StopTriggerCoupling":
		return "delall"
	}
	return ""
}

// coupEffectOf: net effect of running fn under env; unk is non-empty when something that matters
// could not be followed.
func coupEffectOf(p *Prog, fn *ssa.Function, env map[ssa.Value]lat, depth int) (eff coupEffect, nsites int, unk string) {
	res := sccp(fn, env)
	c := NewPolyCtx(fn)
	subst := func(q Poly) Poly {
		for v, l := range env {
			if !l.isConst() || l.c == nil {
				continue
			}
			n, ok := constantInt64(l)
			if !ok {
				continue
			}
			if coef, rest, ok := q.SplitLinear(c.rootName(v)); ok {
				q = coef.Mul(polyConst(n)).Add(rest)
			}
		}
		return q
	}
	type ev struct {
		in  ssa.Instruction
		eff coupEffect
	}
	var evs []ev
	reachesEdit := func(g *ssa.Function) bool {
		ok, _ := p.Reaches(g, func(f *ssa.Function) bool { return isBrokerEdit(Unwrap(f)) != "" }, 4)
		return ok
	}
	for _, b := range fn.Blocks {
		if !res.exec[b] {
			continue
		}
		for _, in := range b.Instrs {
			cc := CallOf(in)
			if cc == nil || cc.IsInvoke() {
				continue
			}
			g := cc.StaticCallee()
			if g == nil {
				if l := res.Get(cc.Value); l.isConst() && l.fn != nil {
					g = l.fn
				}
			}
			if g == nil {
				for _, cand := range p.calledFuncs(in) {
					if isBrokerEdit(cand) != "" || reachesEdit(cand) {
						unk = fmt.Sprintf("the call at %s may edit the connection table, but which function it calls is not determined by the request value", p.InstrPos(in))
					}
				}
				continue
			}
			gu := Unwrap(g)
			switch kind := isBrokerEdit(gu); kind {
			case "add", "del":
				if len(cc.Args) < 2 {
					unk = "edit call with fewer than two arguments at " + p.InstrPos(in)
					continue
				}
				a0, a1 := cc.Args[len(cc.Args)-2], cc.Args[len(cc.Args)-1]
				d, isC := subst(c.Of(a0).Sub(c.Of(a1))).IsConst()
				if !isC || d == 0 {
					unk = fmt.Sprintf("the pair edited at %s is not (i, i±k) for this request value", p.InstrPos(in))
					continue
				}
				dir := -1
				if d > 0 {
					dir = 1
				}
				evs = append(evs, ev{in, coupEffect{dir: kind}})
				nsites++
			case "delall":
				evs = append(evs, ev{in, coupEffect{-1: "del", 1: "del"}})
				nsites++
			default:
				if depth <= 0 || !isModuleFn(gu) || gu.Blocks == nil || !reachesEdit(gu) {
					continue
				}
				env2 := map[ssa.Value]lat{}
				args := cc.Args
				if len(args) == len(gu.Params) {
					for k, prm := range gu.Params {
						if l := res.Get(args[k]); l.isConst() {
							env2[prm] = l
						}
					}
				}
				sub, n, u := coupEffectOf(p, gu, env2, depth-1)
				if u != "" {
					unk = u
				}
				nsites += n
				if len(sub) > 0 {
					evs = append(evs, ev{in, sub})
				}
			}
		}
	}
	after := func(a, b ssa.Instruction) bool { // b can run after a
		if a.Block() == b.Block() {
			ia, ib := -1, -1
			for k, x := range a.Block().Instrs {
				if x == a {
					ia = k
				}
				if x == b {
					ib = k
				}
			}
			if ia < ib {
				return true
			}
		}
		return res.reachExec(a.Block(), b.Block())
	}
	eff = coupEffect{}
	for _, dir := range []int{-1, 1} {
		var cands []ev
		for _, e := range evs {
			if _, ok := e.eff[dir]; ok {
				cands = append(cands, e)
			}
		}
		kinds := map[string]bool{}
		for _, e := range cands {
			last := true
			for _, e2 := range cands {
				if e2.in != e.in && after(e.in, e2.in) && !after(e2.in, e.in) {
					last = false
				}
			}
			if last {
				kinds[e.eff[dir]] = true
			}
		}
		switch {
		case len(kinds) == 1:
			for k := range kinds {
				eff[dir] = k
			}
		case len(kinds) > 1:
			eff[dir] = "mixed"
		}
	}
	return eff, nsites, unk
}

func constantInt64(l lat) (int64, bool) {
	if l.c == nil {
		return 0, false
	}
	if l.c.Kind().String() == "Bool" {
		return 0, false
	}
	n, ok := constantToInt64(l)
	return n, ok
}

func c09R7(p *Prog, r *Report) {
	for _, fn := range p.LibFuncs() {
		if fn.Name() != "SetCoupling" || fn.Signature.Recv() == nil || len(fn.Params) != 2 {
			continue
		}
		if ok, _ := p.Reaches(fn, func(f *ssa.Function) bool { k := isBrokerEdit(Unwrap(f)); return k == "add" }, 4); !ok {
			continue // a source that makes no connections on this request
		}
		r.Fn(FuncName(fn))
		named, ok := fn.Params[1].Type().(*types.Named)
		if !ok {
			r.Unk("C09.R7", FuncName(fn), p.Pos(fn.Pos()), "the request value is not of a named type")
			continue
		}
		// the values of the request type
		type reqVal struct {
			name string
			l    lat
		}
		var vals []reqVal
		scope := named.Obj().Pkg().Scope()
		for _, nm := range scope.Names() {
			if cst, ok := scope.Lookup(nm).(*types.Const); ok && types.Identical(cst.Type(), named) {
				vals = append(vals, reqVal{nm, lat{k: latConst, c: cst.Val()}})
			}
		}
		sort.Slice(vals, func(i, j int) bool { return vals[i].name < vals[j].name })
		for _, v := range vals {
			eff, _, unk := coupEffectOf(p, fn, map[ssa.Value]lat{fn.Params[1]: v.l}, 2)
			want := coupEffect{-1: "del", 1: "del"}
			switch {
			case strings.HasPrefix(v.name, "Err"):
				want[-1] = "add"
			case strings.HasPrefix(v.name, "FB"):
				want[1] = "add"
			}
			key := fmt.Sprintf("%s(%s) leaves exactly the %s connections", FuncName(fn), v.name, v.name)
			name := map[int]string{-1: "error->feedback", 1: "feedback->error"}
			msg := ""
			for _, dir := range []int{-1, 1} {
				got, decided := eff[dir]
				switch {
				case !decided:
					msg = fmt.Sprintf("with status == %s no reachable edit makes or breaks the %s connections: they stay as the previous request left them, so the connection set is not the one this request asks for", v.name, name[dir])
				case got == "mixed":
					if unk == "" {
						unk = fmt.Sprintf("with status == %s the %s connections are both made and broken, in an order that is not determined", v.name, name[dir])
					}
				case got != want[dir]:
					verb := map[string]string{"add": "made", "del": "broken"}
					msg = fmt.Sprintf("with status == %s the %s connections are %s, they must be %s", v.name, name[dir], verb[got], verb[want[dir]])
				}
				if msg != "" {
					break
				}
			}
			switch {
			case msg != "":
				r.Bad("C09.R7", key, p.Pos(fn.Pos()), msg)
			case unk != "":
				r.Unk("C09.R7", key, p.Pos(fn.Pos()), unk)
			default:
				r.OK("C09.R7", key, p.Pos(fn.Pos()), fmt.Sprintf("error->feedback %s, feedback->error %s on every way through the handler that this value allows", eff[-1], eff[1]))
			}
		}
	}
}
