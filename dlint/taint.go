package main

// E6a: forward taint of request data.  Starting from chosen roots (parameters of
// RPC handlers) the pass marks every SSA value that is data-derived from them, across
// calls (static, closures, VTA), closure captures, struct-field stores (field based)
// and channel sends (by chan-typed field).  It only answers "may this value be chosen
// by the client"; guards are the business of guards.go.

import (
	"go/token"
	"go/types"
	"sort"
	"strings"

	"golang.org/x/tools/go/ssa"
)

type Taint struct {
	p          *Prog
	vals       map[ssa.Value]string // tainted value -> origin description
	params     map[*ssa.Parameter]bool
	fvs        map[*ssa.FreeVar]bool
	fields     map[FieldKey]string // tainted field -> where it was stored
	chans      map[FieldKey]string
	rets       map[*ssa.Function]bool
	funcs      map[*ssa.Function]bool // functions visited (reachable with taint or from roots)
	work       []*ssa.Function
	inWork     map[*ssa.Function]bool
	loadsOf    map[FieldKey][]*ssa.Function // functions that load a field (to re-queue)
	recvsOf    map[FieldKey][]*ssa.Function
	callers    map[*ssa.Function][]*ssa.Function
	cur        *ssa.Function
	tagChanged bool
	// maps whose keys the client chooses: field holding the map (or a slice of maps)
	mapFields map[FieldKey]string
	mapTag    map[ssa.Value]FieldKey // values that are (derived from) such a map / its keys
	retTag    map[*ssa.Function]FieldKey
	mapUpd    map[FieldKey][]*ssa.MapUpdate
	// FieldFilter decides whether taint is propagated through a stored field
	FieldFilter func(k FieldKey, t types.Type) bool
	// StoreScope: only stores made in these functions taint a field / channel (nil = all)
	StoreScope func(fn *ssa.Function) bool
	// LoadScope: loads of tainted fields are followed only in these functions (nil = all)
	LoadScope func(fn *ssa.Function, k FieldKey) bool
}

func NewTaint(p *Prog) *Taint {
	t := &Taint{p: p, vals: map[ssa.Value]string{}, params: map[*ssa.Parameter]bool{}, fvs: map[*ssa.FreeVar]bool{},
		fields: map[FieldKey]string{}, chans: map[FieldKey]string{}, rets: map[*ssa.Function]bool{}, funcs: map[*ssa.Function]bool{},
		mapFields: map[FieldKey]string{}, mapTag: map[ssa.Value]FieldKey{}, retTag: map[*ssa.Function]FieldKey{}, mapUpd: map[FieldKey][]*ssa.MapUpdate{},
		inWork: map[*ssa.Function]bool{}, loadsOf: map[FieldKey][]*ssa.Function{}, recvsOf: map[FieldKey][]*ssa.Function{}, callers: map[*ssa.Function][]*ssa.Function{}}
	// index of field loads / channel receives in library code
	for _, fn := range p.LibFuncs() {
		seenF := map[FieldKey]bool{}
		seenC := map[FieldKey]bool{}
		Instrs(fn, func(in ssa.Instruction) {
			switch x := in.(type) {
			case *ssa.UnOp:
				if x.Op == token.MUL {
					if k, ok := fieldKeyOfAddr(x.X); ok && !seenF[k] {
						seenF[k] = true
						t.loadsOf[k] = append(t.loadsOf[k], fn)
					}
				}
				if x.Op == token.ARROW {
					if k, ok := chanKey(x.X); ok && !seenC[k] {
						seenC[k] = true
						t.recvsOf[k] = append(t.recvsOf[k], fn)
					}
				}
			case *ssa.Field:
				st := derefStruct(x.X.Type())
				if st != nil {
					k := FieldKey{ownerName(x.X.Type()), st.Field(x.Field).Name()}
					if !seenF[k] {
						seenF[k] = true
						t.loadsOf[k] = append(t.loadsOf[k], fn)
					}
				}
			case *ssa.Select:
				for _, s := range x.States {
					if s.Dir == types.RecvOnly {
						if k, ok := chanKey(s.Chan); ok && !seenC[k] {
							seenC[k] = true
							t.recvsOf[k] = append(t.recvsOf[k], fn)
						}
					}
				}
			}
		})
	}
	return t
}

// fieldKeyOfAddr: the struct field an address designates (any base, also fresh ones).
func fieldKeyOfAddr(v ssa.Value) (FieldKey, bool) {
	if fa, ok := v.(*ssa.FieldAddr); ok {
		st := derefStruct(fa.X.Type())
		if st == nil {
			return FieldKey{}, false
		}
		return FieldKey{ownerName(fa.X.Type()), st.Field(fa.Field).Name()}, true
	}
	return FieldKey{}, false
}

// chanKey: the chan-typed struct field a channel value was loaded from.
func chanKey(v ssa.Value) (FieldKey, bool) {
	if _, isChan := v.Type().Underlying().(*types.Chan); !isChan {
		return FieldKey{}, false
	}
	if u, ok := v.(*ssa.UnOp); ok && u.Op == token.MUL {
		return fieldKeyOfAddr(u.X)
	}
	if f, ok := v.(*ssa.Field); ok {
		st := derefStruct(f.X.Type())
		if st != nil {
			return FieldKey{ownerName(f.X.Type()), st.Field(f.Field).Name()}, true
		}
	}
	return FieldKey{}, false
}

func (t *Taint) queue(fn *ssa.Function) {
	if fn == nil || fn.Blocks == nil || t.inWork[fn] {
		return
	}
	pk := fnPkg(fn)
	if pk == nil || !strings.HasPrefix(pk.Path(), modPath) {
		return
	}
	t.inWork[fn] = true
	t.work = append(t.work, fn)
}

func (t *Taint) queueCallers(fn *ssa.Function) {
	if n := t.p.CallGraph().Nodes[fn]; n != nil {
		for _, e := range n.In {
			t.queue(e.Caller.Func)
		}
	}
}

// SeedParam marks a parameter as client-chosen.
func (t *Taint) SeedParam(prm *ssa.Parameter, why string) {
	if !t.params[prm] {
		t.params[prm] = true
		t.vals[prm] = why
		t.queue(prm.Parent())
	}
}

func (t *Taint) Is(v ssa.Value) bool { _, ok := t.vals[v]; return ok }

func (t *Taint) mark(v ssa.Value, why string) bool {
	if _, ok := t.vals[v]; ok {
		return false
	}
	t.vals[v] = why
	return true
}

// Run propagates to a fixed point.
func (t *Taint) Run() {
	for len(t.work) > 0 {
		fn := t.work[0]
		t.work = t.work[1:]
		t.inWork[fn] = false
		t.funcs[fn] = true
		t.runFunc(fn)
	}
}

func carriesData(tp types.Type) bool {
	// everything except plain function values and channels themselves
	switch tp.Underlying().(type) {
	case *types.Signature:
		return false
	}
	return true
}

func (t *Taint) runFunc(fn *ssa.Function) {
	t.cur = fn
	changed := true
	for changed {
		changed = false
		Instrs(fn, func(in ssa.Instruction) {
			switch x := in.(type) {
			case *ssa.Store:
				if t.Is(x.Val) {
					// local cell
					root := addrRoot(x.Addr)
					if a, ok := root.(*ssa.Alloc); ok && x.Addr == ssa.Value(a) {
						if t.mark(a, "cell holding "+x.Val.Name()) {
							changed = true
						}
					}
					if fv, ok := root.(*ssa.FreeVar); ok && x.Addr == ssa.Value(fv) {
						// store through a captured cell: the cell is shared with the parent
						if t.mark(fv, "captured cell") {
							changed = true
						}
					}
					if k, ok := fieldKeyOfAddr(x.Addr); ok && (t.StoreScope == nil || t.StoreScope(fn)) {
						if _, fresh := root.(*ssa.Alloc); !fresh || true {
							if t.FieldFilter == nil || t.FieldFilter(k, x.Val.Type()) {
								if _, had := t.fields[k]; !had {
									t.fields[k] = t.p.InstrPos(x)
									for _, f := range t.loadsOf[k] {
										t.queue(f)
									}
								}
							}
						}
					}
					if ia, ok := x.Addr.(*ssa.IndexAddr); ok {
						// element store into a slice held in a field: taint the field's elements
						if u, isU := ia.X.(*ssa.UnOp); isU && u.Op == token.MUL {
							if k, ok := fieldKeyOfAddr(u.X); ok && (t.StoreScope == nil || t.StoreScope(fn)) {
								if t.FieldFilter == nil || t.FieldFilter(k, x.Val.Type()) {
									if _, had := t.fields[k]; !had {
										t.fields[k] = t.p.InstrPos(x)
										for _, f := range t.loadsOf[k] {
											t.queue(f)
										}
									}
								}
							}
						}
					}
				}
			case *ssa.MapUpdate:
				if t.Is(x.Key) && (t.StoreScope == nil || t.StoreScope(fn)) {
					if k, ok := mapFieldOf(x.Map); ok {
						seen := false
						for _, m := range t.mapUpd[k] {
							if m == x {
								seen = true
							}
						}
						if !seen {
							t.mapUpd[k] = append(t.mapUpd[k], x)
						}
						if _, had := t.mapFields[k]; !had {
							t.mapFields[k] = t.p.InstrPos(x)
							for _, f := range t.loadsOf[k] {
								t.queue(f)
							}
						}
					}
				}
			case *ssa.Send:
				if t.Is(x.X) {
					if k, ok := chanKey(x.Chan); ok {
						if _, had := t.chans[k]; !had {
							t.chans[k] = t.p.InstrPos(x)
							for _, f := range t.recvsOf[k] {
								t.queue(f)
							}
						}
					}
				}
			case *ssa.Return:
				for _, rv := range x.Results {
					if k, ok := t.mapTag[rv]; ok {
						if _, had := t.retTag[fn]; !had {
							t.retTag[fn] = k
							t.queueCallers(fn)
						}
					}
					if t.Is(rv) && !t.rets[fn] {
						t.rets[fn] = true
						t.queueCallers(fn)
					}
				}
			case *ssa.MakeClosure:
				cf := x.Fn.(*ssa.Function)
				for i, b := range x.Bindings {
					if t.Is(b) && i < len(cf.FreeVars) && !t.fvs[cf.FreeVars[i]] {
						t.fvs[cf.FreeVars[i]] = true
						t.vals[cf.FreeVars[i]] = "captured " + b.Name() + " of " + FuncName(fn)
						t.queue(cf)
					}
				}
			}
			if ci, ok := in.(ssa.CallInstruction); ok {
				t.call(fn, ci, &changed)
			}
			v, ok := in.(ssa.Value)
			if !ok || t.Is(v) {
				return
			}
			if why := t.derive(v); why != "" {
				t.vals[v] = why
				changed = true
			}
			if t.tagChanged {
				t.tagChanged = false
				changed = true
			}
		})
	}
}

func (t *Taint) derive(v ssa.Value) string {
	if _, had := t.mapTag[v]; !had {
		if why := t.deriveTag(v); why != "" {
			if ex, ok := v.(*ssa.Extract); ok && ex.Index == 1 {
				if _, isNext := ex.Tuple.(*ssa.Next); isNext {
					return why // the key itself is client data
				}
			}
			t.tagChanged = true
		}
	}
	op := func(x ssa.Value) bool { return x != nil && t.Is(x) }
	switch x := v.(type) {
	case *ssa.BinOp:
		if op(x.X) || op(x.Y) {
			return "arith"
		}
	case *ssa.UnOp:
		if op(x.X) {
			return "unop"
		}
		if x.Op == token.MUL {
			if k, ok := fieldKeyOfAddr(x.X); ok {
				if w, had := t.fields[k]; had && carriesData(x.Type()) && (t.LoadScope == nil || t.LoadScope(t.cur, k)) {
					return "load of field " + k.String() + " stored at " + w
				}
			}
		}
		if x.Op == token.ARROW {
			if k, ok := chanKey(x.X); ok {
				if w, had := t.chans[k]; had {
					return "message from " + k.String() + " sent at " + w
				}
			}
		}
	case *ssa.Convert:
		if op(x.X) {
			return "conv"
		}
	case *ssa.ChangeType:
		if op(x.X) {
			return "conv"
		}
	case *ssa.ChangeInterface:
		if op(x.X) {
			return "conv"
		}
	case *ssa.MakeInterface:
		if op(x.X) {
			return "iface"
		}
	case *ssa.TypeAssert:
		if op(x.X) {
			return "assert"
		}
	case *ssa.Phi:
		for _, e := range x.Edges {
			if op(e) {
				return "phi"
			}
		}
	case *ssa.FieldAddr:
		if op(x.X) {
			return "field"
		}
	case *ssa.Field:
		if op(x.X) {
			return "field"
		}
		st := derefStruct(x.X.Type())
		if st != nil {
			k := FieldKey{ownerName(x.X.Type()), st.Field(x.Field).Name()}
			if w, had := t.fields[k]; had && (t.LoadScope == nil || t.LoadScope(t.cur, k)) {
				return "field " + k.String() + " stored at " + w
			}
		}
	case *ssa.IndexAddr:
		if op(x.X) {
			return "elem"
		}
	case *ssa.Index:
		if op(x.X) {
			return "elem"
		}
	case *ssa.Slice:
		if op(x.X) {
			return "slice"
		}
	case *ssa.Lookup:
		if op(x.X) {
			return "lookup"
		}
	case *ssa.Range:
		if op(x.X) {
			return "range"
		}
	case *ssa.Next:
		if op(x.Iter) {
			return "next"
		}
	case *ssa.Extract:
		if sel, isSel := x.Tuple.(*ssa.Select); isSel {
			// tuple layout: index, recvOk, then one value per receive state in order
			pos := 2
			for _, s := range sel.States {
				if s.Dir != types.RecvOnly {
					continue
				}
				if pos == x.Index {
					if k, ok := chanKey(s.Chan); ok {
						if w, had := t.chans[k]; had {
							return "message from " + k.String() + " sent at " + w
						}
					}
				}
				pos++
			}
			return ""
		}
		if op(x.Tuple) {
			return "extract"
		}
	}
	return ""
}

// deriveTag propagates "this is a map whose keys the client chose" from the field holding
// it to the keys produced by ranging over it.
func (t *Taint) deriveTag(v ssa.Value) string {
	tag := func(x ssa.Value) (FieldKey, bool) {
		if x == nil {
			return FieldKey{}, false
		}
		k, ok := t.mapTag[x]
		return k, ok
	}
	set := func(k FieldKey) string {
		t.mapTag[v] = k
		return "map keyed by the client, field " + k.String() + " updated at " + t.mapFields[k]
	}
	switch x := v.(type) {
	case *ssa.UnOp:
		if x.Op == token.MUL {
			if k, ok := fieldKeyOfAddr(x.X); ok {
				if _, had := t.mapFields[k]; had {
					return set(k)
				}
			}
			if k, ok := tag(x.X); ok {
				return set(k)
			}
		}
	case *ssa.IndexAddr:
		if k, ok := tag(x.X); ok {
			return set(k)
		}
	case *ssa.Index:
		if k, ok := tag(x.X); ok {
			return set(k)
		}
	case *ssa.Phi:
		for _, e := range x.Edges {
			if k, ok := tag(e); ok {
				return set(k)
			}
		}
	case *ssa.ChangeType:
		if k, ok := tag(x.X); ok {
			return set(k)
		}
	case *ssa.Range:
		if k, ok := tag(x.X); ok {
			return set(k)
		}
	case *ssa.Next:
		if k, ok := tag(x.Iter); ok {
			return set(k)
		}
	case *ssa.Extract:
		if k, ok := tag(x.Tuple); ok {
			if _, isNext := x.Tuple.(*ssa.Next); isNext && x.Index == 1 {
				return set(k)
			}
		}
	case *ssa.Call:
		for _, c := range t.p.callees(x) {
			if k, ok := t.retTag[c]; ok {
				return set(k)
			}
		}
	}
	return ""
}

// mapFieldOf: the field a map value comes from (directly, or as an element of a slice field).
func mapFieldOf(m ssa.Value) (FieldKey, bool) {
	u, ok := m.(*ssa.UnOp)
	if !ok || u.Op != token.MUL {
		return FieldKey{}, false
	}
	if k, ok := fieldKeyOfAddr(u.X); ok {
		return k, true
	}
	if ia, ok := u.X.(*ssa.IndexAddr); ok {
		if u2, ok := ia.X.(*ssa.UnOp); ok && u2.Op == token.MUL {
			return fieldKeyOfAddr(u2.X)
		}
	}
	return FieldKey{}, false
}

func (t *Taint) call(fn *ssa.Function, ci ssa.CallInstruction, changed *bool) {
	cc := ci.Common()
	if b, ok := cc.Value.(*ssa.Builtin); ok {
		if v, isV := ci.(ssa.Value); isV && !t.Is(v) {
			switch b.Name() {
			case "len", "cap", "min", "max":
				for _, a := range cc.Args {
					if t.Is(a) {
						t.vals[v] = b.Name()
						*changed = true
					}
				}
			case "append":
				for _, a := range cc.Args {
					if t.Is(a) {
						t.vals[v] = "append"
						*changed = true
					}
				}
			}
		}
		if b.Name() == "copy" && t.Is(cc.Args[1]) {
			// copy(dst, tainted): taint dst's cell / field
			dst := cc.Args[0]
			if sl, ok := dst.(*ssa.Slice); ok {
				dst = sl.X
			}
			if !t.Is(dst) {
				t.vals[dst] = "copy destination"
				*changed = true
			}
		}
		return
	}
	var callees []*ssa.Function
	if f := cc.StaticCallee(); f != nil {
		callees = []*ssa.Function{f}
	} else if !cc.IsInvoke() {
		if fns, ok := ResolveFuncs(cc.Value); ok {
			callees = fns
		}
	}
	if callees == nil {
		callees = t.p.callees(ci)
	}
	anyArg := false
	for _, a := range cc.Args {
		if t.Is(a) {
			anyArg = true
		}
	}
	recvT := cc.IsInvoke() && t.Is(cc.Value)
	for _, c := range callees {
		if c == nil {
			continue
		}
		pk := fnPkg(c)
		inMod := pk != nil && strings.HasPrefix(pk.Path(), modPath) && c.Blocks != nil
		if !inMod {
			// library call: result derives from tainted arguments (strconv, math, fmt...) — value level only
			if v, isV := ci.(ssa.Value); isV && (anyArg || recvT) && !t.Is(v) && carriesData(v.Type()) {
				if !isErrorType(v.Type()) {
					t.vals[v] = "result of " + c.String()
					*changed = true
				}
			}
			continue
		}
		// record caller edge
		found := false
		for _, x := range t.callers[c] {
			if x == fn {
				found = true
			}
		}
		if !found {
			t.callers[c] = append(t.callers[c], fn)
		}
		off := 0
		if cc.IsInvoke() {
			off = 1
			if recvT && len(c.Params) > 0 && !t.params[c.Params[0]] {
				t.params[c.Params[0]] = true
				t.vals[c.Params[0]] = "receiver from " + FuncName(fn)
				t.queue(c)
			}
		}
		for i, a := range cc.Args {
			if !t.Is(a) || i+off >= len(c.Params) {
				continue
			}
			prm := c.Params[i+off]
			if !t.params[prm] {
				t.params[prm] = true
				t.vals[prm] = "argument " + a.Name() + " of call in " + FuncName(fn)
				t.queue(c)
			}
		}
		// bound-method closures and closures called directly: bindings handled at MakeClosure
		if t.rets[c] {
			if v, isV := ci.(ssa.Value); isV && !t.Is(v) {
				t.vals[v] = "result of " + FuncName(c)
				*changed = true
			}
		}
	}
}

// TaintedFuncs lists the functions that hold at least one tainted value, sorted.
func (t *Taint) TaintedFuncs() []*ssa.Function {
	set := map[*ssa.Function]bool{}
	for v := range t.vals {
		if in, ok := v.(ssa.Instruction); ok && in.Parent() != nil {
			set[in.Parent()] = true
		}
		if prm, ok := v.(*ssa.Parameter); ok {
			set[prm.Parent()] = true
		}
		if fv, ok := v.(*ssa.FreeVar); ok {
			set[fv.Parent()] = true
		}
	}
	var out []*ssa.Function
	for f := range set {
		out = append(out, f)
	}
	sort.Slice(out, func(i, j int) bool {
		if out[i].Pos() != out[j].Pos() {
			return out[i].Pos() < out[j].Pos()
		}
		return out[i].String() < out[j].String()
	})
	return out
}

// SinkKind enumerates the uses that need a guard.
type SinkKind int

const (
	SinkIndex   SinkKind = iota // 0 <= v < len(X)
	SinkSliceLo                 // 0 <= v
	SinkSliceHi                 // v <= cap(X)
	SinkMakeLen                 // 0 <= v
	SinkDivisor                 // v != 0
	SinkPairLen                 // parallel slice index: i < len(X) where i ranges over another slice
)

func (k SinkKind) String() string {
	return [...]string{"index", "slice-low", "slice-high", "make-size", "divisor", "parallel-index"}[k]
}

type Sink struct {
	Kind  SinkKind
	Instr ssa.Instruction
	V     ssa.Value // the guarded value
	X     ssa.Value // the container (index / slice sinks)
}

// Sinks lists the guarded uses of tainted values in fn.
func (t *Taint) Sinks(fn *ssa.Function) []Sink {
	var out []Sink
	Instrs(fn, func(in ssa.Instruction) {
		switch x := in.(type) {
		case *ssa.IndexAddr:
			if t.Is(x.Index) {
				out = append(out, Sink{SinkIndex, in, x.Index, x.X})
			} else if _, isSl := x.X.Type().Underlying().(*types.Slice); isSl && t.Is(x.X) {
				// the container's length is client-chosen
				out = append(out, Sink{SinkPairLen, in, x.Index, x.X})
			}
		case *ssa.Index:
			if t.Is(x.Index) {
				out = append(out, Sink{SinkIndex, in, x.Index, x.X})
			}
		case *ssa.Slice:
			if x.Low != nil && t.Is(x.Low) {
				out = append(out, Sink{SinkSliceLo, in, x.Low, x.X})
			}
			if x.High != nil && t.Is(x.High) {
				out = append(out, Sink{SinkSliceHi, in, x.High, x.X})
			}
		case *ssa.MakeSlice:
			if t.Is(x.Len) {
				out = append(out, Sink{SinkMakeLen, in, x.Len, nil})
			}
			if x.Cap != x.Len && t.Is(x.Cap) {
				out = append(out, Sink{SinkMakeLen, in, x.Cap, nil})
			}
		case *ssa.MakeChan:
			if t.Is(x.Size) {
				out = append(out, Sink{SinkMakeLen, in, x.Size, nil})
			}
		case *ssa.BinOp:
			if (x.Op == token.QUO || x.Op == token.REM) && isIntLike(x.Type()) && t.Is(x.Y) {
				out = append(out, Sink{SinkDivisor, in, x.Y, nil})
			}
		}
	})
	return out
}
