package main

import (
	"fmt"
	"go/token"
	"go/types"
	"sort"
	"strings"

	"golang.org/x/tools/go/ssa"
)

// ---- R4: abort => end-of-data chain --------------------------------------------------

func (c *c10ctx) ruleR4() {
	p, r := c.p, c.r
	any := c.anyT.Obj().Name()
	ast := c.anyT.Underlying().(*types.Struct)
	abortField, nextField := "", ""
	for i := 0; i < ast.NumFields(); i++ {
		f := ast.Field(i)
		ch, ok := f.Type().Underlying().(*types.Chan)
		if !ok {
			continue
		}
		if s, isS := ch.Elem().Underlying().(*types.Struct); isS && s.NumFields() == 0 {
			abortField = f.Name()
		}
		if pt, isP := ch.Elem().(*types.Pointer); isP {
			if n, isN := pt.Elem().(*types.Named); isN && n.Obj().Name() == "dataBlock" {
				nextField = f.Name()
			}
		}
	}
	if abortField == "" || nextField == "" {
		r.Unk("C10.R4", "abort/next-block channels", "-", "AnySource lacks a chan struct{} or a chan *dataBlock field")
		return
	}
	isFieldChan := func(v ssa.Value, owner, field string) bool {
		o, f, _, ok := FieldOf(v)
		return ok && f == field && (owner == "" || o == owner)
	}
	// channel key of a close/send operand: "Owner.field" for struct-field channels
	chanKey := func(v ssa.Value) string {
		o, f, _, ok := FieldOf(v)
		if !ok {
			return ""
		}
		if _, isChan := v.Type().Underlying().(*types.Chan); !isChan {
			return ""
		}
		return o + "." + f
	}
	nextKey := any + "." + nextField
	closeOf := func(in ssa.Instruction) string {
		cc := CallOf(in)
		if cc == nil {
			return ""
		}
		if b, ok := cc.Value.(*ssa.Builtin); ok && b.Name() == "close" {
			return chanKey(cc.Args[0])
		}
		// defer func() { close(ch) }()
		if d, isDefer := in.(*ssa.Defer); isDefer {
			if inner := onlyCloses(d); inner != nil {
				return chanKey(inner.Args[0])
			}
		}
		return ""
	}
	// goroutine functions of library code in the root package
	type gor struct {
		fn *ssa.Function
		at ssa.Instruction
	}
	var gors []gor
	seenG := map[*ssa.Function]bool{}
	for _, gs := range p.GoStarts() {
		if fnPkg(gs.In) != p.Root.Pkg {
			continue
		}
		for _, f := range gs.Callees {
			if f != nil && f.Blocks != nil && !seenG[f] {
				seenG[f] = true
				gors = append(gors, gor{f, gs.Instr})
			}
		}
	}
	sort.Slice(gors, func(i, j int) bool { return gors[i].fn.Pos() < gors[j].fn.Pos() })

	// step 1: abort arms
	chain := map[string]bool{nextKey: true}
	type pending struct {
		fn   *ssa.Function
		arm  *ssa.BasicBlock
		sel  ssa.Instruction
		keys map[string]bool
	}
	var arms []pending
	for _, g := range gors {
		fn := g.fn
		Instrs(fn, func(in ssa.Instruction) {
			sel, ok := in.(*ssa.Select)
			if !ok {
				return
			}
			for k, st := range sel.States {
				if st.Dir == types.RecvOnly && isFieldChan(st.Chan, any, abortField) {
					arm := SelectArms(sel)[k]
					if arm == nil {
						r.Unk("C10.R4", "abort arm in "+FuncName(fn), p.InstrPos(sel), "cannot locate the arm block")
						continue
					}
					arms = append(arms, pending{fn, arm, sel, map[string]bool{}})
				}
			}
		})
	}
	// deferred closes per function
	deferredCloses := func(fn *ssa.Function) []*ssa.Defer {
		var out []*ssa.Defer
		Instrs(fn, func(in ssa.Instruction) {
			if d, ok := in.(*ssa.Defer); ok && closeOf(d) != "" {
				out = append(out, d)
			}
		})
		return out
	}
	for i := range arms {
		a := &arms[i]
		dcs := deferredCloses(a.fn)
		closed := map[string]bool{}
		barrier := func(in ssa.Instruction) bool {
			if _, isDefer := in.(*ssa.Defer); isDefer {
				return false
			}
			if k := closeOf(in); k != "" {
				closed[k] = true
				return true
			}
			if _, isRD := in.(*ssa.RunDefers); isRD {
				for _, d := range dcs {
					if d.Block().Dominates(in.Block()) {
						closed[closeOf(d)] = true
						return true
					}
				}
			}
			return false
		}
		esc := reachFromBlock(a.arm, barrier, isReturn)
		// leaving the arm back into the loop without closing is also an escape: the select must not be re-entered
		back := reachFromBlock(a.arm, barrier, func(in ssa.Instruction) bool { return in == a.sel })
		key := "abort arm of " + FuncName(a.fn)
		r.Fn(FuncName(a.fn))
		if len(esc) > 0 || len(back) > 0 {
			where := ""
			if len(esc) > 0 {
				where = "return at " + p.InstrPos(esc[0])
			} else {
				where = "loop continues at " + p.InstrPos(a.sel)
			}
			r.Bad("C10.R4", key, p.InstrPos(a.sel), "after the abort signal a path ("+where+") leaves the producer without closing its output channel: the core loop never sees end-of-data and Stop waits forever")
			continue
		}
		var ks []string
		for k := range closed {
			ks = append(ks, k)
			a.keys[k] = true
			chain[k] = true
		}
		sort.Strings(ks)
		r.OK("C10.R4", key, p.InstrPos(a.sel), "every path from the abort arm closes "+strings.Join(ks, ", "))
	}
	// step 2: every receiver of an intermediate chain channel forwards or closes the next link before returning
	var inter []string
	for k := range chain {
		if k != nextKey {
			inter = append(inter, k)
		}
	}
	sort.Strings(inter)
	for _, x := range inter {
		nrecv := 0
		for _, fn := range p.LibFuncs() {
			Instrs(fn, func(in ssa.Instruction) {
				isRecv := false
				switch v := in.(type) {
				case *ssa.UnOp:
					if v.Op == token.ARROW && chanKey(v.X) == x {
						isRecv = true
					}
				case *ssa.Select:
					for _, st := range v.States {
						if st.Dir == types.RecvOnly && chanKey(st.Chan) == x {
							isRecv = true
						}
					}
				}
				if !isRecv {
					return
				}
				nrecv++
				r.Fn(FuncName(fn))
				dcs := deferredCloses(fn)
				barrier := func(y ssa.Instruction) bool {
					if _, isDefer := y.(*ssa.Defer); isDefer {
						return false
					}
					if s, ok := y.(*ssa.Send); ok && chain[chanKey(s.Chan)] {
						return true
					}
					if k := closeOf(y); k != "" && chain[k] {
						return true
					}
					if _, isRD := y.(*ssa.RunDefers); isRD {
						for _, d := range dcs {
							if chain[closeOf(d)] && d.Block().Dominates(y.Block()) {
								return true
							}
						}
					}
					return false
				}
				esc := ReachAvoiding(fn, in, barrier, isReturn)
				key := "receiver of " + x + " in " + FuncName(fn)
				if len(esc) > 0 {
					r.Bad("C10.R4", key, p.InstrPos(in), fmt.Sprintf("having received from %s (data or end-of-data) the goroutine can return at %s without forwarding a block or closing %s: end-of-data is lost and Stop waits forever", x, p.InstrPos(esc[0]), nextKey))
				} else {
					r.OK("C10.R4", key, p.InstrPos(in), "forwards a block or closes the next link before every return")
				}
				// and the closed case must actually be noticed: a comma-ok receive or a zero-value test
			})
		}
		if nrecv == 0 {
			r.Bad("C10.R4", "receiver of "+x, "-", "the channel closed on abort has no receiver: end-of-data never reaches the core loop")
		}
	}
	// step 3: looping senders on the next-block channel need an abort arm (or are fed by a chain channel)
	for _, g := range gors {
		fn := g.fn
		loops := false
		var at ssa.Instruction
		Instrs(fn, func(in ssa.Instruction) {
			if s, ok := in.(*ssa.Send); ok && chanKey(s.Chan) == nextKey && InLoop(in) {
				loops = true
				at = in
			}
		})
		if !loops {
			continue
		}
		has := false
		for _, a := range arms {
			if a.fn == fn {
				has = true
			}
		}
		r.Check(has, "C10.R4", "looping producer "+FuncName(fn)+" listens for abort", p.InstrPos(at), "select with an abort arm", "a goroutine sends blocks in a loop without ever checking the abort channel: Stop cannot end it")
	}
}

// ---- R5: start failure releases what start acquired -----------------------------------------

// acquisition / release vocabulary: library calls that take / give back an OS or driver resource.
var c10Acquire = map[string]string{
	"net.ListenUDP": "udp socket",
	"net.DialUDP":   "udp socket",
	"(*github.com/usnistgov/dastard/ringbuffer.RingBuffer).Open":     "ring buffer",
	"(*github.com/usnistgov/dastard/lancero.Lancero).StartAdapter":   "lancero adapter",
	"(*github.com/usnistgov/dastard/lancero.Lancero).StartCollector": "lancero collector",
}
var c10Release = map[string]string{
	"(*net.UDPConn).Close": "udp socket",
	"(*net.conn).Close":    "udp socket", // Close is promoted from the embedded net.conn
	"(*github.com/usnistgov/dastard/ringbuffer.RingBuffer).Close":   "ring buffer",
	"(*github.com/usnistgov/dastard/lancero.Lancero).StopAdapter":   "lancero adapter",
	"(*github.com/usnistgov/dastard/lancero.Lancero).StopCollector": "lancero collector",
}

// c10ResKind classifies a call instruction as acquiring (+1) or releasing (-1) a resource kind.
func c10ResKind(in ssa.Instruction) (kind string, dir int) {
	cc := CallOf(in)
	if cc == nil {
		return "", 0
	}
	name := CalleeName(cc)
	if k, ok := c10Acquire[name]; ok {
		return k, +1
	}
	if k, ok := c10Release[name]; ok {
		return k, -1
	}
	if cc.IsInvoke() && strings.HasSuffix(cc.Value.Type().String(), "lancero.Lanceroer") {
		switch cc.Method.Name() {
		case "StartAdapter":
			return "lancero adapter", +1
		case "StartCollector":
			return "lancero collector", +1
		case "StopAdapter":
			return "lancero adapter", -1
		case "StopCollector":
			return "lancero collector", -1
		}
	}
	return "", 0
}

// unbalancedAcquires: acquire sites in fn from which a return of fn is reachable without the
// matching release (deferred releases count), not counting the branch taken when the
// acquisition itself reported an error.
func unbalancedAcquires(fn *ssa.Function) map[string]ssa.Instruction {
	out := map[string]ssa.Instruction{}
	Instrs(fn, func(in ssa.Instruction) {
		kind, dir := c10ResKind(in)
		if dir != +1 {
			return
		}
		if _, isDefer := in.(*ssa.Defer); isDefer {
			return
		}
		// blocks entered only when the acquire's own error result is non-nil
		failed := map[*ssa.BasicBlock]bool{}
		if v, ok := in.(ssa.Value); ok {
			var errVals []ssa.Value
			if _, isTuple := v.Type().(*types.Tuple); isTuple {
				for _, ref := range *v.Referrers() {
					if ex, ok := ref.(*ssa.Extract); ok && isErrorType(ex.Type()) {
						errVals = append(errVals, ex)
					}
				}
			} else if isErrorType(v.Type()) {
				errVals = append(errVals, v)
			}
			for _, ev := range errVals {
				for _, ref := range *ev.Referrers() {
					bo, ok := ref.(*ssa.BinOp)
					if !ok || bo.Op != token.NEQ {
						continue
					}
					for _, r2 := range *bo.Referrers() {
						if iff, ok := r2.(*ssa.If); ok {
							tb := iff.Block().Succs[0]
							for _, b := range fn.Blocks {
								if tb.Dominates(b) {
									failed[b] = true
								}
							}
						}
					}
				}
			}
		}
		esc := ReachAvoiding(fn, in, func(x ssa.Instruction) bool {
			if failed[x.Block()] {
				return true
			}
			k, d := c10ResKind(x)
			return d == -1 && k == kind
		}, isReturn)
		if len(esc) > 0 {
			out[kind] = in
		}
	})
	return out
}

func (c *c10ctx) ruleR5() {
	p, r := c.p, c.r
	r.MinInstances["C10.R5"] = 4
	// module functions reachable from fn through calls, go statements and defers
	reachMemo := map[*ssa.Function]map[*ssa.Function]bool{}
	var reach func(fn *ssa.Function) map[*ssa.Function]bool
	reach = func(fn *ssa.Function) map[*ssa.Function]bool {
		if m, ok := reachMemo[fn]; ok {
			return m
		}
		m := map[*ssa.Function]bool{}
		reachMemo[fn] = m
		var walk func(f *ssa.Function, d int)
		walk = func(f *ssa.Function, d int) {
			f = Unwrap(f)
			if f == nil || m[f] || f.Blocks == nil || d > 8 {
				return
			}
			pk := fnPkg(f)
			if pk == nil || !strings.HasPrefix(pk.Path(), modPath) {
				return
			}
			m[f] = true
			Instrs(f, func(in ssa.Instruction) {
				if CallOf(in) == nil {
					return
				}
				for _, cal := range p.callees(in) {
					walk(cal, d+1)
				}
			})
			for _, an := range f.AnonFuncs {
				walk(an, d+1)
			}
		}
		walk(fn, 0)
		return m
	}
	releases := func(fn *ssa.Function, kind string) bool {
		found := false
		for f := range reach(fn) {
			Instrs(f, func(in ssa.Instruction) {
				if k, d := c10ResKind(in); d == -1 && k == kind {
					found = true
				}
			})
		}
		return found
	}
	recvOf := func(f *ssa.Function) string {
		if f.Signature.Recv() == nil {
			return ""
		}
		return typeName(f.Signature.Recv().Type())
	}
	for _, sstep := range c.starterSteps() {
		inv, top := sstep.inv, sstep.top
		step := CallOf(inv).Method.Name()
		for _, impl := range c.impls(inv) {
			D := recvOf(impl)
			if D == "" || D == c.anyT.Obj().Name() {
				continue
			}
			// kinds held when the step returns
			held := map[string]string{}
			for f := range reach(impl) {
				for kind, at := range unbalancedAcquires(f) {
					if _, ok := held[kind]; !ok {
						held[kind] = p.InstrPos(at) + " in " + FuncName(f)
					}
				}
			}
			var kinds []string
			for k := range held {
				kinds = append(kinds, k)
			}
			sort.Strings(kinds)
			for _, kind := range kinds {
				r.Fn(FuncName(impl))
				// failing exits of the start function after this step that pass no call able to release
				// the resource through a method of the same implementation
				esc := ReachAvoiding(c.starter, top, func(x ssa.Instruction) bool {
					if CallOf(x) == nil {
						return false
					}
					for _, cal := range p.callees(x) {
						for f := range reach(cal) {
							if recvOf(f) == D && releases(f, kind) {
								return true
							}
						}
					}
					return false
				}, func(x ssa.Instruction) bool {
					ret, ok := x.(*ssa.Return)
					if !ok || len(ret.Results) == 0 {
						return false
					}
					if cst, isC := ret.Results[len(ret.Results)-1].(*ssa.Const); isC && cst.Value == nil {
						return false // success exit
					}
					return true
				})
				// R5 (flag): when this implementation releases the resource only under a boolean
				// field ("if device.adapRunning { StopAdapter }"), that field must be set on every
				// path from the successful acquisition to a return of the acquiring function
				for _, flag := range releaseFlags(p, reachAllMethodsOf(p, D, reach), kind) {
					for f := range reach(impl) {
						Instrs(f, func(in ssa.Instruction) {
							k, d := c10ResKind(in)
							if d != +1 || k != kind {
								return
							}
							if _, isDefer := in.(*ssa.Defer); isDefer {
								return
							}
							failed := errBranchBlocks(in)
							esc := ReachAvoiding(f, in, func(x ssa.Instruction) bool {
								if failed[x.Block()] {
									return true
								}
								if st, ok := x.(*ssa.Store); ok {
									if _, fld, _, isF := FieldOf(st.Addr); isF && fld == flag {
										if cst, isC := st.Val.(*ssa.Const); isC && cst.Value != nil && cst.Value.String() == "true" {
											return true
										}
									}
								}
								kk, dd := c10ResKind(x)
								return dd == -1 && kk == kind
							}, isReturn)
							fkey := fmt.Sprintf("%s: %s acquired in %s is marked in %s before any return", D, kind, FuncName(f), flag)
							r.Check(len(esc) == 0, "C10.R5", fkey, p.InstrPos(in), "the flag that guards the release is set on every path from the successful acquisition to a return",
								"a return is reachable after the "+kind+" was acquired without "+flag+" having been set: the release code tests that flag, skips the release, and the device stays taken after a failed start")
						})
					}
				}
				key := fmt.Sprintf("%s: %s taken in %s is released on every failing exit of %s after it", D, kind, step, FuncName(c.starter))
				if len(esc) == 0 {
					r.OK("C10.R5", key, p.InstrPos(inv), "acquired at "+held[kind]+"; every error return after the step passes a call that reaches this implementation's release")
				} else {
					r.Bad("C10.R5", key, p.InstrPos(esc[0]), "the "+kind+" acquired at "+held[kind]+" is still held when "+FuncName(c.starter)+" returns its error here: only the end of a run releases it, and a run never begins, so the device stays taken (address in use / adapter already started) and no later start can succeed")
				}
			}
		}
	}
}

// reachAllMethodsOf: everything reachable from the methods of implementation D.
func reachAllMethodsOf(p *Prog, D string, reach func(*ssa.Function) map[*ssa.Function]bool) map[*ssa.Function]bool {
	out := map[*ssa.Function]bool{}
	for _, fn := range p.LibFuncs() {
		if fn.Signature.Recv() != nil && typeName(fn.Signature.Recv().Type()) == D {
			for f := range reach(fn) {
				out[f] = true
			}
		}
	}
	return out
}

// releaseFlags: boolean fields F such that some release call of the kind, in the given
// functions, executes only on the true branch of a test of F.
func releaseFlags(p *Prog, fns map[*ssa.Function]bool, kind string) []string {
	set := map[string]bool{}
	for f := range fns {
		Instrs(f, func(in ssa.Instruction) {
			k, d := c10ResKind(in)
			if d != -1 || k != kind {
				return
			}
			for _, ct := range controllingIfs(in.Block()) {
				if ct.Branch != 0 {
					continue
				}
				if _, fld, _, ok := FieldOf(ct.If.Cond); ok {
					if b, isB := ct.If.Cond.Type().Underlying().(*types.Basic); isB && b.Kind() == types.Bool {
						set[fld] = true
					}
				}
			}
		})
	}
	var out []string
	for k := range set {
		out = append(out, k)
	}
	sort.Strings(out)
	return out
}
