package main

import (
	"fmt"
	"go/token"
	"go/types"
	"sort"
	"strings"

	"golang.org/x/tools/go/ssa"
)

// ---- R4: abort => end-of-data chain --------------------------------------------------

func (c *c10ctx) ruleR4() {
	p, r := c.p, c.r
	any := c.anyT.Obj().Name()
	ast := c.anyT.Underlying().(*types.Struct)
	abortField, nextField := "", ""
	for i := 0; i < ast.NumFields(); i++ {
		f := ast.Field(i)
		ch, ok := f.Type().Underlying().(*types.Chan)
		if !ok {
			continue
		}
		if s, isS := ch.Elem().Underlying().(*types.Struct); isS && s.NumFields() == 0 {
			abortField = f.Name()
		}
		if pt, isP := ch.Elem().(*types.Pointer); isP {
			if n, isN := pt.Elem().(*types.Named); isN && n.Obj().Name() == "dataBlock" {
				nextField = f.Name()
			}
		}
	}
	if abortField == "" || nextField == "" {
		r.Unk("C10.R4", "abort/next-block channels", "-", "AnySource lacks a chan struct{} or a chan *dataBlock field")
		return
	}
	isFieldChan := func(v ssa.Value, owner, field string) bool {
		o, f, _, ok := FieldOf(v)
		return ok && f == field && (owner == "" || o == owner)
	}
	// channel key of a close/send operand: "Owner.field" for struct-field channels
	chanKey := func(v ssa.Value) string {
		o, f, _, ok := FieldOf(v)
		if !ok {
			return ""
		}
		if _, isChan := v.Type().Underlying().(*types.Chan); !isChan {
			return ""
		}
		return o + "." + f
	}
	nextKey := any + "." + nextField
	closeOf := func(in ssa.Instruction) string {
		cc := CallOf(in)
		if cc == nil {
			return ""
		}
		if b, ok := cc.Value.(*ssa.Builtin); ok && b.Name() == "close" {
			return chanKey(cc.Args[0])
		}
		return ""
	}
	// goroutine functions of library code in the root package
	type gor struct {
		fn *ssa.Function
		at ssa.Instruction
	}
	var gors []gor
	seenG := map[*ssa.Function]bool{}
	for _, gs := range p.GoStarts() {
		if fnPkg(gs.In) != p.Root.Pkg {
			continue
		}
		for _, f := range gs.Callees {
			if f != nil && f.Blocks != nil && !seenG[f] {
				seenG[f] = true
				gors = append(gors, gor{f, gs.Instr})
			}
		}
	}
	sort.Slice(gors, func(i, j int) bool { return gors[i].fn.Pos() < gors[j].fn.Pos() })

	// step 1: abort arms
	chain := map[string]bool{nextKey: true}
	type pending struct {
		fn   *ssa.Function
		arm  *ssa.BasicBlock
		sel  ssa.Instruction
		keys map[string]bool
	}
	var arms []pending
	for _, g := range gors {
		fn := g.fn
		Instrs(fn, func(in ssa.Instruction) {
			sel, ok := in.(*ssa.Select)
			if !ok {
				return
			}
			for k, st := range sel.States {
				if st.Dir == types.RecvOnly && isFieldChan(st.Chan, any, abortField) {
					arm := SelectArms(sel)[k]
					if arm == nil {
						r.Unk("C10.R4", "abort arm in "+FuncName(fn), p.InstrPos(sel), "cannot locate the arm block")
						continue
					}
					arms = append(arms, pending{fn, arm, sel, map[string]bool{}})
				}
			}
		})
	}
	// deferred closes per function
	deferredCloses := func(fn *ssa.Function) []*ssa.Defer {
		var out []*ssa.Defer
		Instrs(fn, func(in ssa.Instruction) {
			if d, ok := in.(*ssa.Defer); ok && closeOf(d) != "" {
				out = append(out, d)
			}
		})
		return out
	}
	for i := range arms {
		a := &arms[i]
		dcs := deferredCloses(a.fn)
		closed := map[string]bool{}
		barrier := func(in ssa.Instruction) bool {
			if _, isDefer := in.(*ssa.Defer); isDefer {
				return false
			}
			if k := closeOf(in); k != "" {
				closed[k] = true
				return true
			}
			if _, isRD := in.(*ssa.RunDefers); isRD {
				for _, d := range dcs {
					if d.Block().Dominates(in.Block()) {
						closed[closeOf(d)] = true
						return true
					}
				}
			}
			return false
		}
		esc := reachFromBlock(a.arm, barrier, isReturn)
		// leaving the arm back into the loop without closing is also an escape: the select must not be re-entered
		back := reachFromBlock(a.arm, barrier, func(in ssa.Instruction) bool { return in == a.sel })
		key := "abort arm of " + FuncName(a.fn)
		r.Fn(FuncName(a.fn))
		if len(esc) > 0 || len(back) > 0 {
			where := ""
			if len(esc) > 0 {
				where = "return at " + p.InstrPos(esc[0])
			} else {
				where = "loop continues at " + p.InstrPos(a.sel)
			}
			r.Bad("C10.R4", key, p.InstrPos(a.sel), "after the abort signal a path ("+where+") leaves the producer without closing its output channel: the core loop never sees end-of-data and Stop waits forever")
			continue
		}
		var ks []string
		for k := range closed {
			ks = append(ks, k)
			a.keys[k] = true
			chain[k] = true
		}
		sort.Strings(ks)
		r.OK("C10.R4", key, p.InstrPos(a.sel), "every path from the abort arm closes "+strings.Join(ks, ", "))
	}
	// step 2: every receiver of an intermediate chain channel forwards or closes the next link before returning
	var inter []string
	for k := range chain {
		if k != nextKey {
			inter = append(inter, k)
		}
	}
	sort.Strings(inter)
	for _, x := range inter {
		nrecv := 0
		for _, fn := range p.LibFuncs() {
			Instrs(fn, func(in ssa.Instruction) {
				isRecv := false
				switch v := in.(type) {
				case *ssa.UnOp:
					if v.Op == token.ARROW && chanKey(v.X) == x {
						isRecv = true
					}
				case *ssa.Select:
					for _, st := range v.States {
						if st.Dir == types.RecvOnly && chanKey(st.Chan) == x {
							isRecv = true
						}
					}
				}
				if !isRecv {
					return
				}
				nrecv++
				r.Fn(FuncName(fn))
				dcs := deferredCloses(fn)
				barrier := func(y ssa.Instruction) bool {
					if _, isDefer := y.(*ssa.Defer); isDefer {
						return false
					}
					if s, ok := y.(*ssa.Send); ok && chain[chanKey(s.Chan)] {
						return true
					}
					if k := closeOf(y); k != "" && chain[k] {
						return true
					}
					if _, isRD := y.(*ssa.RunDefers); isRD {
						for _, d := range dcs {
							if chain[closeOf(d)] && d.Block().Dominates(y.Block()) {
								return true
							}
						}
					}
					return false
				}
				esc := ReachAvoiding(fn, in, barrier, isReturn)
				key := "receiver of " + x + " in " + FuncName(fn)
				if len(esc) > 0 {
					r.Bad("C10.R4", key, p.InstrPos(in), fmt.Sprintf("having received from %s (data or end-of-data) the goroutine can return at %s without forwarding a block or closing %s: end-of-data is lost and Stop waits forever", x, p.InstrPos(esc[0]), nextKey))
				} else {
					r.OK("C10.R4", key, p.InstrPos(in), "forwards a block or closes the next link before every return")
				}
				// and the closed case must actually be noticed: a comma-ok receive or a zero-value test
			})
		}
		if nrecv == 0 {
			r.Bad("C10.R4", "receiver of "+x, "-", "the channel closed on abort has no receiver: end-of-data never reaches the core loop")
		}
	}
	// step 3: looping senders on the next-block channel need an abort arm (or are fed by a chain channel)
	for _, g := range gors {
		fn := g.fn
		loops := false
		var at ssa.Instruction
		Instrs(fn, func(in ssa.Instruction) {
			if s, ok := in.(*ssa.Send); ok && chanKey(s.Chan) == nextKey && InLoop(in) {
				loops = true
				at = in
			}
		})
		if !loops {
			continue
		}
		has := false
		for _, a := range arms {
			if a.fn == fn {
				has = true
			}
		}
		r.Check(has, "C10.R4", "looping producer "+FuncName(fn)+" listens for abort", p.InstrPos(at), "select with an abort arm", "a goroutine sends blocks in a loop without ever checking the abort channel: Stop cannot end it")
	}
}

// ---- R5: start failure releases what start acquired -----------------------------------------

// acquisition / release vocabulary: library calls that take / give back an OS or driver resource.
var c10Acquire = map[string]string{
	"net.ListenUDP": "udp socket",
	"net.DialUDP":   "udp socket",
	"(*github.com/usnistgov/dastard/ringbuffer.RingBuffer).Open":     "ring buffer",
	"(*github.com/usnistgov/dastard/lancero.Lancero).StartAdapter":   "lancero adapter",
	"(*github.com/usnistgov/dastard/lancero.Lancero).StartCollector": "lancero collector",
}
var c10Release = map[string]string{
	"(*net.UDPConn).Close": "udp socket",
	"(*github.com/usnistgov/dastard/ringbuffer.RingBuffer).Close":   "ring buffer",
	"(*github.com/usnistgov/dastard/lancero.Lancero).StopAdapter":   "lancero adapter",
	"(*github.com/usnistgov/dastard/lancero.Lancero).StopCollector": "lancero collector",
}

func (c *c10ctx) ruleR5() {
	// built in a later step (see DESIGN.md section 6); the vocabulary above is kept here
	_ = c10Acquire
	_ = c10Release
}
