package main

// Sparse conditional constant propagation over one SSA function, under an assumption about some of
// its parameters (and free variables): which blocks can execute, and which values are constants,
// when the function is entered with those arguments.  No code is run: this is the classic
// Wegman-Zadeck lattice analysis (unknown-yet / one constant / varying), with integer, boolean
// and function-value constants.  Rules use it to look at a request handler one request value at
// a time ("what does SetCoupling do when status == FBToErr").

import (
	"go/constant"
	"go/token"

	"golang.org/x/tools/go/ssa"
)

type latKind int

const (
	latTop latKind = iota // not known yet
	latConst
	latBottom // varies
)

type lat struct {
	k  latKind
	c  constant.Value // integer or boolean constant
	fn *ssa.Function  // or a function value (closure bindings are not tracked)
	mc *ssa.MakeClosure
}

func latInt(n int64) lat    { return lat{k: latConst, c: constant.MakeInt64(n)} }
func latBool(b bool) lat    { return lat{k: latConst, c: constant.MakeBool(b)} }
func (a lat) isConst() bool { return a.k == latConst }
func (a lat) equal(b lat) bool {
	if a.k != b.k {
		return false
	}
	if a.k != latConst {
		return true
	}
	if (a.c == nil) != (b.c == nil) || a.fn != b.fn {
		return false
	}
	return a.c == nil || constant.Compare(a.c, token.EQL, b.c)
}
func (a lat) meet(b lat) lat {
	switch {
	case a.k == latTop:
		return b
	case b.k == latTop:
		return a
	case a.k == latBottom || b.k == latBottom:
		return lat{k: latBottom}
	case a.equal(b):
		return a
	}
	return lat{k: latBottom}
}

type sccpResult struct {
	fn   *ssa.Function
	exec map[*ssa.BasicBlock]bool
	edge map[[2]*ssa.BasicBlock]bool
	val  map[ssa.Value]lat
	env  map[ssa.Value]lat
	// fieldEnv: assumed values of struct fields, by field name (every load of a field of that
	// name is taken to yield the value; the caller chooses names that are unambiguous and not
	// stored to in the analysed function)
	fieldEnv map[string]lat
}

// sccpFields: as sccp, with assumptions about fields read in the function.
func sccpFields(fn *ssa.Function, env map[ssa.Value]lat, fieldEnv map[string]lat) *sccpResult {
	return sccpWith(fn, env, fieldEnv)
}

// Get: the lattice value of v under the assumption.
func (s *sccpResult) Get(v ssa.Value) lat {
	switch x := v.(type) {
	case *ssa.Const:
		if x.Value == nil {
			return lat{k: latBottom}
		}
		switch x.Value.Kind() {
		case constant.Int, constant.Bool:
			return lat{k: latConst, c: x.Value}
		}
		return lat{k: latBottom}
	case *ssa.Function:
		return lat{k: latConst, fn: x}
	case *ssa.Parameter, *ssa.FreeVar:
		if l, ok := s.env[v]; ok {
			return l
		}
		return lat{k: latBottom}
	}
	if l, ok := s.val[v]; ok {
		return l
	}
	if _, isInstr := v.(ssa.Instruction); isInstr {
		return lat{k: latTop}
	}
	return lat{k: latBottom}
}

// Executable: the instruction's block can run under the assumption.
func (s *sccpResult) Executable(in ssa.Instruction) bool { return s.exec[in.Block()] }

// EdgeExecutable: control can pass from a to b under the assumption.
func (s *sccpResult) EdgeExecutable(a, b *ssa.BasicBlock) bool {
	return s.edge[[2]*ssa.BasicBlock{a, b}]
}

func sccp(fn *ssa.Function, env map[ssa.Value]lat) *sccpResult { return sccpWith(fn, env, nil) }

func sccpWith(fn *ssa.Function, env map[ssa.Value]lat, fieldEnv map[string]lat) *sccpResult {
	s := &sccpResult{fn: fn, exec: map[*ssa.BasicBlock]bool{}, edge: map[[2]*ssa.BasicBlock]bool{}, val: map[ssa.Value]lat{}, env: env, fieldEnv: fieldEnv}
	if len(fn.Blocks) == 0 {
		return s
	}
	s.exec[fn.Blocks[0]] = true
	for changed := true; changed; {
		changed = false
		mark := func(a, b *ssa.BasicBlock) {
			k := [2]*ssa.BasicBlock{a, b}
			if !s.edge[k] {
				s.edge[k] = true
				changed = true
			}
			if !s.exec[b] {
				s.exec[b] = true
				changed = true
			}
		}
		set := func(v ssa.Value, l lat) {
			old := s.val[v]
			n := old.meet(l)
			if !n.equal(old) || (old.k == latTop && n.k != latTop) {
				s.val[v] = n
				changed = true
			}
		}
		for _, b := range fn.Blocks {
			if !s.exec[b] {
				continue
			}
			for _, in := range b.Instrs {
				// an assumption about the value of this very instruction (a comparison taken as an atom)
				if v, isV := in.(ssa.Value); isV && s.env != nil {
					if l, has := s.env[v]; has {
						set(v, l)
						continue
					}
				}
				switch x := in.(type) {
				case *ssa.Phi:
					l := lat{k: latTop}
					for i, e := range x.Edges {
						if s.edge[[2]*ssa.BasicBlock{b.Preds[i], b}] {
							l = l.meet(s.Get(e))
						}
					}
					if l.k != latTop {
						set(x, l)
					}
				case *ssa.BinOp:
					set(x, s.foldBin(x))
				case *ssa.UnOp:
					if x.Op == token.MUL && s.fieldEnv != nil {
						if _, f, _, ok := FieldOf(x); ok {
							if l, has := s.fieldEnv[f]; has {
								set(x, l)
								continue
							}
						}
					}
					a := s.Get(x.X)
					switch {
					case a.k == latTop:
					case a.k == latConst && a.c != nil && x.Op == token.NOT && a.c.Kind() == constant.Bool:
						set(x, latBool(!constant.BoolVal(a.c)))
					case a.k == latConst && a.c != nil && x.Op == token.SUB && a.c.Kind() == constant.Int:
						set(x, lat{k: latConst, c: constant.UnaryOp(token.SUB, a.c, 0)})
					default:
						set(x, lat{k: latBottom})
					}
				case *ssa.Convert:
					a := s.Get(x.X)
					if a.k == latConst && a.c != nil && a.c.Kind() == constant.Int && isIntLike(x.Type()) {
						set(x, a)
					} else if a.k != latTop {
						set(x, lat{k: latBottom})
					}
				case *ssa.ChangeType:
					if a := s.Get(x.X); a.k != latTop {
						set(x, a)
					}
				case *ssa.MakeClosure:
					set(x, lat{k: latConst, fn: x.Fn.(*ssa.Function), mc: x})
				case *ssa.If:
					c := s.Get(x.Cond)
					switch {
					case c.k == latTop:
					case c.k == latConst && c.c != nil && c.c.Kind() == constant.Bool:
						if constant.BoolVal(c.c) {
							mark(b, b.Succs[0])
						} else {
							mark(b, b.Succs[1])
						}
					default:
						mark(b, b.Succs[0])
						mark(b, b.Succs[1])
					}
				case *ssa.Jump:
					mark(b, b.Succs[0])
				default:
					if v, ok := in.(ssa.Value); ok {
						set(v, lat{k: latBottom})
					}
				}
			}
		}
	}
	return s
}

func (s *sccpResult) foldBin(x *ssa.BinOp) lat {
	a, b := s.Get(x.X), s.Get(x.Y)
	if a.k == latTop || b.k == latTop {
		return lat{k: latTop}
	}
	if a.k != latConst || b.k != latConst || a.c == nil || b.c == nil || a.c.Kind() != b.c.Kind() {
		return lat{k: latBottom}
	}
	switch x.Op {
	case token.EQL, token.NEQ, token.LSS, token.LEQ, token.GTR, token.GEQ:
		if a.c.Kind() == constant.Bool && x.Op != token.EQL && x.Op != token.NEQ {
			return lat{k: latBottom}
		}
		return latBool(constant.Compare(a.c, x.Op, b.c))
	case token.ADD, token.SUB, token.MUL:
		if a.c.Kind() == constant.Int {
			return lat{k: latConst, c: constant.BinaryOp(a.c, x.Op, b.c)}
		}
	case token.AND, token.OR:
		if a.c.Kind() == constant.Int {
			return lat{k: latConst, c: constant.BinaryOp(a.c, x.Op, b.c)}
		}
	}
	return lat{k: latBottom}
}

// reachExec: b can be reached from a along executable edges (a itself only through a cycle).
func (s *sccpResult) reachExec(a, b *ssa.BasicBlock) bool {
	seen := map[*ssa.BasicBlock]bool{}
	stack := []*ssa.BasicBlock{}
	for _, sc := range a.Succs {
		if s.EdgeExecutable(a, sc) {
			stack = append(stack, sc)
		}
	}
	for len(stack) > 0 {
		x := stack[len(stack)-1]
		stack = stack[:len(stack)-1]
		if seen[x] {
			continue
		}
		seen[x] = true
		if x == b {
			return true
		}
		for _, sc := range x.Succs {
			if s.EdgeExecutable(x, sc) {
				stack = append(stack, sc)
			}
		}
	}
	return false
}

func constantToInt64(l lat) (int64, bool) {
	if l.c == nil || l.c.Kind() != constant.Int {
		return 0, false
	}
	return constant.Int64Val(l.c)
}
