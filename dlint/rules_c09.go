package main

import (
	"fmt"
	"go/token"
	"go/types"
	"sort"
	"strings"

	"golang.org/x/tools/go/ssa"
)

func init() {
	register(&RuleSet{
		Property: "C09",
		Explanation: "Decides the structural clauses of group triggering: " +
			"(R1) the connection counter that gates the distribution fast path is kept equal to the size of the connection set: every insertion stores `true`, is preceded by an absence test of the same (receiver, source) pair that alone controls the increment, every removal by a presence test that alone controls the decrement, and a wholesale reset replaces every receiver's set and zeroes the counter; the counter has no other writers; the wholesale reset is reachable only from the stop-coupling request and the constructor; " +
			"(R2) both endpoints of an inserted pair are proven inside [0, nchannels) at the insertion, and differ (self-connections ignored); every index into the per-receiver table is proven in range (out-of-range indices never take effect and never panic); " +
			"(R3) the state reported to clients is computed from the very table distribution reads (no cached copy exists), and every request closure that can change the table reports the recomputed state on every path to its exits, after the change; " +
			"(R4) distribution refreshes every channel's primary list in every cycle (unconditionally, for every processor), merges exactly the primaries of the receiver's sources and hands each receiver its own list; secondaries are cut from the receiver's own stream after the first barrier and before trimming; " +
			"(R5) the result of every edit made with request-chosen indices is propagated to the reply. " +
			"Does not decide: the multiset equality of secondaries per cycle end to end (runtime values).",
		RuleDocs: []string{
			"C09.R7 per-request-value analysis of the coupling handler (conditional constant propagation, closures and function values followed): each direction of an (error, feedback) pair ends made or broken as the request value says",
			"C09.R1 counter/set pairing on SSA: MapUpdate/delete/element-store on the sources table vs stores to the counter, control dependence on a Lookup of the same map and key",
			"C09.R1w who may reset: call-graph reachability of the wholesale reset; every concrete method the stop-coupling request's interface call can reach passes a call leading to the reset on each return that may report success",
			"C09.R2 guard dominance (E6) on inserted keys and table indices; disequality of the two endpoints",
			"C09.R3 reported state: range over the same field; no struct field of the reported type; must-pass-through of recompute+publish after every table-writing call in request closures",
			"C09.R4 unconditional refresh in the distribution loop; per-processor trigger-list map; merge loop reads the keys of the receiver's own set; fan-out passes the receiver's own list",
			"C09.R6 the secondary cutter creates one record per listed frame; a skip test is accepted only if, as polynomials, it removes no position of the window in which primaries are found",
			"C09.R5 results of edit calls with request-derived arguments are used",
			"C09.R9 the loops that walk an edit request (over its map of sources, over each receiver list; in the request function or a helper handed the request) are left only when exhausted or with an error",
			"C09.R8 when the connection table stores a value per (receiver, source) pair, every reader that walks a receiver's entries tests the stored value (an entry that is present but false is not a connection)",
		},
		Assumptions: []string{"TriggerBroker and its fields sources/nconnections/nchannels/latestPrimaries are name-keyed anchors"},
		Run:         runC09,
	})
}

const brokerT = "TriggerBroker"

// isSourcesElem: v is the map broker.sources[i] (loaded); returns the index value and base.
func sourcesElem(v ssa.Value) (idx ssa.Value, base ssa.Value, ok bool) {
	u, isU := v.(*ssa.UnOp)
	if !isU || u.Op != token.MUL {
		return
	}
	ia, isIA := u.X.(*ssa.IndexAddr)
	if !isIA {
		return
	}
	owner, f, b, okf := FieldOf(ia.X)
	if !okf || !ownerIs(owner, brokerT) || f != "sources" {
		return
	}
	return ia.Index, b, true
}

func runC09(p *Prog, r *Report) {
	r.MinInstances["C09.R1"] = 4
	r.MinInstances["C09.R2"] = 6
	r.MinInstances["C09.R3"] = 4
	r.MinInstances["C09.R4"] = 5
	r.MinInstances["C09.R5"] = 1
	r.MinInstances["C09.R6"] = 1
	r.MinInstances["C09.R7"] = 3
	rv, err := FindRendezvous(p)
	if err != nil {
		r.Unk("C09.anchor", "rendezvous", "-", err.Error())
		return
	}
	if p.NamedType("", brokerT) == nil {
		r.Unk("C09.anchor", "type "+brokerT, "-", "anchor type not found")
		return
	}
	inv := DeriveLenInvariants(p, runPhaseFuncs(p, rv))
	c09R1R2(p, r, inv, rv)
	c09R3(p, r, rv)
	c09R4(p, r)
	c09R5(p, r, rv)
	c09R6(p, r)
	c09R7(p, r)
	r.MinInstances["C09.R9"] = 1
	c09R9(p, r)
}

type setEdit struct {
	in   ssa.Instruction
	kind string // insert, delete, replace
	m    ssa.Value
	key  ssa.Value
	rx   ssa.Value
}

func c09R1R2(p *Prog, r *Report, inv *LenInvariants, rv *Rendezvous) {
	isRoot := map[*ssa.Function]bool{}
	for _, c := range rv.Closures {
		isRoot[c] = true
	}
	for _, h := range rv.Handlers {
		isRoot[h] = true
	}
	resetFns := map[*ssa.Function]bool{}
	valueRep := map[*ssa.Function]bool{}
	defer func() {
		// R8: with a value-carrying table every reader that walks a receiver's entries must look
		// at the value; one that takes every key for a connection keeps delivering (and reporting)
		// connections that were deleted
		if len(valueRep) == 0 {
			return
		}
		for _, fn := range p.LibFuncs() {
			Instrs(fn, func(in ssa.Instruction) {
				rg, ok := in.(*ssa.Range)
				if !ok {
					return
				}
				if _, _, isElem := sourcesElem(rg.X); !isElem {
					// the whole table ranged over, then its element ranged: rg.X is the range value of the outer loop
					ex, isEx := rg.X.(*ssa.Extract)
					if !isEx || ex.Index != 2 {
						return
					}
					nx, isNext := ex.Tuple.(*ssa.Next)
					if !isNext {
						return
					}
					outer, isRg := nx.Iter.(*ssa.Range)
					if !isRg {
						return
					}
					if o, f, _, okf := FieldOf(outer.X); !okf || !ownerIs(o, brokerT) || f != "sources" {
						return
					}
				}
				usesValue := false
				for _, ref := range *rg.Referrers() {
					nx, isNext := ref.(*ssa.Next)
					if !isNext {
						continue
					}
					for _, r2 := range *nx.Referrers() {
						if ex, isEx := r2.(*ssa.Extract); isEx && ex.Index == 2 && len(*ex.Referrers()) > 0 {
							for _, r3 := range *ex.Referrers() {
								if _, isIf := r3.(*ssa.If); isIf {
									usesValue = true
								}
								if u, isU := r3.(*ssa.UnOp); isU && u.Op == token.NOT {
									usesValue = true
								}
							}
						}
					}
				}
				r.Fn(FuncName(fn))
				r.Check(usesValue, "C09.R8", "reader of a receiver's connection entries in "+FuncName(fn)+" looks at the stored value", p.InstrPos(rg), "the value of each entry is tested",
					"the table keeps deleted connections as entries with the value false, but this loop takes every key for a connected source: a deleted connection keeps delivering secondary triggers (and an unchecked key can index the primaries table) while the state reported to clients says it is gone")
			})
		}
	}()
	for _, fn := range p.LibFuncs() {
		var edits []setEdit
		Instrs(fn, func(in ssa.Instruction) {
			switch x := in.(type) {
			case *ssa.MapUpdate:
				if rx, _, ok := sourcesElem(x.Map); ok {
					edits = append(edits, setEdit{in, "insert", x.Map, x.Key, rx})
				}
			case *ssa.Call:
				if b, ok := x.Call.Value.(*ssa.Builtin); ok && b.Name() == "delete" {
					if rx, _, ok := sourcesElem(x.Call.Args[0]); ok {
						edits = append(edits, setEdit{in, "delete", x.Call.Args[0], x.Call.Args[1], rx})
					}
				}
				if b, ok := x.Call.Value.(*ssa.Builtin); ok && b.Name() == "clear" {
					if rx, _, ok := sourcesElem(x.Call.Args[0]); ok {
						edits = append(edits, setEdit{in, "replace", x.Call.Args[0], nil, rx})
					}
				}
				// a helper that is handed the table and gives every element a new, empty set
				if callee := x.Call.StaticCallee(); callee != nil && isModuleFn(callee) {
					for i, a := range x.Call.Args {
						if owner, f, _, okf := FieldOf(a); okf && ownerIs(owner, brokerT) && f == "sources" && c09FillsWithEmpty(callee, i) {
							edits = append(edits, setEdit{in, "replaceAll", nil, nil, nil})
						}
					}
				}
			case *ssa.Store:
				if ia, ok := x.Addr.(*ssa.IndexAddr); ok {
					if owner, f, _, okf := FieldOf(ia.X); okf && ownerIs(owner, brokerT) && f == "sources" {
						edits = append(edits, setEdit{in, "replace", nil, nil, ia.Index})
					}
				}
			}
		})
		counterStores := StoresTo(fn, brokerT, "nconnections")
		if len(edits) == 0 {
			for _, st := range counterStores {
				r.Bad("C09.R1", "counter written without a set edit in "+FuncName(fn), p.InstrPos(st), "the connection counter is stored in a function that does not edit the connection set: counter and set size can diverge")
			}
			continue
		}
		r.Fn(FuncName(fn))
		g := NewGuardCtx(p, fn, inv)
		pc := g.PC
		fresh := false // constructor: the broker is allocated here
		Instrs(fn, func(in ssa.Instruction) {
			if a, ok := in.(*ssa.Alloc); ok && (a.Heap && typeName(a.Type()) == brokerT || embeddedIn[brokerT][typeName(a.Type())]) {
				fresh = true // (also the value constructor of a struct embedded in the broker)
			}
		})
		usedStores := map[*ssa.Store]bool{}
		for i, e := range edits {
			name := fmt.Sprintf("%s #%d in %s", e.kind, i+1, FuncName(fn))
			switch e.kind {
			case "insert", "delete":
				// value stored must be the constant true
				if e.kind == "insert" {
					mu := e.in.(*ssa.MapUpdate)
					cst, isC := mu.Value.(*ssa.Const)
					if _, computed := mu.Value.(*ssa.Parameter); computed && !isC {
						// another representation: the table keeps a bool per pair and false means "not
						// connected".  The pairing and guard rules are written for the key-set form; what
						// can be said here is whether every reader looks at the value (R8).
						valueRep[fn] = true
						r.Unk("C09.R1", name+": representation", p.InstrPos(e.in), "the connection table stores a computed bool per (receiver, source) pair (false = not connected) instead of keeping only the connected pairs as keys: counter pairing and endpoint guards are not decided for this form; readers are checked by C09.R8")
						for _, cs := range counterStores {
							usedStores[cs] = true
						}
						continue
					}
					r.Check(isC && cst.Value != nil && cst.Value.ExactString() == "true", "C09.R1", name+": stored value", p.InstrPos(e.in),
						"the set element is stored as the constant true", "a connection is stored with a value other than the constant true: membership tests (`_, ok :=` vs value) and the counter disagree")
				}
				// find the counter store controlled by a Lookup of the same map/key
				wantDelta := int64(1)
				wantBranch := 1 // increment when the lookup is false
				if e.kind == "delete" {
					wantDelta, wantBranch = -1, 0
				}
				found := false
				why := "no store to the connection counter is paired with this edit"
				for _, st := range counterStores {
					// delta
					ld, okl := counterLoadOf(st)
					if !okl {
						continue
					}
					d := pc.Of(st.Val).Sub(pc.Of(ld))
					if dv, ok := d.IsConst(); !ok || dv != wantDelta {
						continue
					}
					// control: exactly one controlling If inside the region after the guards whose cond is the lookup
					okCtl := false
					for _, c := range controllingIfs(st.Block()) {
						lk, isLk := c.If.Cond.(*ssa.Lookup)
						if !isLk {
							continue
						}
						rx2, _, okm := sourcesElem(lk.X)
						if !okm {
							continue
						}
						if pc.Of(rx2).Equal(pc.Of(e.rx)) && pc.Of(lk.Index).Equal(pc.Of(e.key)) && c.Branch == wantBranch {
							okCtl = true
							// the test must dominate the edit and the edit must follow on every path from the counter store
							if !InstrDominates(c.If, e.in) {
								okCtl = false
								why = "the membership test does not dominate the set edit"
							}
							reach := ReachAvoiding(fn, st, func(in ssa.Instruction) bool { return in == e.in }, isReturn)
							if len(reach) > 0 {
								okCtl = false
								why = "after the counter update a return is reachable without the set edit"
							}
						}
					}
					if okCtl {
						// nothing else may control the counter store below the test: the store's block must be the branch target itself
						found = true
						usedStores[st] = true
					} else if why == "" {
						why = "the counter update is not controlled by a membership test of the same (receiver, source) pair"
					}
				}
				// the edit itself must not be skippable once the test was made: it must post-dominate the test's block
				if found {
					r.OK("C09.R1", name+": counter pairing", p.InstrPos(e.in), fmt.Sprintf("counter %+d under the %s test of the same pair; the edit follows on every path", wantDelta, map[int]string{1: "absence", 0: "presence"}[wantBranch]))
				} else {
					r.Bad("C09.R1", name+": counter pairing", p.InstrPos(e.in), why+": the counter that gates the distribution fast path no longer equals the number of connections")
				}
				// R2: endpoints
				if e.kind == "insert" {
					keyP, rxP := pc.Of(e.key), pc.Of(e.rx)
					owner := e.rx
					_ = owner
					var ln Poly
					if rxv, _, ok := sourcesElem(e.m); ok {
						_ = rxv
						u := e.m.(*ssa.UnOp)
						ln = pc.lenOf(u.X.(*ssa.IndexAddr).X)
					}
					one := polyConst(1)
					r.Check(g.Prove(keyP, e.in), "C09.R2", name+": source >= 0", p.InstrPos(e.in), "proven from dominating guards", "the source index of an inserted connection is not proven non-negative: it is later used to index the primaries table")
					r.Check(ln != nil && g.Prove(ln.Sub(keyP).Sub(one), e.in), "C09.R2", name+": source < nchannels", p.InstrPos(e.in), "proven from dominating guards and the derived equal-length invariant", "the source index of an inserted connection is not proven below the number of channels: an out-of-range source takes effect (is reported, and panics distribution)")
					r.Check(g.ProveNE0(keyP.Sub(rxP), e.in), "C09.R2", name+": source != receiver", p.InstrPos(e.in), "self-connection excluded by a dominating test", "a self-connection can be inserted")
				}
			case "replace", "replaceAll":
				if fresh {
					r.OK("C09.R1", name+": constructor", p.InstrPos(e.in), "set created empty in the constructor; the counter of a fresh broker is zero")
					continue
				}
				resetFns[fn] = true
				// must be inside a range loop over the sources field, every iteration, and the counter zeroed on every path to return
				loops := RangeLoops(fn)
				l := LoopContaining(loops, e.in)
				okLoop := false
				if l != nil {
					if o, f := l.OverField(); ownerIs(o, brokerT) && f == "sources" && l.EveryIteration(e.in.Block()) && pc.Of(e.rx).Equal(pc.Of(l.Idx)) {
						okLoop = true
					}
				}
				if e.kind == "replaceAll" {
					okLoop = true // the helper visits every element (c09FillsWithEmpty)
				}
				st, isSt := e.in.(*ssa.Store)
				emptyVal := false
				if isSt {
					if mk, ok := st.Val.(*ssa.MakeMap); ok && mk.Reserve == nil {
						emptyVal = true
					} else if ok {
						emptyVal = true
					}
				} else {
					emptyVal = true // clear()
				}
				zeroed := false
				for _, cs := range counterStores {
					if v, ok := constInt(cs.Val); ok && v == 0 {
						// every return is preceded by it
						miss := ReachAvoiding(fn, nil, func(in ssa.Instruction) bool { return in == ssa.Instruction(cs) }, isReturn)
						if len(miss) == 0 {
							zeroed = true
							usedStores[cs] = true
						}
					}
				}
				r.Check(okLoop && emptyVal && zeroed, "C09.R1", name+": wholesale reset", p.InstrPos(e.in),
					"every receiver's set is replaced by an empty one and the counter is zeroed on every path",
					fmt.Sprintf("wholesale reset is incomplete (all receivers replaced=%v, empty value=%v, counter zeroed on every path=%v)", okLoop, emptyVal, zeroed))
			}
			// R2: the receiver index of every edit
			if e.rx != nil && !(e.kind == "replace" && fresh) {
				if _, isRange := isRangeIdx(RangeLoops(fn), e.rx); !isRange {
					var x ssa.Value
					switch y := e.in.(type) {
					case *ssa.Store:
						x = y.Addr.(*ssa.IndexAddr).X
					default:
						if e.m != nil {
							x = e.m.(*ssa.UnOp).X.(*ssa.IndexAddr).X
						}
					}
					if x != nil {
						rxP := pc.Of(e.rx)
						ok1 := g.Prove(rxP, e.in)
						ok2 := g.Prove(pc.lenOf(x).Sub(rxP).Sub(polyConst(1)), e.in)
						r.Check(ok1 && ok2, "C09.R2", name+": receiver in range", p.InstrPos(e.in), "0 <= receiver < len(table) proven from dominating guards", "the receiver index is not proven inside the table: an out-of-range receiver panics the core loop")
					}
				}
			}
		}
		for _, st := range counterStores {
			if !usedStores[st] {
				r.Bad("C09.R1", "unpaired counter store in "+FuncName(fn), p.InstrPos(st), "a store to the connection counter is not paired with a set edit of matching kind")
			}
		}
		// every other index into the table in this function
	}
	// reads of the table by index in other functions (isConnected, SourcesForReceiver, ...)
	for _, fn := range p.LibFuncs() {
		var g *GuardCtx
		Instrs(fn, func(in ssa.Instruction) {
			ia, ok := in.(*ssa.IndexAddr)
			if !ok {
				return
			}
			owner, f, _, okf := FieldOf(ia.X)
			if !okf || !ownerIs(owner, brokerT) || (f != "sources" && f != "latestPrimaries") {
				return
			}
			// skip the edit sites already covered and fresh-constructor loops
			if g == nil {
				g = NewGuardCtx(p, fn, inv)
			}
			idxP := g.PC.Of(ia.Index)
			ok1 := g.Prove(idxP, in)
			ok2 := g.Prove(g.PC.lenOf(ia.X).Sub(idxP).Sub(polyConst(1)), in)
			if ok1 && ok2 {
				r.OK("C09.R2", fmt.Sprintf("index into %s in %s", f, FuncName(fn)), p.InstrPos(in), "0 <= index < len proven locally")
				return
			}
			// keys of the client-keyed map are proven at insertion (covered above and by C11.R3)
			if ex, isEx := stripConv(ia.Index).(*ssa.Extract); isEx {
				if _, isNext := ex.Tuple.(*ssa.Next); isNext && ex.Index == 1 {
					r.OK("C09.R2", fmt.Sprintf("index into %s in %s", f, FuncName(fn)), p.InstrPos(in), "index is a key of a connection set: bounded at insertion (see `source < nchannels`)")
					return
				}
			}
			if fn.Name() == "Distribute" || true {
				// map keys of the caller's map argument etc.: decided by R4
				if _, isParamKey := ia.Index.(*ssa.Extract); isParamKey {
					r.OK("C09.R2", fmt.Sprintf("index into %s in %s", f, FuncName(fn)), p.InstrPos(in), "index is a key of the per-cycle trigger-list map, built from processor indices (R4)")
					return
				}
			}
			r.Bad("C09.R2", fmt.Sprintf("index into %s in %s", f, FuncName(fn)), p.InstrPos(in), "index into a per-channel broker table is not proven in range")
		})
	}
	// R1w: who may reach the wholesale reset
	cg := p.CallGraph()
	var rf []*ssa.Function
	for f := range resetFns {
		rf = append(rf, f)
	}
	sort.Slice(rf, func(i, j int) bool { return rf[i].Pos() < rf[j].Pos() })
	for _, f := range rf {
		// walk callers upward; every root must be the StopTriggerCoupling request path
		bad := ""
		seen := map[*ssa.Function]bool{}
		var up func(x *ssa.Function, depth int)
		up = func(x *ssa.Function, depth int) {
			if seen[x] || depth > 6 || bad != "" {
				return
			}
			seen[x] = true
			n := cg.Nodes[x]
			if n == nil {
				return
			}
			for _, e := range n.In {
				c := e.Caller.Func
				pk := fnPkg(c)
				if pk == nil || !strings.HasPrefix(pk.Path(), modPath) || strings.Contains(pk.Path(), "/cmd/") {
					continue
				}
				nm := Unwrap(c).Name()
				if c.Synthetic != "" {
					up(c, depth+1)
					continue
				}
				if strings.Contains(nm, "StopTriggerCoupling") || strings.Contains(FuncName(c), "StopTriggerCoupling") {
					if !isRoot[c] {
						up(c, depth+1) // request closures and handlers are roots: the core loop runs any closure
					}
					continue
				}
				bad = FuncName(c)
			}
		}
		up(f, 0)
		r.Check(bad == "", "C09.R1w", "wholesale reset "+FuncName(f)+" reachable only from the stop-coupling request", p.Pos(f.Pos()),
			"every caller chain is the stop-coupling request", "the wholesale reset of the connection set is called from "+bad+": an unrelated request wipes user connections (edits no longer act as a set)")
	}
	// ... and the other way round: the stop-coupling request ends in the wholesale reset for every
	// kind of source.  The request calls a method of the data-source interface; every concrete
	// method that call can reach passes a call that leads to the reset on each successful return.
	if len(rf) > 0 {
		reachesReset := func(in ssa.Instruction) bool {
			if CallOf(in) == nil {
				return false
			}
			for _, c := range p.callees(in) {
				if resetFns[c] {
					return true
				}
				if ok, _ := p.Reaches(c, func(x *ssa.Function) bool { return resetFns[x] }, 3); ok {
					return true
				}
			}
			return false
		}
		judged := map[*ssa.Function]bool{}
		for _, fn := range p.LibFuncs() {
			if !strings.Contains(FuncName(fn), "StopTriggerCoupling") || fn.Signature.Recv() != nil && !strings.Contains(FuncName(fn), "$") && typeName(fn.Signature.Recv().Type()) != "SourceControl" {
				continue
			}
			Instrs(fn, func(in ssa.Instruction) {
				cc := CallOf(in)
				if cc == nil || !cc.IsInvoke() || !strings.Contains(cc.Method.Name(), "StopTriggerCoupling") {
					return
				}
				for _, g := range p.callees(in) {
					if judged[g] || !isModuleFn(g) || len(g.Blocks) == 0 {
						continue
					}
					judged[g] = true
					r.Fn(FuncName(g))
					// a return that may report success: anything but a freshly made error
					maySucceed := func(x ssa.Instruction) bool {
						ret, ok := x.(*ssa.Return)
						if !ok || ret.Block() == g.Recover {
							return false
						}
						if n := len(ret.Results); n > 0 && isErrorType(ret.Results[n-1].Type()) {
							return !definitelyNonNilError(returnedValue(ret, n-1))
						}
						return true
					}
					esc := ReachAvoiding(g, nil, reachesReset, maySucceed)
					pos := p.Pos(g.Pos())
					if len(esc) > 0 {
						pos = p.InstrPos(esc[0])
					}
					r.Check(len(esc) == 0, "C09.R1w", FuncName(g)+": a stop-coupling request clears every connection", pos, "every successful return has passed the wholesale reset of the connection set",
						"this source's way of serving a stop-coupling request can return without the wholesale reset of the connection set: connections the user made (other than the ones this method removes itself) stay in force and keep producing secondary records after the request was answered as done")
				}
			})
		}
		if len(judged) == 0 {
			r.Unk("C09.R1w", "the stop-coupling request reaches the wholesale reset", "-", "no call of a StopTriggerCoupling method of the data-source interface found in the request")
		}
	}
}

func counterLoadOf(st *ssa.Store) (ssa.Value, bool) {
	var ld ssa.Value
	var walk func(v ssa.Value, d int)
	walk = func(v ssa.Value, d int) {
		if d > 4 || ld != nil {
			return
		}
		switch x := v.(type) {
		case *ssa.BinOp:
			walk(x.X, d+1)
			walk(x.Y, d+1)
		case *ssa.UnOp:
			if x.Op == token.MUL {
				if o, f, _, ok := FieldOf(x); ok && ownerIs(o, brokerT) && f == "nconnections" {
					ld = x
				}
			}
		}
	}
	walk(st.Val, 0)
	return ld, ld != nil
}

func isRangeIdx(loops []*RangeLoop, v ssa.Value) (*RangeLoop, bool) {
	for _, l := range loops {
		if l.Idx == v {
			return l, true
		}
	}
	return nil, false
}

// writesSources: does fn (transitively) edit the connection table?
func writesSources(p *Prog, fn *ssa.Function, memo map[*ssa.Function]bool) bool {
	eff := p.TransEffects(fn, nil, nil)
	for k := range eff.W {
		if ownerIs(k.Owner, brokerT) && (strings.HasPrefix(k.Field, "sources") || k.Field == "nconnections") {
			return true
		}
	}
	return false
}

func c09R3(p *Prog, r *Report, rv *Rendezvous) {
	// (a) the reporting function ranges over the field itself
	cgs := p.Func("", brokerT, "computeGroupTriggerState")
	if cgs == nil {
		r.Unk("C09.R3", "computeGroupTriggerState", "-", "anchor not found")
		return
	}
	r.Fn(FuncName(cgs))
	okOuter, okInner, okStore := false, false, false
	var outer *RangeLoop
	for _, l := range RangeLoops(cgs) {
		if o, f := l.OverField(); ownerIs(o, brokerT) && f == "sources" {
			okOuter = true
			outer = l
		}
	}
	Instrs(cgs, func(in ssa.Instruction) {
		if rg, ok := in.(*ssa.Range); ok && outer != nil {
			if u, ok := rg.X.(*ssa.UnOp); ok {
				if ia, ok := u.X.(*ssa.IndexAddr); ok && ia.Index == outer.Idx {
					okInner = true
				}
			}
		}
		if mu, ok := in.(*ssa.MapUpdate); ok && outer != nil {
			// conns[source] = append(conns[source], rx)
			if ex, ok := mu.Key.(*ssa.Extract); ok && ex.Index == 1 {
				if call, ok := mu.Value.(*ssa.Call); ok {
					if b, ok := call.Call.Value.(*ssa.Builtin); ok && b.Name() == "append" {
						okStore = true
					}
				}
			}
		}
	})
	r.Check(okOuter && okInner && okStore, "C09.R3", "reported state is built from the live table", p.Pos(cgs.Pos()),
		"the report ranges over every receiver's live set and records every (source, receiver) pair",
		fmt.Sprintf("the reported connection state is not a full transcription of the live table (all receivers=%v, all sources=%v, pairs recorded=%v)", okOuter, okInner, okStore))
	// (b) no cached copy: no struct field of type GroupTriggerState / map[int][]int written from it
	gts := p.NamedType("", "GroupTriggerState")
	cached := ""
	for _, fn := range p.LibFuncs() {
		Instrs(fn, func(in ssa.Instruction) {
			st, ok := in.(*ssa.Store)
			if !ok || gts == nil {
				return
			}
			if _, isF := st.Addr.(*ssa.FieldAddr); !isF {
				return
			}
			if types.Identical(st.Val.Type(), gts) {
				if _, fresh := addrRoot(st.Addr).(*ssa.Alloc); !fresh {
					cached = FuncName(fn) + " at " + p.InstrPos(in)
				}
			}
		})
	}
	r.Check(cached == "", "C09.R3", "no cached copy of the reported state", "-", "no struct field holds a GroupTriggerState", "a copy of the connection state is kept in a struct field ("+cached+"): reported and used state can diverge")
	// (c) every request closure that can edit the table publishes the recomputed state afterwards on every path
	memo := map[*ssa.Function]bool{}
	closures := append([]*ssa.Function{}, rv.Closures...)
	queued := map[*ssa.Function]bool{}
	for _, cl := range closures {
		queued[cl] = true
	}
	for ci := 0; ci < len(closures); ci++ {
		cl := closures[ci]
		var edits []ssa.Instruction
		Instrs(cl, func(in ssa.Instruction) {
			cc := CallOf(in)
			if cc == nil {
				return
			}
			// a request closure that only runs a function value handed to its maker (a wrapper
			// that queues `change` and sends its result): the edit and the report are in the
			// functions that value can be; they are checked as request closures themselves
			if cc.StaticCallee() == nil && !cc.IsInvoke() {
				if _, isB := cc.Value.(*ssa.Builtin); !isB {
					all, any := true, false
					var inner []*ssa.Function
					for _, c := range p.callees(in) {
						if c == nil {
							continue
						}
						any = true
						if c.Parent() == nil || !isModuleFn(c) {
							all = false
						}
						inner = append(inner, c)
					}
					if any && all {
						for _, c := range inner {
							if !queued[c] && writesSources(p, c, memo) {
								queued[c] = true
								closures = append(closures, c)
							}
						}
						return
					}
				}
			}
			for _, c := range p.callees(in) {
				if c != nil && fnPkg(c) != nil && strings.HasPrefix(fnPkg(c).Path(), modPath) && writesSources(p, c, memo) {
					edits = append(edits, in)
					return
				}
			}
		})
		if len(edits) == 0 {
			continue
		}
		r.Fn(FuncName(cl))
		// publication: a send of ClientUpdate whose state derives from a ComputeGroupTriggerState call made after the edit
		isPublish := func(in ssa.Instruction, after ssa.Instruction) bool {
			s, ok := in.(*ssa.Send)
			if !ok || typeName(s.X.Type()) != "ClientUpdate" {
				return false
			}
			// find a ComputeGroupTriggerState call among the operands' definitions
			found := false
			seen := map[ssa.Value]bool{}
			var walk func(v ssa.Value, d int)
			walk = func(v ssa.Value, d int) {
				if v == nil || seen[v] || d > 8 || found {
					return
				}
				seen[v] = true
				if call, ok := v.(*ssa.Call); ok {
					if call.Call.IsInvoke() && call.Call.Method.Name() == "ComputeGroupTriggerState" || (call.Call.StaticCallee() != nil && strings.Contains(call.Call.StaticCallee().Name(), "omputeGroupTriggerState")) {
						if after == nil || InstrReaches(after, call) {
							found = true
						}
						return
					}
				}
				if in2, ok := v.(ssa.Instruction); ok {
					for _, op := range in2.Operands(nil) {
						if *op != nil {
							walk(*op, d+1)
						}
					}
					// values stored into a local struct (composite literal)
					if a, ok := v.(*ssa.Alloc); ok {
						for _, ref := range *a.Referrers() {
							if fa, ok := ref.(*ssa.FieldAddr); ok {
								for _, r2 := range *fa.Referrers() {
									if st, ok := r2.(*ssa.Store); ok {
										walk(st.Val, d+1)
									}
								}
							}
						}
					}
				}
			}
			walk(s.X, 0)
			return found
		}
		// derivesFrom: v is computed from root (operands, and what was stored into local structs)
		derivesFrom := func(v, root ssa.Value) bool {
			found := false
			seen := map[ssa.Value]bool{}
			var walk func(v ssa.Value, d int)
			walk = func(v ssa.Value, d int) {
				if v == nil || seen[v] || d > 8 || found {
					return
				}
				seen[v] = true
				if v == root {
					found = true
					return
				}
				if in2, ok := v.(ssa.Instruction); ok {
					for _, op := range in2.Operands(nil) {
						if *op != nil {
							walk(*op, d+1)
						}
					}
					if a, ok := v.(*ssa.Alloc); ok {
						for _, ref := range *a.Referrers() {
							if fa, ok := ref.(*ssa.FieldAddr); ok {
								for _, r2 := range *fa.Referrers() {
									if st, ok := r2.(*ssa.Store); ok {
										walk(st.Val, d+1)
									}
								}
							}
						}
					}
				}
			}
			walk(v, 0)
			return found
		}
		// a helper that is handed the recomputed state and sends it on every path
		passesState := func(in ssa.Instruction, after ssa.Instruction) bool {
			call, ok := in.(*ssa.Call)
			if !ok || call.Call.StaticCallee() == nil || !isModuleFn(call.Call.StaticCallee()) || call.Call.StaticCallee().Blocks == nil {
				return false
			}
			h := call.Call.StaticCallee()
			if len(h.Params) != len(call.Call.Args) {
				return false
			}
			for k, a := range call.Call.Args {
				if typeName(a.Type()) != "GroupTriggerState" {
					continue
				}
				src, isCall := a.(*ssa.Call)
				if !isCall || !(src.Call.IsInvoke() && src.Call.Method.Name() == "ComputeGroupTriggerState" || (src.Call.StaticCallee() != nil && strings.Contains(src.Call.StaticCallee().Name(), "omputeGroupTriggerState"))) {
					continue
				}
				if after != nil && !InstrReaches(after, src) {
					continue
				}
				miss := ReachAvoiding(h, nil, func(x ssa.Instruction) bool {
					sd, ok := x.(*ssa.Send)
					return ok && typeName(sd.X.Type()) == "ClientUpdate" && derivesFrom(sd.X, h.Params[k])
				}, isReturn)
				if len(miss) == 0 {
					return true
				}
			}
			return false
		}
		for i, ed := range edits {
			// the report may be made by a helper that computes the state and sends it on every path
			viaHelper := MustPass(func(in ssa.Instruction) bool { return isPublish(in, nil) }, 2)
			miss := ReachAvoiding(cl, ed, func(in ssa.Instruction) bool {
				if isPublish(in, ed) || (in != ed && passesState(in, ed)) {
					return true
				}
				_, isCall := in.(*ssa.Call)
				return isCall && in != ed && viaHelper(in)
			}, isReturn)
			name := fmt.Sprintf("%s: table-writing call #%d (%s) is followed by a state report", FuncName(cl), i+1, shortName(CalleeName(CallOf(ed))))
			if len(miss) > 0 {
				// a helper that reports under a condition of its own (source active and running)
				// on every way to the exit: whether that condition holds here is not decided
				mayPublish := func(in ssa.Instruction) bool {
					call, ok := in.(*ssa.Call)
					if !ok || in == ed || call.Call.StaticCallee() == nil || !isModuleFn(call.Call.StaticCallee()) {
						return false
					}
					found := false
					for _, g := range DeepFuncs(call.Call.StaticCallee(), 1) {
						Instrs(g, func(y ssa.Instruction) {
							if isPublish(y, nil) {
								found = true
							}
						})
					}
					return found
				}
				miss2 := ReachAvoiding(cl, ed, func(in ssa.Instruction) bool { return isPublish(in, ed) || mayPublish(in) }, isReturn)
				if len(miss2) == 0 {
					r.Unk("C09.R3", name, p.InstrPos(ed), "every way to the exit passes a helper that reports the connection state, but the helper reports only under a condition of its own: not decided whether it always holds here")
					continue
				}
			}
			if len(miss) == 0 {
				r.OK("C09.R3", name, p.InstrPos(ed), "every path from the call to an exit publishes the connection state recomputed after the call")
			} else {
				r.Bad("C09.R3", name, p.InstrPos(ed), "a path from this call to the closure's exit at "+p.InstrPos(miss[0])+" does not publish the recomputed connection state: clients keep a stale picture of the connection set")
			}
		}
	}
}

func c09R4(p *Prog, r *Report) {
	dist := p.Func("", brokerT, "Distribute")
	ps := p.Func("", "AnySource", "ProcessSegments")
	if dist == nil || ps == nil {
		r.Unk("C09.R4", "Distribute/ProcessSegments", "-", "anchor not found")
		return
	}
	r.Fn(FuncName(dist))
	r.Fn(FuncName(ps))
	// (a) unconditional refresh of latestPrimaries for every key of the argument map
	var refresh *ssa.Store
	var refreshPath []ssa.Instruction
	InstrsDeep(dist, 2, func(dd DeepInstr) {
		if st, ok := dd.In.(*ssa.Store); ok {
			if ia, ok := st.Addr.(*ssa.IndexAddr); ok {
				if o, f, _, okf := FieldOf(ia.X); okf && ownerIs(o, brokerT) && f == "latestPrimaries" {
					// the refresh is keyed by the key of a range over a map (the merge only reads the table)
					if ex, isEx := ia.Index.(*ssa.Extract); isEx {
						if _, isNx := ex.Tuple.(*ssa.Next); isNx {
							refresh = st
							refreshPath = dd.Path
						}
					}
				}
			}
		}
	})
	okRefresh := false
	msg := "no store refreshes the primaries table"
	if refresh != nil {
		ia := refresh.Addr.(*ssa.IndexAddr)
		ex, isEx := ia.Index.(*ssa.Extract)
		var nx *ssa.Next
		if isEx {
			nx, _ = ex.Tuple.(*ssa.Next)
		}
		if nx != nil && !nx.IsString && ex.Index == 1 {
			rg, _ := nx.Iter.(*ssa.Range)
			if rg != nil {
				rangedArg := ArgForParam(refreshPath, rg.X)
				if prm, isParam := rangedArg.(*ssa.Parameter); isParam && prm.Parent() == dist {
					// the store's block must be the loop body entry: controlled only by the iterator's ok
					ctl := controllingIfs(refresh.Block())
					// ... and a helper that does the refresh is called on every pass of the distribution
					for _, pc := range refreshPath {
						ctl = append(ctl, controllingIfs(pc.Block())...)
					}
					extra := 0
					for _, c := range ctl {
						if e2, ok := c.If.Cond.(*ssa.Extract); ok && e2.Tuple == ssa.Value(nx) && e2.Index == 0 {
							continue
						}
						extra++
					}
					if extra == 0 {
						// value stored is the frames of the same iteration's list
						okRefresh = true
					} else {
						msg = "the refresh of a channel's primary list is conditional: a channel without primaries in this cycle keeps the previous cycle's list and its receivers get stale secondaries"
					}
				}
			}
		}
	}
	r.Check(okRefresh, "C09.R4", "every cycle refreshes every listed channel's primaries", p.Pos(dist.Pos()), "the store into the primaries table is executed for every entry of the per-cycle map", msg)
	// (b) per-cycle map has an entry for every processor
	okAll := false
	// the loops may sit in ProcessSegments or in a module helper it calls
	hosts := DeepFuncs(ps, 2)
	for _, host := range hosts {
		for _, l := range RangeLoops(host) {
			if _, f := l.OverField(); f != "processors" {
				continue
			}
			Instrs(host, func(in ssa.Instruction) {
				mu, ok := in.(*ssa.MapUpdate)
				if !ok || !l.Contains(mu.Block()) {
					return
				}
				if mu.Key == l.Idx && l.EveryIteration(mu.Block()) {
					// the map is the one passed to Distribute
					for _, ref := range *mu.Map.Referrers() {
						if call, ok := ref.(*ssa.Call); ok && call.Call.StaticCallee() == dist {
							okAll = true
						}
					}
				}
			})
		}
	}
	r.Check(okAll, "C09.R4", "the per-cycle trigger-list map has an entry for every processor", p.Pos(ps.Pos()), "filled unconditionally in a loop over all processors, keyed by the processor index, and passed to distribution", "the map given to distribution does not hold every processor's list of this cycle")
	// (c) merge loop: for each receiver index, appends latestPrimaries[key] for keys of that receiver's own set
	okMerge := false
	var mergeMsg = "merge loop not recognised"
	InstrsDeep(dist, 1, func(dd DeepInstr) {
		in := dd.In
		ia, ok := in.(*ssa.IndexAddr)
		if !ok {
			return
		}
		if o, f, _, okf := FieldOf(ia.X); !okf || !ownerIs(o, brokerT) || f != "latestPrimaries" {
			return
		}
		ex, isEx := ia.Index.(*ssa.Extract)
		if !isEx || ex.Index != 1 {
			return
		}
		nx, _ := ex.Tuple.(*ssa.Next)
		if nx == nil {
			return
		}
		rg, _ := nx.Iter.(*ssa.Range)
		if rg == nil {
			return
		}
		ranged := rg.X
		if prm, isParam := ranged.(*ssa.Parameter); isParam {
			if len(dd.Path) == 0 || prm.Parent() == dist {
				return // the refresh loop
			}
			// a merging helper that is handed the set: what the distribution function passes
			ranged = ArgForParam(dd.Path, ranged)
		}
		// the ranged set: result of SourcesForReceiver(idx) or broker.sources[idx]
		var rxIdx ssa.Value
		if call, ok := ranged.(*ssa.Call); ok {
			if c := call.Call.StaticCallee(); c != nil && c.Name() == "SourcesForReceiver" {
				rxIdx = call.Call.Args[1]
				// the accessor returns the receiver's own set
				okAcc := false
				Instrs(c, func(in2 ssa.Instruction) {
					if ret, ok := in2.(*ssa.Return); ok && len(ret.Results) == 1 {
						if rxv, _, ok := sourcesElem(ret.Results[0]); ok {
							if prm, ok := rxv.(*ssa.Parameter); ok && prm == c.Params[1] {
								okAcc = true
							}
						}
					}
				})
				if !okAcc {
					mergeMsg = "the accessor does not return the set of the receiver it is asked for"
					return
				}
			}
		} else if rxv, _, ok := sourcesElem(ranged); ok {
			rxIdx = rxv
		}
		if rxIdx == nil {
			return
		}
		rxIdx = ArgForParam(dd.Path, rxIdx)
		// the merged list is stored under the same receiver index
		Instrs(dist, func(in2 ssa.Instruction) {
			mu, ok := in2.(*ssa.MapUpdate)
			if !ok {
				return
			}
			if mu.Key == rxIdx || stripConv(mu.Key) == stripConv(rxIdx) {
				okMerge = true
			}
		})
		if !okMerge {
			mergeMsg = "the merged list is not stored under the receiver whose sources were merged"
		}
	})
	// each receiver's merged list is a list of its own: the slice stored under a receiver is not
	// built in storage made outside the receiver loop (a buffer reused as buf[:0] makes every
	// receiver's list a view of the same array, which the last receiver overwrites)
	{
		shared := ""
		nStores := 0
		Instrs(dist, func(in2 ssa.Instruction) {
			mu, ok := in2.(*ssa.MapUpdate)
			if !ok || !InLoop(mu) {
				return
			}
			if _, isSl := mu.Value.Type().Underlying().(*types.Slice); !isSl {
				return
			}
			nStores++
			seen := map[ssa.Value]bool{}
			var roots func(v ssa.Value, d int)
			roots = func(v ssa.Value, d int) {
				if v == nil || seen[v] || d > 8 || shared != "" {
					return
				}
				seen[v] = true
				switch x := v.(type) {
				case *ssa.MakeSlice:
					if !InLoopWith(x, mu) {
						shared = p.InstrPos(x)
					}
				case *ssa.Slice:
					roots(x.X, d+1)
				case *ssa.Phi:
					for _, e := range x.Edges {
						roots(e, d+1)
					}
				case *ssa.Call:
					if b, isB := x.Call.Value.(*ssa.Builtin); isB {
						if b.Name() == "append" {
							roots(x.Call.Args[0], d+1)
						}
						return
					}
					if g := x.Call.StaticCallee(); g != nil && isModuleFn(g) {
						for _, a := range x.Call.Args {
							if _, isSl := a.Type().Underlying().(*types.Slice); isSl {
								roots(a, d+1)
							}
						}
					}
				}
			}
			roots(mu.Value, 0)
		})
		if nStores > 0 {
			r.Check(shared == "", "C09.R4", "each receiver's list of secondaries is a slice of its own", p.Pos(dist.Pos()), "built from nil or from storage made inside the receiver loop",
				"the lists stored for the receivers are built in one buffer made outside the receiver loop (at "+shared+"): they all share its backing array, so after the loop every receiver holds the last receiver's frames")
		}
	}
	r.Check(okMerge, "C09.R4", "secondaries of a receiver = primaries of exactly its own sources", p.Pos(dist.Pos()), "merge ranges over the keys of the receiver's own set, reads the primaries table at those keys and stores under the same receiver", mergeMsg)
	// (d) fan-out: each processor receives allSecondaries[its own index]
	okFan := false
	for _, host := range hosts {
		for _, l := range RangeLoops(host) {
			if _, f := l.OverField(); f != "processors" {
				continue
			}
			Instrs(host, func(in ssa.Instruction) {
				g, ok := in.(*ssa.Go)
				if !ok || !l.Contains(g.Block()) {
					return
				}
				var hasList, ownIdx, ownDsp bool
				for _, a := range g.Call.Args {
					if lk, ok := a.(*ssa.Lookup); ok {
						hasList = true
						if lk.Index == l.Idx {
							ownIdx = true
						}
					}
					if l.IsElem(a) {
						ownDsp = true
					}
					if u, ok := a.(*ssa.UnOp); ok && u.Op == token.MUL {
						if ia, ok := u.X.(*ssa.IndexAddr); ok && ia.Index == l.Idx {
							ownDsp = true
						}
					}
				}
				if hasList && ownIdx && ownDsp {
					okFan = true
				}
				// `dsp := dsp; go func() { dsp.processSecondaries(flist) }()`: the closure reads
				// variables of the loop body; each must be a variable made in this pass of the
				// loop, assigned once before the go statement
				mc, isMC := g.Call.Value.(*ssa.MakeClosure)
				if !isMC || okFan {
					return
				}
				cl, _ := mc.Fn.(*ssa.Function)
				if cl == nil {
					return
				}
				captured := func(v ssa.Value) ssa.Value {
					ld, ok := v.(*ssa.UnOp)
					if !ok || ld.Op != token.MUL {
						return nil
					}
					fv, ok := ld.X.(*ssa.FreeVar)
					if !ok {
						return nil
					}
					for j, q := range cl.FreeVars {
						if q != fv || j >= len(mc.Bindings) {
							continue
						}
						al, ok := mc.Bindings[j].(*ssa.Alloc)
						if !ok || !l.Contains(al.Block()) {
							return nil // one variable for the whole loop: the goroutine sees a later pass's value
						}
						var val ssa.Value
						n := 0
						for _, ref := range *al.Referrers() {
							if st, ok := ref.(*ssa.Store); ok && st.Addr == ssa.Value(al) {
								n++
								if InstrDominates(st, g) {
									val = st.Val
								}
							}
						}
						if n == 1 {
							return val
						}
					}
					return nil
				}
				Instrs(cl, func(x ssa.Instruction) {
					cc := CallOf(x)
					if cc == nil || cc.IsInvoke() || len(cc.Args) != 2 {
						return
					}
					if _, isSl := cc.Args[1].Type().Underlying().(*types.Slice); !isSl {
						return
					}
					recvV, listV := captured(cc.Args[0]), captured(cc.Args[1])
					if recvV == nil || listV == nil {
						return
					}
					lk, isLk := listV.(*ssa.Lookup)
					own := l.IsElem(recvV)
					if u, ok := recvV.(*ssa.UnOp); ok && u.Op == token.MUL {
						if ia, ok := u.X.(*ssa.IndexAddr); ok && ia.Index == l.Idx {
							own = true
						}
					}
					if isLk && lk.Index == l.Idx && own {
						okFan = true
					}
				})
			})
		}
	}
	r.Check(okFan, "C09.R4", "each processor cuts the secondaries listed for its own index", p.Pos(ps.Pos()), "the goroutine of processor i is given allSecondaries[i]", "the goroutine started for a processor is not handed that processor together with the secondary list computed for its own index (as arguments, or in variables made and set once in the same pass of the loop)")
	// (e) TriggerDataSecondary cuts from the receiver's own stream relative to its own first frame
	tds := p.Func("", "DataStreamProcessor", "TriggerDataSecondary")
	okCut := false
	if tds != nil {
		r.Fn(FuncName(tds))
		pc := NewPolyCtx(tds)
		Instrs(tds, func(in ssa.Instruction) {
			call, ok := in.(*ssa.Call)
			// the record cutter: a method of the same processor that returns a record (triggerAt or
			// the function it wraps), position in its first argument
			if !ok || call.Call.StaticCallee() == nil || typeName(call.Type()) != "DataRecord" || len(call.Call.Args) < 2 {
				return
			}
			if resolveCell(call.Call.Args[0]) != ssa.Value(tds.Params[0]) {
				return
			}
			arg := pc.Of(call.Call.Args[1])
			// elem - dsp.stream.firstFrameIndex
			syms := arg.Symbols()
			hasFF := false
			for _, s := range syms {
				if strings.Contains(s, tds.Params[0].Name()+".stream") && strings.HasSuffix(basePath(s), "firstFrameIndex") {
					if arg[s] == -1 {
						hasFF = true
					}
				}
			}
			if hasFF && len(syms) == 2 {
				okCut = true
			}
		})
	}
	r.Check(okCut, "C09.R4", "secondary records are cut from the receiver's own stream at frame - firstFrameIndex", "-", "triggerAt(receiver, frame - receiver.stream.firstFrameIndex)", "secondary records are not cut at the given frame relative to the receiver's own stream")
}

func c09R5(p *Prog, r *Report, rv *Rendezvous) {
	t := requestTaint(p, rv)
	n := 0
	for _, fn := range p.LibFuncs() {
		Instrs(fn, func(in ssa.Instruction) {
			call, ok := in.(*ssa.Call)
			if !ok {
				return
			}
			isEdit := false
			for _, c := range p.callees(call) {
				u := Unwrap(c)
				if u != nil && u.Signature.Recv() != nil && typeName(u.Signature.Recv().Type()) == brokerT && (u.Name() == "AddConnection" || u.Name() == "DeleteConnection") {
					isEdit = true
				}
			}
			if !isEdit {
				return
			}
			tainted := false
			for _, a := range call.Call.Args {
				if t.Is(a) {
					tainted = true
				}
			}
			if !tainted {
				return
			}
			n++
			used := len(*call.Referrers()) > 0
			r.Check(used, "C09.R5", "result of the edit call with request-chosen indices in "+FuncName(fn), p.InstrPos(in), "the error result is used", "the error of a refused edit is dropped: the client is told success for a pair that was not connected")
			if used {
				// and it reaches the function's return value
				reaches := false
				seen := map[ssa.Value]bool{}
				var walk func(v ssa.Value)
				walk = func(v ssa.Value) {
					if seen[v] {
						return
					}
					seen[v] = true
					for _, ref := range *v.Referrers() {
						switch x := ref.(type) {
						case *ssa.Return:
							reaches = true
						case *ssa.Phi:
							walk(x)
						case *ssa.Store:
							if a, ok := x.Addr.(*ssa.Alloc); ok {
								for _, r2 := range *a.Referrers() {
									if u, ok := r2.(*ssa.UnOp); ok {
										walk(u)
									}
								}
							}
						}
					}
				}
				walk(call)
				r.Check(reaches, "C09.R5", "result of the edit call reaches the reply of "+FuncName(fn), p.InstrPos(in), "the error flows to the function's result", "the error of a refused edit never reaches the function's result")
			}
		})
	}
	_ = n
}

// ---- R6: every listed secondary becomes a record ------------------------------------------------

// c09R6: the function that cuts the secondary records ranges over the frame list handed to the
// processor and creates one record per element.  The creation may be skipped only for positions
// at which no record can be cut: a skip test `index OP bound` is accepted when the positions it
// removes lie outside [NPresamples, len(data) - (NSamples - NPresamples)], the window in which
// primaries are found (C02.R3); the comparison is decided on polynomials, so `<= NPresamples`
// (which also removes the first legal position) is reported while `< NPresamples` is not.
func c09R6(p *Prog, r *Report) {
	fn := p.Func("", "DataStreamProcessor", "TriggerDataSecondary")
	if fn == nil {
		r.Unk("C09.anchor", "DataStreamProcessor.TriggerDataSecondary", "-", "anchor not found")
		return
	}
	r.Fn(FuncName(fn))
	var loop *RangeLoop
	for _, l := range RangeLoops(fn) {
		if prm, ok := resolveCell(l.Over).(*ssa.Parameter); ok && len(fn.Params) > 1 && prm == fn.Params[1] {
			loop = l
		}
	}
	var mk *ssa.Call
	Instrs(fn, func(in ssa.Instruction) {
		if c, ok := in.(*ssa.Call); ok && c.Call.StaticCallee() != nil && typeName(c.Type()) == "DataRecord" {
			mk = c
		}
	})
	if loop == nil || mk == nil || !loop.Contains(mk.Block()) {
		r.Bad("C09.R6", "one secondary record per listed frame", p.Pos(fn.Pos()), "no range loop over the frame list that creates a record per element was found")
		return
	}
	if loop.EveryIteration(mk.Block()) {
		r.OK("C09.R6", "one secondary record per listed frame", p.InstrPos(mk), "the record creation runs on every iteration of the loop over the list")
		return
	}
	// conditional creation: examine the tests that control it
	pc := NewPolyCtx(fn)
	pc.G = true
	I := pc.Of(mk.Call.Args[1]) // the stream index handed to the record cutter
	npre := Poly(nil)
	nsamp := Poly(nil)
	ndata := Poly(nil)
	Instrs(fn, func(in ssa.Instruction) {
		if u, ok := in.(*ssa.UnOp); ok && u.Op == token.MUL {
			if _, f, _, isF := FieldOf(u); isF {
				switch f {
				case "NPresamples":
					npre = pc.Of(u)
				case "NSamples":
					nsamp = pc.Of(u)
				}
			}
		}
		if c, ok := in.(*ssa.Call); ok {
			if b, isB := c.Call.Value.(*ssa.Builtin); isB && b.Name() == "len" {
				if _, f, _, isF := FieldOf(c.Call.Args[0]); isF && f == "rawData" {
					ndata = pc.Of(c)
				}
			}
		}
	})
	bad := ""
	for _, ct := range controllingIfs(mk.Block()) {
		if !loop.Contains(ct.If.Block()) {
			continue
		}
		// flatten `a || b` skip conditions: each If on the way is one comparison
		bo, ok := ct.If.Cond.(*ssa.BinOp)
		if !ok || npre == nil {
			bad = "a test at " + p.InstrPos(ct.If) + " that is not a comparison of the position with a bound"
			break
		}
		D := pc.Of(bo.X).Sub(pc.Of(bo.Y))
		if !mentionsAny(D, I) {
			if ct.If.Block() == loop.Header {
				continue // the loop's own "more elements?" test
			}
			bad = "a test at " + p.InstrPos(ct.If) + " that does not concern the position of the frame"
			break
		}
		op := bo.Op
		// the creation is on branch ct.Branch; the skip happens when the condition has the other value
		skipWhenTrue := ct.Branch == 1
		if !skipWhenTrue { // skip when cond false: negate the operator
			switch op {
			case token.LSS:
				op = token.GEQ
			case token.LEQ:
				op = token.GTR
			case token.GTR:
				op = token.LEQ
			case token.GEQ:
				op = token.LSS
			default:
				bad = "a test at " + p.InstrPos(ct.If) + " that is not an ordering comparison"
			}
		}
		// D = I + K  (coefficient +1) or D = -I + K
		K := D.Sub(I)
		sign := int64(1)
		if mentionsAny(K, I) {
			K = D.Add(I)
			sign = -1
			if mentionsAny(K, I) {
				bad = "a test at " + p.InstrPos(ct.If) + " whose dependence on the position is not linear"
				break
			}
			// -I + K op 0  <=>  I - K op' 0 with op' mirrored
			K = K.Neg()
			switch op {
			case token.LSS:
				op = token.GTR
			case token.LEQ:
				op = token.GEQ
			case token.GTR:
				op = token.LSS
			case token.GEQ:
				op = token.LEQ
			}
		}
		_ = sign
		// skip when I + K op 0
		nonneg := func(q Poly) bool { c, ok := q.IsConst(); return ok && c >= 0 }
		var goal Poly
		switch op {
		case token.LSS: // I < -K : need -K <= npre
			goal = npre.Add(K)
		case token.LEQ: // I <= -K : need -K <= npre-1
			goal = npre.Add(K).Sub(polyConst(1))
		case token.GTR, token.GEQ:
			if nsamp == nil || ndata == nil {
				bad = "an upper-bound test at " + p.InstrPos(ct.If) + " but the record length or the data length is not read in this function"
				break
			}
			maxValid := ndata.Sub(nsamp).Add(npre)
			goal = K.Neg().Sub(maxValid) // I > -K : need -K >= maxValid
			if op == token.GEQ {
				goal = goal.Sub(polyConst(1))
			}
		}
		if bad != "" {
			break
		}
		if goal == nil || !nonneg(goal) {
			bad = fmt.Sprintf("the test at %s, which also removes positions inside the window in which primaries are found (slack %s, must be >= 0)", p.InstrPos(ct.If), goal)
			break
		}
	}
	r.Check(bad == "", "C09.R6", "one secondary record per listed frame", p.InstrPos(mk), "the creation is skipped only for positions outside [NPresamples, len - (NSamples - NPresamples)]",
		"a listed secondary can be skipped by "+bad+": the receiver emits fewer records than its sources' primaries")
}

func mentionsAny(q, of Poly) bool {
	syms := map[string]bool{}
	for _, s := range of.Symbols() {
		syms[s] = true
	}
	for _, s := range q.Symbols() {
		if syms[s] {
			return true
		}
	}
	return false
}

// ---- R9: every pair named in an edit request is applied ---------------------------------------

// c09R9: an edit request lists, per source, the receivers to connect or disconnect.  The loops
// that walk the request (over its map of sources and over each list of receivers), in the request
// function or in a helper it hands the request to, are left only when exhausted or by returning an
// error: a `break` (or a success return) inside them drops the pairs that come after.
func c09R9(p *Prog, r *Report) {
	top := p.Func("", "AnySource", "ChangeGroupTrigger")
	if top == nil {
		r.Unk("C09.R9", "AnySource.ChangeGroupTrigger", "-", "name-keyed anchor not found")
		return
	}
	n := 0
	for _, f := range DeepFuncs(top, 2) {
		// loops over the request's map and, inside, over a list taken from it
		var outer []*ssa.BasicBlock // headers of range-over-map loops on the Connections field
		Instrs(f, func(in ssa.Instruction) {
			rg, ok := in.(*ssa.Range)
			if !ok {
				return
			}
			if _, fld, _, okf := FieldOf(rg.X); okf && fld == "Connections" {
				// the loop header: the block of the Next on this iterator
				for _, ref := range *rg.Referrers() {
					if nx, isNx := ref.(*ssa.Next); isNx {
						outer = append(outer, nx.Block())
					}
				}
			}
		})
		if len(outer) == 0 {
			continue
		}
		r.Fn(FuncName(f))
		for _, h := range outer {
			n++
			bad := ""
			for _, b := range f.Blocks {
				if b == h || !naturalLoopContains(h, b) {
					continue
				}
				// exits of inner loops and of the outer loop from inside the body
				for _, l := range RangeLoops(f) {
					if !naturalLoopContains(h, l.Header) || !l.Contains(b) || b == l.Header {
						continue
					}
					for _, sc := range b.Succs {
						if !l.Contains(sc) && sc != l.Header {
							if !(len(sc.Instrs) > 0 && isErrReturn(sc.Instrs[len(sc.Instrs)-1]) && len(sc.Instrs) <= 3) {
								bad = p.InstrPos(b.Instrs[len(b.Instrs)-1])
							}
						}
					}
				}
				for _, sc := range b.Succs {
					if !naturalLoopContains(h, sc) {
						if !(len(sc.Instrs) > 0 && isErrReturn(sc.Instrs[len(sc.Instrs)-1])) {
							bad = p.InstrPos(b.Instrs[len(b.Instrs)-1])
						}
					}
				}
			}
			r.Check(bad == "", "C09.R9", FuncName(f)+": the walk over the request visits every listed pair", p.InstrPos(h.Instrs[0]), "the loops over the sources and over each receiver list are left only when exhausted (or with an error)",
				"a loop over the request is left early at "+bad+" without an error: the receivers (or sources) listed after that point are silently not connected / disconnected, although the request is answered as done")
		}
	}
	if n == 0 {
		r.Unk("C09.R9", "walk over the edit request", p.Pos(top.Pos()), "no loop over the request's Connections map found in the request function or its helpers")
	}
}


// c09FillsWithEmpty: fn stores a new empty map into every element of its slice parameter number k
// (a loop over the whole parameter, the store in every iteration) and stores nothing else there.
func c09FillsWithEmpty(fn *ssa.Function, k int) bool {
	if fn == nil || fn.Blocks == nil || k >= len(fn.Params) {
		return false
	}
	prm := fn.Params[k]
	loops := RangeLoops(fn)
	n, good := 0, true
	Instrs(fn, func(in ssa.Instruction) {
		st, ok := in.(*ssa.Store)
		if !ok {
			return
		}
		ia, ok := st.Addr.(*ssa.IndexAddr)
		if !ok || ia.X != ssa.Value(prm) {
			return
		}
		n++
		mk, isMk := st.Val.(*ssa.MakeMap)
		if !isMk || mk.Reserve != nil {
			good = false
			return
		}
		l := LoopContaining(loops, in)
		if l == nil || l.Over != ssa.Value(prm) || !l.EveryIteration(in.Block()) || ia.Index != l.Idx {
			good = false
		}
	})
	return n == 1 && good
}
