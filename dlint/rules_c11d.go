package main

// C11.R8: in the functions the core loop runs (block processing and the request closures), a
// field assignment made to a by-value parameter or receiver of struct type, whose new value can
// never be read again (no later read of that field or of the whole copy, the copy's address goes
// nowhere), is an update that was meant for the shared object and is lost.  For the requests that
// arm a one-shot activity (the raw-block acquisition: active flag, block handed to the writer
// goroutine through a channel of capacity one) the lost update keeps the activity armed, and a
// later block's send on that channel blocks the core loop for ever.
//
// Decided per function on the SSA form: the spilled copy of the parameter, the stores to its
// fields, and reachability from each store to any read of the copy.

import (
	"fmt"
	"go/types"

	"golang.org/x/tools/go/ssa"
)

func c11R8(p *Prog, r *Report) {
	core := p.Func("", "", "CoreLoop")
	if core == nil {
		r.Unk("C11.R8", "CoreLoop", "-", "name-keyed anchor not found")
		return
	}
	inCore := map[*ssa.Function]bool{}
	var visit func(f *ssa.Function, d int)
	visit = func(f *ssa.Function, d int) {
		if f == nil || inCore[f] || !isModuleFn(f) || d > 10 {
			return
		}
		inCore[f] = true
		Instrs(f, func(in ssa.Instruction) {
			if CallOf(in) == nil {
				return
			}
			if _, isGo := in.(*ssa.Go); isGo {
				return
			}
			for _, c := range p.callees(in) {
				visit(c, d+1)
			}
		})
	}
	visit(core, 0)
	nfn, ncopies := 0, 0
	for _, f := range p.LibFuncs() {
		if !inCore[f] {
			continue
		}
		nfn++
		for _, prm := range f.Params {
			if _, isStruct := prm.Type().Underlying().(*types.Struct); !isStruct {
				continue
			}
			// the spilled copy: an Alloc that receives the parameter
			for _, ref := range *prm.Referrers() {
				st, ok := ref.(*ssa.Store)
				if !ok || st.Val != ssa.Value(prm) {
					continue
				}
				al, ok := st.Addr.(*ssa.Alloc)
				if !ok {
					continue
				}
				ncopies++
				// reads of the copy, and escapes
				var reads []ssa.Instruction
				escapes := false
				fieldStores := map[int][]*ssa.Store{}
				for _, r2 := range *al.Referrers() {
					switch x := r2.(type) {
					case *ssa.Store:
						if x.Addr != ssa.Value(al) {
							escapes = true
						}
					case *ssa.UnOp:
						reads = append(reads, x)
					case *ssa.FieldAddr:
						for _, r3 := range *x.Referrers() {
							switch y := r3.(type) {
							case *ssa.Store:
								if y.Addr == ssa.Value(x) {
									fieldStores[x.Field] = append(fieldStores[x.Field], y)
								} else {
									escapes = true
								}
							case *ssa.UnOp:
								reads = append(reads, y)
							case *ssa.FieldAddr, *ssa.IndexAddr:
								// nested access: a read or a write further in; treat as a read of this field
								reads = append(reads, y.(ssa.Instruction))
							case *ssa.DebugRef:
							default:
								escapes = true
							}
						}
					case *ssa.DebugRef:
					default:
						escapes = true
					}
				}
				if escapes {
					continue
				}
				for fld, sts := range fieldStores {
					for _, fs := range sts {
						seenAgain := false
						for _, rd := range reads {
							// a read of this field or of the whole copy that can come after the store
							if u, ok := rd.(*ssa.UnOp); ok {
								if fa, isFA := u.X.(*ssa.FieldAddr); isFA && fa.Field != fld {
									continue
								}
							}
							if fa, isFA := rd.(*ssa.FieldAddr); isFA && fa.Field != fld {
								continue
							}
							if rd != ssa.Instruction(fs) && InstrReaches(fs, rd) {
								seenAgain = true
							}
						}
						if !seenAgain {
							stt := derefStruct(prm.Type())
							r.Fn(FuncName(f))
							r.Bad("C11.R8", fmt.Sprintf("%s: the assignment to %s.%s takes effect", FuncName(f), prm.Name(), stt.Field(fld).Name()), p.InstrPos(fs),
								fmt.Sprintf("%s is passed by value (%s), so this assignment changes a copy that is never read again: the shared object keeps its old value. For a one-shot activity armed by a request (a raw-block acquisition: active flag, filled block sent once on a channel of capacity one) the activity stays armed, every later block is handed over again, and the send blocks the core loop for ever: no further request is served", prm.Name(), typeName(prm.Type())))
						}
					}
				}
			}
		}
	}
	r.OK("C11.R8", "state changes in the core loop's functions are not made on by-value copies", "-", fmt.Sprintf("%d functions run by the core loop, %d by-value struct parameters with a spilled copy examined", nfn, ncopies))
}

// C11.R9: bytes that come from a request are decoded only by routines that check the sizes the
// bytes claim against the bytes that are there.  gonum's (*mat.Dense).UnmarshalBinaryFrom and
// (*mat.VecDense).UnmarshalBinaryFrom allocate whatever the header claims (their documentation
// says: not for untrusted data); reached from an RPC handler such a call lets a request make the
// server panic (make with an impossible length) inside the handler, which net/rpc does not recover.
func c11R9(p *Prog, r *Report, rv *Rendezvous) {
	n := 0
	for _, fn := range p.LibFuncs() {
		Instrs(fn, func(in ssa.Instruction) {
			cc := CallOf(in)
			if cc == nil || cc.StaticCallee() == nil {
				return
			}
			callee := cc.StaticCallee()
			pk := fnPkg(callee)
			if pk == nil || callee.Name() != "UnmarshalBinaryFrom" || pk.Path() != "gonum.org/v1/gonum/mat" {
				return
			}
			n++
			from := ""
			for _, h := range rv.Handlers {
				if h == fn {
					from = FuncName(h)
					break
				}
				if ok, _ := p.Reaches(h, func(x *ssa.Function) bool { return x == fn }, 5); ok {
					from = FuncName(h)
					break
				}
			}
			r.Fn(FuncName(fn))
			key := "matrix bytes in " + FuncName(fn) + " are decoded by a routine that checks the claimed size"
			if from != "" {
				r.Bad("C11.R9", key, p.InstrPos(in), "the request "+from+" reaches "+CalleeName(cc)+", which allocates the number of elements the header claims before it has seen the data (documented as unsafe for untrusted input): a header claiming an impossible size makes the handler panic, and a panic in an RPC method ends the server")
			} else {
				r.Unk("C11.R9", key, p.InstrPos(in), CalleeName(cc)+" is called; whether its input can come from a request was not established")
			}
		})
	}
	if n == 0 {
		r.OK("C11.R9", "request bytes are decoded by size-checked routines", "-", "no call of gonum's UnmarshalBinaryFrom in the module")
	}
}
