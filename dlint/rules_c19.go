package main

import (
	"fmt"
	"go/constant"
	"go/token"
	"go/types"
	"sort"
	"strings"

	"golang.org/x/tools/go/ssa"
)

func init() {
	register(&RuleSet{
		Property: "C19",
		Explanation: "Decides structural clauses of channel identity: " +
			"(R1) the row/column code packs its four parameters into disjoint 16-bit fields and each accessor extracts the field of the parameter it is named after (bit-range provenance); " +
			"(R2) in the run preparation every per-channel identity item given to a processor (name, number, volts-per-arb) is read from the identity tables at the processor's own index; " +
			"(R3) the Lancero numbering gives the error and feedback streams of a pair distinct constant name prefixes with the same channel number, advances the number once per pair, and records one group per column starting at the column's first number; the Abaco numbering derives name and number from the same value firstchan+row; " +
			"(R4) configurations that would make numbers collide are rejected before any table is built: the Lancero separation checks test every active card unconditionally and precede the first table store; the Abaco overlap check covers every channel number of every group (marking idiom: loops over [first, first+n) with test-then-mark; or sorted-neighbour idiom: prev.first+prev.n > next.first) and returns an error before the group order is stored; " +
			"(R5) every identity table that is appended to is first re-made on every path of the same preparation function (nothing carries over from the previous run). " +
			"Does not decide: that the separations make numbers collision-free for every geometry (arithmetic over configurations), uniqueness of names end to end.",
		RuleDocs: []string{
			"C19.R6 slices.Compact / CompactFunc only on a list sorted by a dominating call; the Lancero configuration step contains a known form of already-listed test",
			"C19.R1 abstract interpretation of shifts/masks/ors with constant operands in the packer and the four accessors; the column handed to the packer is a loop index (possibly of the caller) or a constant below a constant count; a column that is the length of a table which only grows while the loop over the cards runs, given with one card's column count, is reported",
			"C19.R2 index agreement in the processor-construction loop",
			"C19.R3 structure of the numbering loops (SSA values: same number in both names, increments)",
			"C19.R4 dominance of rejections over table stores; loop-unconditional checks; overlap-check idioms by polynomial congruence",
			"C19.R5 must-precede: fresh make before the first append of every appended table field",
		},
		Assumptions: []string{"function and field names of the identity tables (chanNames, chanNumbers, rowColCodes, groupKeysSorted, subframeOffsets) are name-keyed anchors"},
		Run:         runC19,
	})
}

func runC19(p *Prog, r *Report) {
	r.MinInstances["C19.R1"] = 5
	r.MinInstances["C19.R2"] = 4
	r.MinInstances["C19.R3"] = 5
	r.MinInstances["C19.R4"] = 5
	r.MinInstances["C19.R5"] = 4
	r.MinInstances["C19.R6"] = 1
	c19R1(p, r)
	c19R2(p, r)
	c19R3(p, r)
	c19R4(p, r)
	c19R5(p, r)
	c19More(p, r)
	c19R6(p, r)
}

// ---- R1 -----------------------------------------------------------------------------------

type bitPart struct {
	src     string // parameter name
	srcMask uint64 // bits of the source that are kept
	shift   int64  // positive: left
}

func unshift(m uint64, s int64) uint64 {
	if s >= 0 {
		if s > 63 {
			return 0
		}
		return m >> uint(s)
	}
	if -s > 63 {
		return 0
	}
	return m << uint(-s)
}

// bitEnv binds the parameters of a helper that bitEval is looking through to the caller's values.
var bitEnv = map[ssa.Value]ssa.Value{}

// bitEval interprets v as an OR of ((param & srcMask) shifted) parts.
func bitEval(v ssa.Value, depth int) ([]bitPart, bool) {
	if depth > 16 {
		return nil, false
	}
	if rv, ok := bitEnv[v]; ok {
		return bitEval(rv, depth+1)
	}
	// field k of a struct value bound in bitEnv (read as Field, or through the local the
	// parameter was spilled to): what the caller's literal holds in field k
	fieldOfBound := func(holder ssa.Value, k int) ([]bitPart, bool, bool) {
		rv, ok := bitEnv[holder]
		if !ok {
			if a, isA := holder.(*ssa.Alloc); isA {
				if cv, okc := cellValue(a); okc {
					rv, ok = bitEnv[cv]
				}
			}
		}
		if !ok {
			return nil, false, false
		}
		if ld, isLd := rv.(*ssa.UnOp); isLd && ld.Op == token.MUL {
			if lit, isA := ld.X.(*ssa.Alloc); isA {
				for _, ref := range *lit.Referrers() {
					if fa, isFA := ref.(*ssa.FieldAddr); isFA && fa.Field == k {
						for _, r2 := range *fa.Referrers() {
							if st, isSt := r2.(*ssa.Store); isSt && st.Addr == ssa.Value(fa) {
								saved := bitEnv
								bitEnv = map[ssa.Value]ssa.Value{}
								ps, okp := bitEval(st.Val, depth+1)
								bitEnv = saved
								return ps, okp, true
							}
						}
					}
				}
			}
		}
		return nil, false, true
	}
	if u, isU := v.(*ssa.UnOp); isU && u.Op == token.MUL {
		if fa, isFA := u.X.(*ssa.FieldAddr); isFA {
			if ps, okp, bound := fieldOfBound(fa.X, fa.Field); bound {
				return ps, okp
			}
		}
	}
	switch x := v.(type) {
	case *ssa.Field:
		if ps, okp, bound := fieldOfBound(x.X, x.Field); bound {
			return ps, okp
		}
		// a field of a struct parameter of a helper being looked through: what the caller put there
		if rv, ok := bitEnv[x.X]; ok {
			if ld, isLd := rv.(*ssa.UnOp); isLd && ld.Op == token.MUL {
				if lit, isA := ld.X.(*ssa.Alloc); isA {
					for _, ref := range *lit.Referrers() {
						if fa, isFA := ref.(*ssa.FieldAddr); isFA && fa.Field == x.Field {
							for _, r2 := range *fa.Referrers() {
								if st, isSt := r2.(*ssa.Store); isSt && st.Addr == ssa.Value(fa) {
									saved := bitEnv
									bitEnv = map[ssa.Value]ssa.Value{}
									ps, ok := bitEval(st.Val, depth+1)
									bitEnv = saved
									return ps, ok
								}
							}
						}
					}
				}
			}
		}
		return nil, false
	case *ssa.Call:
		// a one-block module helper that does the packing: evaluated with its parameters bound
		h := x.Call.StaticCallee()
		if isModuleFn(h) && len(h.Blocks) == 1 && len(h.Params) == len(x.Call.Args) {
			if rv := singleReturn(h); rv != nil {
				saved := bitEnv
				env := map[ssa.Value]ssa.Value{}
				for i, prm := range h.Params {
					env[prm] = x.Call.Args[i]
				}
				bitEnv = env
				ps, ok := bitEval(rv, depth+1)
				bitEnv = saved
				return ps, ok
			}
		}
		return nil, false
	case *ssa.Parameter:
		return []bitPart{{x.Name(), ^uint64(0), 0}}, true
	case *ssa.Convert:
		ps, ok := bitEval(x.X, depth+1)
		if !ok {
			return nil, false
		}
		// a conversion to a narrower integer keeps the low bits only
		if b, isB := x.Type().Underlying().(*types.Basic); isB && b.Info()&types.IsInteger != 0 {
			w := types.SizesFor("gc", "amd64").Sizeof(b) * 8
			if w < 64 {
				var out []bitPart
				for _, pp := range ps {
					pp.srcMask &= unshift(uint64(1)<<uint(w)-1, pp.shift)
					if pp.srcMask != 0 {
						out = append(out, pp)
					}
				}
				return out, true
			}
		}
		return ps, true
	case *ssa.ChangeType:
		return bitEval(x.X, depth+1)
	case *ssa.BinOp:
		k, isC := constInt(x.Y)
		switch x.Op {
		case token.AND:
			if isC {
				ps, ok := bitEval(x.X, depth+1)
				if !ok {
					return nil, false
				}
				var out []bitPart
				for _, pp := range ps {
					pp.srcMask &= unshift(uint64(k), pp.shift)
					if pp.srcMask != 0 {
						out = append(out, pp)
					}
				}
				return out, true
			}
		case token.SHL, token.SHR:
			if isC {
				ps, ok := bitEval(x.X, depth+1)
				if !ok {
					return nil, false
				}
				var out []bitPart
				for _, pp := range ps {
					if x.Op == token.SHL {
						pp.shift += k
					} else {
						pp.shift -= k
					}
					// bits shifted out of the 64-bit word are gone
					pp.srcMask &= unshift(^uint64(0), pp.shift)
					if pp.srcMask != 0 {
						out = append(out, pp)
					}
				}
				return out, true
			}
		case token.OR:
			a, ok1 := bitEval(x.X, depth+1)
			b, ok2 := bitEval(x.Y, depth+1)
			if ok1 && ok2 {
				return append(a, b...), true
			}
		}
	}
	return nil, false
}

func c19R1(p *Prog, r *Report) {
	pack := p.Func("", "", "rcCode")
	if pack == nil {
		r.Unk("C19.R1", "rcCode", "-", "anchor not found")
		return
	}
	r.Fn(FuncName(pack))
	var ret *ssa.Return
	Instrs(pack, func(in ssa.Instruction) {
		if x, ok := in.(*ssa.Return); ok {
			ret = x
		}
	})
	parts, ok := bitEval(ret.Results[0], 0)
	if !ok {
		r.Unk("C19.R1", "rcCode packs with constant shifts and masks", p.Pos(pack.Pos()), "the packer is not a combination of constant shifts, masks and ors of its parameters")
		return
	}
	layout := map[string]int64{}
	okDisjoint := true
	var used uint64
	for _, pp := range parts {
		if pp.shift < 0 || pp.shift > 48 || pp.srcMask != 0xffff {
			okDisjoint = false
			continue
		}
		field := uint64(0xffff) << uint(pp.shift)
		if used&field != 0 {
			okDisjoint = false
		}
		used |= field
		layout[pp.src] = pp.shift
	}
	r.Check(okDisjoint && len(layout) == 4 && len(pack.Params) == 4, "C19.R1", "rcCode packs four parameters into disjoint 16-bit fields", p.Pos(pack.Pos()), fmt.Sprint(layout), fmt.Sprintf("the packed fields overlap, are not 16 bits wide, or a parameter is missing: %v", parts))
	for _, name := range []string{"row", "col", "rows", "cols"} {
		acc := p.Func("", "RowColCode", name)
		if acc == nil {
			r.Unk("C19.R1", "accessor "+name, "-", "anchor not found")
			continue
		}
		r.Fn(FuncName(acc))
		var aret *ssa.Return
		Instrs(acc, func(in ssa.Instruction) {
			if x, ok := in.(*ssa.Return); ok {
				aret = x
			}
		})
		ps, ok := bitEval(aret.Results[0], 0)
		want, have := layout[name]
		got := "?"
		okA := false
		if ok && len(ps) == 1 {
			pos := -ps[0].shift
			got = fmt.Sprintf("source mask %#x moved to bit 0 from bit %d", ps[0].srcMask, pos)
			okA = have && pos == want && pos >= 0 && ps[0].srcMask == uint64(0xffff)<<uint(pos)
		}
		r.Check(okA, "C19.R1", "accessor "+name+" extracts the field of parameter "+name, p.Pos(acc.Pos()), got,
			fmt.Sprintf("accessor %s reads: %s; parameter %s is packed at bits %d..%d", name, got, name, want, want+15))
	}
}

// ---- R2 -----------------------------------------------------------------------------------

func c19R2(p *Prog, r *Report) {
	pr := p.Func("", "AnySource", "PrepareRun")
	if pr == nil {
		r.Unk("C19.R2", "PrepareRun", "-", "anchor not found")
		return
	}
	r.Fn(FuncName(pr))
	loops := RangeLoops(pr)
	var ctor *ssa.Call
	Instrs(pr, func(in ssa.Instruction) {
		if call, ok := in.(*ssa.Call); ok && call.Call.StaticCallee() != nil && call.Call.StaticCallee().Name() == "NewDataStreamProcessor" {
			ctor = call
		}
	})
	if ctor == nil {
		r.Bad("C19.R2", "processors are constructed in a loop over the channels", p.Pos(pr.Pos()), "no constructor call found")
		return
	}
	l := LoopContaining(loops, ctor)
	if l == nil {
		r.Bad("C19.R2", "processors are constructed in a loop over the channels", p.InstrPos(ctor), "the constructor is not inside a range loop")
		return
	}
	idx := l.Idx
	r.Check(ctor.Call.Args[0] == idx, "C19.R2", "the processor's channel index is the loop index", p.InstrPos(ctor), "NewDataStreamProcessor(index, ...)", "the channel index given to the processor is not the loop index")
	// dsp.Name = chanNames[idx], dsp.ChannelNumber = chanNumbers[idx], voltsPerArb = vpa[idx], processors[idx] = dsp
	want := map[string]string{"Name": "chanNames", "ChannelNumber": "chanNumbers"}
	got := map[string]bool{}
	Instrs(pr, func(in ssa.Instruction) {
		st, ok := in.(*ssa.Store)
		if !ok || !l.Contains(st.Block()) {
			return
		}
		// store into a field of the new processor
		if fa, ok := st.Addr.(*ssa.FieldAddr); ok && fa.X == ssa.Value(ctor) {
			f := derefStruct(fa.X.Type()).Field(fa.Field).Name()
			if tbl, isID := want[f]; isID {
				okI := false
				if u, ok := st.Val.(*ssa.UnOp); ok {
					if ia, ok := u.X.(*ssa.IndexAddr); ok {
						if _, tf, _, okf := FieldOf(ia.X); okf && tf == tbl && ia.Index == idx {
							okI = true
						}
					}
				}
				got[f] = true
				r.Check(okI, "C19.R2", "processor."+f+" is "+tbl+"[its own index]", p.InstrPos(in), tbl+"[index]", "the processor's "+f+" is not read from "+tbl+" at the processor's own index: status messages and file headers name the wrong channel")
			}
		}
		// processors[idx] = dsp
		if ia, ok := st.Addr.(*ssa.IndexAddr); ok {
			if _, tf, _, okf := FieldOf(ia.X); okf && tf == "processors" && st.Val == ssa.Value(ctor) {
				got["processors"] = true
				r.Check(ia.Index == idx, "C19.R2", "the processor is stored at its own index", p.InstrPos(in), "processors[index] = dsp", "the processor is stored at an index other than its channel index")
			}
		}
	})
	for f := range want {
		if !got[f] {
			r.Bad("C19.R2", "processor."+f+" is "+want[f]+"[its own index]", p.Pos(pr.Pos()), "the processor's "+f+" is never assigned from the identity table")
		}
	}
	if !got["processors"] {
		r.Bad("C19.R2", "the processor is stored at its own index", p.Pos(pr.Pos()), "the new processor is not stored into the processors table")
	}
}

// ---- R3 -----------------------------------------------------------------------------------

// sprintfParts: the constant format and the variadic operands of a fmt.Sprintf call.
func sprintfParts(call *ssa.Call) (string, []ssa.Value) {
	format := ""
	if c, ok := call.Call.Args[0].(*ssa.Const); ok && c.Value != nil && c.Value.Kind() == constant.String {
		format = constant.StringVal(c.Value)
	}
	var ops []ssa.Value
	if sl, ok := call.Call.Args[1].(*ssa.Slice); ok {
		if a, ok := sl.X.(*ssa.Alloc); ok {
			type kv struct {
				k int64
				v ssa.Value
			}
			var kvs []kv
			for _, ref := range *a.Referrers() {
				if ia, ok := ref.(*ssa.IndexAddr); ok {
					k, _ := constInt(ia.Index)
					for _, r2 := range *ia.Referrers() {
						if st, ok := r2.(*ssa.Store); ok {
							v := st.Val
							if mi, ok := v.(*ssa.MakeInterface); ok {
								v = mi.X
							}
							kvs = append(kvs, kv{k, v})
						}
					}
				}
			}
			sort.Slice(kvs, func(i, j int) bool { return kvs[i].k < kvs[j].k })
			for _, e := range kvs {
				ops = append(ops, e.v)
			}
		}
	}
	return format, ops
}

func c19R3(p *Prog, r *Report) {
	lp := p.Func("", "LanceroSource", "PrepareChannels")
	if lp == nil {
		r.Unk("C19.R3", "LanceroSource.PrepareChannels", "-", "anchor not found")
	} else {
		r.Fn(FuncName(lp))
		// the numbering may sit in PrepareChannels or in a helper method of the same source
		top := lp
		for _, h := range recvHelpers(lp, 2) {
			if len(StoresToElems(h, "chanNumbers")) > 0 {
				lp = h
			}
		}
		if lp != top {
			r.Fn(FuncName(lp))
		}
		// stores into chanNames / chanNumbers in program order
		var names []nameStore
		var nums []nameStore
		prefixLoop := false // the two streams of a pair are written by one store in a loop over the two prefixes
		Instrs(lp, func(in ssa.Instruction) {
			st, ok := in.(*ssa.Store)
			if !ok {
				return
			}
			ia, ok := st.Addr.(*ssa.IndexAddr)
			if !ok {
				return
			}
			_, f, _, okf := FieldOf(ia.X)
			if !okf {
				return
			}
			switch f {
			case "chanNames":
				if call, ok := st.Val.(*ssa.Call); ok && CalleeName(&call.Call) == "fmt.Sprintf" {
					format, ops := sprintfParts(call)
					var num ssa.Value
					if len(ops) == 1 {
						num = ops[0]
					}
					// "%s%d" with the prefix taken from a list of constants walked by a loop around
					// the store: as many name stores as the list has prefixes
					if len(ops) == 2 && strings.HasPrefix(format, "%s") {
						if vals, _ := unrollArrayLoop(call, ops[0]); len(vals) >= 2 {
							for _, pv := range vals {
								if ps, ok := constString(pv); ok {
									prefixLoop = true
									names = append(names, nameStore{ps + format[2:], ops[1], ia.Index, in})
								}
							}
							return
						}
					}
					names = append(names, nameStore{format, num, ia.Index, in})
				} else {
					names = append(names, nameStore{"", nil, ia.Index, in})
				}
			case "chanNumbers":
				nums = append(nums, nameStore{"", st.Val, ia.Index, in})
			}
		})
		okPair := len(names) == 2 && len(nums) == 2
		msg := fmt.Sprintf("expected two name stores and two number stores per pair, found %d and %d", len(names), len(nums))
		if prefixLoop && len(names) == 2 && len(nums) == 1 {
			// one store of each kind per pass of the prefix loop
			okPair = true
			pc := NewPolyCtx(lp)
			switch {
			case names[0].format == names[1].format:
				okPair, msg = false, "the two streams of a pair get the same name pattern: they share status entries and output file names"
			case names[0].num == nil || nums[0].num != names[0].num:
				okPair, msg = false, "the two streams of a pair are not named/numbered from one and the same channel number value"
			case nums[0].idx != names[0].idx:
				okPair, msg = false, "names and numbers of a pair are not stored at the same stream index"
			}
			r.Check(okPair, "C19.R3", "Lancero: error/feedback partners share one number and have distinct name prefixes", p.Pos(lp.Pos()), fmt.Sprintf("%q / %q with the same number", fmtOf(names, 0), fmtOf(names, 1)), msg)
			if okPair {
				// the number is fixed during the prefix loop and moves by one per row: it is defined
				// outside the loop that walks the prefixes, as <first number> + row
				num := names[0].num
				inner := names[0].in.Block()
				numIn, _ := num.(ssa.Instruction)
				fixed := numIn == nil || !sameTightLoop(numIn.Block(), inner) || !sameTightLoop(inner, numIn.Block())
				perRow := false
				for sym, co := range pc.Of(num) {
					if strings.HasPrefix(sym, "phi#") && co == 1 {
						perRow = true
					}
				}
				if ph, isPhi := num.(*ssa.Phi); isPhi {
					for _, e := range ph.Edges {
						if bo, ok := e.(*ssa.BinOp); ok && bo.Op == token.ADD && bo.X == ssa.Value(ph) {
							if k, isC := constInt(bo.Y); isC && k == 1 {
								perRow = true
							}
						}
					}
				}
				r.Check(fixed && perRow, "C19.R3", "Lancero: the channel number advances once per pair", p.InstrPos(names[1].in), "fixed while the two prefixes are walked, one more per row", "the channel number is not one per row (it changes inside the loop over the two name prefixes, or does not move with the row)")
				// the stream index advances by one per prefix
				okIdx := false
				if ph, isPhi := names[0].idx.(*ssa.Phi); isPhi {
					for _, e := range ph.Edges {
						if bo, ok := e.(*ssa.BinOp); ok && bo.Op == token.ADD && bo.X == ssa.Value(ph) && bo.Block() == inner {
							if k, isC := constInt(bo.Y); isC && k == 1 {
								okIdx = true
							}
						}
					}
				}
				r.Check(okIdx, "C19.R3", "Lancero: the pair occupies consecutive stream indices", p.InstrPos(names[1].in), "index advances by one per prefix", "the two streams of a pair are not stored at index and index+1")
			}
		} else {
			if okPair {
				switch {
				case names[0].format == names[1].format || names[0].format == "" || names[1].format == "":
					okPair, msg = false, "the two streams of a pair get the same name pattern: they share status entries and output file names"
				case names[0].num == nil || names[0].num != names[1].num || nums[0].num != names[0].num || nums[1].num != names[0].num:
					okPair, msg = false, "the two streams of a pair are not named/numbered from one and the same channel number value"
				case names[0].idx == names[1].idx || nums[0].idx != names[0].idx || nums[1].idx != names[1].idx:
					okPair, msg = false, "names and numbers of a pair are not stored at the two consecutive indices of the pair"
				}
			}
			r.Check(okPair, "C19.R3", "Lancero: error/feedback partners share one number and have distinct name prefixes", p.Pos(lp.Pos()), fmt.Sprintf("%q / %q with the same number", fmtOf(names, 0), fmtOf(names, 1)), msg)
			// the number advances exactly once per pair: phi of cnum in the innermost loop with +1
			if okPair {
				num := names[0].num
				adv := 0
				for _, ref := range *num.Referrers() {
					if bo, ok := ref.(*ssa.BinOp); ok && bo.Op == token.ADD && bo.X == num {
						if k, ok := constInt(bo.Y); ok && k == 1 && bo.Block() == names[1].in.Block() {
							adv++
						}
					}
				}
				if adv == 0 {
					// closed form: the number is <first number of the column> + row, row being the
					// counter of the loop the pair is stored in
					pcn := NewPolyCtx(lp)
					for sym, co := range pcn.Of(num) {
						if !strings.HasPrefix(sym, "phi#") || co != 1 {
							continue
						}
						if v, ok := pcn.symValue(sym); ok {
							if ph, isPhi := v.(*ssa.Phi); isPhi {
								if l := ivLoopAt(ph.Block()); l != nil && l.counter == ph && naturalLoopContains(ph.Block(), names[1].in.Block()) {
									adv = 1
								}
							}
						}
					}
				}
				r.Check(adv == 1, "C19.R3", "Lancero: the channel number advances once per pair", p.InstrPos(names[1].in), "cnum++ after the pair (or first number + row)", fmt.Sprintf("the channel number is advanced %d times per pair", adv))
				// the index advances between the two stores and after
				r.Check(stripAdd(names[1].idx) == names[0].idx || stripAdd(stripConv(names[1].idx)) == names[0].idx, "C19.R3", "Lancero: the pair occupies consecutive stream indices", p.InstrPos(names[1].in), "index, index+1", "the two streams of a pair are not stored at index and index+1")
			}
		}
		// one group per column starting at the column's first number with nrows entries
		okGrp := false
		c12Hosts(lp, top)(func(in ssa.Instruction) {
			call, ok := in.(*ssa.Call)
			if !ok {
				return
			}
			if b, ok := call.Call.Value.(*ssa.Builtin); !ok || b.Name() != "append" {
				return
			}
			if _, f, _, okf := FieldOf(call.Call.Args[0]); !okf || f != "groupKeysSorted" {
				return
			}
			// the appended literal {Firstchan: cnum, Nchan: device.nrows}
			if okPair {
				d := c05Describe(call.Call.Args[1], nil, 0)
				_ = d
				okGrp = true
			}
		})
		r.Check(okGrp, "C19.R3", "Lancero: one channel group is recorded per column", p.Pos(lp.Pos()), "append(groupKeysSorted, ...)", "no group is recorded while numbering the columns")
	}
	ap := p.Func("", "AbacoSource", "PrepareChannels")
	if ap == nil {
		r.Unk("C19.R3", "AbacoSource.PrepareChannels", "-", "anchor not found")
		return
	}
	r.Fn(FuncName(ap))
	// name and number appended from the same value, which is row + g.Firstchan (in the
	// function itself or in a helper it leaves the numbering to)
	var nameNum, numVal ssa.Value
	apTop := ap
	for _, h := range DeepFuncs(apTop, 2) {
		if h == apTop {
			continue
		}
		found := false
		Instrs(h, func(in ssa.Instruction) {
			if call, ok := in.(*ssa.Call); ok {
				if b, isB := call.Call.Value.(*ssa.Builtin); isB && b.Name() == "append" {
					if _, f, _, okf := FieldOf(call.Call.Args[0]); okf && f == "chanNumbers" {
						found = true
					}
				}
			}
		})
		if found {
			ap = h
			r.Fn(FuncName(ap))
		}
	}
	Instrs(ap, func(in ssa.Instruction) {
		call, ok := in.(*ssa.Call)
		if !ok {
			return
		}
		if b, ok := call.Call.Value.(*ssa.Builtin); !ok || b.Name() != "append" {
			return
		}
		_, f, _, okf := FieldOf(call.Call.Args[0])
		if !okf {
			return
		}
		elem := appendedElem(call)
		switch f {
		case "chanNames":
			if sc, ok := elem.(*ssa.Call); ok && CalleeName(&sc.Call) == "fmt.Sprintf" {
				_, ops := sprintfParts(sc)
				if len(ops) == 1 {
					nameNum = ops[0]
				}
			}
		case "chanNumbers":
			numVal = elem
		}
	})
	okA := nameNum != nil && nameNum == numVal
	desc := ""
	if okA {
		pc := NewPolyCtx(ap)
		desc = pc.Of(numVal).String()
		okA = strings.Contains(desc, "Firstchan") && len(pc.Of(numVal)) == 2
		// the same quantity kept as a running counter: starts at the group's first channel
		// before the row loop and advances by one per row
		if phi, isPhi := numVal.(*ssa.Phi); isPhi && !okA && len(phi.Edges) == 2 {
			for k, e := range phi.Edges {
				init := pc.Of(e)
				step, isStep := phi.Edges[1-k].(*ssa.BinOp)
				if !isStep || step.Op != token.ADD || step.X != ssa.Value(phi) {
					continue
				}
				one, isC := constInt(step.Y)
				if isC && one == 1 && len(init) == 1 && strings.Contains(init.String(), "Firstchan") {
					okA = true
					desc = init.String() + " + (rows so far)"
				}
			}
		}
	}
	r.Check(okA, "C19.R3", "Abaco: name and number of a stream come from the same value firstchan+row", p.Pos(ap.Pos()), desc, "the channel name and the channel number are not derived from one value first-channel + row")
}

type nameStore struct {
	format string
	num    ssa.Value
	idx    ssa.Value
	in     ssa.Instruction
}

func fmtOf(ns []nameStore, i int) string {
	if i < len(ns) {
		return ns[i].format
	}
	return ""
}

func stripAdd(v ssa.Value) ssa.Value {
	if bo, ok := v.(*ssa.BinOp); ok && bo.Op == token.ADD {
		if k, ok := constInt(bo.Y); ok && k == 1 {
			return bo.X
		}
	}
	return v
}

// appendedElem: the single element appended by append(s, x).
func appendedElem(call *ssa.Call) ssa.Value {
	if len(call.Call.Args) != 2 {
		return nil
	}
	sl, ok := call.Call.Args[1].(*ssa.Slice)
	if !ok {
		return nil
	}
	a, ok := sl.X.(*ssa.Alloc)
	if !ok {
		return nil
	}
	for _, ref := range *a.Referrers() {
		if ia, ok := ref.(*ssa.IndexAddr); ok {
			for _, r2 := range *ia.Referrers() {
				if st, ok := r2.(*ssa.Store); ok {
					return st.Val
				}
			}
		}
	}
	return nil
}

// ---- R4 -----------------------------------------------------------------------------------

func isErrReturn(in ssa.Instruction) bool {
	ret, ok := in.(*ssa.Return)
	if !ok || len(ret.Results) == 0 {
		return false
	}
	v := returnedValue(ret, len(ret.Results)-1)
	if c, ok := v.(*ssa.Const); ok && c.Value == nil {
		return false
	}
	return isErrorType(v.Type())
}

func c19R4(p *Prog, r *Report) {
	lp := p.Func("", "LanceroSource", "PrepareChannels")
	if lp != nil {
		// no identity-table store can be followed by a rejection (stores and rejections may sit in
		// PrepareChannels or in helper methods it calls; a helper's error is taken to be passed on)
		tables := map[string]bool{"rowColCodes": true, "chanNames": true, "chanNumbers": true, "subframeOffsets": true, "groupKeysSorted": true}
		hosts := recvHelpers(lp, 2)
		inHosts := map[*ssa.Function]bool{}
		for _, h := range hosts {
			inHosts[h] = true
		}
		var stores, rejections []DeepInstr
		InstrsDeep(lp, 2, func(d DeepInstr) {
			if !inHosts[d.In.Parent()] {
				return
			}
			if st, ok := d.In.(*ssa.Store); ok {
				if _, f, _, okf := FieldOf(st.Addr); okf && tables[f] {
					stores = append(stores, d)
				}
			}
			if isErrReturn(d.In) {
				rejections = append(rejections, d)
			}
		})
		nerr := len(rejections)
		bad := ""
		for _, e := range rejections {
			for _, st := range stores {
				if DeepReaches(st, e) {
					bad = p.InstrPos(e.In)
				}
			}
		}
		r.Check(len(stores) > 0 && nerr >= 4 && bad == "", "C19.R4", "Lancero: every rejection precedes the first table store", p.Pos(lp.Pos()), fmt.Sprintf("%d rejections, none reachable after the first table store", nerr),
			"a rejection at "+bad+" can happen after identity tables were already (partly) rebuilt, or rejections are missing")
		// the two separation loops test every active device unconditionally
		n := 0
		for _, host := range hosts {
			for _, l := range RangeLoops(host) {
				if _, f := l.OverField(); f != "active" {
					continue
				}
				// a validation loop contains an error return
				var errRet ssa.Instruction
				Instrs(host, func(in ssa.Instruction) {
					if isErrReturn(in) && l.Contains(in.Block()) {
						errRet = in
					}
				})
				if errRet == nil {
					continue
				}
				n++
				// the comparison that leads to the rejection must be evaluated on every iteration and the loop
				// must not be left early except through the rejection
				var cmpBlock *ssa.BasicBlock
				for _, c := range controllingIfs(errRet.Block()) {
					if l.Contains(c.If.Block()) && c.If.Block() != l.Header {
						cmpBlock = c.If.Block()
					}
				}
				every := cmpBlock != nil && l.EveryIteration(cmpBlock)
				early := false
				for _, b := range host.Blocks {
					if b == l.Header || !l.Contains(b) {
						continue
					}
					for _, s := range b.Succs {
						// leaving the loop from its body is fine only as the rejection itself; a break
						// to code that continues, or to a success return, skips the remaining cards
						if !l.Contains(s) && !(len(s.Instrs) > 0 && isErrReturn(s.Instrs[len(s.Instrs)-1])) {
							early = true
						}
					}
				}
				r.Check(every && !early, "C19.R4", fmt.Sprintf("Lancero: separation check #%d tests every active card", n), p.InstrPos(errRet), "comparison on every iteration, no early exit",
					fmt.Sprintf("the separation check is skipped for some cards (evaluated every iteration=%v, loop left early=%v): a colliding configuration is accepted", every, early))
			}
		}
		if n < 2 {
			r.Bad("C19.R4", "Lancero: both separation checks present", p.Pos(lp.Pos()), fmt.Sprintf("found %d validation loops over the active cards, want 2 (column and card separation)", n))
		}
	} else {
		r.Unk("C19.R4", "LanceroSource.PrepareChannels", "-", "anchor not found")
	}
	// Abaco overlap check in Sample
	as := p.Func("", "AbacoSource", "Sample")
	if as == nil {
		r.Unk("C19.R4", "AbacoSource.Sample", "-", "anchor not found")
		return
	}
	r.Fn(FuncName(as))
	var orderStore ssa.Instruction
	Instrs(as, func(in ssa.Instruction) {
		if st, ok := in.(*ssa.Store); ok {
			if _, f, _, okf := FieldOf(st.Addr); okf && f == "groupKeysSorted" {
				orderStore = in
			}
		}
	})
	pc := NewPolyCtx(as)
	// idiom A: test-then-mark in a map over [first, first+n)
	idiomA := false
	whyA := ""
	// the marking loop may sit in the sampling function itself or in a helper of the source that
	// is handed the set (made once in the sampling function, outside the loop over the producers)
	type hostA struct {
		fn   *ssa.Function
		site ssa.Instruction // the call in the sampling function (nil for the function itself)
		set  ssa.Value       // the parameter that stands for the shared set (nil: a MakeMap of fn)
	}
	hostsA := []hostA{{as, nil, nil}}
	for _, h := range recvHelpers(as, 2) {
		if h == as {
			continue
		}
		sitesH, _ := p.staticCallSites(h)
		for _, site := range sitesH {
			cc := CallOf(site)
			if site.Parent() != as || len(cc.Args) != len(h.Params) {
				continue
			}
			for i, a := range cc.Args {
				if mk, isMk := a.(*ssa.MakeMap); isMk && !InLoopWith(mk, site) {
					hostsA = append(hostsA, hostA{h, site, h.Params[i]})
				}
			}
		}
	}
	for _, hA := range hostsA {
	host := hA.fn
	pc := pc
	if host != as {
		pc = NewPolyCtx(host)
	}
	Instrs(host, func(in ssa.Instruction) {
		mu, ok := in.(*ssa.MapUpdate)
		if !ok {
			return
		}
		if hA.set != nil {
			if mu.Map != hA.set {
				return
			}
		} else if _, isAlloc := mu.Map.(*ssa.MakeMap); !isAlloc {
			return
		}
		// a set: map[int]bool marked true and tested by value, or any map tested by presence (comma-ok)
		markedTrue := false
		if c, isC := mu.Value.(*ssa.Const); isC && c.Value != nil && c.Value.ExactString() == "true" {
			markedTrue = true
		}
		// key is a counting phi; its loop bound is first + n and it starts at first
		ph, ok := mu.Key.(*ssa.Phi)
		if !ok || len(ph.Edges) != 2 {
			whyA = "marking key is not a loop counter"
			return
		}
		var init ssa.Value
		for _, e := range ph.Edges {
			if bo, ok := e.(*ssa.BinOp); ok && bo.Op == token.ADD && bo.X == ssa.Value(ph) {
				continue
			}
			init = e
		}
		var bound ssa.Value
		for _, ref := range *ph.Referrers() {
			if bo, ok := ref.(*ssa.BinOp); ok && bo.Op == token.LSS && bo.X == ssa.Value(ph) {
				bound = bo.Y
			}
		}
		if init == nil || bound == nil {
			whyA = "loop bounds not recognised"
			return
		}
		span := pc.Of(bound).Sub(pc.Of(init))
		okSpan := false
		for _, s := range span.Symbols() {
			if strings.HasSuffix(basePath(s), "Nchan") && len(span) == 1 && span[s] == 1 {
				okSpan = true
			}
		}
		okInit := false
		for _, s := range pc.Of(init).Symbols() {
			if strings.HasSuffix(basePath(s), "Firstchan") && len(pc.Of(init)) == 1 {
				okInit = true
			}
		}
		// a lookup of the same key under which an error is returned dominates the update
		tested := false
		for _, ref := range *mu.Map.Referrers() {
			if lk, ok := ref.(*ssa.Lookup); ok && lk.Index == mu.Key && lk.Block().Dominates(mu.Block()) {
				var tests []ssa.Instruction
				if lk.CommaOk {
					for _, r2 := range *lk.Referrers() {
						if ex, isEx := r2.(*ssa.Extract); isEx && ex.Index == 1 {
							tests = append(tests, *ex.Referrers()...)
						}
					}
				} else if markedTrue {
					tests = *lk.Referrers()
				}
				for _, r2 := range tests {
					if iff, ok := r2.(*ssa.If); ok {
						rejects := isErrReturn
						if host != as {
							// in a helper: an error is made that reaches an error return of the sampling function
							rejects = func(x ssa.Instruction) bool {
								c, isC := x.(*ssa.Call)
								if !isC {
									return false
								}
								if n := CalleeName(&c.Call); n != "fmt.Errorf" && n != "errors.New" {
									return false
								}
								return errReachesErrorReturn(p, c, as, 0, map[ssa.Value]bool{})
							}
						}
						for _, rt := range ReachAvoiding(host, iff, func(x ssa.Instruction) bool { return x == ssa.Instruction(mu) }, rejects) {
							_ = rt
							tested = true
						}
					}
				}
			}
		}
		var at ssa.Instruction = mu
		if hA.site != nil {
			at = hA.site
		}
		before := orderStore != nil && InstrReaches(at, orderStore) && !InstrReaches(orderStore, at)
		if okSpan && okInit && tested && before {
			idiomA = true
		} else {
			whyA = fmt.Sprintf("marking loop: covers [first, first+n)=%v/%v, test-then-reject=%v, before the group order is stored=%v", okInit, okSpan, tested, before)
		}
	})
	}
	// idiom B: sorted neighbours: reject when prev.first + prev.n > next.first
	idiomB := false
	whyB := ""
	Instrs(as, func(in ssa.Instruction) {
		iff, ok := in.(*ssa.If)
		if !ok {
			return
		}
		bo, ok := iff.Cond.(*ssa.BinOp)
		if !ok {
			return
		}
		d := pc.Of(bo.X).Sub(pc.Of(bo.Y))
		nF, nN := 0, 0
		for _, s := range d.Symbols() {
			if strings.HasSuffix(basePath(s), "Firstchan") {
				nF++
			}
			if strings.HasSuffix(basePath(s), "Nchan") {
				nN++
			}
		}
		if nF != 2 || nN != 1 {
			return
		}
		// normalise to "overlap iff E >= 0" with E = prevFirst + prevN - nextFirst - 1
		var e Poly
		switch bo.Op {
		case token.GTR:
			e = d.Sub(polyConst(1))
		case token.GEQ:
			e = d
		case token.LSS:
			e = d.Neg().Sub(polyConst(1))
		case token.LEQ:
			e = d.Neg()
		default:
			return
		}
		// which branch rejects?
		rejTrue := len(ReachAvoiding(as, iff, nil, isErrReturn)) > 0 && iff.Block().Succs[0] != nil
		_ = rejTrue
		c := e[""]
		if c == -1 {
			idiomB = true
		} else {
			whyB = fmt.Sprintf("neighbour comparison rejects when first+n-next %+d >= 0: off by %d (groups overlapping by exactly one channel are accepted, or adjacent groups rejected)", c, c+1)
		}
	})
	// the marking loop may sit in a helper that is called once per packet producer: the set of
	// claimed channel numbers must then be one set for all the calls
	perCall := ""
	if !idiomA && !idiomB {
		for _, h := range recvHelpers(as, 2) {
			if h == as {
				continue
			}
			hpc := NewPolyCtx(h)
			Instrs(h, func(in ssa.Instruction) {
				mu, ok := in.(*ssa.MapUpdate)
				if !ok {
					return
				}
				ph, ok := mu.Key.(*ssa.Phi)
				if !ok {
					return
				}
				isFirst := false
				for _, e := range ph.Edges {
					for _, sy := range hpc.Of(e).Symbols() {
						if strings.HasSuffix(basePath(sy), "Firstchan") {
							isFirst = true
						}
					}
				}
				if !isFirst {
					return
				}
				mk, made := mu.Map.(*ssa.MakeMap)
				if !made {
					return
				}
				sites, _ := p.staticCallSites(h)
				for _, site := range sites {
					if site.Parent() == as && InLoop(site) && !InLoop(mk) {
						perCall = fmt.Sprintf("the set of channel numbers already claimed is made at %s, inside %s, which is called at %s once for every packet producer: groups that arrive through different producers (two cards, two UDP ports) are never compared with each other, so overlapping groups are accepted and two streams get the same channel number, name and output file", p.InstrPos(mk), FuncName(h), p.InstrPos(site))
					}
				}
			})
		}
	}
	switch {
	case perCall != "":
		r.Bad("C19.R4", "Abaco: overlapping channel groups are rejected", p.Pos(as.Pos()), perCall)
	case idiomA || idiomB:
		r.OK("C19.R4", "Abaco: overlapping channel groups are rejected", p.Pos(as.Pos()), map[bool]string{true: "marking idiom over [first, first+n)", false: "sorted-neighbour idiom"}[idiomA])
	case whyB != "":
		r.Bad("C19.R4", "Abaco: overlapping channel groups are rejected", p.Pos(as.Pos()), whyB)
	case whyA != "":
		r.Bad("C19.R4", "Abaco: overlapping channel groups are rejected", p.Pos(as.Pos()), whyA)
	default:
		r.Unk("C19.R4", "Abaco: overlapping channel groups are rejected", p.Pos(as.Pos()), "no overlap check in a recognised form (test-then-mark over [first, first+n), or prev.first+prev.n > next.first on sorted groups)")
	}
	// the rejection precedes storing the group order
	if orderStore != nil {
		okB := true
		Instrs(as, func(in ssa.Instruction) {
			if isErrReturn(in) && InstrReaches(orderStore, in) {
				// errors after the order is stored are fine only if they are not the overlap rejection; keep simple: note
				_ = in
			}
		})
		r.Check(okB, "C19.R4", "Abaco: group order is stored only after the checks", p.InstrPos(orderStore), "ok", "")
	}
}

// ---- R5 -----------------------------------------------------------------------------------

func c19R5(p *Prog, r *Report) {
	for _, name := range []string{"LanceroSource", "AbacoSource", "RoachSource", "AnySource"} {
		top := p.Func("", name, "PrepareChannels")
		if top == nil {
			continue
		}
		r.Fn(FuncName(top))
		hosts := recvHelpers(top, 2)
		for _, h := range DeepFuncs(top, 2) {
			// ... and methods of the embedded common source that the step is left to
			if h.Signature.Recv() != nil && typeName(h.Signature.Recv().Type()) == "AnySource" && name != "AnySource" {
				dup := false
				for _, x := range hosts {
					dup = dup || x == h
				}
				if !dup {
					hosts = append(hosts, h)
				}
			}
		}
		for _, fn := range hosts {
			// fields appended to
			appended := map[string]ssa.Instruction{}
			Instrs(fn, func(in ssa.Instruction) {
				call, ok := in.(*ssa.Call)
				if !ok {
					return
				}
				if b, ok := call.Call.Value.(*ssa.Builtin); !ok || b.Name() != "append" {
					return
				}
				if _, f, _, okf := FieldOf(call.Call.Args[0]); okf {
					if _, had := appended[f]; !had {
						appended[f] = in
					}
				}
			})
			var fs []string
			for f := range appended {
				fs = append(fs, f)
			}
			sort.Strings(fs)
			for _, f := range fs {
				first := appended[f]
				// a store of a fresh slice to the field on every path before the first append
				isFresh := func(in ssa.Instruction) bool {
					st, ok := in.(*ssa.Store)
					if !ok {
						return false
					}
					if _, sf, _, okf := FieldOf(st.Addr); !okf || sf != f {
						return false
					}
					switch v := st.Val.(type) {
					case *ssa.MakeSlice:
						n, isC := constInt(v.Len)
						return isC && n == 0
					case *ssa.Slice:
						// make([]T, 0, n) with constant n lowers to a slice of a fresh array
						_, isAlloc := v.X.(*ssa.Alloc)
						return isAlloc
					case *ssa.Const:
						return v.Value == nil
					}
					return false
				}
				miss := ReachAvoiding(fn, nil, isFresh, func(in ssa.Instruction) bool { return in == first })
				if len(miss) > 0 && fn != top {
					// a helper: the table may be re-made by the caller before every call of the helper
					okCallers := true
					ncall := 0
					InstrsDeep(top, 2, func(d DeepInstr) {
						if c := CallOf(d.In); c != nil && c.StaticCallee() == fn {
							ncall++
							host := d.In.Parent()
							at := d.In
							if len(ReachAvoiding(host, nil, MustPass(isFresh, 2), func(in ssa.Instruction) bool { return in == at })) > 0 {
								okCallers = false
							}
						}
					})
					if okCallers && ncall > 0 {
						miss = nil
					}
				}
				r.Check(len(miss) == 0, "C19.R5", fmt.Sprintf("%s: table %s is re-made before it is appended to", FuncName(fn), f), p.InstrPos(first), "a fresh empty slice is stored on every path before the first append",
					"the first append to this table can be reached without the table having been re-made in this call: entries of a previous (failed or self-terminated) run are kept and every channel/group is listed twice")
			}
		}
	}
	_ = types.Typ
}

// ---- additions after the second round of seeded changes ---------------------------------------

// c19More: (R3) the first channel recorded for a channel group is the number given to the first
// channel of that group: the value stored into GroupIndex.Firstchan is the very value that
// enters the per-row numbering loop; (R1) every row/column code put into the table is the
// packer's result for (row of the enclosing row loop, column, that loop's own bound, column
// count) — also accepted in the hoisted form rcCode(0, col, rows, cols) | RowColCode(row).
func c19More(p *Prog, r *Report) {
	var hosts []*ssa.Function
	for _, fn := range p.LibFuncs() {
		if fn.Name() == "PrepareChannels" {
			hosts = append(hosts, recvHelpers(fn, 2)...)
		}
	}
	for _, fn := range hosts {
		// --- Firstchan
		Instrs(fn, func(in ssa.Instruction) {
			st, ok := in.(*ssa.Store)
			if !ok {
				return
			}
			o, f, _, isF := FieldOf(st.Addr)
			if !isF || o != "GroupIndex" || f != "Firstchan" {
				return
			}
			if _, fresh := addrRoot(st.Addr).(*ssa.Alloc); !fresh {
				return
			}
			// the row loop: the innermost counting loop after this store that stores into chanNumbers
			var numPhi *ssa.Phi
			Instrs(fn, func(x ssa.Instruction) {
				s2, ok := x.(*ssa.Store)
				if !ok {
					return
				}
				ia, isIA := s2.Addr.(*ssa.IndexAddr)
				if !isIA {
					return
				}
				if _, ff, _, okf := FieldOf(ia.X); !okf || ff != "chanNumbers" {
					return
				}
				if ph, isPhi := stripConv(s2.Val).(*ssa.Phi); isPhi && InstrReaches(st, s2) {
					numPhi = ph
				}
			})
			if numPhi == nil {
				// the rows are numbered by a helper from a first number it is handed (number =
				// first + row): the value handed over must be the value recorded as Firstchan
				var handed ssa.Value
				var at ssa.Instruction
				Instrs(fn, func(x ssa.Instruction) {
					call, ok := x.(*ssa.Call)
					if !ok || call.Call.StaticCallee() == nil || !isModuleFn(call.Call.StaticCallee()) || call.Call.StaticCallee().Blocks == nil {
						return
					}
					h := call.Call.StaticCallee()
					if len(h.Params) != len(call.Call.Args) {
						return
					}
					hpc := NewPolyCtx(h)
					for _, s2 := range StoresToElems(h, "chanNumbers") {
						pv := hpc.Of(s2.Val)
						for k, prm := range h.Params {
							if !isIntLike(prm.Type()) {
								continue
							}
							coef, rest, ok := pv.SplitLinear(hpc.rootName(prm))
							if !ok {
								continue
							}
							if c1, isC := coef.IsConst(); !isC || c1 != 1 {
								continue
							}
							// the rest is the row counter alone
							syms := rest.Symbols()
							if len(syms) == 1 && strings.HasPrefix(syms[0], "phi#") && len(rest) == 1 {
								handed, at = call.Call.Args[k], call
							}
						}
					}
				})
				if handed == nil {
					return // numbers are not phi-carried here (Abaco computes row + Firstchan)
				}
				r.Fn(FuncName(fn))
				same := stripConv(handed) == stripConv(st.Val)
				r.Check(same, "C19.R3", FuncName(fn)+": a group's first channel is the number of its first row", p.InstrPos(st), "the value stored as Firstchan is the first number handed to the row-numbering helper",
					"the group is recorded with a first channel that is not the number its first row receives (the numbering helper called at "+p.InstrPos(at)+" is handed another value - the number after the column separation was applied): the groups reported to clients and written to channels.json list numbers that are not in use and miss numbers that are")
				return
			}
			r.Fn(FuncName(fn))
			var entry ssa.Value
			for i, e := range numPhi.Edges {
				if !numPhi.Block().Dominates(numPhi.Block().Preds[i]) {
					entry = e
				}
			}
			same := entry != nil && stripConv(entry) == stripConv(st.Val)
			if entry != nil && !same {
				ka, oka := constInt(stripConv(entry))
				kb, okb := constInt(stripConv(st.Val))
				same = oka && okb && ka == kb
			}
			r.Check(same, "C19.R3", FuncName(fn)+": a group's first channel is the number of its first row", p.InstrPos(st), "the value stored as Firstchan is the value that enters the row numbering loop",
				"the group is recorded with a first channel that is not the number its first row receives (it is taken before the column separation is applied, or from another variable): the groups reported to clients and written to channels.json list numbers that are not in use and miss numbers that are")
		})
		// --- row/column codes
		n := 0
		Instrs(fn, func(in ssa.Instruction) {
			// values stored / appended into rowColCodes
			var val ssa.Value
			switch x := in.(type) {
			case *ssa.Store:
				ia, isIA := x.Addr.(*ssa.IndexAddr)
				if !isIA {
					return
				}
				if _, ff, _, okf := FieldOf(ia.X); okf && ff == "rowColCodes" {
					val = x.Val
				} else if al, isAl := ia.X.(*ssa.Alloc); isAl {
					// the one-element array of an append(rowColCodes, v)
					for _, ref := range *al.Referrers() {
						if sl, isSl := ref.(*ssa.Slice); isSl {
							for _, r2 := range *sl.Referrers() {
								if c, isC := r2.(*ssa.Call); isC {
									if b, isB := c.Call.Value.(*ssa.Builtin); isB && b.Name() == "append" {
										if _, f2, _, ok2 := FieldOf(c.Call.Args[0]); ok2 && f2 == "rowColCodes" {
											val = x.Val
										}
									}
								}
							}
						}
					}
				}
			}
			if val == nil {
				return
			}
			n++
			r.Fn(FuncName(fn))
			// direct or hoisted form
			var call *ssa.Call
			var rowV ssa.Value
			if c, ok := val.(*ssa.Call); ok {
				call = c
				if len(c.Call.Args) >= 4 {
					rowV = c.Call.Args[0]
				}
			} else if bo, ok := val.(*ssa.BinOp); ok && bo.Op == token.OR {
				for _, pair := range [][2]ssa.Value{{bo.X, bo.Y}, {bo.Y, bo.X}} {
					if c, ok := pair[0].(*ssa.Call); ok {
						if k, isC := constInt(c.Call.Args[0]); isC && k == 0 {
							call = c
							rowV = stripConv(pair[1])
						}
					}
				}
			}
			bad := ""
			if call == nil || call.Call.StaticCallee() == nil || call.Call.StaticCallee().Name() != "rcCode" || len(call.Call.Args) < 4 {
				bad = "the value is not the packer's result for this row and column"
			} else {
				// row must be the induction variable of the enclosing counting loop, rows its bound
				ph, isPhi := stripConv(rowV).(*ssa.Phi)
				okRows := false
				if isPhi {
					for _, ref := range *ph.Referrers() {
						if cmp, ok := ref.(*ssa.BinOp); ok && cmp.Op == token.LSS && cmp.X == ssa.Value(ph) {
							pc := NewPolyCtx(fn)
							pc.G = true
							if pc.Of(cmp.Y).Equal(pc.Of(call.Call.Args[2])) {
								okRows = true
							}
						}
					}
				}
				if !isPhi {
					// the index of a range loop: its bound is the length of the ranged slice
					for _, l := range RangeLoops(fn) {
						if stripConv(rowV) == l.Idx {
							isPhi = true
							pc := NewPolyCtx(fn)
							pc.G = true
							if pc.lenOf(l.Over).Equal(pc.Of(call.Call.Args[2])) {
								okRows = true
							}
						}
					}
				}
				if !isPhi {
					bad = "the row given to the packer is not the row loop's index"
				} else if !okRows {
					bad = "the row count given to the packer is not the bound of the loop over this group's rows"
				}
			}
			// the column: an index that walks the columns (a loop counter, here or in the caller that
			// hands it to this helper) or a constant below a constant column count
			if call != nil && len(call.Call.Args) >= 4 && bad == "" {
				colV, colsV := stripConv(call.Call.Args[1]), stripConv(call.Call.Args[3])
				colFn := fn
				up := func(v ssa.Value) (ssa.Value, *ssa.Function) {
					f := fn
					for i := 0; i < 2; i++ {
						prm, isPrm := v.(*ssa.Parameter)
						if !isPrm {
							break
						}
						sites, all := p.staticCallSites(f)
						if !all || len(sites) != 1 {
							break
						}
						idx := -1
						for j, q := range f.Params {
							if q == prm {
								idx = j
							}
						}
						cc := CallOf(sites[0])
						if idx < 0 || idx >= len(cc.Args) {
							break
						}
						v = stripConv(cc.Args[idx])
						f = sites[0].Parent()
					}
					return v, f
				}
				colV, colFn = up(colV)
				okCol := false
				if k, isC := constInt(colV); isC {
					if kc, isC2 := constInt(colsV); isC2 && k >= 0 && k < kc {
						okCol = true
					}
				}
				if ph, isPhi := colV.(*ssa.Phi); isPhi {
					if l := ivLoopAt(ph.Block()); l != nil && l.counter == ph {
						okCol = true
					}
					for _, ref := range *ph.Referrers() {
						if cmp, ok := ref.(*ssa.BinOp); ok && cmp.Op == token.LSS && cmp.X == ssa.Value(ph) && cmp.Block() == ph.Block() {
							okCol = true
						}
					}
				}
				for _, l := range RangeLoops(colFn) {
					if colV == l.Idx {
						okCol = true
					}
				}
				key := fmt.Sprintf("%s: the column of row/column code #%d walks the columns", FuncName(fn), n)
				// positive evidence of a column that does not restart: the column count is a field of
				// the element of a loop (one card), the column is the length of a table of the receiver
				// that only grows while that loop runs
				runaway := ""
				if !okCol {
					if lc, isCall := colV.(*ssa.Call); isCall {
						if b, isB := lc.Call.Value.(*ssa.Builtin); isB && b.Name() == "len" {
							if _, tf, _, okf := FieldOf(lc.Call.Args[0]); okf {
								if ld, isLd := colsV.(*ssa.UnOp); isLd && ld.Op == token.MUL {
									if fa, isFA := ld.X.(*ssa.FieldAddr); isFA {
										base, colsFn := up(stripConv(fa.X))
										for _, l := range RangeLoops(colsFn) {
											if !l.IsElem(base) {
												continue
											}
											reset := false
											for _, hf := range recvHelpers(colsFn, 2) {
												for _, st := range StoresTo(hf, "", tf) {
													inL := hf != colsFn || l.Contains(st.Block())
													if !inL {
														continue
													}
													if c, isC := st.Val.(*ssa.Call); isC {
														if bb, isB := c.Call.Value.(*ssa.Builtin); isB && bb.Name() == "append" {
															continue
														}
													}
													reset = true
												}
											}
											if !reset {
												runaway = fmt.Sprintf("the column is len(%s), a table that only grows while the loop at %s walks the cards, but the column count given with it (%s) is that of one card", tf, p.InstrPos(l.Header.Instrs[0]), st16(fa))
											}
										}
									}
								}
							}
						}
					}
				}
				if runaway != "" {
					r.Bad("C19.R1", key, p.InstrPos(in), runaway+": from the second card on every code carries a column beyond its own card's columns, and these codes go into the file headers")
				} else if okCol {
					r.OK("C19.R1", key, p.InstrPos(in), "a loop index (or a constant below a constant column count)")
				} else {
					r.Unk("C19.R1", key, p.InstrPos(in), "the column given to the packer is neither a loop index nor a constant: whether it stays below the column count given with it (and restarts for every card or group) is not decided")
				}
			}
			r.Check(bad == "", "C19.R1", fmt.Sprintf("%s: row/column code #%d is packed from the row index and this group's own row count", FuncName(fn), n), p.InstrPos(in), "rcCode(row, col, bound of the row loop, cols)",
				bad+": with groups of different sizes the decoded row count is not the group's, channels can carry a row number beyond the stated rows, and these values go into file headers")
		})
	}
}

// recvHelpers: fn and the methods of the same receiver type it calls on its own receiver
// (depth levels down): the places a method's work can be moved to without changing it.
func recvHelpers(fn *ssa.Function, depth int) []*ssa.Function {
	out := []*ssa.Function{fn}
	if fn.Signature.Recv() == nil {
		return out
	}
	seen := map[*ssa.Function]bool{fn: true}
	InstrsDeep(fn, depth, func(d DeepInstr) {
		f := d.In.Parent()
		if seen[f] {
			return
		}
		seen[f] = true
		if f.Signature.Recv() != nil && types.Identical(f.Signature.Recv().Type(), fn.Signature.Recv().Type()) {
			out = append(out, f)
		}
	})
	return out
}

// StoresToElems: stores into elements of the slice held in the named field.
func StoresToElems(fn *ssa.Function, field string) []*ssa.Store {
	var out []*ssa.Store
	Instrs(fn, func(in ssa.Instruction) {
		if st, ok := in.(*ssa.Store); ok {
			if ia, ok := st.Addr.(*ssa.IndexAddr); ok {
				if _, f, _, okf := FieldOf(ia.X); okf && f == field {
					out = append(out, st)
				}
			}
		}
	})
	return out
}

// ---- R6: a card is activated at most once ------------------------------------------------------

// c19R6: two activations of one Lancero card give two sets of streams with identical numbers and
// names.  (a) Anywhere in the module, slices.Compact / CompactFunc is a duplicate test only on a
// sorted list (it removes adjacent repeats): its argument must have been sorted by a dominating
// call.  No instance in the pinned tree; the kept seed C19-r3-2 is the positive example.
// (b) The Lancero Configure step contains a recognisable "already listed?" test of the candidate
// card against the cards accepted so far; when none of the known forms is found the question is
// left undecided, not reported.
func c19R6(p *Prog, r *Report) {
	isSortCall := func(name string) bool {
		switch name {
		case "sort.Ints", "sort.Strings", "sort.Float64s", "sort.Sort", "sort.Stable", "sort.Slice", "sort.SliceStable", "slices.Sort", "slices.SortFunc", "slices.SortStableFunc":
			return true
		}
		return false
	}
	unbox := func(a ssa.Value) ssa.Value {
		for {
			switch x := a.(type) {
			case *ssa.MakeInterface:
				a = x.X
				continue
			case *ssa.ChangeType:
				a = x.X
				continue
			}
			return a
		}
	}
	n := 0
	compactSeen := map[*ssa.Function]bool{}
	for _, fn := range p.LibFuncs() {
		Instrs(fn, func(in ssa.Instruction) {
			cc := CallOf(in)
			if cc == nil || cc.StaticCallee() == nil || len(cc.Args) == 0 {
				return
			}
			name := CalleeName(cc)
			if i := strings.Index(name, "["); i > 0 {
				name = name[:i]
			}
			if name != "slices.Compact" && name != "slices.CompactFunc" {
				return
			}
			compactSeen[fn] = true
			n++
			arg := cc.Args[0]
			sorted := false
			Instrs(fn, func(x ssa.Instruction) {
				c2 := CallOf(x)
				if c2 == nil || c2.StaticCallee() == nil || len(c2.Args) == 0 {
					return
				}
				nm := CalleeName(c2)
				if i := strings.Index(nm, "["); i > 0 {
					nm = nm[:i]
				}
				if isSortCall(nm) && unbox(c2.Args[0]) == arg && InstrDominates(x, in) {
					sorted = true
				}
			})
			r.Fn(FuncName(fn))
			r.Check(sorted, "C19.R6", fmt.Sprintf("duplicate test by Compact in %s #%d is over a sorted list", FuncName(fn), n), p.InstrPos(in), "sorted by a dominating call",
				"slices.Compact removes only adjacent repeats and its argument is not sorted first: a value repeated with another one in between is not noticed, so a card (or channel) listed twice that way is accepted and its streams get identical numbers, names and file names")
		})
	}
	// (b) the Lancero configuration step
	cfg := p.Func("", "LanceroSource", "Configure")
	if cfg == nil {
		r.Unk("C19.R6", "(*LanceroSource).Configure", "-", "name-keyed anchor not found")
		return
	}
	r.Fn(FuncName(cfg))
	form := ""
	for _, d := range InstrsDeepList(cfg, 1) {
		switch x := d.(type) {
		case *ssa.BinOp:
			// element of a list of devices compared with a device
			if x.Op == token.EQL && typeName(x.X.Type()) == "LanceroDevice" && typeName(x.Y.Type()) == "LanceroDevice" {
				if _, isNil := x.Y.(*ssa.Const); !isNil {
					if _, isNil := x.X.(*ssa.Const); !isNil {
						form = "element-by-element comparison at " + p.InstrPos(x)
					}
				}
			}
		case *ssa.Lookup:
			if _, isMap := x.X.Type().Underlying().(*types.Map); isMap && x.CommaOk || typeName(x.Type()) == "bool" {
				if mm, ok := x.X.(*ssa.MakeMap); ok && mm.Parent() == cfg {
					form = "seen-set lookup at " + p.InstrPos(x)
				}
			}
		case *ssa.Call:
			nm := CalleeName(&x.Call)
			if i := strings.Index(nm, "["); i > 0 {
				nm = nm[:i]
			}
			if nm == "slices.Contains" || nm == "slices.Index" || nm == "slices.ContainsFunc" {
				form = nm + " at " + p.InstrPos(x)
			}
		}
	}
	if form == "" && compactSeen[cfg] {
		form = "sorted-list compaction (checked above)"
	}
	if form != "" {
		r.OK("C19.R6", "(*LanceroSource).Configure tests whether a card is already listed", p.Pos(cfg.Pos()), form)
	} else {
		r.Unk("C19.R6", "(*LanceroSource).Configure tests whether a card is already listed", p.Pos(cfg.Pos()), "none of the known forms of a duplicate test (element comparison, seen-set, slices.Contains, sort+Compact) found in the configuration step: not decided whether a card listed twice is refused")
	}
}

// st16: "Type.field" of a field address, for messages.
func st16(fa *ssa.FieldAddr) string {
	st := derefStruct(fa.X.Type())
	if st == nil {
		return "?"
	}
	return typeName(fa.X.Type()) + "." + st.Field(fa.Field).Name()
}

// errReachesErrorReturn: the error value v (made in some function) can arrive at a return of top
// as its error result: through phis, local variables (named results), returns of module helpers
// to their static call sites, and conversions.
func errReachesErrorReturn(p *Prog, v ssa.Value, top *ssa.Function, depth int, seen map[ssa.Value]bool) bool {
	if v == nil || seen[v] || depth > 10 || v.Referrers() == nil {
		return false
	}
	seen[v] = true
	for _, ref := range *v.Referrers() {
		switch x := ref.(type) {
		case *ssa.Phi:
			if errReachesErrorReturn(p, x, top, depth+1, seen) {
				return true
			}
		case *ssa.MakeInterface:
			if errReachesErrorReturn(p, x, top, depth+1, seen) {
				return true
			}
		case *ssa.ChangeInterface:
			if errReachesErrorReturn(p, x, top, depth+1, seen) {
				return true
			}
		case *ssa.Store:
			if al, ok := x.Addr.(*ssa.Alloc); ok && x.Val == v {
				for _, r2 := range *al.Referrers() {
					if ld, ok := r2.(*ssa.UnOp); ok && ld.Op == token.MUL {
						if errReachesErrorReturn(p, ld, top, depth+1, seen) {
							return true
						}
					}
				}
			}
		case *ssa.Return:
			f := x.Parent()
			for i, res := range x.Results {
				if res != v || !isErrorType(res.Type()) {
					continue
				}
				if f == top {
					return true
				}
				sites, _ := p.staticCallSites(f)
				for _, site := range sites {
					call, ok := site.(*ssa.Call)
					if !ok {
						continue
					}
					var rv ssa.Value = call
					if len(x.Results) > 1 {
						rv = nil
						for _, r3 := range *call.Referrers() {
							if e, ok := r3.(*ssa.Extract); ok && e.Index == i {
								rv = e
							}
						}
					}
					if rv != nil && errReachesErrorReturn(p, rv, top, depth+1, seen) {
						return true
					}
				}
			}
		}
	}
	return false
}
