package main

import (
	"fmt"
	"go/token"
	"go/types"
	"sort"
	"strings"

	"golang.org/x/tools/go/ssa"
)

func init() {
	register(&RuleSet{
		Property: "C07",
		Explanation: "Decides the structural clauses of record-atomic, order-preserving asynchronous file writing for every schedule and stall pattern: " +
			"(R1) every per-record writer performs at most one fallible enqueue per record on every path, so a full queue rejects a whole record or nothing; header writers with several enqueues only run on a freshly created queue whose capacity exceeds the number of header enqueues; " +
			"(R3) the enqueue is all-or-nothing: one non-blocking send of the whole parameter, success returns (len,nil), the full-queue arm returns (0, non-nil error); every function that sends on the queue is a method of the asynchronous writer and has this shape itself (the []byte form, or the string form that converts its parameter); " +
			"(R4) the queue has a single consumer goroutine started once by the constructor, and every received slice goes straight to the buffered writer (no reordering store); " +
			"(R5) flush drains the queue until empty before bufio.Flush, the acknowledge send is preceded by the flush on every path, and Flush/Close signal then wait for exactly one acknowledge; " +
			"(R6) file writers close the asynchronous writer before the file; (R7) the bytes handed to the queue are not backed by a buffer kept in the writer (the queue holds the slice, not a copy). " +
			"Given Go's FIFO channel semantics and bufio's, these clauses are the mechanism of C07. Does not decide: disk write errors inside the consumer (ignored by design of the code), or what callers do with a rejection.",
		RuleDocs: []string{
			"C07.R9 each writer's flush step in the publisher's Flush is control-dependent (transitively) only on tests of the writer handles, not on the pause flag or other state: a flush request reaches every installed writer",
			"C07.R1 occurrence count (<=1 on every path) of calls reaching the fallible enqueue in each writer method that is called from a loop over records",
			"C07.R1h multi-enqueue header writers: every call site is dominated by the call that creates the queue, with no record write in between; queue capacity constant >= number of header enqueues",
			"C07.R3 shape of the enqueue function: single select with a send of the parameter itself and a default arm; result values per arm",
			"C07.R4 who-may-receive on the queue channel; single go statement; received value flows only into (*bufio.Writer).Write",
			"C07.R5 must-pass-through: drain loop before bufio.Flush before return; flush before acknowledge; request then exactly one acknowledge receive in Flush/Close",
			"C07.R6 close order in every function that closes both an asynchronous writer and an *os.File",
			"C07.R7 provenance of the enqueued slice: never rooted in a field of the writer",
			"C07.R8 value flow of the enqueue's error to a return of the per-record writer (and of a wrapper that is handed the bytes): a rejected record is reported",
		},
		Assumptions: []string{"Go channels are FIFO; bufio.Writer.Write/Flush write through to the file in call order"},
		Run:         runC07,
	})
}

type c07ctx struct {
	p         *Prog
	r         *Report
	awType    *types.Named // asyncbufio.Writer
	qField    string       // chan []byte field
	enqueue   *ssa.Function
	senders   []*ssa.Function        // every function that sends on the queue (each must have the enqueue shape)
	enqueues  map[*ssa.Function]bool // enqueue + thin wrappers (WriteString)
	loopFn    *ssa.Function
	ctor      *ssa.Function
	reqField  string
	ackField  string
	consumers map[*ssa.Function]bool
}

func runC07(p *Prog, r *Report) {
	c := &c07ctx{p: p, r: r, enqueues: map[*ssa.Function]bool{}, consumers: map[*ssa.Function]bool{}}
	if !c.anchors() {
		return
	}
	r.MinInstances["C07.R1"] = 3
	r.MinInstances["C07.R3"] = 1
	r.MinInstances["C07.R4"] = 3
	r.MinInstances["C07.R5"] = 5
	r.MinInstances["C07.R6"] = 2
	r.MinInstances["C07.R7"] = 3
	c.ruleR3()
	c.ruleR4()
	c.ruleR5()
	c.ruleR1()
	c.ruleR6()
	r.MinInstances["C07.R9"] = 3
	c07R9(p, r)
}

// awChan returns the name of the async writer's channel field v is loaded from ("" otherwise).
func (c *c07ctx) awChan(v ssa.Value) string {
	o, f, _, ok := FieldOf(v)
	if !ok || o != c.awType.Obj().Name() {
		return ""
	}
	if _, isChan := v.Type().Underlying().(*types.Chan); !isChan {
		return ""
	}
	return f
}

func (c *c07ctx) isQueueChan(v ssa.Value) bool {
	o, f, _, ok := FieldOf(v)
	return ok && f == c.qField && o == c.awType.Obj().Name()
}

func (c *c07ctx) anchors() bool {
	p, r := c.p, c.r
	sp := p.pkgOf("asyncbufio")
	if sp == nil {
		r.Unk("C07.anchor", "package asyncbufio", "-", "package not found")
		return false
	}
	// the writer type: a struct with a chan []byte field
	for _, m := range sp.Members {
		t, ok := m.(*ssa.Type)
		if !ok {
			continue
		}
		n, _ := t.Type().(*types.Named)
		if n == nil {
			continue
		}
		st, ok := n.Underlying().(*types.Struct)
		if !ok {
			continue
		}
		for i := 0; i < st.NumFields(); i++ {
			if isChanOf(st.Field(i).Type(), func(e types.Type) bool {
				s, ok := e.Underlying().(*types.Slice)
				return ok && types.Identical(s.Elem(), types.Typ[types.Byte])
			}) {
				c.awType, c.qField = n, st.Field(i).Name()
			}
		}
	}
	if c.awType == nil {
		r.Unk("C07.anchor", "async writer type", "-", "no struct with a chan []byte field in asyncbufio")
		return false
	}
	// enqueue: the function that sends its []byte parameter on the queue
	for _, fn := range p.LibFuncs() {
		Instrs(fn, func(in ssa.Instruction) {
			switch x := in.(type) {
			case *ssa.Send:
				if c.isQueueChan(x.Chan) {
					c.noteSender(fn, in)
				}
			case *ssa.Select:
				for _, st := range x.States {
					if st.Dir == types.SendOnly && c.isQueueChan(st.Chan) {
						c.noteSender(fn, in)
					}
				}
			}
		})
	}
	if c.enqueue == nil {
		r.Unk("C07.anchor", "enqueue function", "-", "no function sends on the queue channel")
		return false
	}
	c.enqueues[c.enqueue] = true
	for _, sfn := range c.senders {
		c.enqueues[sfn] = true
	}
	// thin wrappers in the same package that call enqueue exactly once and return its results
	for _, fn := range p.LibFuncs() {
		if fnPkg(fn) != sp.Pkg || fn == c.enqueue {
			continue
		}
		n := 0
		Instrs(fn, func(in ssa.Instruction) {
			if cc := CallOf(in); cc != nil && cc.StaticCallee() == c.enqueue {
				n++
			}
		})
		if n > 0 {
			c.enqueues[fn] = true
		}
	}
	// the consumer goroutine and constructor
	for _, gs := range p.GoStarts() {
		if fnPkg(gs.In) != sp.Pkg {
			continue
		}
		for _, f := range gs.Callees {
			if c.loopFn != nil {
				r.Bad("C07.R4", "second goroutine start in asyncbufio: "+FuncName(gs.In), p.InstrPos(gs.Instr), "exactly one consumer goroutine per writer")
			}
			c.loopFn, c.ctor = f, gs.In
		}
	}
	if c.loopFn == nil {
		r.Unk("C07.anchor", "consumer goroutine", "-", "no go statement in asyncbufio")
		return false
	}
	// request / acknowledge channels: the loop receives from req and sends on ack
	Instrs(c.loopFn, func(in ssa.Instruction) {
		switch x := in.(type) {
		case *ssa.Send:
			if f := c.awChan(x.Chan); f != "" && f != c.qField {
				c.ackField = f
			}
		case *ssa.Select:
			for _, st := range x.States {
				if st.Dir == types.RecvOnly {
					if f := c.awChan(st.Chan); f != "" && f != c.qField {
						c.reqField = f
					}
				}
			}
		case *ssa.UnOp:
			if x.Op == token.ARROW {
				if f := c.awChan(x.X); f != "" && f != c.qField {
					c.reqField = f
				}
			}
		}
	})
	if c.reqField == "" || c.ackField == "" {
		r.Unk("C07.anchor", "flush request/acknowledge channels", p.Pos(c.loopFn.Pos()), "consumer loop does not receive a flush request and send an acknowledge")
		return false
	}
	r.Notes = append(r.Notes, fmt.Sprintf("anchors: writer=%s queue=%s enqueue=%s consumer=%s constructor=%s request=%s ack=%s",
		c.awType.Obj().Name(), c.qField, FuncName(c.enqueue), FuncName(c.loopFn), FuncName(c.ctor), c.reqField, c.ackField))
	return true
}

// ---- R3 -------------------------------------------------------------------------

func (c *c07ctx) ruleR3() {
	for _, fn := range c.senders {
		c.ruleR3For(fn, fn == c.enqueue)
	}
}

func (c *c07ctx) ruleR3For(fn *ssa.Function, primary bool) {
	p, r := c.p, c.r
	r.Fn(FuncName(fn))
	key := FuncName(fn)
	var sel *ssa.Select
	nsel, nsend := 0, 0
	Instrs(fn, func(in ssa.Instruction) {
		switch x := in.(type) {
		case *ssa.Select:
			nsel++
			sel = x
		case *ssa.Send:
			nsend++
		}
	})
	if nsel != 1 || nsend != 0 || len(sel.States) != 1 || sel.States[0].Dir != types.SendOnly || !c.isQueueChan(sel.States[0].Chan) {
		// a plain blocking send is the other accepted form (cannot fail)
		if nsel == 0 && nsend == 1 {
			r.OK("C07.R3", key, p.Pos(fn.Pos()), "blocking send: the enqueue cannot fail")
			return
		}
		r.Bad("C07.R3", key, p.Pos(fn.Pos()), "enqueue must be exactly one select with a single send on the queue (plus default), or one blocking send")
		return
	}
	// what is sent: the []byte parameter itself, or the []byte conversion of a string parameter
	var param ssa.Value
	for _, prm := range fn.Params {
		if _, ok := prm.Type().Underlying().(*types.Slice); ok {
			param = prm
		}
	}
	if param == nil {
		if cv, ok := sel.States[0].Send.(*ssa.Convert); ok {
			if prm, isP := cv.X.(*ssa.Parameter); isP {
				if b, isB := prm.Type().Underlying().(*types.Basic); isB && b.Kind() == types.String {
					param = cv
				}
			}
		}
	}
	if param == nil || sel.States[0].Send != param {
		r.Bad("C07.R3", key, p.InstrPos(sel), "the value sent on the queue must be the whole parameter slice (a sub-slice would write part of a record)")
		return
	}
	if sel.Blocking {
		r.OK("C07.R3", key, p.InstrPos(sel), "blocking select: enqueue cannot fail")
		return
	}
	arms := SelectArms(sel)
	sent, dflt := arms[0], arms[-1]
	if sent == nil || dflt == nil {
		r.Unk("C07.R3", key, p.InstrPos(sel), "cannot identify the arms of the select")
		return
	}
	ok := true
	msg := ""
	checkArm := func(ret *ssa.Return, inSent, inDflt bool, nv, errv ssa.Value) {
		nilErr := false
		if cst, isC := errv.(*ssa.Const); isC && cst.Value == nil {
			nilErr = true
		}
		switch {
		case inSent:
			isLen := false
			if call, isCall := nv.(*ssa.Call); isCall {
				if b, isB := call.Call.Value.(*ssa.Builtin); isB && b.Name() == "len" && call.Call.Args[0] == param {
					isLen = true
				}
			}
			if !nilErr || !isLen {
				ok = false
				msg = "the accepted arm must return (len(p), nil) at " + p.InstrPos(ret)
			}
		case inDflt:
			n, isC := constInt(nv)
			if nilErr || !isC || n != 0 {
				ok = false
				msg = "the queue-full arm must return (0, non-nil error) at " + p.InstrPos(ret)
			}
		default:
			ok = false
			msg = "return not attributable to an arm at " + p.InstrPos(ret)
		}
	}
	inArm := func(arm, b *ssa.BasicBlock) bool { return arm == b || arm.Dominates(b) }
	Instrs(fn, func(in ssa.Instruction) {
		ret, isRet := in.(*ssa.Return)
		if !isRet || len(ret.Results) != 2 {
			return
		}
		nv, errv := returnedValue(ret, 0), returnedValue(ret, 1)
		if inArm(sent, ret.Block()) || inArm(dflt, ret.Block()) {
			checkArm(ret, inArm(sent, ret.Block()), inArm(dflt, ret.Block()), nv, errv)
			return
		}
		// one exit after the arms have joined: the results are merged per arm (named results set
		// in the arms): each way into the join is attributed to its arm
		var join *ssa.BasicBlock
		for _, v := range []ssa.Value{nv, errv} {
			if ph, isPhi := v.(*ssa.Phi); isPhi {
				if join != nil && join != ph.Block() {
					join = nil
					break
				}
				join = ph.Block()
			}
		}
		if join == nil || !(join == ret.Block() || join.Dominates(ret.Block())) {
			checkArm(ret, false, false, nv, errv)
			return
		}
		at := func(v ssa.Value, i int) ssa.Value {
			if ph, isPhi := v.(*ssa.Phi); isPhi && ph.Block() == join {
				return ph.Edges[i]
			}
			return v
		}
		for i, pred := range join.Preds {
			checkArm(ret, inArm(sent, pred), inArm(dflt, pred), at(nv, i), at(errv, i))
		}
	})
	r.Check(ok, "C07.R3", key, p.InstrPos(sel), "single non-blocking send of the whole parameter; (len(p),nil) when accepted, (0,err) when full", msg)
	// wrappers return the enqueue's results unchanged
	if !primary {
		return
	}
	isSender := map[*ssa.Function]bool{}
	for _, sfn := range c.senders {
		isSender[sfn] = true
	}
	for w := range c.enqueues {
		if w == fn || isSender[w] {
			continue
		}
		good := true
		Instrs(w, func(in ssa.Instruction) {
			ret, isRet := in.(*ssa.Return)
			if !isRet {
				return
			}
			for _, rv := range ret.Results {
				e, isE := rv.(*ssa.Extract)
				if !isE {
					good = false
					continue
				}
				call, isCall := e.Tuple.(*ssa.Call)
				if !isCall || call.Call.StaticCallee() != fn {
					good = false
				}
			}
		})
		r.Check(good, "C07.R3", FuncName(w), p.Pos(w.Pos()), "wrapper returns the enqueue's results unchanged", "wrapper of the enqueue must return its (n, err) unchanged so a rejection is reported")
	}
}

// ---- R4 -------------------------------------------------------------------------

func (c *c07ctx) ruleR4() {
	p, r := c.p, c.r
	// reach set of the consumer goroutine
	reach := map[*ssa.Function]bool{}
	var walk func(f *ssa.Function)
	walk = func(f *ssa.Function) {
		if f == nil || reach[f] || f.Blocks == nil {
			return
		}
		reach[f] = true
		Instrs(f, func(in ssa.Instruction) {
			if cc := CallOf(in); cc != nil {
				if sc := cc.StaticCallee(); sc != nil && fnPkg(sc) == fnPkg(c.loopFn) {
					walk(sc)
				}
			}
		})
	}
	walk(c.loopFn)
	// every receive on the queue is in the reach set; and nobody outside calls those functions
	for _, fn := range p.LibFuncs() {
		Instrs(fn, func(in ssa.Instruction) {
			var recvVal ssa.Value
			isRecv := false
			switch x := in.(type) {
			case *ssa.UnOp:
				if x.Op == token.ARROW && c.isQueueChan(x.X) {
					isRecv = true
					recvVal = x
				}
			case *ssa.Select:
				for k, st := range x.States {
					if st.Dir == types.RecvOnly && c.isQueueChan(st.Chan) {
						isRecv = true
						recvVal = SelectRecvValue(x, k)
					}
				}
			}
			if !isRecv {
				return
			}
			c.consumers[fn] = true
			r.Fn(FuncName(fn))
			key := "receive in " + FuncName(fn)
			if !reach[fn] {
				r.Bad("C07.R4", key, p.InstrPos(in), "a receive on the queue outside the single consumer goroutine breaks FIFO order of the file")
				return
			}
			// received value must flow only into (*bufio.Writer).Write
			good := recvVal != nil
			if recvVal != nil {
				for _, ref := range *recvVal.Referrers() {
					if !IsCallTo(ref, "(*bufio.Writer).Write") {
						if _, isDbg := ref.(*ssa.DebugRef); isDbg {
							continue
						}
						good = false
					}
				}
				if len(*recvVal.Referrers()) == 0 {
					good = false
				}
			}
			// comma-ok form of UnOp yields a tuple
			if u, isU := in.(*ssa.UnOp); isU && u.CommaOk {
				good = false
				for _, ref := range *u.Referrers() {
					if e, isE := ref.(*ssa.Extract); isE && e.Index == 0 {
						good = true
						for _, r2 := range *e.Referrers() {
							if !IsCallTo(r2, "(*bufio.Writer).Write") {
								good = false
							}
						}
					}
				}
			}
			r.Check(good, "C07.R4", key, p.InstrPos(in), "received slice is written immediately to the buffered writer", "a slice received from the queue must be passed straight to (*bufio.Writer).Write (dropping or storing it loses or reorders accepted data)")
		})
	}
	for fn := range c.consumers {
		// callers of consumer functions must be in the reach set
		for _, g := range p.LibFuncs() {
			if reach[g] {
				continue
			}
			Instrs(g, func(in ssa.Instruction) {
				if _, isGo := in.(*ssa.Go); isGo && g == c.ctor {
					return
				}
				if cc := CallOf(in); cc != nil && cc.StaticCallee() == fn {
					r.Bad("C07.R4", FuncName(g)+" calls consumer "+FuncName(fn), p.InstrPos(in), "queue-draining code may only run in the consumer goroutine")
				}
			})
		}
	}
	// exactly one go statement, in the constructor, not in a loop
	n := 0
	var goIn ssa.Instruction
	for _, gs := range p.GoStarts() {
		for _, f := range gs.Callees {
			if f == c.loopFn {
				n++
				goIn = gs.Instr
			}
		}
	}
	r.Check(n == 1 && goIn != nil && !InLoop(goIn), "C07.R4", "go "+FuncName(c.loopFn), p.InstrPos(goIn), "consumer started exactly once per writer by "+FuncName(c.ctor), fmt.Sprintf("consumer goroutine must be started exactly once per writer (found %d starts)", n))
}

// ---- R5 -------------------------------------------------------------------------

func (c *c07ctx) ruleR5() {
	p, r := c.p, c.r
	// the drain function: consumer function (other than the loop) that calls bufio.Flush
	var drain *ssa.Function
	for fn := range c.consumers {
		has := false
		Instrs(fn, func(in ssa.Instruction) {
			if IsCallTo(in, "(*bufio.Writer).Flush") {
				has = true
			}
		})
		if has {
			drain = fn
		}
	}
	if drain == nil {
		r.Bad("C07.R5", "drain function", p.Pos(c.loopFn.Pos()), "no queue consumer calls (*bufio.Writer).Flush: accepted data are never forced to the file")
		return
	}
	r.Fn(FuncName(drain))
	isBufFlush := func(in ssa.Instruction) bool { return IsCallTo(in, "(*bufio.Writer).Flush") }
	// (a) every return of drain passes bufio.Flush
	esc := ReachAvoiding(drain, nil, isBufFlush, isReturn)
	r.Check(len(esc) == 0, "C07.R5", FuncName(drain)+" flushes before returning", p.Pos(drain.Pos()), "every return is preceded by bufio.Flush", "a return of the drain function is reachable without bufio.Flush")
	// (b) bufio.Flush only on the queue-empty arm of a non-blocking receive on the queue
	okb := true
	Instrs(drain, func(in ssa.Instruction) {
		if !isBufFlush(in) {
			return
		}
		dominated := false
		Instrs(drain, func(s ssa.Instruction) {
			sel, isSel := s.(*ssa.Select)
			if !isSel || sel.Blocking {
				return
			}
			hasQ := false
			for _, st := range sel.States {
				if st.Dir == types.RecvOnly && c.isQueueChan(st.Chan) {
					hasQ = true
				}
			}
			if !hasQ {
				return
			}
			if d := SelectArms(sel)[-1]; d != nil && d.Dominates(in.Block()) {
				dominated = true
			}
		})
		if !dominated {
			// the same thing said by paths: no way from the entry to the flush that does not
			// pass the queue-empty arm of such a select (a drain loop left through a flag)
			var arms []*ssa.BasicBlock
			Instrs(drain, func(s ssa.Instruction) {
				sel, isSel := s.(*ssa.Select)
				if !isSel || sel.Blocking {
					return
				}
				for _, st := range sel.States {
					if st.Dir == types.RecvOnly && c.isQueueChan(st.Chan) {
						if d := SelectArms(sel)[-1]; d != nil {
							arms = append(arms, d)
						}
					}
				}
			})
			inArm := func(x ssa.Instruction) bool {
				for _, a := range arms {
					if x.Block() == a {
						return true
					}
				}
				return false
			}
			if len(arms) > 0 && len(ReachAvoiding(drain, nil, inArm, func(x ssa.Instruction) bool { return x == in })) == 0 {
				// and nothing is taken from the queue between that arm and the flush
				clean := true
				for _, a := range arms {
					if len(a.Instrs) == 0 {
						continue
					}
					again := ReachAvoiding(drain, a.Instrs[0], func(x ssa.Instruction) bool { return x == in }, func(x ssa.Instruction) bool {
						_, isSel := x.(*ssa.Select)
						return isSel
					})
					if len(again) > 0 {
						clean = false
					}
				}
				dominated = clean
			}
		}
		if !dominated {
			okb = false
		}
	})
	boundedDrain := false
	if !okb {
		// a drain loop bounded by the capacity of the queue: it moves everything that was queued
		// when it started, which is all a single producer can have had accepted; whether that is
		// enough is a counting argument this rule does not make
		Instrs(drain, func(in ssa.Instruction) {
			if call, ok := in.(*ssa.Call); ok {
				if b, isB := call.Call.Value.(*ssa.Builtin); isB && b.Name() == "cap" && len(call.Call.Args) == 1 && c.isQueueChan(call.Call.Args[0]) {
					boundedDrain = true
				}
			}
		})
	}
	if boundedDrain {
		r.Unk("C07.R5", FuncName(drain)+" drains until empty", p.Pos(drain.Pos()), "the drain loop is bounded by the queue's capacity and bufio.Flush also follows the loop: whether one queue's worth covers everything accepted before the flush was asked for is not decided")
	} else {
		r.Check(okb, "C07.R5", FuncName(drain)+" drains until empty", p.Pos(drain.Pos()), "bufio.Flush happens only after a non-blocking receive found the queue empty", "bufio.Flush must be reached only through the default arm of a non-blocking receive on the queue (otherwise queued data can be left behind when the flush is acknowledged)")
	}
	// (c) in the loop: every acknowledge send is preceded by a drain call since the request was received
	loop := c.loopFn
	r.Fn(FuncName(loop))
	isDrainCall := func(in ssa.Instruction) bool {
		cc := CallOf(in)
		return cc != nil && cc.StaticCallee() == drain
	}
	Instrs(loop, func(in ssa.Instruction) {
		sel, isSel := in.(*ssa.Select)
		if !isSel {
			return
		}
		arms := SelectArms(sel)
		for k, st := range sel.States {
			if st.Dir != types.RecvOnly || c.awChan(st.Chan) != c.reqField {
				continue
			}
			arm := arms[k]
			if arm == nil {
				r.Unk("C07.R5", "flush-request arm", p.InstrPos(sel), "cannot locate the arm")
				continue
			}
			first := arm.Instrs[0]
			// walk from the arm start
			bad := false
			hits := ReachAvoiding(loop, nil, nil, func(ssa.Instruction) bool { return false })
			_ = hits
			var acks []ssa.Instruction
			// reach acknowledge sends from the arm without passing a drain call or re-entering the select
			seen := map[*ssa.BasicBlock]bool{}
			var walk func(b *ssa.BasicBlock)
			nAck := 0
			walk = func(b *ssa.BasicBlock) {
				if seen[b] {
					return
				}
				seen[b] = true
				for _, x := range b.Instrs {
					if isDrainCall(x) {
						return
					}
					if x == ssa.Instruction(sel) {
						return
					}
					if s, ok := x.(*ssa.Send); ok && c.awChan(s.Chan) == c.ackField {
						acks = append(acks, x)
						bad = true
					}
				}
				for _, s := range b.Succs {
					walk(s)
				}
			}
			walk(arm)
			// and the acknowledge must happen at all before the next select / return
			Instrs(loop, func(x ssa.Instruction) {
				if s, ok := x.(*ssa.Send); ok && c.awChan(s.Chan) == c.ackField && arm.Dominates(x.Block()) {
					nAck++
				}
			})
			isAck := func(x ssa.Instruction) bool {
				s, ok := x.(*ssa.Send)
				return ok && c.awChan(s.Chan) == c.ackField
			}
			noAck := ReachAvoiding(loop, first, isAck, func(x ssa.Instruction) bool { return x == ssa.Instruction(sel) || isReturn(x) })
			// `first` itself may be the ack or drain; ReachAvoiding starts after it, which is fine for Extract instructions
			r.Check(!bad, "C07.R5", "acknowledge after flush in "+FuncName(loop), p.InstrPos(sel), "every acknowledge send is preceded by the drain+flush", "an acknowledge on "+c.ackField+" can be sent before the queue was drained and flushed: Flush/Close would return with accepted data not yet in the file")
			r.Check(len(noAck) == 0 && nAck > 0, "C07.R5", "acknowledge always sent in "+FuncName(loop), p.InstrPos(sel), "every handled flush request is acknowledged", "a flush request can be handled without an acknowledge: the caller of Flush/Close blocks forever")
		}
	})
	// (d) Flush and Close: request then exactly one acknowledge receive
	pkgFns := []*ssa.Function{}
	for _, fn := range p.LibFuncs() {
		if fnPkg(fn) == fnPkg(c.loopFn) && fn != c.loopFn && !c.consumers[fn] {
			pkgFns = append(pkgFns, fn)
		}
	}
	sort.Slice(pkgFns, func(i, j int) bool { return pkgFns[i].Pos() < pkgFns[j].Pos() })
	for _, fn := range pkgFns {
		var req ssa.Instruction
		var reqSel *ssa.Select
		reqArm := -1
		Instrs(fn, func(in ssa.Instruction) {
			if s, ok := in.(*ssa.Send); ok && c.awChan(s.Chan) == c.reqField {
				req = in
			}
			if sel, ok := in.(*ssa.Select); ok {
				for k, st := range sel.States {
					if st.Dir == types.SendOnly && c.awChan(st.Chan) == c.reqField {
						req, reqSel, reqArm = in, sel, k
					}
				}
			}
			if cc := CallOf(in); cc != nil {
				if b, ok := cc.Value.(*ssa.Builtin); ok && b.Name() == "close" && c.awChan(cc.Args[0]) == c.reqField {
					req = in
				}
			}
		})
		if req == nil {
			continue
		}
		r.Fn(FuncName(fn))
		exits := CountEvents(fn, func(in ssa.Instruction) CountSet {
			if u, ok := in.(*ssa.UnOp); ok && u.Op == token.ARROW && c.awChan(u.X) == c.ackField {
				return C1
			}
			if sel, ok := in.(*ssa.Select); ok {
				for _, st := range sel.States {
					if st.Dir == types.RecvOnly && c.awChan(st.Chan) == c.ackField {
						if len(sel.States) == 1 && sel.Blocking {
							return C1
						}
						return C0 | C1 // another arm can win: the acknowledge may not be awaited
					}
				}
			}
			return 0
		})
		good := len(exits) > 0
		msg := "after signalling " + c.reqField + " the function must wait for exactly one " + c.ackField + " before returning"
		for _, e := range exits {
			if e.Kind != ExitReturn || e.Count == C1 {
				continue
			}
			// a return in an arm of the request select in which no request was made is fine
			excused := false
			if reqSel != nil && e.Count == C0 {
				for k, arm := range SelectArms(reqSel) {
					if k != reqArm && arm != nil && arm.Dominates(e.Instr.Block()) {
						excused = true
					}
				}
			}
			if !excused {
				good = false
				msg = fmt.Sprintf("return at %s is reachable having awaited %s acknowledges after a flush request (want exactly 1): Flush/Close can return before accepted data are in the file, and a late acknowledge desynchronises later calls", p.InstrPos(e.Instr), e.Count)
			}
		}
		// the receive must come after a request on every way to it (the request may be made in
		// either arm of a branch: a send, or the close that makes the last request)
		isReq := func(in ssa.Instruction) bool {
			if s, ok := in.(*ssa.Send); ok && c.awChan(s.Chan) == c.reqField {
				return true
			}
			if sel, ok := in.(*ssa.Select); ok {
				for _, st := range sel.States {
					if st.Dir == types.SendOnly && c.awChan(st.Chan) == c.reqField {
						return true
					}
				}
			}
			if cc := CallOf(in); cc != nil {
				if b, ok := cc.Value.(*ssa.Builtin); ok && b.Name() == "close" && c.awChan(cc.Args[0]) == c.reqField {
					return true
				}
			}
			return false
		}
		isAck := func(in ssa.Instruction) bool {
			u, ok := in.(*ssa.UnOp)
			return ok && u.Op == token.ARROW && c.awChan(u.X) == c.ackField
		}
		if len(ReachAvoiding(fn, nil, isReq, isAck)) > 0 {
			good = false
		}
		r.Check(good, "C07.R5", FuncName(fn)+" waits for the acknowledge", p.Pos(fn.Pos()), "request, then exactly one acknowledge receive on every path", msg)
	}
	// (e) request and acknowledge channels are rendezvous (unbuffered) channels
	for _, fn := range p.LibFuncs() {
		if fnPkg(fn) != fnPkg(c.loopFn) {
			continue
		}
		Instrs(fn, func(in ssa.Instruction) {
			st, ok := in.(*ssa.Store)
			if !ok {
				return
			}
			mk, ok := st.Val.(*ssa.MakeChan)
			if !ok {
				return
			}
			fa, ok := st.Addr.(*ssa.FieldAddr)
			if !ok {
				return
			}
			f := derefStruct(fa.X.Type()).Field(fa.Field).Name()
			if f != c.reqField && f != c.ackField {
				return
			}
			n, isC := constInt(mk.Size)
			r.Check(isC && n == 0, "C07.R5", "channel "+f+" is unbuffered", p.InstrPos(in), "rendezvous channel", "the flush "+f+" channel must be unbuffered: with a buffer an acknowledge can be left over from an earlier request and satisfy a later Flush/Close before its data are written")
		})
	}
}

// ---- R1, R1h, R7 ----------------------------------------------------------------

func (c *c07ctx) enqueueCount(fn *ssa.Function, depth int, memo map[*ssa.Function]CountSet) CountSet {
	if v, ok := memo[fn]; ok {
		return v
	}
	if c.enqueues[fn] {
		return C1
	}
	if depth > 5 || fn.Blocks == nil {
		return C0
	}
	pk := fnPkg(fn)
	if pk == nil || !strings.HasPrefix(pk.Path(), modPath) {
		return C0
	}
	memo[fn] = C0
	var out CountSet
	for _, e := range CountEvents(fn, func(in ssa.Instruction) CountSet { return c.enqueueEvent(in, depth, memo) }) {
		if e.Kind == ExitReturn {
			out |= e.Count
		}
	}
	if out == 0 {
		out = C0
	}
	memo[fn] = out
	return out
}

func (c *c07ctx) enqueueEvent(in ssa.Instruction, depth int, memo map[*ssa.Function]CountSet) CountSet {
	cc := CallOf(in)
	if cc == nil {
		return 0
	}
	if f := cc.StaticCallee(); f != nil {
		s := c.enqueueCount(f, depth+1, memo)
		if s != C0 {
			return s
		}
	}
	return 0
}

func maxCount(s CountSet) int {
	switch {
	case s&C2 != 0:
		return 2
	case s&C1 != 0:
		return 1
	}
	return 0
}

// promoteWrappers: a function outside the asynchronous writer's package that is handed the bytes
// as a parameter and passes them to the fallible enqueue exactly once is itself an enqueue for the
// rules about writers (its callers assemble the record); it must hand the enqueue's error back.
func (c *c07ctx) promoteWrappers() {
	p, r := c.p, c.r
	for _, fn := range p.LibFuncs() {
		if fnPkg(fn) == fnPkg(c.loopFn) || fn.Parent() != nil || c.enqueues[fn] {
			continue
		}
		var calls []*ssa.Call
		Instrs(fn, func(in ssa.Instruction) {
			if call, ok := in.(*ssa.Call); ok && call.Call.StaticCallee() != nil && c.enqueues[call.Call.StaticCallee()] {
				calls = append(calls, call)
			}
		})
		if len(calls) != 1 || InLoop(calls[0]) {
			continue
		}
		call := calls[0]
		var bytesArg ssa.Value
		for _, a := range call.Call.Args {
			if sl, ok := a.Type().Underlying().(*types.Slice); ok && types.Identical(sl.Elem(), types.Typ[types.Byte]) {
				bytesArg = a
			}
		}
		prm, isPrm := bytesArg.(*ssa.Parameter)
		if !isPrm || prm.Parent() != fn {
			continue
		}
		c.enqueues[fn] = true
		r.Fn(FuncName(fn))
		c.ruleR8(fn, call)
	}
}

// ruleR8: the error of the fallible enqueue reaches the error result of the function that made
// the call (returned as it is, merged with nil, or wrapped): a rejected record is reported.
func (c *c07ctx) ruleR8(fn *ssa.Function, call *ssa.Call) {
	p, r := c.p, c.r
	var errVal ssa.Value
	if call.Referrers() != nil {
		for _, ref := range *call.Referrers() {
			if ex, ok := ref.(*ssa.Extract); ok && isErrorType(ex.Type()) {
				errVal = ex
			}
		}
	}
	if isErrorType(call.Type()) {
		errVal = call
	}
	key := "the enqueue's error is handed back by " + FuncName(fn)
	if errVal == nil {
		r.Bad("C07.R8", key, p.InstrPos(call), "the error result of the enqueue is not even taken: a record the full queue rejected is reported as written")
		return
	}
	flows := false
	seen := map[ssa.Value]bool{}
	var walk func(v ssa.Value, d int)
	walk = func(v ssa.Value, d int) {
		if seen[v] || d > 6 || flows || v.Referrers() == nil {
			return
		}
		seen[v] = true
		for _, ref := range *v.Referrers() {
			switch x := ref.(type) {
			case *ssa.Return:
				flows = true
			case *ssa.Phi:
				walk(x, d+1)
			case *ssa.MakeInterface:
				walk(x, d+1)
			case *ssa.Store:
				// the named result kept in memory (defer): loads of it
				if al, ok := x.Addr.(*ssa.Alloc); ok && x.Val == v {
					for _, r2 := range *al.Referrers() {
						if ld, ok := r2.(*ssa.UnOp); ok {
							walk(ld, d+1)
						}
					}
				}
				// wrapped: stored into the argument list of fmt.Errorf
				if ia, ok := x.Addr.(*ssa.IndexAddr); ok {
					if al, ok := ia.X.(*ssa.Alloc); ok {
						for _, r2 := range *al.Referrers() {
							if sl, ok := r2.(*ssa.Slice); ok {
								for _, r3 := range *sl.Referrers() {
									if c2, ok := r3.(*ssa.Call); ok {
										walk(c2, d+1)
									}
								}
							}
						}
					}
				}
			case *ssa.Call:
				if x.Call.StaticCallee() != nil && isErrorType(x.Type()) {
					walk(x, d+1)
				}
			}
		}
	}
	walk(errVal, 0)
	r.Check(flows, "C07.R8", key, p.InstrPos(call), "the error value reaches a return",
		"the error of the enqueue never reaches a return of "+FuncName(fn)+" (it is only tested, or assigned to a variable that is not the one returned): when the queue is full the record is dropped and the caller is told it was written")
}

func (c *c07ctx) ruleR1() {
	p, r := c.p, c.r
	c.promoteWrappers()
	memo := map[*ssa.Function]CountSet{}
	// writer methods outside asyncbufio that reach the enqueue
	type wm struct {
		fn      *ssa.Function
		max     int
		perRec  bool
		callers []ssa.Instruction
	}
	var writers []*wm
	for _, fn := range p.LibFuncs() {
		if fnPkg(fn) == fnPkg(c.loopFn) || fn.Parent() != nil {
			continue
		}
		direct := false
		Instrs(fn, func(in ssa.Instruction) {
			if cc := CallOf(in); cc != nil && cc.StaticCallee() != nil && c.enqueues[cc.StaticCallee()] {
				direct = true
			}
		})
		if !direct {
			continue
		}
		w := &wm{fn: fn}
		for _, e := range CountEvents(fn, func(in ssa.Instruction) CountSet { return c.enqueueEvent(in, 0, memo) }) {
			if m := maxCount(e.Count); m > w.max {
				w.max = m
			}
		}
		writers = append(writers, w)
	}
	// call sites: per-record = called inside a loop
	for _, w := range writers {
		for _, g := range p.LibFuncs() {
			Instrs(g, func(in ssa.Instruction) {
				if cc := CallOf(in); cc != nil && cc.StaticCallee() == w.fn {
					w.callers = append(w.callers, in)
					if InLoop(in) {
						w.perRec = true
					}
				}
			})
		}
	}
	sort.Slice(writers, func(i, j int) bool { return writers[i].fn.Pos() < writers[j].fn.Pos() })
	// queue capacity: constant argument of the constructor calls
	capMin := int64(-1)
	for _, g := range p.LibFuncs() {
		Instrs(g, func(in ssa.Instruction) {
			cc := CallOf(in)
			if cc == nil || cc.StaticCallee() != c.ctor {
				return
			}
			for _, a := range cc.Args {
				if n, ok := constInt(a); ok && types.Identical(a.Type(), types.Typ[types.Int]) {
					if capMin < 0 || n < capMin {
						capMin = n
					}
				}
			}
		})
	}
	for _, w := range writers {
		r.Fn(FuncName(w.fn))
		key := FuncName(w.fn)
		if w.perRec {
			r.Check(w.max <= 1, "C07.R1", key, p.Pos(w.fn.Pos()),
				"at most one fallible enqueue per record on every path",
				fmt.Sprintf("per-record writer performs up to %s fallible enqueues on one path: when the queue fills between two of them the file receives a partial record", map[int]string{2: ">=2"}[w.max]))
			c.ruleR7(w.fn)
			Instrs(w.fn, func(in ssa.Instruction) {
				if call, ok := in.(*ssa.Call); ok && call.Call.StaticCallee() != nil && c.enqueues[call.Call.StaticCallee()] {
					c.ruleR8(w.fn, call)
				}
			})
			continue
		}
		if w.max <= 1 {
			r.OK("C07.R1h", key, p.Pos(w.fn.Pos()), "single enqueue")
			continue
		}
		// multi-enqueue, not per record: header writer.  Count enqueues exactly (max over paths) for the capacity check.
		n := c.maxEnqueuesExact(w.fn)
		good := len(w.callers) > 0
		msg := ""
		for _, cs := range w.callers {
			// dominated by a call that creates the queue (reaches the constructor), no per-record write in between
			g := cs.Parent()
			var creator ssa.Instruction
			Instrs(g, func(in ssa.Instruction) {
				if cc := CallOf(in); cc != nil && cc.StaticCallee() != nil && in != cs {
					if ok, _ := p.Reaches(cc.StaticCallee(), func(f *ssa.Function) bool { return f == c.ctor }, 3); ok && InstrDominates(in, cs) {
						creator = in
					}
				}
			})
			if creator == nil {
				good = false
				msg = fmt.Sprintf("call at %s is not dominated by the creation of the queue", p.InstrPos(cs))
				continue
			}
			between := ReachAvoiding(g, creator, func(in ssa.Instruction) bool { return in == cs }, func(in ssa.Instruction) bool {
				cc := CallOf(in)
				if cc == nil || cc.StaticCallee() == nil {
					return false
				}
				for _, w2 := range writers {
					if w2.perRec && w2.fn == cc.StaticCallee() {
						return true
					}
				}
				return false
			})
			// `between` finds record writes reachable from the creator without passing the header call
			if len(between) > 0 {
				good = false
				msg = fmt.Sprintf("a record write at %s can run between queue creation and the header write", p.InstrPos(between[0]))
			}
		}
		if good && capMin >= 0 && int64(n) > capMin {
			good = false
			msg = fmt.Sprintf("header needs %d enqueues but the queue capacity is %d", n, capMin)
		}
		r.Check(good, "C07.R1h", key, p.Pos(w.fn.Pos()), fmt.Sprintf("%d header enqueues, only on a freshly created queue of capacity %d", n, capMin), "multi-enqueue writer outside the per-record path: "+msg)
	}
}

// maxEnqueuesExact counts enqueue call sites on the longest acyclic path (headers are straight-line).
func (c *c07ctx) maxEnqueuesExact(fn *ssa.Function) int {
	memo := map[*ssa.BasicBlock]int{}
	onstack := map[*ssa.BasicBlock]bool{}
	var rec func(b *ssa.BasicBlock) int
	rec = func(b *ssa.BasicBlock) int {
		if v, ok := memo[b]; ok {
			return v
		}
		if onstack[b] {
			return 0
		}
		onstack[b] = true
		n := 0
		for _, in := range b.Instrs {
			if cc := CallOf(in); cc != nil && cc.StaticCallee() != nil && c.enqueues[cc.StaticCallee()] {
				n++
			}
		}
		best := 0
		for _, s := range b.Succs {
			if v := rec(s); v > best {
				best = v
			}
		}
		onstack[b] = false
		memo[b] = n + best
		return n + best
	}
	if len(fn.Blocks) == 0 {
		return 0
	}
	return rec(fn.Blocks[0])
}

// R7: the slice handed to the enqueue must not be backed by storage kept in the writer.
func (c *c07ctx) ruleR7(fn *ssa.Function) {
	p, r := c.p, c.r
	Instrs(fn, func(in ssa.Instruction) {
		cc := CallOf(in)
		if cc == nil || cc.StaticCallee() == nil || !c.enqueues[cc.StaticCallee()] {
			return
		}
		arg := cc.Args[len(cc.Args)-1]
		for _, a := range cc.Args {
			if sl, ok := a.Type().Underlying().(*types.Slice); ok && types.Identical(sl.Elem(), types.Typ[types.Byte]) {
				arg = a
			}
		}
		bad := ""
		seen := map[ssa.Value]bool{}
		var walk func(v ssa.Value)
		walk = func(v ssa.Value) {
			if v == nil || seen[v] || bad != "" {
				return
			}
			seen[v] = true
			switch x := v.(type) {
			case *ssa.UnOp:
				if x.Op == token.MUL {
					if o, f, _, ok := FieldOf(x); ok {
						if fieldRemadeBefore(x, o, f) {
							return // the field holds a buffer made afresh earlier in this very call
						}
						bad = o + "." + f
						return
					}
					if g, ok := x.X.(*ssa.Global); ok {
						bad = "global " + g.Name()
					}
					// an element of a container (ring of reusable buffers): as the container
					if ia, ok := x.X.(*ssa.IndexAddr); ok {
						walk(ia.X)
					}
				}
			case *ssa.Lookup:
				walk(x.X)
			case *ssa.Index:
				walk(x.X)
			case *ssa.Slice:
				walk(x.X)
			case *ssa.Phi:
				for _, e := range x.Edges {
					walk(e)
				}
			case *ssa.Convert:
				// string -> []byte allocates
				if _, isStr := x.X.Type().Underlying().(*types.Basic); isStr {
					return
				}
				walk(x.X)
			case *ssa.ChangeType:
				walk(x.X)
			case *ssa.Call:
				if b, ok := x.Call.Value.(*ssa.Builtin); ok && b.Name() == "append" {
					walk(x.Call.Args[0]) // appending to a kept buffer reuses its storage
					return
				}
				// reinterpreting helpers (getbytes.FromSlice*) alias their argument
				if sc := x.Call.StaticCallee(); sc != nil && fnPkg(sc) != nil && strings.HasSuffix(fnPkg(sc).Path(), "/getbytes") {
					for _, a := range x.Call.Args {
						if _, isSl := a.Type().Underlying().(*types.Slice); isSl {
							walk(a)
						}
					}
				}
			}
		}
		walk(arg)
		r.Check(bad == "", "C07.R7", "enqueued slice in "+FuncName(fn), p.InstrPos(in), "enqueued bytes are caller-owned or freshly allocated",
			"the slice handed to the asynchronous queue is backed by "+bad+", which the next call overwrites while the consumer may not have written it yet (the queue stores the slice, not a copy)")
	})
}

// ---- R6 -------------------------------------------------------------------------

// closerUnder: calling fn (a function of the asynchronous writer's package) with the given constant
// arguments closes the flush-request channel on every way to a return: fn holds the close itself,
// or calls - on every way - a function of the package that does.  Branches are decided by constant
// propagation from env (`flushAndWait(final bool)` called with true).
func (c *c07ctx) closerUnder(fn *ssa.Function, env map[ssa.Value]lat, depth int) bool {
	if fn == nil || fn.Blocks == nil || depth > 3 {
		return false
	}
	res := sccp(fn, env)
	isClose := func(in ssa.Instruction) bool {
		cc := CallOf(in)
		if cc == nil {
			return false
		}
		if b, ok := cc.Value.(*ssa.Builtin); ok && b.Name() == "close" && c.awChan(cc.Args[0]) == c.reqField {
			return true
		}
		if _, isGo := in.(*ssa.Go); isGo {
			return false
		}
		if callee := cc.StaticCallee(); callee != nil && callee != fn && fnPkg(callee) == fnPkg(c.loopFn) {
			return c.closerUnder(callee, constArgEnv(callee, cc), depth+1)
		}
		return false
	}
	// walk the executable edges from the entry; a block holding a closing instruction ends the walk
	closing := map[*ssa.BasicBlock]bool{}
	any := false
	for _, b := range fn.Blocks {
		for _, in := range b.Instrs {
			if isClose(in) {
				closing[b] = true
				any = true
			}
		}
	}
	if !any {
		return false
	}
	seen := map[*ssa.BasicBlock]bool{}
	work := []*ssa.BasicBlock{fn.Blocks[0]}
	for len(work) > 0 {
		b := work[len(work)-1]
		work = work[:len(work)-1]
		if seen[b] || b == fn.Recover {
			continue
		}
		seen[b] = true
		if closing[b] {
			continue
		}
		if _, isRet := b.Instrs[len(b.Instrs)-1].(*ssa.Return); isRet {
			return false // a return reached without the close
		}
		for _, sc := range b.Succs {
			if res.EdgeExecutable(b, sc) {
				work = append(work, sc)
			}
		}
	}
	return true
}

// constArgEnv: the constant arguments of a call, as an environment for the callee's parameters.
func constArgEnv(callee *ssa.Function, cc *ssa.CallCommon) map[ssa.Value]lat {
	env := map[ssa.Value]lat{}
	for i, prm := range callee.Params {
		if i >= len(cc.Args) {
			break
		}
		if k, ok := cc.Args[i].(*ssa.Const); ok && k.Value != nil {
			env[prm] = lat{k: latConst, c: k.Value}
		}
	}
	return env
}

func (c *c07ctx) ruleR6() {
	p, r := c.p, c.r
	// the async close: some function of the package closes the request channel
	anyClose := false
	for _, fn := range p.LibFuncs() {
		if fnPkg(fn) != fnPkg(c.loopFn) {
			continue
		}
		Instrs(fn, func(in ssa.Instruction) {
			if cc := CallOf(in); cc != nil {
				if b, ok := cc.Value.(*ssa.Builtin); ok && b.Name() == "close" && c.awChan(cc.Args[0]) == c.reqField {
					anyClose = true
				}
			}
		})
	}
	if !anyClose {
		r.Bad("C07.R6", "async close", "-", "no function closes the flush-request channel: the consumer goroutine never flushes its tail and never exits")
		return
	}
	isAwPtr := func(t types.Type) bool {
		pt, ok := t.(*types.Pointer)
		return ok && pt.Elem() == types.Type(c.awType)
	}
	// onlyNilGuarded: the call at a is conditional on nothing but the writer handle being non-nil
	onlyNilGuarded := func(a ssa.Instruction) (bool, string) {
		fn := a.Parent()
		b := a.Block()
		for b != nil && b != fn.Blocks[0] {
			idom := b.Idom()
			if idom == nil {
				break
			}
			if iff, ok := idom.Instrs[len(idom.Instrs)-1].(*ssa.If); ok && !postDominatesSimple(b, idom) {
				cond, isB := iff.Cond.(*ssa.BinOp)
				okGuard := false
				if isB && (cond.Op == token.NEQ || cond.Op == token.EQL) {
					if cst, isC := cond.Y.(*ssa.Const); isC && cst.Value == nil && isAwPtr(cond.X.Type()) {
						okGuard = true
					}
				}
				if !okGuard {
					return false, fmt.Sprintf("closing the asynchronous writer at %s is conditional on something other than the handle being non-nil", p.InstrPos(a))
				}
			}
			b = idom
		}
		return true, ""
	}
	isFileClose := func(in ssa.Instruction) bool {
		if !IsCallTo(in, "(*os.File).Close") {
			return false
		}
		if _, f, _, ok := FieldOf(CallOf(in).Args[0]); ok && f != "" {
			return true
		}
		_, isPrm := CallOf(in).Args[0].(*ssa.Parameter)
		return isPrm // a helper that is handed the file and its writer
	}
	// isAC: the instruction closes the asynchronous writer: a call into the package that closes the
	// request channel (under its constant arguments), or a call of a module helper that does nothing
	// else with the file and closes the writer under a nil test of the handle only
	var isAC func(in ssa.Instruction, depth int) bool
	isAC = func(in ssa.Instruction, depth int) bool {
		cc := CallOf(in)
		if cc == nil {
			return false
		}
		if _, isGo := in.(*ssa.Go); isGo {
			return false
		}
		callee := cc.StaticCallee()
		if callee == nil || callee.Blocks == nil {
			return false
		}
		if fnPkg(callee) == fnPkg(c.loopFn) {
			return c.closerUnder(callee, constArgEnv(callee, cc), 0)
		}
		if depth >= 2 || !isModuleFn(callee) {
			return false
		}
		n, good := 0, true
		Instrs(callee, func(x ssa.Instruction) {
			if isFileClose(x) {
				good = false
			}
			if isAC(x, depth+1) {
				n++
				if okG, _ := onlyNilGuarded(x); !okG {
					good = false
				}
			}
		})
		return n > 0 && good
	}
	for _, fn := range p.LibFuncs() {
		if fnPkg(fn) == fnPkg(c.loopFn) {
			continue
		}
		var fc, ac []ssa.Instruction
		Instrs(fn, func(in ssa.Instruction) {
			if isFileClose(in) {
				fc = append(fc, in)
			}
			if isAC(in, 0) {
				ac = append(ac, in)
			}
		})
		if len(fc) == 0 {
			continue
		}
		// is this a type that owns an async writer?  (has a field of type *asyncbufio.Writer),
		// or a helper that is handed one
		var st *types.Struct
		if fn.Signature.Recv() != nil {
			st = derefStruct(fn.Signature.Recv().Type())
		}
		owns := false
		for _, prm := range fn.Params {
			if isAwPtr(prm.Type()) {
				owns = true
			}
		}
		if st != nil {
			for i := 0; i < st.NumFields(); i++ {
				if isAwPtr(st.Field(i).Type()) {
					owns = true
				}
			}
		}
		if !owns {
			continue
		}
		r.Fn(FuncName(fn))
		key := FuncName(fn)
		if len(ac) == 0 {
			r.Bad("C07.R6", key, p.InstrPos(fc[0]), "the file is closed without closing (flushing) the asynchronous writer first")
			continue
		}
		good := true
		msg := ""
		for _, f := range fc {
			for _, a := range ac {
				if InstrReaches(f, a) {
					good = false
					msg = fmt.Sprintf("file closed at %s before the asynchronous writer is closed at %s", p.InstrPos(f), p.InstrPos(a))
				}
			}
		}
		// the async close may only be guarded by a nil test of the writer handle
		for _, a := range ac {
			if okG, m := onlyNilGuarded(a); !okG {
				good = false
				msg = m
			}
		}
		r.Check(good, "C07.R6", key, p.Pos(fn.Pos()), "asynchronous writer closed (drained, flushed) before the file", msg)
	}
}

// postDominatesSimple: does every path from d's successors go through b?  (cheap
// approximation used only to decide whether b is conditional on d's branch)
func postDominatesSimple(b, d *ssa.BasicBlock) bool {
	for _, s := range d.Succs {
		if s == b {
			continue
		}
		// can we reach an exit from s without visiting b?
		seen := map[*ssa.BasicBlock]bool{b: true}
		var esc func(x *ssa.BasicBlock) bool
		esc = func(x *ssa.BasicBlock) bool {
			if seen[x] {
				return false
			}
			seen[x] = true
			if len(x.Succs) == 0 {
				return true
			}
			for _, y := range x.Succs {
				if esc(y) {
					return true
				}
			}
			return false
		}
		if esc(s) {
			return false
		}
	}
	return true
}

// noteSender records a function that sends on the queue.  The enqueue is the sender that takes
// the []byte; other senders are accepted when they are methods of the async writer itself (each
// is held to the same all-or-nothing shape by R3), anything else is a foreign sender.
func (c *c07ctx) noteSender(fn *ssa.Function, in ssa.Instruction) {
	for _, f := range c.senders {
		if f == fn {
			return
		}
	}
	takesBytes := false
	for _, prm := range fn.Params {
		if sl, ok := prm.Type().Underlying().(*types.Slice); ok && types.Identical(sl.Elem(), types.Typ[types.Byte]) {
			takesBytes = true
		}
	}
	own := fn.Signature.Recv() != nil && c.awType != nil && typeName(fn.Signature.Recv().Type()) == c.awType.Obj().Name()
	if !own {
		c.r.Bad("C07.R3", "second sender on the queue: "+FuncName(fn), c.p.InstrPos(in), "only the enqueue function may send on the queue channel")
	}
	c.senders = append(c.senders, fn)
	if c.enqueue == nil || takesBytes {
		c.enqueue = fn
	}
}
