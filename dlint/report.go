package main

// Obligations, verdicts, known findings, evidence files.

import (
	"bufio"
	"encoding/json"
	"fmt"
	"os"
	"path/filepath"
	"sort"
	"strings"
	"time"
)

type Status int

const (
	Discharged Status = iota
	Violated
	Undecided
)

func (s Status) String() string {
	return [...]string{"discharged", "violated", "undecided"}[s]
}

// Obligation = rule x construct.  Key never contains a line number.
type Obligation struct {
	Rule      string `json:"rule"`
	Key       string `json:"key"`
	Status    string `json:"status"`
	Pos       string `json:"pos"`
	Msg       string `json:"msg,omitempty"`
	Nontriv   bool   `json:"-"`
	Known     bool   `json:"known,omitempty"`
	st        Status
	fromCanon bool
}

// Report collects the obligations of one property run.
type Report struct {
	Property string
	Tier     string
	Obs      []*Obligation
	seen     map[string]int
	// coverage counters filled by rules
	FuncsAnalysed map[string]bool
	CallSites     int
	Notes         []string
	Explanation   string
	Assumptions   []string
	RuleDocs      []string
	MinInstances  map[string]int // rule -> floor
	Configs       []string
	Packages      int
	Canaries      []string
	CanaryFired   int
	CanaryTotal   int
	Refactorings  []string
	RefTotal      int
	RefSilent     int
}

func NewReport(prop, tier string) *Report {
	return &Report{Property: prop, Tier: tier, seen: map[string]int{}, FuncsAnalysed: map[string]bool{}, MinInstances: map[string]int{}}
}

// Add records an obligation.  Duplicate keys get a #n suffix so that keys stay unique.
func (r *Report) Add(rule, construct string, st Status, pos, msg string) *Obligation {
	key := rule + "|" + construct
	r.seen[key]++
	if n := r.seen[key]; n > 1 {
		key = fmt.Sprintf("%s#%d", key, n)
	}
	o := &Obligation{Rule: rule, Key: key, Status: st.String(), Pos: pos, Msg: msg, st: st, Nontriv: true}
	r.Obs = append(r.Obs, o)
	return o
}

func (r *Report) OK(rule, construct, pos, msg string) *Obligation {
	return r.Add(rule, construct, Discharged, pos, msg)
}
func (r *Report) Bad(rule, construct, pos, msg string) *Obligation {
	return r.Add(rule, construct, Violated, pos, msg)
}
func (r *Report) Unk(rule, construct, pos, msg string) *Obligation {
	return r.Add(rule, construct, Undecided, pos, msg)
}

// Check is a convenience: discharged if ok else violated.
func (r *Report) Check(ok bool, rule, construct, pos, okmsg, badmsg string) *Obligation {
	if ok {
		return r.OK(rule, construct, pos, okmsg)
	}
	return r.Bad(rule, construct, pos, badmsg)
}

func (r *Report) Fn(name string) { r.FuncsAnalysed[name] = true }

func (r *Report) Count(rule string) int {
	n := 0
	for _, o := range r.Obs {
		if o.Rule == rule {
			n++
		}
	}
	return n
}

// ---- known findings -------------------------------------------------------

type KnownFinding struct {
	Kind     string // "known" or "fixed"
	Property string
	Key      string
	What     string
}

func LoadKnown(path string) ([]KnownFinding, error) {
	f, err := os.Open(path)
	if err != nil {
		if os.IsNotExist(err) {
			return nil, nil
		}
		return nil, err
	}
	defer f.Close()
	var out []KnownFinding
	sc := bufio.NewScanner(f)
	sc.Buffer(make([]byte, 1<<20), 1<<20)
	for sc.Scan() {
		line := strings.TrimSpace(sc.Text())
		if line == "" || strings.HasPrefix(line, "#") {
			continue
		}
		var kf KnownFinding
		switch {
		case strings.HasPrefix(line, "known:"):
			kf.Kind = "known"
			line = strings.TrimSpace(line[len("known:"):])
		case strings.HasPrefix(line, "fixed:"):
			kf.Kind = "fixed"
			line = strings.TrimSpace(line[len("fixed:"):])
		default:
			return nil, fmt.Errorf("known_findings: unparsable line %q", line)
		}
		parts := strings.SplitN(line, "::", 2)
		head := strings.TrimSpace(parts[0])
		if len(parts) > 1 {
			kf.What = strings.TrimSpace(parts[1])
		}
		for _, tok := range strings.Fields(head) {
			if strings.HasPrefix(tok, "property=") {
				kf.Property = tok[len("property="):]
			}
		}
		if i := strings.Index(head, "key="); i >= 0 {
			kf.Key = strings.TrimSpace(head[i+4:])
		}
		out = append(out, kf)
	}
	return out, sc.Err()
}

// ---- finishing -------------------------------------------------------------

type evidence struct {
	PropertyID  string                 `json:"property_id"`
	Tier        string                 `json:"tier"`
	Seed        int                    `json:"seed"`
	Level       string                 `json:"level"`
	Coverage    map[string]interface{} `json:"coverage"`
	Assumptions []string               `json:"assumptions"`
	WallS       float64                `json:"wall_s"`
	Violations  int                    `json:"violations"`
}

var baseAssumptions = []string{
	"go/types, go/ssa and the VTA call graph of golang.org/x/tools v0.29.0 represent the program faithfully; reflection (net/rpc dispatch, json.Marshal) is modelled by explicit entry-point and field-visibility rules",
	"only non-test code of the dastard module is analysed (_test.go files and third-party modules are loaded for type information only)",
	"the idiom tables printed in coverage.rules are part of the checker; a construct outside them is reported as undecided, never silently accepted",
}

// Finish prints the verdict, writes evidence and returns the exit code.
// applyFloors turns a rule that matched fewer instances than confirmed by hand into a violation.
func (r *Report) applyFloors() {
	// a rule set that could not decide something has said so (UNDECIDED, the check fails); the
	// floors of the rules it could not run would only repeat that as violations
	for _, o := range r.Obs {
		if o.st == Undecided {
			return
		}
	}
	for rule, min := range r.MinInstances {
		if n := r.Count(rule); n < min {
			r.Unk(rule, "instance-floor", "-", fmt.Sprintf("rule matched %d instances, fewer than the %d confirmed by hand on the pinned tree: anchors drifted or the mechanism was removed; the rule no longer sees all the code it was written for, so its silence proves nothing", n, min))
		}
	}
}

func (r *Report) Finish(verifDir string, seed int, start time.Time, loadErr error) int {
	known, kerr := LoadKnown(filepath.Join(verifDir, "known_findings.txt"))
	if kerr != nil {
		loadErr = kerr
	}
	// instance floors
	rules := map[string]bool{}
	for _, o := range r.Obs {
		rules[o.Rule] = true
	}
	r.applyFloors()
	sort.SliceStable(r.Obs, func(i, j int) bool { return r.Obs[i].Key < r.Obs[j].Key })

	var viol, undec, disc, nontriv, knownHits int
	var violLines, knownLines, undecLines []string
	distinct := map[string]bool{}
	for _, o := range r.Obs {
		switch o.st {
		case Discharged:
			disc++
		case Undecided:
			undec++
			undecLines = append(undecLines, fmt.Sprintf("UNDECIDED property=%s rule=%s key=%q at %s reason=%s", r.Property, o.Rule, o.Key, o.Pos, o.Msg))
		case Violated:
			matched := false
			for _, k := range known {
				if k.Kind == "known" && k.Property == r.Property && k.Key == o.Key {
					matched = true
					o.Known = true
					knownHits++
					knownLines = append(knownLines, fmt.Sprintf("KNOWN-FINDING: property=%s key=%s at %s :: %s", r.Property, o.Key, o.Pos, k.What))
					break
				}
			}
			if !matched {
				viol++
				violLines = append(violLines, fmt.Sprintf("rule=%s key=%q at %s: %s", o.Rule, o.Key, o.Pos, o.Msg))
			}
		}
		if o.Nontriv && !distinct[o.Key] {
			distinct[o.Key] = true
			nontriv++
		}
	}
	if loadErr != nil {
		undec++
		undecLines = append(undecLines, fmt.Sprintf("UNDECIDED property=%s rule=load reason=%v", r.Property, loadErr))
	}

	for _, l := range knownLines {
		fmt.Println(l)
	}
	code := 0
	evDir := filepath.Join(verifDir, "evidence")
	os.MkdirAll(evDir, 0o755)
	replay := filepath.Join(evDir, r.Property+".violation.txt")
	os.Remove(replay)
	if viol > 0 {
		var sb strings.Builder
		fmt.Fprintf(&sb, "property %s: %d violated obligation(s) on %s\n", r.Property, viol, strings.Join(r.Configs, ", "))
		for _, l := range violLines {
			sb.WriteString(l + "\n")
		}
		os.WriteFile(replay, []byte(sb.String()), 0o644)
		for _, l := range violLines {
			fmt.Println("  " + l)
		}
		fmt.Printf("VIOLATION property=%s replay=%s\n", r.Property, replay)
		code = 1
	}
	if undec > 0 {
		for _, l := range undecLines {
			fmt.Println(l)
		}
		if code == 0 {
			code = 2
		}
	}

	// samples: up to 12 obligations written out
	var samples []interface{}
	step := 1
	if len(r.Obs) > 12 {
		step = len(r.Obs) / 12
	}
	for i := 0; i < len(r.Obs) && len(samples) < 12; i += step {
		samples = append(samples, r.Obs[i])
	}
	if len(samples) == 0 {
		samples = append(samples, "no obligations generated")
	}
	perRule := map[string]map[string]int{}
	for _, o := range r.Obs {
		m := perRule[o.Rule]
		if m == nil {
			m = map[string]int{}
			perRule[o.Rule] = m
		}
		m[o.Status]++
	}
	var fns []string
	for f := range r.FuncsAnalysed {
		fns = append(fns, f)
	}
	sort.Strings(fns)
	cov := map[string]interface{}{
		"explanation":         r.Explanation,
		"rules":               r.RuleDocs,
		"obligations":         len(r.Obs),
		"discharged":          disc,
		"violated_unlisted":   viol,
		"violated_known":      knownHits,
		"undecided":           undec,
		"evaluations":         len(r.Obs),
		"distinct_nontrivial": nontriv,
		"rule":                "one obligation per (rule, construct) instance discovered in /repo's current source; distinct = distinct obligation keys; all are non-trivial (each names a concrete function, call site, field or path)",
		"samples":             samples,
		"per_rule":            perRule,
		"instance_floors":     r.MinInstances,
		"functions_analysed":  fns,
		"functions_count":     len(fns),
		"call_sites":          r.CallSites,
		"packages":            r.Packages,
		"configurations":      r.Configs,
		"notes":               r.Notes,
		"checker_cmd":         fmt.Sprintf("./check %s %s", r.Property, r.Tier),
		"exhaustive":          false,
	}
	if r.CanaryTotal > 0 {
		cov["canaries_total"] = r.CanaryTotal
		cov["canaries_fired"] = r.CanaryFired
		cov["canaries"] = r.Canaries
	}
	if r.RefTotal > 0 || len(r.Refactorings) > 0 {
		cov["refactorings_total"] = r.RefTotal
		cov["refactorings_silent"] = r.RefSilent
		cov["refactorings"] = r.Refactorings
	}
	ev := evidence{
		PropertyID:  r.Property,
		Tier:        r.Tier,
		Seed:        seed,
		Level:       "other",
		Coverage:    cov,
		Assumptions: append(append([]string{}, baseAssumptions...), r.Assumptions...),
		WallS:       time.Since(start).Seconds(),
		Violations:  viol,
	}
	b, _ := json.MarshalIndent(ev, "", " ")
	os.WriteFile(filepath.Join(evDir, r.Property+".json"), append(b, '\n'), 0o644)
	fmt.Printf("%s %s: %d obligations, %d discharged, %d violated (%d known), %d undecided, %.1fs\n",
		r.Property, r.Tier, len(r.Obs), disc, viol+knownHits, knownHits, undec, time.Since(start).Seconds())
	return code
}
