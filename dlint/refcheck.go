package main

// Behaviour-preserving refactorings as negative test inputs.  /verif/refactorings/<id>/patch.diff
// are edits of the pinned tree written by independent sub-agents that change the shape of the
// code the properties are anchored in without changing what it does (helper extraction,
// loop and branch forms, named results, renamed locals ...).  Overlaid in memory on /repo's
// current files they must not make any rule report.
//
//   dlint -refactoring <patch.diff> [-property Cxx]   one patch, all (or one) rule sets: prints
//         an ALARM line per new violated / undecided obligation, exit 1 if any
//   thorough tier: the refactorings written for the property are overlaid and the outcome is
//         recorded in the evidence (it never fails the check: an alarm there is a defect of the
//         checker, not of the tree under test).

import (
	"fmt"
	"os"
	"path/filepath"
	"runtime/debug"
	"sort"
	"strings"
)

// overlayFromPatch applies a unified diff to the repository's current files in memory.
func overlayFromPatch(repo, patch string) (map[string][]byte, error) {
	pb, err := os.ReadFile(patch)
	if err != nil {
		return nil, err
	}
	files, err := parseUnifiedDiff(string(pb))
	if err != nil {
		return nil, err
	}
	ov := map[string][]byte{}
	for f, hs := range files {
		src, err := os.ReadFile(filepath.Join(repo, f))
		if err != nil {
			return nil, err
		}
		ns, err := applyHunks(string(src), hs)
		if err != nil {
			return nil, fmt.Errorf("%s: %v", f, err)
		}
		ov[filepath.Join(repo, f)] = []byte(ns)
	}
	return ov, nil
}

// alarmsOn runs one rule set on program p and lists the obligations that are violated (and not
// a listed known finding) or undecided.
func alarmsOn(rs *RuleSet, p *Prog, known []KnownFinding) []string {
	r2 := NewReport(rs.Property, "refactoring")
	func() {
		defer func() {
			if e := recover(); e != nil {
				r2.Unk(rs.Property+".panic", "analysis", "-", fmt.Sprintf("analysis panicked: %v", e))
			}
		}()
		rs.Run(p, r2)
	}()
	r2.applyFloors()
	var out []string
	for _, o := range r2.Obs {
		if o.st != Violated && o.st != Undecided {
			continue
		}
		isKnown := false
		for _, k := range known {
			if k.Kind == "known" && k.Property == rs.Property && k.Key == o.Key {
				isKnown = true
			}
		}
		if isKnown {
			continue
		}
		out = append(out, fmt.Sprintf("%s %s key=%q at %s: %s", rs.Property, o.Status, o.Key, o.Pos, o.Msg))
	}
	sort.Strings(out)
	return out
}

func runRefactoringMode(repo, verif, patch, prop string) int {
	ov, err := overlayFromPatch(repo, patch)
	if err != nil {
		fmt.Printf("UNAVAILABLE %s: %v\n", patch, err)
		return 3
	}
	p, err := Load(LoadConfig{Repo: repo, Overlay: ov})
	if err != nil {
		fmt.Printf("UNAVAILABLE %s: overlay does not load: %v\n", patch, err)
		return 3
	}
	known, _ := LoadKnown(filepath.Join(verif, "known_findings.txt"))
	var ids []string
	for id := range registry {
		if prop == "" || prop == id {
			ids = append(ids, id)
		}
	}
	sort.Strings(ids)
	n := 0
	for _, id := range ids {
		for _, a := range alarmsOn(registry[id], p, known) {
			if len(a) > 400 {
				a = a[:400]
			}
			fmt.Println("ALARM " + a)
			n++
		}
	}
	if n > 0 {
		return 1
	}
	fmt.Printf("SILENT %s (%d rule sets)\n", patch, len(ids))
	return 0
}

// runRefactoringCanaries: thorough tier; the refactorings written for this property.
func runRefactoringCanaries(rs *RuleSet, repo, verif string, rep *Report) {
	dirs, _ := filepath.Glob(filepath.Join(verif, "refactorings", rs.Property+"-*"))
	sort.Strings(dirs)
	known, _ := LoadKnown(filepath.Join(verif, "known_findings.txt"))
	for _, d := range dirs {
		id := filepath.Base(d)
		ov, err := overlayFromPatch(repo, filepath.Join(d, "patch.diff"))
		if err != nil {
			rep.Refactorings = append(rep.Refactorings, fmt.Sprintf("refactoring %s unavailable on this tree (%v)", id, err))
			continue
		}
		p, err := Load(LoadConfig{Repo: repo, Overlay: ov})
		if err != nil {
			rep.Refactorings = append(rep.Refactorings, fmt.Sprintf("refactoring %s unavailable: overlay does not load", id))
			continue
		}
		al := alarmsOn(rs, p, known)
		p = nil
		debug.FreeOSMemory()
		rep.RefTotal++
		if len(al) == 0 {
			rep.RefSilent++
			rep.Refactorings = append(rep.Refactorings, "refactoring "+id+": silent")
		} else {
			first := al[0]
			if len(first) > 200 {
				first = first[:200]
			}
			rep.Refactorings = append(rep.Refactorings, fmt.Sprintf("refactoring %s: %d report(s) (a false alarm of the checker, see DESIGN.md 7.8): %s", id, len(al), strings.TrimSpace(first)))
		}
	}
}
