package main

// Return summaries for GuardCtx: what a caller learns from the value a small module helper
// returned.  Two shapes are understood: a boolean predicate (`if !valid(x) { reject }`) and a
// validation helper returning an error (`if err := check(x); err != nil { return err }`).  A
// summary is the set of facts that hold on EVERY way the helper can return the value in
// question, expressed over the helper's inputs and translated to the caller's names at the
// call.  Helpers that write module state are not summarised (the facts could be stale).

import (
	"fmt"
	"go/token"
	"go/types"
	"sort"
	"strings"

	"golang.org/x/tools/go/ssa"
)

var summaryDepth int

type summaryKey struct {
	fn   *ssa.Function
	mode string
}

var summaryCache = map[summaryKey][]Fact{}

// returnFacts: facts over fn's own symbols that hold whenever fn returns with its (first) bool
// result equal to truth (mode "true"/"false") or with its last (error) result nil (mode "nilerr").
func returnFacts(p *Prog, fn *ssa.Function, mode string) []Fact {
	k := summaryKey{fn, mode}
	if f, ok := summaryCache[k]; ok {
		return f
	}
	summaryCache[k] = nil // recursion guard
	if !isModuleFn(fn) || summaryDepth > 2 {
		return nil
	}
	// (stores into an object the helper itself has just made are not writes of module state)
	freshStore := func(in ssa.Instruction) bool {
		st, ok := in.(*ssa.Store)
		if !ok {
			return false
		}
		al, ok := addrRoot(st.Addr).(*ssa.Alloc)
		return ok && al.Parent() == fn
	}
	if eff := p.TransEffects(fn, freshStore, nil); len(eff.W) > 0 {
		return nil
	}
	summaryDepth++
	defer func() { summaryDepth-- }()
	g := NewGuardCtx(p, fn, nil)
	var scenarios [][]Fact
	var scen func(v ssa.Value, truth bool, at *ssa.BasicBlock, extra []Fact, depth int)
	scen = func(v ssa.Value, truth bool, at *ssa.BasicBlock, extra []Fact, depth int) {
		base := append(append([]Fact{}, g.FactsAtBlock(at)...), extra...)
		switch x := v.(type) {
		case *ssa.Const:
			if x.Value != nil && (x.Value.ExactString() == "true") == truth {
				scenarios = append(scenarios, base)
			}
			return
		case *ssa.Phi:
			if depth < 4 {
				for i, e := range x.Edges {
					pred := x.Block().Preds[i]
					var edge []Fact
					if iff, ok := pred.Instrs[len(pred.Instrs)-1].(*ssa.If); ok {
						if pred.Succs[0] == x.Block() && pred.Succs[1] != x.Block() {
							edge = g.condFacts(iff.Cond, true, "")
						} else if pred.Succs[1] == x.Block() && pred.Succs[0] != x.Block() {
							edge = g.condFacts(iff.Cond, false, "")
						}
					}
					scen(e, truth, pred, edge, depth+1)
				}
				return
			}
		}
		scenarios = append(scenarios, append(base, g.condFacts(v, truth, "")...))
	}
	Instrs(fn, func(in ssa.Instruction) {
		ret, ok := in.(*ssa.Return)
		if !ok || len(ret.Results) == 0 {
			return
		}
		switch mode {
		case "always":
			// what holds of the returned object whichever way the helper returns
			if ret.Block() != fn.Recover {
				scenarios = append(scenarios, append(g.FactsAtBlock(ret.Block()), resultFieldFacts(g, ret)...))
			}
		default:
			// "when:<field>=<0|1>": ... on the returns that set the result's bool field so (or not to a constant)
			if strings.HasPrefix(mode, "when:") && ret.Block() != fn.Recover {
				spec := strings.TrimPrefix(mode, "when:")
				eq := strings.Index(spec, "=")
				if eq > 0 {
					if k, isConst := resultBoolField(ret, spec[:eq]); !isConst || fmt.Sprint(k) == spec[eq+1:] {
						scenarios = append(scenarios, append(g.FactsAtBlock(ret.Block()), resultFieldFacts(g, ret)...))
					}
				}
			}
		case "true", "false":
			scen(ret.Results[0], mode == "true", ret.Block(), nil, 0)
		case "nilerr":
			ev := returnedValue(ret, len(ret.Results)-1)
			if c, isC := ev.(*ssa.Const); isC && c.Value == nil {
				scenarios = append(scenarios, append(g.FactsAtBlock(ret.Block()), resultFieldFacts(g, ret)...))
			} else if ph, isPhi := ev.(*ssa.Phi); isPhi && ph.Block() == ret.Block() {
				// one return of an error variable set on several ways (`switch { case bad: err = ...}`):
				// the ways on which it is nil, each with the conditions it was taken under
				for i, e := range ph.Edges {
					if definitelyNonNilError(e) {
						continue
					}
					if c, isC := e.(*ssa.Const); !isC || c.Value != nil {
						scenarios = append(scenarios, nil)
						continue
					}
					pred := ph.Block().Preds[i]
					base := append([]Fact{}, g.FactsAtBlock(pred)...)
					if iff, ok := pred.Instrs[len(pred.Instrs)-1].(*ssa.If); ok {
						if pred.Succs[0] == ph.Block() && pred.Succs[1] != ph.Block() {
							base = append(base, g.condFacts(iff.Cond, true, "")...)
						} else if pred.Succs[1] == ph.Block() && pred.Succs[0] != ph.Block() {
							base = append(base, g.condFacts(iff.Cond, false, "")...)
						}
					}
					scenarios = append(scenarios, append(base, resultFieldFactsBase(g, ret, base)...))
				}
			} else if _, isC := ev.(*ssa.Const); !isC {
				// an error value that is not syntactically nil or non-nil: could be nil with nothing learnt
				if !definitelyNonNilError(ev) {
					scenarios = append(scenarios, nil)
				}
			}
		}
	})
	if len(scenarios) == 0 {
		return nil
	}
	// keep what every scenario has
	var out []Fact
	for _, f := range scenarios[0] {
		all := true
		for _, sc := range scenarios[1:] {
			has := false
			for _, f2 := range sc {
				if f2.Eq == f.Eq && f2.NE == f.NE && f2.D.Equal(f.D) {
					has = true
				}
			}
			all = all && has
		}
		if all {
			out = append(out, f)
		}
	}
	summaryCache[k] = out
	return out
}

// condUniv: a universal fact of a completed validation loop of a helper that holds whenever the
// helper returns a nil error, unconditionally (Key "") or when the stable condition Key has the
// truth value of branch Edge (0: true).
type condUniv struct {
	Key  string
	Edge int
	F    Fact
}

var univSummaryCache = map[*ssa.Function][]condUniv{}

func returnUnivs(p *Prog, fn *ssa.Function) []condUniv {
	if u, ok := univSummaryCache[fn]; ok {
		return u
	}
	univSummaryCache[fn] = nil
	if !isModuleFn(fn) || summaryDepth > 2 {
		return nil
	}
	if eff := p.TransEffects(fn, nil, nil); len(eff.W) > 0 {
		return nil
	}
	summaryDepth++
	defer func() { summaryDepth-- }()
	g := NewGuardCtx(p, fn, nil)
	var nilRets []*ssa.BasicBlock
	unknown := false
	Instrs(fn, func(in ssa.Instruction) {
		ret, ok := in.(*ssa.Return)
		if !ok || len(ret.Results) == 0 {
			return
		}
		ev := returnedValue(ret, len(ret.Results)-1)
		if c, isC := ev.(*ssa.Const); isC {
			if c.Value == nil {
				nilRets = append(nilRets, ret.Block())
			}
		} else if !definitelyNonNilError(ev) {
			unknown = true
		}
	})
	if unknown || len(nilRets) == 0 {
		return nil
	}
	var out []condUniv
	for _, u := range g.universals() {
		all := true
		for _, rb := range nilRets {
			all = all && g.univValid(u.L, rb)
		}
		if all {
			out = append(out, condUniv{"", 0, u.F})
			continue
		}
		// C => loop completed, at every success return: the test is passed on the way there and
		// the return lies outside the branch that holds the loop
		okC := true
		key, edge := "", -1
		for i, rb := range nilRets {
			_, e, k, _, ok := g.univRegion(u.L, rb)
			if !ok || (i > 0 && (k != key || e != edge)) {
				okC = false
				break
			}
			key, edge = k, e
		}
		if okC && key != "" {
			out = append(out, condUniv{key, edge, u.F})
		}
	}
	univSummaryCache[fn] = out
	return out
}

type importedUniv struct {
	Call *ssa.Call
	Key  string
	Edge int
	F    Fact
}

// importedUnivs: the universal facts of the validation helpers this function calls and whose
// error result it tests, in this function's own names.
func (g *GuardCtx) importedUnivs() []importedUniv {
	if g.impDone {
		return g.imp
	}
	g.impDone = true
	Instrs(g.Fn, func(in ssa.Instruction) {
		call, ok := in.(*ssa.Call)
		if !ok || call.Call.IsInvoke() {
			return
		}
		callee := call.Call.StaticCallee()
		if !isModuleFn(callee) || callee == g.Fn || len(callee.Params) != len(call.Call.Args) {
			return
		}
		res := callee.Signature.Results()
		if res.Len() == 0 || !isErrorType(res.At(res.Len()-1).Type()) {
			return
		}
		for _, cu := range returnUnivs(g.P, callee) {
			tokens := map[string]string{}
			okT := true
			resolve := func(s string) {
				for _, tok := range rootTok.FindAllString(s, -1) {
					idx := -1
					for i, prm := range callee.Params {
						if "‹"+prm.Name()+"›" == tok {
							idx = i
						}
					}
					if idx < 0 {
						okT = false
						continue
					}
					w, t, okA := renderArg(g.PC, call.Call.Args[idx])
					if !okA || w != nil {
						okT = false
						continue
					}
					tokens[tok] = t
				}
			}
			for _, sym := range cu.F.D.Symbols() {
				resolve(sym)
				if len(rootTok.FindAllString(sym, -1)) == 0 {
					okT = false
				}
			}
			resolve(cu.Key)
			if !okT {
				continue
			}
			d, okS := substPoly(cu.F.D, nil, tokens)
			if !okS {
				continue
			}
			key := rootTok.ReplaceAllStringFunc(cu.Key, func(tok string) string { return tokens[tok] })
			g.imp = append(g.imp, importedUniv{call, key, cu.Edge, Fact{D: d, Eq: cu.F.Eq, NE: cu.F.NE, Why: cu.F.Why + " (checked by " + FuncName(callee) + ")"}})
		}
	})
	return g.imp
}

// importedValid: b is reached only after the helper returned a nil error, and (for a
// conditional fact) under a test of the same condition.
func (g *GuardCtx) importedValid(iu importedUniv, b *ssa.BasicBlock) bool {
	if !nilEdgeDominates(iu.Call, b) {
		return false
	}
	if iu.Key == "" {
		return true
	}
	for h2 := b.Idom(); h2 != nil; h2 = h2.Idom() {
		iff2, ok := h2.Instrs[len(h2.Instrs)-1].(*ssa.If)
		if !ok {
			continue
		}
		if e2 := edgeOwner(h2, b); e2 == iu.Edge && g.condKey(iff2.Cond) == iu.Key {
			return true
		}
	}
	return false
}

// definitelyNonNilError: the value is the result of a constructor of errors.
func definitelyNonNilError(v ssa.Value) bool {
	switch x := v.(type) {
	case *ssa.Call:
		n := CalleeName(&x.Call)
		return n == "fmt.Errorf" || n == "errors.New"
	case *ssa.MakeInterface:
		return true
	case *ssa.Phi:
		for _, e := range x.Edges {
			if !definitelyNonNilError(e) {
				return false
			}
		}
		return len(x.Edges) > 0
	}
	return false
}

// resultFieldFacts: the helper returns an object it made itself (`p := new(T); p.f = x; return p, nil`):
// for every integer field stored exactly once, on the way to this return, result.f == x, and every
// fact about x at the return is one about result.f.  The result is named ‹$retK›.
func resultFieldFacts(g *GuardCtx, ret *ssa.Return) []Fact {
	return resultFieldFactsBase(g, ret, g.FactsAtBlock(ret.Block()))
}

// resultFieldFactsBase: as resultFieldFacts, restating the facts of base (what is known on the
// way to the return that is being summarised).
func resultFieldFactsBase(g *GuardCtx, ret *ssa.Return, base []Fact) []Fact {
	var out []Fact
	fn := ret.Parent()
	for k := range ret.Results {
		rvK := returnedValue(ret, k)
		al, ok := rvK.(*ssa.Alloc)
		byValue := false
		if !ok {
			// a struct returned by value: `return result{a, b, c}` is a local filled field by
			// field and loaded as a whole
			if ld, isLd := rvK.(*ssa.UnOp); isLd && ld.Op == token.MUL {
				if a2, isA := ld.X.(*ssa.Alloc); isA {
					al, ok, byValue = a2, true, true
				}
			}
		}
		if !ok || (!al.Heap && !byValue) || derefStruct(al.Type()) == nil {
			continue
		}
		st := derefStruct(al.Type())
		count := map[int]int{}
		var stores []*ssa.Store
		Instrs(fn, func(in ssa.Instruction) {
			s, ok := in.(*ssa.Store)
			if !ok {
				return
			}
			if fa, ok := s.Addr.(*ssa.FieldAddr); ok && fa.X == ssa.Value(al) {
				count[fa.Field]++
				stores = append(stores, s)
			}
		})
		// the object must not be handed to anything that could write it before the return
		escapes := false
		for _, ref := range *al.Referrers() {
			switch x := ref.(type) {
			case *ssa.FieldAddr, *ssa.Return:
			case *ssa.UnOp:
				if !byValue {
					escapes = true
				}
			case *ssa.Store:
				// `return req, err` with named results copies the variable onto itself
				if ld, isLd := x.Val.(*ssa.UnOp); !(x.Addr == ssa.Value(al) && isLd && ld.X == ssa.Value(al)) {
					escapes = true
				}
			default:
				_ = x
				escapes = true
			}
		}
		if escapes {
			continue
		}
		for _, s := range stores {
			fa := s.Addr.(*ssa.FieldAddr)
			if count[fa.Field] != 1 || !isIntLike(s.Val.Type()) || !InstrDominates(s, ret) {
				continue
			}
			rsym := polySym(fmt.Sprintf("‹$ret%d›.%s", k, st.Field(fa.Field).Name()))
			val := g.PC.Of(s.Val)
			out = append(out, Fact{D: rsym.Sub(val), Eq: true, Why: "stored by the helper"})
			// the larger / smaller of several values: at least / at most each of them
			if syms := val.Symbols(); len(syms) == 1 && len(val) == 1 && val[syms[0]] == 1 {
				if args := g.PC.opArgs[syms[0]]; len(args) > 0 {
					for _, a := range args {
						switch {
						case strings.HasPrefix(syms[0], "max("):
							out = append(out, Fact{D: rsym.Sub(a), Why: "the larger of the values stored by the helper"})
						case strings.HasPrefix(syms[0], "min("):
							out = append(out, Fact{D: a.Sub(rsym), Why: "the smaller of the values stored by the helper"})
						}
					}
				}
			}
			// restate the facts about the stored value as facts about the field
			if syms := val.Symbols(); len(syms) == 1 && len(val) == 1 {
				if coef, rest, okl := val.SplitLinear(syms[0]); okl && len(rest) == 0 && coef.Equal(polyConst(1)) {
					for _, f := range base {
						c2, r2, ok2 := f.D.SplitLinear(syms[0])
						if !ok2 || len(c2) == 0 {
							continue
						}
						out = append(out, Fact{D: c2.Mul(rsym).Add(r2), Eq: f.Eq, NE: f.NE, Why: f.Why})
					}
				}
			}
		}
	}
	return out
}

// factsFromCall: the facts the caller (g) learns when `call` returned as mode says.
func (g *GuardCtx) factsFromCall(call *ssa.Call, mode string, why string) []Fact {
	callee := call.Call.StaticCallee()
	if callee == nil || call.Call.IsInvoke() || len(callee.Params) != len(call.Call.Args) {
		return nil
	}
	var out []Fact
	for _, f := range returnFacts(g.P, callee, mode) {
		whole := map[string]Poly{}
		tokens := map[string]string{}
		ok := true
		for _, sym := range f.D.Symbols() {
			for _, tok := range rootTok.FindAllString(sym, -1) {
				idx := -1
				for i, prm := range callee.Params {
					if "‹"+prm.Name()+"›" == tok {
						idx = i
					}
				}
				if strings.HasPrefix(tok, "‹$ret") {
					// the object the helper returned, under the caller's name for it
					var k int
					fmt.Sscanf(tok, "‹$ret%d›", &k)
					var rv ssa.Value
					if tup, isT := call.Type().(*types.Tuple); isT && tup.Len() > 1 {
						for _, ref := range *call.Referrers() {
							if e, isE := ref.(*ssa.Extract); isE && e.Index == k {
								rv = e
							}
						}
					} else if k == 0 {
						rv = call
					}
					if rv == nil {
						ok = false
						continue
					}
					if pth, okP := g.PC.accessPath(rv); okP {
						tokens[tok] = pth
					} else {
						ok = false
					}
					continue
				}
				if idx < 0 {
					ok = false
					continue
				}
				w, t, okA := renderArg(g.PC, call.Call.Args[idx])
				if !okA {
					ok = false
					continue
				}
				if w != nil {
					if sym != tok {
						one := false
						if len(w) == 1 {
							for k, c := range w {
								if c == 1 && k != "" {
									tokens[tok] = k
									one = true
								}
							}
						}
						ok = ok && one
					} else {
						whole[tok] = w
					}
				} else {
					tokens[tok] = t
				}
			}
			// symbols without a root token (locals of the helper: phi#, call results) do not translate
			if len(rootTok.FindAllString(sym, -1)) == 0 {
				ok = false
			}
		}
		if !ok {
			continue
		}
		d, okS := substPoly(f.D, whole, tokens)
		if !okS {
			continue
		}
		out = append(out, Fact{D: d, Eq: f.Eq, NE: f.NE, Why: why + " (through " + FuncName(callee) + ")"})
	}
	return out
}

// errCall: v is the error result of a static call (directly or extracted from its results).
func errCall(v ssa.Value) *ssa.Call {
	if !isErrorType(v.Type()) {
		return nil
	}
	switch x := v.(type) {
	case *ssa.Call:
		return x
	case *ssa.Extract:
		if c, ok := x.Tuple.(*ssa.Call); ok {
			if tup, ok := c.Type().(*types.Tuple); ok && x.Index == tup.Len()-1 {
				return c
			}
		}
	}
	return nil
}

var _ = token.NOT

// nilEdgeDominates: block b is reached only through the `err == nil` outcome of a test of the
// error result of call.
func nilEdgeDominates(call *ssa.Call, b *ssa.BasicBlock) bool {
	for d := b.Idom(); d != nil; d = d.Idom() {
		iff, ok := d.Instrs[len(d.Instrs)-1].(*ssa.If)
		if !ok {
			continue
		}
		bo, ok := iff.Cond.(*ssa.BinOp)
		if !ok || errCall(bo.X) != call {
			continue
		}
		if k, isC := bo.Y.(*ssa.Const); !isC || k.Value != nil {
			continue
		}
		e := edgeOwner(d, b)
		if (bo.Op == token.NEQ && e == 1) || (bo.Op == token.EQL && e == 0) {
			return true
		}
	}
	return false
}

// entryFacts: for an unexported function every use of which is a static call in the module, the
// facts about its parameters that hold at every one of those calls (from the branch conditions
// dominating the call), in the function's own names: its callers' guards are its preconditions.
func (g *GuardCtx) entryFacts() []Fact {
	if g.entryDone {
		return g.entry
	}
	g.entryDone = true
	fn := g.Fn
	if fn.Parent() != nil || summaryDepth > 1 {
		return nil
	}
	if obj := fn.Object(); obj != nil && obj.Exported() && fn.Origin() == nil {
		return nil
	}
	if fn.Origin() != nil {
		if obj := fn.Origin().Object(); obj == nil || obj.Exported() {
			return nil
		}
	}
	sites, complete := g.P.staticCallSites(fn)
	if !complete || len(sites) == 0 {
		return nil
	}
	summaryDepth++
	defer func() { summaryDepth-- }()
	var common map[string]Fact
	for _, site := range sites {
		caller := site.Parent()
		cc := CallOf(site)
		if caller == fn || len(cc.Args) != len(fn.Params) {
			return nil
		}
		gc := NewGuardCtx(g.P, caller, nil)
		// how the caller's names of the arguments read in the callee
		whole := map[string]string{}
		toks := map[string]string{}
		for i, prm := range fn.Params {
			w, t, ok := renderArg(gc.PC, cc.Args[i])
			if !ok {
				continue
			}
			name := "‹" + prm.Name() + "›"
			if w != nil {
				if len(w) == 1 {
					for k, c := range w {
						if c == 1 && k != "" {
							whole[k] = name
						}
					}
				}
			} else {
				toks[t] = name
			}
		}
		cur := map[string]Fact{}
		for _, f := range gc.FactsAtBlock(site.Block()) {
			ok := true
			d := mapSyms(f.D, func(s string) string {
				if n, has := whole[s]; has {
					return n
				}
				for t, n := range toks {
					if strings.Contains(s, t) {
						s = strings.ReplaceAll(s, t, n)
					}
				}
				return s
			})
			for _, s := range d.Symbols() {
				if strings.ContainsAny(s, "#{") {
					ok = false
				}
				roots := rootTok.FindAllString(s, -1)
				if len(roots) == 0 {
					ok = false
				}
				for _, rt := range roots {
					isPrm := false
					for _, prm := range fn.Params {
						if rt == "‹"+prm.Name()+"›" {
							isPrm = true
						}
					}
					// a name of the caller that survived the renaming is not a name of the callee
					renamed := false
					for _, n := range whole {
						renamed = renamed || n == rt
					}
					for _, n := range toks {
						renamed = renamed || n == rt
					}
					if !isPrm || !renamed {
						ok = false
					}
				}
			}
			if ok {
				nf := Fact{D: d, Eq: f.Eq, NE: f.NE, Why: "holds at every call of " + FuncName(fn)}
				cur[nf.String()] = nf
			}
		}
		if common == nil {
			common = cur
		} else {
			for k := range common {
				if _, has := cur[k]; !has {
					delete(common, k)
				}
			}
		}
	}
	var keys []string
	for k := range common {
		keys = append(keys, k)
	}
	sort.Strings(keys)
	for _, k := range keys {
		g.entry = append(g.entry, common[k])
	}
	// sign conditions of integer parameters, asked of every caller (the caller may establish
	// them in ways that do not translate name by name, e.g. by clamping the argument)
	ctxs := map[*ssa.Function]*GuardCtx{}
	for i, prm := range fn.Params {
		if !isIntLike(prm.Type()) {
			continue
		}
		name := polySym("‹" + prm.Name() + "›")
		for _, k := range []int64{1, 0} {
			all := true
			for _, site := range sites {
				caller := site.Parent()
				gc := ctxs[caller]
				if gc == nil {
					gc = NewGuardCtx(g.P, caller, nil)
					ctxs[caller] = gc
				}
				if !gc.Prove(gc.PC.Of(CallOf(site).Args[i]).Sub(polyConst(k)), site) {
					all = false
					break
				}
			}
			if all {
				g.entry = append(g.entry, Fact{D: name.Sub(polyConst(k)), Why: "proven at every call of " + FuncName(fn)})
				break
			}
		}
	}
	return g.entry
}

// resultBoolField: the constant (0/1) the return stores into the bool field `name` of the object
// it returns (first result), if it is a constant.
func resultBoolField(ret *ssa.Return, name string) (int, bool) {
	if len(ret.Results) == 0 {
		return 0, false
	}
	rv := returnedValue(ret, 0)
	var al *ssa.Alloc
	switch x := rv.(type) {
	case *ssa.Alloc:
		al = x
	case *ssa.UnOp:
		al, _ = x.X.(*ssa.Alloc)
	}
	if al == nil || derefStruct(al.Type()) == nil {
		return 0, false
	}
	st := derefStruct(al.Type())
	for _, ref := range *al.Referrers() {
		fa, ok := ref.(*ssa.FieldAddr)
		if !ok || st.Field(fa.Field).Name() != name {
			continue
		}
		for _, r2 := range *fa.Referrers() {
			if s2, ok := r2.(*ssa.Store); ok && s2.Addr == ssa.Value(fa) && InstrDominates(s2, ret) {
				if c, isC := s2.Val.(*ssa.Const); isC && c.Value != nil {
					if c.Value.ExactString() == "true" {
						return 1, true
					}
					if c.Value.ExactString() == "false" {
						return 0, true
					}
				}
			}
		}
	}
	return 0, false
}
