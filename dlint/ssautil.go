package main

// E2: path rules over SSA basic blocks, call resolution helpers.

import (
	"go/token"
	"go/types"
	"sort"
	"strings"

	"golang.org/x/tools/go/ssa"
)

// ---- call helpers -----------------------------------------------------------

// CallOf returns the CallCommon of a Call/Go/Defer instruction.
func CallOf(in ssa.Instruction) *ssa.CallCommon {
	if c, ok := in.(ssa.CallInstruction); ok {
		return c.Common()
	}
	return nil
}

// Callee returns the statically known callee, seeing through closures bound
// to locals (MakeClosure) — never by name.
func Callee(cc *ssa.CallCommon) *ssa.Function {
	if cc == nil {
		return nil
	}
	if f := cc.StaticCallee(); f != nil {
		return f
	}
	return nil
}

// CalleeName gives "pkgpath.Func" or "(pkgpath.T).Method" for static callees and
// interface methods alike (for library calls such as os.Rename, (*sync.Mutex).Lock).
func CalleeName(cc *ssa.CallCommon) string {
	if cc == nil {
		return ""
	}
	if cc.IsInvoke() {
		return "(" + cc.Value.Type().String() + ")." + cc.Method.Name()
	}
	if f := cc.StaticCallee(); f != nil {
		if f.Object() != nil {
			return fullObjName(f.Object())
		}
		return f.String()
	}
	if b, ok := cc.Value.(*ssa.Builtin); ok {
		return "builtin." + b.Name()
	}
	return ""
}

func fullObjName(o types.Object) string {
	if fn, ok := o.(*types.Func); ok {
		return fn.FullName()
	}
	if o.Pkg() != nil {
		return o.Pkg().Path() + "." + o.Name()
	}
	return o.Name()
}

// IsCallTo tests a call against a FullName such as "os.Rename" or
// "(*sync.WaitGroup).Wait".
func IsCallTo(in ssa.Instruction, names ...string) bool {
	cc := CallOf(in)
	if cc == nil {
		return false
	}
	n := CalleeName(cc)
	for _, x := range names {
		if n == x {
			return true
		}
	}
	return false
}

// Instrs iterates over every instruction of fn.
func Instrs(fn *ssa.Function, f func(ssa.Instruction)) {
	for _, b := range fn.Blocks {
		for _, in := range b.Instrs {
			f(in)
		}
	}
}

// callees returns the possible module/library callees of a call instruction:
// static callee, or — for interface / function-value calls — the VTA targets.
func (p *Prog) callees(in ssa.Instruction) []*ssa.Function {
	cc := CallOf(in)
	if cc == nil {
		return nil
	}
	if f := cc.StaticCallee(); f != nil {
		return []*ssa.Function{f}
	}
	if _, ok := cc.Value.(*ssa.Builtin); ok {
		return nil
	}
	cg := p.CallGraph()
	n := cg.Nodes[in.Parent()]
	if n == nil {
		return nil
	}
	var out []*ssa.Function
	for _, e := range n.Out {
		if e.Site == in {
			out = append(out, e.Callee.Func)
		}
	}
	return out
}

// Reaches reports whether some call path from fn (inclusive) reaches a
// function satisfying pred, following static calls, closures created in the
// function (they may be called later) only when followClosures, and VTA targets.
func (p *Prog) Reaches(fn *ssa.Function, pred func(*ssa.Function) bool, maxDepth int) (bool, []*ssa.Function) {
	type item struct {
		f    *ssa.Function
		path []*ssa.Function
	}
	seen := map[*ssa.Function]bool{fn: true}
	q := []item{{fn, []*ssa.Function{fn}}}
	for len(q) > 0 {
		it := q[0]
		q = q[1:]
		if pred(it.f) {
			return true, it.path
		}
		if len(it.path) > maxDepth {
			continue
		}
		if it.f.Blocks == nil {
			continue
		}
		for _, b := range it.f.Blocks {
			for _, in := range b.Instrs {
				if CallOf(in) == nil {
					continue
				}
				for _, c := range p.callees(in) {
					if c != nil && !seen[c] {
						seen[c] = true
						np := append(append([]*ssa.Function{}, it.path...), c)
						q = append(q, item{c, np})
					}
				}
			}
		}
	}
	return false, nil
}

func pathString(path []*ssa.Function) string {
	var s []string
	for _, f := range path {
		s = append(s, FuncName(f))
	}
	return strings.Join(s, " -> ")
}

// ---- occurrence counting (E2c) ---------------------------------------------

// CountSet is a set of possible event counts along paths: bit0 = 0 times,
// bit1 = exactly once, bit2 = two or more times.
type CountSet uint8

const (
	C0 CountSet = 1
	C1 CountSet = 2
	C2 CountSet = 4
)

func (c CountSet) String() string {
	var s []string
	if c&C0 != 0 {
		s = append(s, "0")
	}
	if c&C1 != 0 {
		s = append(s, "1")
	}
	if c&C2 != 0 {
		s = append(s, ">=2")
	}
	if len(s) == 0 {
		return "unreachable"
	}
	return strings.Join(s, "|")
}

func addCounts(a, b CountSet) CountSet {
	var out CountSet
	for i := 0; i < 3; i++ {
		if a&(1<<i) == 0 {
			continue
		}
		for j := 0; j < 3; j++ {
			if b&(1<<j) == 0 {
				continue
			}
			k := i + j
			if k > 2 {
				k = 2
			}
			out |= 1 << k
		}
	}
	return out
}

// ExitKind classifies function exits.
type ExitKind int

const (
	ExitReturn ExitKind = iota
	ExitPanic
	ExitFatal // log.Fatal*, os.Exit, log.Panic*
)

type PathExit struct {
	Instr ssa.Instruction
	Kind  ExitKind
	Count CountSet
}

// noReturnCall recognises calls that never return.
func noReturnCall(in ssa.Instruction) bool {
	return IsCallTo(in, "os.Exit", "log.Fatal", "log.Fatalf", "log.Fatalln", "log.Panic", "log.Panicf", "log.Panicln",
		"(*log.Logger).Fatal", "(*log.Logger).Fatalf", "(*log.Logger).Fatalln", "(*log.Logger).Panic", "(*log.Logger).Panicf", "(*log.Logger).Panicln")
}

// CountEvents computes, for every exit of fn, the set of possible numbers of
// events along paths from entry.  event(in) returns the contribution of an
// instruction (0 for "not an event").  Deferred calls contribute at RunDefers
// (once if the defer dominates it, 0|1 otherwise).
func CountEvents(fn *ssa.Function, event func(ssa.Instruction) CountSet) []PathExit {
	if fn.Blocks == nil {
		return nil
	}
	in := make([]CountSet, len(fn.Blocks))
	in[0] = C0
	var defers []*ssa.Defer
	Instrs(fn, func(i ssa.Instruction) {
		if d, ok := i.(*ssa.Defer); ok {
			defers = append(defers, d)
		}
	})
	transfer := func(b *ssa.BasicBlock, st CountSet, exits *[]PathExit) CountSet {
		for _, i := range b.Instrs {
			if st == 0 {
				return 0
			}
			switch x := i.(type) {
			case *ssa.Defer:
				// counted at RunDefers
				continue
			case *ssa.RunDefers:
				for _, d := range defers {
					c := event(d)
					if c == 0 || c == C0 {
						continue
					}
					if d.Block().Dominates(b) {
						st = addCounts(st, c)
					} else {
						st = addCounts(st, c|C0)
					}
				}
				continue
			case *ssa.Return:
				// (an event may be attributed to the exit itself: the first instruction of a select arm)
				if c := event(i); c != 0 && c != C0 {
					st = addCounts(st, c)
				}
				if exits != nil {
					*exits = append(*exits, PathExit{x, ExitReturn, st})
				}
				return 0
			case *ssa.Panic:
				if c := event(i); c != 0 && c != C0 {
					st = addCounts(st, c)
				}
				if exits != nil && !isSelectFallthroughPanic(x) {
					*exits = append(*exits, PathExit{x, ExitPanic, st})
				}
				return 0
			}
			if noReturnCall(i) {
				if c := event(i); c != 0 && c != C0 {
					st = addCounts(st, c)
				}
				if exits != nil {
					*exits = append(*exits, PathExit{i, ExitFatal, st})
				}
				return 0
			}
			c := event(i)
			if c != 0 && c != C0 {
				st = addCounts(st, c)
			}
		}
		return st
	}
	changed := true
	for changed {
		changed = false
		for _, b := range fn.Blocks {
			if in[b.Index] == 0 {
				continue
			}
			out := transfer(b, in[b.Index], nil)
			for _, s := range b.Succs {
				if in[s.Index]|out != in[s.Index] {
					in[s.Index] |= out
					changed = true
				}
			}
		}
	}
	var exits []PathExit
	for _, b := range fn.Blocks {
		if in[b.Index] != 0 {
			transfer(b, in[b.Index], &exits)
		}
	}
	return exits
}

// ---- reachability avoiding a set of instructions (E2a) ----------------------

// ReachAvoiding walks forward from just after `from` (or from function entry
// when from == nil) and returns the instructions satisfying `stop` that can be
// reached without executing an instruction satisfying `barrier`.
func ReachAvoiding(fn *ssa.Function, from ssa.Instruction, barrier, stop func(ssa.Instruction) bool) []ssa.Instruction {
	var out []ssa.Instruction
	// a block is visited once per way into it: a branch on a condition merged from constants
	// (`ok := a && b; if ok`, `for running := true; running;`) is decided by the edge taken
	type visit struct{ b, from *ssa.BasicBlock }
	seen := map[visit]bool{}
	var defers []*ssa.Defer
	Instrs(fn, func(in ssa.Instruction) {
		if d, ok := in.(*ssa.Defer); ok {
			defers = append(defers, d)
		}
	})
	var walk func(b *ssa.BasicBlock, startIdx int, from *ssa.BasicBlock)
	walk = func(b *ssa.BasicBlock, startIdx int, from *ssa.BasicBlock) {
		for i := startIdx; i < len(b.Instrs); i++ {
			in := b.Instrs[i]
			if _, isDefer := in.(*ssa.Defer); isDefer {
				continue // runs at RunDefers
			}
			if _, isRD := in.(*ssa.RunDefers); isRD && barrier != nil {
				hit := false
				for _, d := range defers {
					if d.Block().Dominates(b) && barrier(d) {
						hit = true
					}
				}
				if hit {
					return
				}
				continue
			}
			if barrier != nil && barrier(in) {
				return
			}
			if stop(in) {
				out = append(out, in)
				if _, ok := in.(*ssa.Return); ok {
					return
				}
				if _, ok := in.(*ssa.Panic); ok {
					return
				}
			}
			if noReturnCall(in) {
				return
			}
		}
		succs := b.Succs
		if iff, ok := b.Instrs[len(b.Instrs)-1].(*ssa.If); ok && len(b.Instrs) > 0 {
			if k := decidedOnEdge(iff.Cond, b, from); k >= 0 {
				succs = b.Succs[k : k+1]
			}
		}
		for _, s := range succs {
			if !seen[visit{s, b}] {
				seen[visit{s, b}] = true
				walk(s, 0, b)
			}
		}
	}
	if from == nil {
		if len(fn.Blocks) > 0 {
			seen[visit{fn.Blocks[0], nil}] = true
			walk(fn.Blocks[0], 0, nil)
		}
		return out
	}
	b := from.Block()
	for i, in := range b.Instrs {
		if in == from {
			walk(b, i+1, nil)
			break
		}
	}
	return out
}

// InstrDominates: a executes before b on every path to b.
func InstrDominates(a, b ssa.Instruction) bool {
	ba, bb := a.Block(), b.Block()
	if ba == bb {
		for _, in := range ba.Instrs {
			if in == a {
				return true
			}
			if in == b {
				return false
			}
		}
		return false
	}
	return ba.Dominates(bb)
}

func isReturn(in ssa.Instruction) bool { _, ok := in.(*ssa.Return); return ok }

// ---- value helpers -----------------------------------------------------------

// FieldOf: if v is (a load of) a FieldAddr / Field, return the struct type name
// and the field name.
func FieldOf(v ssa.Value) (owner string, field string, base ssa.Value, ok bool) {
	switch x := v.(type) {
	case *ssa.UnOp:
		if x.Op == token.MUL {
			return FieldOf(x.X)
		}
	case *ssa.FieldAddr:
		st := derefStruct(x.X.Type())
		if st == nil {
			return
		}
		return typeName(x.X.Type()), st.Field(x.Field).Name(), resolveCell(x.X), true
	case *ssa.Field:
		st := derefStruct(x.X.Type())
		if st == nil {
			return
		}
		return typeName(x.X.Type()), st.Field(x.Field).Name(), resolveCell(x.X), true
	}
	return
}

func derefStruct(t types.Type) *types.Struct {
	if p, ok := t.Underlying().(*types.Pointer); ok {
		t = p.Elem()
	}
	st, _ := t.Underlying().(*types.Struct)
	return st
}

func typeName(t types.Type) string {
	if p, ok := t.(*types.Pointer); ok {
		t = p.Elem()
	}
	if p, ok := t.Underlying().(*types.Pointer); ok && t == t.Underlying() {
		t = p.Elem()
	}
	if n, ok := t.(*types.Named); ok {
		return n.Obj().Name()
	}
	return t.String()
}

// fieldPath returns the chain of field names from the root value, e.g.
// ["writingState","Paused"] for ds.writingState.Paused, and the root value.
func fieldPath(v ssa.Value) (root ssa.Value, path []string) {
	for {
		switch x := v.(type) {
		case *ssa.UnOp:
			if x.Op == token.MUL {
				if rv := resolveCell(x); rv != ssa.Value(x) {
					v = rv // a captured variable read from its cell
					continue
				}
				v = x.X
				continue
			}
			return v, path
		case *ssa.FieldAddr:
			st := derefStruct(x.X.Type())
			if st == nil {
				return v, path
			}
			path = append([]string{st.Field(x.Field).Name()}, path...)
			v = x.X
			continue
		case *ssa.Field:
			st := derefStruct(x.X.Type())
			if st == nil {
				return v, path
			}
			path = append([]string{st.Field(x.Field).Name()}, path...)
			v = x.X
			continue
		}
		return v, path
	}
}

// StoresTo lists Store instructions in fn whose address is a field named
// `field` of struct type `owner` (owner == "" matches any).
func StoresTo(fn *ssa.Function, owner, field string) []*ssa.Store {
	var out []*ssa.Store
	Instrs(fn, func(in ssa.Instruction) {
		st, ok := in.(*ssa.Store)
		if !ok {
			return
		}
		fa, ok := st.Addr.(*ssa.FieldAddr)
		if !ok {
			return
		}
		s := derefStruct(fa.X.Type())
		if s == nil || s.Field(fa.Field).Name() != field {
			return
		}
		if owner != "" && !ownerIs(typeName(fa.X.Type()), owner) {
			return
		}
		out = append(out, st)
	})
	return out
}

// isChanField reports whether v is a load of a chan-typed struct field with the
// given name ("" = any) and returns the field name.
func chanFieldName(v ssa.Value) string {
	_, f, _, ok := FieldOf(v)
	if !ok {
		return ""
	}
	if _, isChan := v.Type().Underlying().(*types.Chan); !isChan {
		return ""
	}
	return f
}

// constInt returns the constant integer value of v, if any.
func constInt(v ssa.Value) (int64, bool) {
	if c, ok := v.(*ssa.Const); ok && c.Value != nil {
		if c.Value.Kind().String() == "Int" {
			return c.Int64(), true
		}
	}
	return 0, false
}

// stripConv removes integer/named-type conversions.
func stripConv(v ssa.Value) ssa.Value {
	for {
		switch x := v.(type) {
		case *ssa.Convert:
			v = x.X
		case *ssa.ChangeType:
			v = x.X
		default:
			return v
		}
	}
}

// Unwrap sees through synthetic wrappers (promoted methods, bound-method
// closures, thunks) to the declared function they forward to.
func Unwrap(fn *ssa.Function) *ssa.Function {
	for i := 0; i < 4 && fn != nil && fn.Synthetic != "" && fn.Blocks != nil; i++ {
		var callee *ssa.Function
		n := 0
		Instrs(fn, func(in ssa.Instruction) {
			if cc := CallOf(in); cc != nil {
				n++
				callee = cc.StaticCallee()
			}
		})
		if n != 1 || callee == nil {
			return fn
		}
		fn = callee
	}
	return fn
}

// ---- select helpers -----------------------------------------------------------

// isSelectFallthroughPanic recognises the synthetic panic go/ssa emits after the
// last arm of a blocking select ("blocking select matched no case").
func isSelectFallthroughPanic(in ssa.Instruction) bool {
	p, ok := in.(*ssa.Panic)
	if !ok {
		return false
	}
	mi, ok := p.X.(*ssa.MakeInterface)
	if !ok {
		return false
	}
	c, ok := mi.X.(*ssa.Const)
	return ok && c.Value != nil && strings.Contains(c.Value.ExactString(), "blocking select matched no case")
}

// SelectArms maps each state index of a select to the block executed when that
// state fired; arms[-1] is the default arm of a non-blocking select.
func SelectArms(sel *ssa.Select) map[int]*ssa.BasicBlock {
	arms := map[int]*ssa.BasicBlock{}
	var idx ssa.Value
	for _, ref := range *sel.Referrers() {
		if e, ok := ref.(*ssa.Extract); ok && e.Index == 0 {
			idx = e
		}
	}
	if idx == nil {
		return arms
	}
	var lastElse *ssa.BasicBlock
	for _, ref := range *idx.Referrers() {
		b, ok := ref.(*ssa.BinOp)
		if !ok || b.Op != token.EQL {
			continue
		}
		k, isC := constInt(b.Y)
		if !isC {
			continue
		}
		for _, r2 := range *b.Referrers() {
			if iff, ok := r2.(*ssa.If); ok {
				arms[int(k)] = iff.Block().Succs[0]
				if int(k) == len(sel.States)-1 {
					lastElse = iff.Block().Succs[1]
				}
			}
		}
	}
	if !sel.Blocking && lastElse != nil {
		arms[-1] = lastElse
	}
	return arms
}

// SelectRecvValue returns the value received by state k of a select (nil if unused).
func SelectRecvValue(sel *ssa.Select, k int) ssa.Value {
	// tuple layout: index, recvOk, then one value per receive state in order
	pos := 2
	for i, st := range sel.States {
		if st.Dir == types.RecvOnly {
			if i == k {
				for _, ref := range *sel.Referrers() {
					if e, ok := ref.(*ssa.Extract); ok && e.Index == pos {
						return e
					}
				}
				return nil
			}
			pos++
		}
	}
	return nil
}

// BlockReaches: is block `to` reachable from block `from` (inclusive)?
func BlockReaches(from, to *ssa.BasicBlock) bool {
	seen := map[*ssa.BasicBlock]bool{}
	var walk func(b *ssa.BasicBlock) bool
	walk = func(b *ssa.BasicBlock) bool {
		if b == to {
			return true
		}
		if seen[b] {
			return false
		}
		seen[b] = true
		for _, s := range b.Succs {
			if walk(s) {
				return true
			}
		}
		return false
	}
	return walk(from)
}

// InstrReaches: can control flow from just after a reach b?
func InstrReaches(a, b ssa.Instruction) bool {
	hit := ReachAvoiding(a.Parent(), a, nil, func(in ssa.Instruction) bool { return in == b })
	return len(hit) > 0
}

// InLoop reports whether the instruction's block lies on a CFG cycle.
func InLoop(in ssa.Instruction) bool {
	b := in.Block()
	for _, s := range b.Succs {
		if BlockReaches(s, b) {
			return true
		}
	}
	return false
}

// ---- helper-aware queries ------------------------------------------------------------------
//
// Maintainers split functions.  A rule that says "F does X" usually means "F, or a helper F
// calls, does X".  The functions below look through static calls to module functions (never
// through go statements), to a small depth, and relate what they find back to the call in F.

// DeepInstr is an instruction found in fn or in a helper reached from fn; Top is the
// instruction of fn itself that leads to it (the instruction itself when depth 0), Path the
// chain of call instructions from fn down to it.
type DeepInstr struct {
	In   ssa.Instruction
	Top  ssa.Instruction
	Path []ssa.Instruction
}

func isModuleFn(f *ssa.Function) bool {
	if f == nil || f.Blocks == nil {
		return false
	}
	pk := fnPkg(f)
	return pk != nil && strings.HasPrefix(pk.Path(), modPath)
}

// InstrsDeep visits the instructions of fn and of the module helpers it calls statically
// (depth levels down, each helper once per call site chain, recursion cut).
func InstrsDeep(fn *ssa.Function, depth int, visit func(DeepInstr)) {
	var walk func(f *ssa.Function, path []ssa.Instruction, onStack map[*ssa.Function]bool)
	walk = func(f *ssa.Function, path []ssa.Instruction, onStack map[*ssa.Function]bool) {
		Instrs(f, func(in ssa.Instruction) {
			top := in
			if len(path) > 0 {
				top = path[0]
			}
			visit(DeepInstr{In: in, Top: top, Path: path})
			if len(path) >= depth {
				return
			}
			if _, isGo := in.(*ssa.Go); isGo {
				return
			}
			cc := CallOf(in)
			if cc == nil {
				return
			}
			callee := cc.StaticCallee()
			if !isModuleFn(callee) || onStack[callee] {
				return
			}
			onStack[callee] = true
			np := append(append([]ssa.Instruction{}, path...), in)
			walk(callee, np, onStack)
			delete(onStack, callee)
		})
	}
	walk(fn, nil, map[*ssa.Function]bool{fn: true})
}

// alwaysExecutes: the instruction runs on every path through its function from entry to a
// normal return (its block dominates every returning block).
func alwaysExecutes(in ssa.Instruction) bool {
	f := in.Parent()
	ok := true
	for _, b := range f.Blocks {
		if len(b.Instrs) == 0 || b == f.Recover {
			continue // (the recover block is where a recovered panic resumes, not a normal return)
		}
		if _, isRet := b.Instrs[len(b.Instrs)-1].(*ssa.Return); isRet {
			if !(in.Block() == b || in.Block().Dominates(b)) {
				ok = false
			}
		}
	}
	return ok
}

// DeepDominates: a executes before b on every path to b, where a and b may sit in helpers of
// the same root function: compared at the first level where their call paths differ; an event
// inside a helper counts only if it always executes in that helper (and in the helpers between).
func DeepDominates(a, b DeepInstr) bool {
	pa := append(append([]ssa.Instruction{}, a.Path...), a.In)
	pb := append(append([]ssa.Instruction{}, b.Path...), b.In)
	k := 0
	for k < len(pa)-1 && k < len(pb)-1 && pa[k] == pb[k] {
		k++
	}
	if pa[k] == pb[k] {
		return false
	}
	if !InstrDominates(pa[k], pb[k]) {
		return false
	}
	// everything of a below level k must be unconditional inside its helper
	for i := k + 1; i < len(pa); i++ {
		if !alwaysExecutes(pa[i]) {
			return false
		}
	}
	return true
}

// DeepReaches: b can execute after a (same comparison level as DeepDominates).
func DeepReaches(a, b DeepInstr) bool {
	pa := append(append([]ssa.Instruction{}, a.Path...), a.In)
	pb := append(append([]ssa.Instruction{}, b.Path...), b.In)
	k := 0
	for k < len(pa)-1 && k < len(pb)-1 && pa[k] == pb[k] {
		k++
	}
	if pa[k] == pb[k] {
		return false
	}
	return InstrReaches(pa[k], pb[k])
}

// ArgForParam: for an instruction path into a helper, the value in the caller that the
// helper's parameter stands for (followed up the whole path).
func ArgForParam(path []ssa.Instruction, v ssa.Value) ssa.Value {
	for i := len(path) - 1; i >= 0; i-- {
		// a variable of the enclosing function read by a closure: what its cell holds
		if ld, isLd := v.(*ssa.UnOp); isLd && ld.Op == token.MUL {
			if fv, isFV := ld.X.(*ssa.FreeVar); isFV {
				if mc, isMC := CallOf(path[i]).Value.(*ssa.MakeClosure); isMC {
					if fn, isFn := mc.Fn.(*ssa.Function); isFn {
						for j, q := range fn.FreeVars {
							if q == fv && j < len(mc.Bindings) {
								if a, isA := mc.Bindings[j].(*ssa.Alloc); isA {
									if val, ok := cellValue(a); ok {
										v = val
									}
								}
							}
						}
					}
				}
				if _, still := v.(*ssa.UnOp); still {
					return v
				}
				continue
			}
		}
		prm, ok := v.(*ssa.Parameter)
		if !ok {
			return v
		}
		cc := CallOf(path[i])
		callee := cc.StaticCallee()
		if callee == nil {
			return v
		}
		idx := -1
		for j, q := range callee.Params {
			if q == prm {
				idx = j
			}
		}
		if idx < 0 || idx >= len(cc.Args) {
			return v
		}
		v = cc.Args[idx]
	}
	return v
}

// DeepFuncs: fn and the module helpers it calls statically (depth levels down), each once.
func DeepFuncs(fn *ssa.Function, depth int) []*ssa.Function {
	out := []*ssa.Function{fn}
	seen := map[*ssa.Function]bool{fn: true}
	InstrsDeep(fn, depth, func(d DeepInstr) {
		f := d.In.Parent()
		if !seen[f] {
			seen[f] = true
			out = append(out, f)
		}
	})
	return out
}

// FindDeep: the instructions of fn and of the module helpers it calls (depth levels) that satisfy pred.
func FindDeep(fn *ssa.Function, depth int, pred func(ssa.Instruction) bool) []DeepInstr {
	var out []DeepInstr
	InstrsDeep(fn, depth, func(d DeepInstr) {
		if pred(d.In) {
			out = append(out, d)
		}
	})
	return out
}

// MustPass widens an event predicate for must-pass-through rules: an instruction counts when it is
// the event itself or a plain call of a module helper every one of whose paths from entry to a
// return passes the event (helpers of helpers down to depth levels).
func MustPass(pred func(ssa.Instruction) bool, depth int) func(ssa.Instruction) bool {
	memo := map[*ssa.Function]int{} // 1 = always passes, 2 = not
	var widened func(d int) func(ssa.Instruction) bool
	widened = func(d int) func(ssa.Instruction) bool {
		return func(in ssa.Instruction) bool {
			if pred(in) {
				return true
			}
			if d <= 0 {
				return false
			}
			call, ok := in.(*ssa.Call)
			if !ok {
				return false
			}
			callee := call.Call.StaticCallee()
			if !isModuleFn(callee) {
				return false
			}
			if v, had := memo[callee]; had {
				return v == 1
			}
			memo[callee] = 2 // recursion: assume not
			miss := ReachAvoiding(callee, nil, widened(d-1), isReturn)
			if len(miss) == 0 {
				memo[callee] = 1
				return true
			}
			return false
		}
	}
	return widened(depth)
}

// calledFuncs: the module functions a call instruction can run: the static callee, or for a call
// through a function value (method value, element of a table of functions) the callees the call
// graph resolves, with bound-method and other synthetic wrappers looked through.
func (p *Prog) calledFuncs(in ssa.Instruction) []*ssa.Function {
	cc := CallOf(in)
	if cc == nil {
		return nil
	}
	var cands []*ssa.Function
	if f := cc.StaticCallee(); f != nil {
		cands = []*ssa.Function{f}
	} else {
		cands = p.callees(in)
	}
	var out []*ssa.Function
	seen := map[*ssa.Function]bool{}
	for _, f := range cands {
		f = Unwrap(f)
		if isModuleFn(f) && !seen[f] {
			seen[f] = true
			out = append(out, f)
		}
	}
	sort.Slice(out, func(i, j int) bool { return out[i].Pos() < out[j].Pos() })
	return out
}

// decidedOnEdge: cond (possibly negated) is a phi of block b whose operand on the edge from
// block `from` is a boolean constant: returns the successor index (0 true, 1 false) that is
// taken when b is entered that way, -1 when the edge does not decide the condition.
func decidedOnEdge(cond ssa.Value, b, from *ssa.BasicBlock) int {
	if from == nil {
		return -1
	}
	neg := false
	for {
		u, ok := cond.(*ssa.UnOp)
		if !ok || u.Op != token.NOT {
			break
		}
		neg = !neg
		cond = u.X
	}
	ph, ok := cond.(*ssa.Phi)
	if !ok || ph.Block() != b {
		return -1
	}
	for i, pr := range b.Preds {
		if pr != from {
			continue
		}
		if ph.Edges[i] == ssa.Value(ph) {
			// carried unchanged around a loop: the branch taken last time is taken again, when
			// the way in lies on one side of this very test only
			if iff, ok := b.Instrs[len(b.Instrs)-1].(*ssa.If); ok && (iff.Cond == cond || neg) {
				for k := 0; k < 2; k++ {
					s := b.Succs[k]
					if len(s.Preds) == 1 && (s == from || s.Dominates(from)) {
						return k
					}
				}
			}
			return -1
		}
		c, isC := ph.Edges[i].(*ssa.Const)
		if !isC || c.Value == nil {
			return -1
		}
		val := c.Value.ExactString() == "true"
		if neg {
			val = !val
		}
		if val {
			return 0
		}
		return 1
	}
	return -1
}

// strictLess reads a branch condition as x < y: returns x, y and the successor index on which
// x < y holds.  Understands <, >, >=, <= (the latter two on their false side) and negation.
func strictLess(cond ssa.Value) (x, y ssa.Value, succ int, ok bool) {
	neg := false
	for {
		u, isU := cond.(*ssa.UnOp)
		if !isU || u.Op != token.NOT {
			break
		}
		neg = !neg
		cond = u.X
	}
	bo, isB := cond.(*ssa.BinOp)
	if !isB {
		return nil, nil, 0, false
	}
	switch bo.Op {
	case token.LSS:
		x, y, succ = bo.X, bo.Y, 0
	case token.GTR:
		x, y, succ = bo.Y, bo.X, 0
	case token.GEQ: // !(x >= y) is x < y
		x, y, succ = bo.X, bo.Y, 1
	case token.LEQ: // !(y <= x) is x < y
		x, y, succ = bo.Y, bo.X, 1
	default:
		return nil, nil, 0, false
	}
	if neg {
		succ = 1 - succ
	}
	return x, y, succ, true
}

// methodArgs: receiver and arguments of a method call, also when the call goes through a
// method value (put := buf.Write; put(x)): the bound receiver comes first.
func methodArgs(cc *ssa.CallCommon) []ssa.Value {
	if mc, ok := cc.Value.(*ssa.MakeClosure); ok {
		if fn, ok := mc.Fn.(*ssa.Function); ok && strings.HasSuffix(fn.Name(), "$bound") && len(mc.Bindings) == 1 {
			return append([]ssa.Value{mc.Bindings[0]}, cc.Args...)
		}
	}
	return cc.Args
}

// minMaxArgs: v is a call of the builtin min / max (kind) or of a module function of that
// shape; returns its arguments.
func minMaxArgs(v ssa.Value, kind string) ([]ssa.Value, bool) {
	call, ok := stripConv(v).(*ssa.Call)
	if !ok {
		return nil, false
	}
	if b, isB := call.Call.Value.(*ssa.Builtin); isB && b.Name() == kind {
		return call.Call.Args, true
	}
	if callee := call.Call.StaticCallee(); callee != nil && isIntLike(call.Type()) && minMaxKind(callee) == kind {
		return call.Call.Args, true
	}
	return nil, false
}

// InstrsDeepList: the instructions of fn and of the module helpers it calls (depth levels down).
func InstrsDeepList(fn *ssa.Function, depth int) []ssa.Instruction {
	var out []ssa.Instruction
	InstrsDeep(fn, depth, func(d DeepInstr) { out = append(out, d.In) })
	return out
}

// fieldRemadeBefore: on every path from the entry of `at`'s function to `at`, the slice field
// owner.field was given a freshly made slice (directly, or by a module helper that always does so
// and never assigns it anything else), and nothing between that point and `at` assigns it
// something that is not itself derived from the field (append to it is fine, a reslice of an older
// buffer is not).  Then a load of the field at `at` is storage made for this call, not kept from
// an earlier one.
func fieldRemadeBefore(at ssa.Instruction, owner, field string) bool {
	fn := at.Parent()
	isKey := func(addr ssa.Value) bool {
		fa, ok := addr.(*ssa.FieldAddr)
		if !ok {
			return false
		}
		st := derefStruct(fa.X.Type())
		return st != nil && st.Field(fa.Field).Name() == field && typeName(fa.X.Type()) == owner
	}
	isFresh := func(v ssa.Value) bool {
		switch x := v.(type) {
		case *ssa.MakeSlice:
			return true
		case *ssa.Slice:
			_, isNew := x.X.(*ssa.Alloc) // make with constant size: new array, sliced
			return isNew
		case *ssa.Const:
			return x.Value == nil
		}
		return false
	}
	// derived: append(load key, ...) chains
	var derived func(v ssa.Value, d int) bool
	derived = func(v ssa.Value, d int) bool {
		if d > 4 {
			return false
		}
		switch x := v.(type) {
		case *ssa.Call:
			if b, ok := x.Call.Value.(*ssa.Builtin); ok && b.Name() == "append" {
				return derived(x.Call.Args[0], d+1)
			}
		case *ssa.UnOp:
			return x.Op == token.MUL && isKey(x.X)
		}
		return false
	}
	// what a helper does to the field: 1 = always re-makes it, 0 = does not touch it or only
	// extends it, -1 = assigns something else
	effect := func(g *ssa.Function) int {
		if g == nil || g.Blocks == nil || !isModuleFn(g) {
			return 0
		}
		res, remade := 0, false
		Instrs(g, func(in ssa.Instruction) {
			st, ok := in.(*ssa.Store)
			if !ok || !isKey(st.Addr) {
				return
			}
			switch {
			case isFresh(st.Val):
				if alwaysExecutes(st) {
					remade = true
				}
			case derived(st.Val, 0):
			default:
				res = -1
			}
		})
		if res == 0 && remade {
			return 1
		}
		return res
	}
	var remakes []ssa.Instruction
	clean := true
	Instrs(fn, func(in ssa.Instruction) {
		switch x := in.(type) {
		case *ssa.Store:
			if !isKey(x.Addr) {
				return
			}
			switch {
			case isFresh(x.Val):
				remakes = append(remakes, in)
			case derived(x.Val, 0):
			default:
				clean = false
			}
		case *ssa.Call:
			switch effect(x.Call.StaticCallee()) {
			case 1:
				remakes = append(remakes, in)
			case -1:
				clean = false
			}
		}
	})
	if !clean {
		return false
	}
	for _, d := range remakes {
		if InstrDominates(d, at) {
			return true
		}
	}
	return false
}

// fieldHandedOver: ld reads a slice field; on every way from the load to a return of its function
// the same field of the same object is assigned a slice made afresh (or nil), and the loaded value
// is not put back: the memory loaded now belongs to whoever receives the value
// (`all := q.items; q.items = make(...); return all`).
func fieldHandedOver(ld *ssa.UnOp) bool {
	fa, ok := ld.X.(*ssa.FieldAddr)
	if !ok || ld.Op != token.MUL {
		return false
	}
	fn := ld.Parent()
	sameField := func(addr ssa.Value) bool {
		fb, ok := addr.(*ssa.FieldAddr)
		return ok && fb.Field == fa.Field && (fb.X == fa.X || resolveCell(fb.X) == resolveCell(fa.X))
	}
	isRemake := func(in ssa.Instruction) bool {
		st, ok := in.(*ssa.Store)
		if !ok || !sameField(st.Addr) {
			return false
		}
		switch x := st.Val.(type) {
		case *ssa.MakeSlice:
			return true
		case *ssa.Slice:
			_, isNew := x.X.(*ssa.Alloc) // make with constant size: new array, sliced
			return isNew
		case *ssa.Const:
			return x.Value == nil
		}
		return false
	}
	any := false
	bad := false
	Instrs(fn, func(in ssa.Instruction) {
		st, ok := in.(*ssa.Store)
		if !ok || !sameField(st.Addr) {
			return
		}
		if isRemake(in) {
			if InstrDominates(ld, in) {
				any = true
			}
			return
		}
		if InstrReaches(ld, in) {
			bad = true // something else (possibly the loaded memory again) is assigned after the load
		}
	})
	if !any || bad {
		return false
	}
	return len(ReachAvoiding(fn, ld, isRemake, isReturn)) == 0
}
