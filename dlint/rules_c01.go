package main

import (
	"fmt"
	"go/token"
	"go/types"
	"sort"
	"strings"

	"golang.org/x/tools/go/ssa"
)

func init() {
	register(&RuleSet{
		Property: "C01",
		Explanation: "Decides, as polynomial congruences over SSA values (no path enumeration, no solver), the structural part of 'every record is an exact, correctly labelled excerpt': " +
			"(R1) at every site that builds a DataRecord the sample slice is freshly allocated (never a view of the stream buffer), is filled by one copy from the processor's own stream whose window length equals the allocated length, the declared pre-trigger count equals trigger index minus window start, the stamped frame is the stream's first frame plus that same trigger index (optionally times frames-per-sample) and the stamped time is the stream's TimeOf that same index; channel index, signedness and volts-per-arb come from the same processor/stream; " +
			"(R2) the stream bookkeeping functions keep (first frame, first time) congruent with the retained samples: append re-bases on the new segment minus the samples already held, trim advances both by exactly the samples dropped and keeps the tail; TimeOf(n) = firstTime + n*framesPerSample*framePeriod; " +
			"(R3) the per-block pipeline order decimate < append < trigger < analyze < publish with the same record slice flowing through, primaries of all channels complete before distribution, secondaries complete before any stream is trimmed; " +
			"(R4) only DataStream's own methods write a stream's buffer and labels. " +
			"(R5) an error that reaches a panic in the block path is never one made under a test of the length of a record's own samples (with variable-length records that length depends on the stream content). " +
			"Does not decide: that enough history is retained (C02), bit-identity end to end for every block partition, crash freedom in general (index safety, numeric ranges; R5 covers explicit panics on returned errors only), the trigger search arithmetic.",
		RuleDocs: []string{
			"C01.R1 record construction congruences (E3) at every DataRecord composite literal",
			"C01.R2 stream bookkeeping congruences (E3) in every function that stores the stream buffer; TimeOf formula",
			"C01.R3 call order by dominance and SSA value flow in the segment pipeline; go/Wait ordering in the block fan-out",
			"C01.R4 who-may-write fields reached through a DataStream",
			"C01.R5 origins of the error values that reach a panic in the block path (backward over phis, result cells, module callees' returns): none is made under a test of the length of a record's sample slice",
		},
		Run: runC01,
	})
}

// suffix helpers on access-path symbols
func symWithSuffix(p Poly, suffix string) (string, bool) {
	for _, s := range p.Symbols() {
		base := s
		if i := strings.Index(base, "{"); i >= 0 {
			base = base[:i]
		}
		if strings.HasSuffix(base, suffix) {
			return s, true
		}
	}
	return "", false
}

func basePath(sym string) string {
	if i := strings.Index(sym, "{"); i >= 0 {
		return sym[:i]
	}
	return sym
}

func runC01(p *Prog, r *Report) {
	r.MinInstances["C01.R1"] = 8
	r.MinInstances["C01.R2"] = 9
	r.MinInstances["C01.R3"] = 8
	r.MinInstances["C01.R4"] = 1
	c01R1(p, r)
	c01R2(p, r)
	c01R3(p, r)
	c01R4(p, r)
	r.MinInstances["C01.R5"] = 1
	c01R5(p, r)
}

// ---- R1 -----------------------------------------------------------------------------------

func c01R1(p *Prog, r *Report) {
	rec := p.NamedType("", "DataRecord")
	if rec == nil {
		r.Unk("C01.R1", "DataRecord", "-", "type not found")
		return
	}
	sites := 0
	for _, fn := range p.LibFuncs() {
		// composite literals / new(DataRecord) with field stores
		var allocs []*ssa.Alloc
		Instrs(fn, func(in ssa.Instruction) {
			if a, ok := in.(*ssa.Alloc); ok {
				if pt, ok := a.Type().(*types.Pointer); ok && types.Identical(pt.Elem(), rec) {
					allocs = append(allocs, a)
				}
			}
		})
		for _, a := range allocs {
			fields := map[string]*ssa.Store{}
			for _, ref := range *a.Referrers() {
				if fa, ok := ref.(*ssa.FieldAddr); ok {
					for _, r2 := range *fa.Referrers() {
						if st, ok := r2.(*ssa.Store); ok && st.Addr == ssa.Value(fa) {
							fields[rec.Underlying().(*types.Struct).Field(fa.Field).Name()] = st
						}
					}
				}
			}
			if fields["data"] == nil {
				continue // not a record being built with samples (e.g. a zero value)
			}
			sites++
			r.Fn(FuncName(fn))
			c01RecordSite(p, r, fn, fields)
		}
	}
	if sites == 0 {
		r.Bad("C01.R1", "record construction sites", "-", "no function builds a DataRecord with a data slice")
	}
}

// callTranslator: for a helper called at `call`, rewrites what the helper's polynomials and access
// paths say in terms of the caller: integer parameters are replaced by the caller's argument
// polynomials, pointer/struct parameters that are the caller's own parameters are renamed.
func callTranslator(fn *ssa.Function, call ssa.Instruction, cc *PolyCtx, ch *PolyCtx) (trPoly func(Poly) Poly, trPath func(string) string) {
	args := CallOf(call).Args
	rename := map[string]string{}
	intArg := map[string]Poly{}
	if len(args) == len(fn.Params) {
		for k, prm := range fn.Params {
			name := ch.rootName(prm)
			if isIntLike(prm.Type()) {
				intArg[name] = cc.Of(args[k])
				continue
			}
			if cp, ok := args[k].(*ssa.Parameter); ok {
				rename[name] = cc.rootName(cp)
			}
		}
	}
	trPath = func(path string) string {
		for from, to := range rename {
			if path == from {
				return to
			}
			if strings.HasPrefix(path, from+".") {
				return to + path[len(from):]
			}
		}
		return path
	}
	trSym := func(sym string) string {
		// len(<path>) and plain paths
		if strings.HasPrefix(sym, "len(") && strings.HasSuffix(sym, ")") {
			return "len(" + trPath(sym[4:len(sym)-1]) + ")"
		}
		return trPath(sym)
	}
	trPoly = func(q Poly) Poly {
		out := Poly{}
		for mono, co := range q {
			term := polyConst(co)
			if mono != "" {
				for _, sym := range strings.Split(mono, "*") {
					if a, ok := intArg[sym]; ok {
						term = term.Mul(a)
					} else {
						term = term.Mul(polySym(trSym(sym)))
					}
				}
			}
			out = out.Add(term)
		}
		return out
	}
	return trPoly, trPath
}

func c01RecordSite(p *Prog, r *Report, fn *ssa.Function, f map[string]*ssa.Store) {
	c := NewPolyCtx(fn)
	site := FuncName(fn)
	pos := p.InstrPos(f["data"])
	// (a) fresh buffer
	data := f["data"].Val
	// the samples may be handed to a labelling helper: then the buffer and its filling are in the
	// (single) caller, and what the helper says about the trigger sample is read in the caller's terms
	hostFn, hc := fn, c
	trPoly := func(q Poly) Poly { return q }
	trPath := func(s string) string { return s }
	if prm, isPrm := data.(*ssa.Parameter); isPrm && prm.Parent() == fn {
		sites, complete := p.staticCallSites(fn)
		if len(sites) != 1 || !complete {
			r.Unk("C01.R1", site+" data is a private copy", pos, fmt.Sprintf("the sample slice is a parameter of a helper with %d call sites: not followed", len(sites)))
			return
		}
		hostFn = sites[0].Parent()
		hc = NewPolyCtx(hostFn)
		for k, pp := range fn.Params {
			if pp == prm {
				data = CallOf(sites[0]).Args[k]
			}
		}
		trPoly, trPath = callTranslator(fn, sites[0], hc, c)
		pos = p.InstrPos(sites[0])
	}
	mk, fresh := data.(*ssa.MakeSlice)
	if !fresh {
		what := "not a fresh allocation"
		if sl, ok := data.(*ssa.Slice); ok {
			if ld, ok := sl.X.(*ssa.UnOp); ok {
				if path, ok := c.accessPath(ld.X); ok {
					what = "a view of " + path
				}
			}
		}
		r.Bad("C01.R1", site+" data is a private copy", pos, "the record's sample slice is "+what+": the stream buffer is trimmed and overwritten in place by later blocks, so records still queued for publication or writing change under their readers")
		return
	}
	r.OK("C01.R1", site+" data is a private copy", pos, "make([]RawType, L)")
	L := hc.Of(mk.Len)
	// (b) the copy
	var src *ssa.Slice
	ncopies := 0
	Instrs(hostFn, func(in ssa.Instruction) {
		call, ok := in.(*ssa.Call)
		if !ok {
			return
		}
		isData := call.Call.Args[0] == data
		if ld, isLd := call.Call.Args[0].(*ssa.UnOp); isLd && ld.Op == token.MUL {
			// copy(record.data, ...): the field just set, read back
			if fa, isFA := ld.X.(*ssa.FieldAddr); isFA {
				if dfa, ok2 := f["data"].Addr.(*ssa.FieldAddr); ok2 && fa.X == dfa.X && fa.Field == dfa.Field && InstrDominates(f["data"], ld) {
					isData = true
				}
			}
		}
		if b, ok := call.Call.Value.(*ssa.Builtin); ok && b.Name() == "copy" && isData {
			ncopies++
			src, _ = call.Call.Args[1].(*ssa.Slice)
		}
	})
	if ncopies != 1 || src == nil {
		r.Unk("C01.R1", site+" copy window", pos, fmt.Sprintf("expected exactly one copy(data, stream[lo:hi]) filling the record, found %d", ncopies))
		return
	}
	base, lo, hi := hc.SliceBounds(src)
	basePathStr := ""
	if ld, ok := base.(*ssa.UnOp); ok && ld.Op == token.MUL {
		basePathStr, _ = hc.accessPath(ld.X)
	}
	recv := ""
	if len(hostFn.Params) > 0 {
		recv = hostFn.Params[0].Name()
	}
	r.Check(strings.HasPrefix(basePathStr, recv+".") && strings.HasSuffix(basePathStr, ".rawData"), "C01.R1", site+" copies from its own stream", p.InstrPos(src),
		"source is "+basePathStr, "the record is not copied from the receiver's own stream buffer (source: "+basePathStr+")")
	streamPrefix := strings.TrimSuffix(basePathStr, ".rawData")
	r.Check(hi.Sub(lo).Equal(L), "C01.R1", site+" window length = record length", p.InstrPos(src),
		fmt.Sprintf("hi-lo = %s = len", L), fmt.Sprintf("the copied window [%s : %s] has length %s but the record was allocated with length %s: the record is cut short or padded with zeros", lo, hi, hi.Sub(lo), L))
	// (c) presamples / trigger index
	if f["presamples"] == nil || f["trigFrame"] == nil || f["trigTime"] == nil {
		r.Bad("C01.R1", site+" stamps presamples, frame and time", pos, "the record is built without a pre-trigger count, trigger frame or trigger time")
		return
	}
	pre := trPoly(c.Of(f["presamples"].Val))
	T := pre.Add(lo) // the sample index that sits at position `presamples` of the record
	tf := trPoly(c.Of(f["trigFrame"].Val))
	ffiSym, ok := symWithSuffix(tf, ".firstFrameIndex")
	if !ok {
		// the stream's first frame can cancel out of the stamp when the trigger index was itself
		// computed as <frame> - firstFrameIndex: then it appears (negated) in the trigger index
		ffiSym, ok = symWithSuffix(T, ".firstFrameIndex")
	}
	if !ok || !strings.HasPrefix(basePath(ffiSym), streamPrefix) {
		r.Bad("C01.R1", site+" frame stamp", p.InstrPos(f["trigFrame"]), fmt.Sprintf("the trigger frame %s is not derived from the first frame index of the stream the samples were taken from", tf))
	} else {
		d := tf.Sub(polySym(ffiSym))
		okf := d.Equal(T)
		if !okf {
			fps := polySym(streamPrefix + ".framesPerSample")
			okf = d.Equal(T.Mul(fps))
			if !okf {
				// the load of framesPerSample may carry a reaching-store decoration
				if s, ok2 := symWithSuffix(d, ".framesPerSample"); ok2 {
					okf = d.Equal(T.Mul(polySym(s)))
				}
			}
		}
		r.Check(okf, "C01.R1", site+" frame stamp", p.InstrPos(f["trigFrame"]),
			fmt.Sprintf("trigFrame - firstFrameIndex = %s = presamples + window start", d),
			fmt.Sprintf("trigger frame minus the stream's first frame is %s, but the sample at position `presamples` of the record is stream sample %s: the record is mislabelled or shifted", d, T))
	}
	// (d) time stamp
	tv := f["trigTime"].Val
	okt := false
	msg := "the trigger time is not the stream's TimeOf(<trigger index>)"
	if call, ok := tv.(*ssa.Call); ok && call.Call.StaticCallee() != nil && len(call.Call.Args) == 2 {
		callee := call.Call.StaticCallee()
		if c01IsTimeOf(callee) {
			arg := trPoly(c.Of(call.Call.Args[1]))
			rp, _ := c.accessPath(call.Call.Args[0])
			rp = trPath(rp)
			if !arg.Equal(T) {
				msg = fmt.Sprintf("TimeOf is asked for sample %s but the trigger sample is %s", arg, T)
			} else if !strings.HasPrefix(rp, streamPrefix) {
				msg = "TimeOf is evaluated on " + rp + ", not on the stream the samples came from (" + streamPrefix + ")"
			} else {
				okt = true
			}
		}
	} else {
		tp := trPoly(c.Of(tv))
		want := polySym(streamPrefix + ".firstTime").Add(T.Mul(polySym(streamPrefix + ".framesPerSample")).Mul(polySym(streamPrefix + ".framePeriod")))
		okt = tp.Equal(want)
	}
	r.Check(okt, "C01.R1", site+" time stamp", p.InstrPos(f["trigTime"]), "trigTime = stream.TimeOf(presamples + window start)", msg)
	// (e) identity fields
	for fld, suffix := range map[string]string{"channelIndex": recv + ".channelIndex", "signed": streamPrefix + ".signed", "voltsPerArb": streamPrefix + ".voltsPerArb"} {
		st := f[fld]
		if st == nil {
			r.Bad("C01.R1", site+" sets "+fld, pos, "the record is built without "+fld)
			continue
		}
		got := ""
		if ld, ok := st.Val.(*ssa.UnOp); ok && ld.Op == token.MUL {
			got, _ = c.accessPath(ld.X)
			got = trPath(got)
		}
		r.Check(got == suffix, "C01.R1", site+" sets "+fld, p.InstrPos(st), fld+" <- "+got, fld+" is taken from "+got+", want "+suffix+" (the record would carry another channel's identity or interpretation)")
	}
}

// c01IsTimeOf: method returning time.Time from an int sample number whose formula is checked by R2.
func c01IsTimeOf(fn *ssa.Function) bool {
	sig := fn.Signature
	return sig.Recv() != nil && sig.Params().Len() == 1 && sig.Results().Len() == 1 && isTimeTime(sig.Results().At(0).Type()) && isIntLike(sig.Params().At(0).Type())
}

// ---- R2 -----------------------------------------------------------------------------------

func c01R2(p *Prog, r *Report) {
	ds := p.NamedType("", "DataStream")
	if ds == nil {
		r.Unk("C01.R2", "DataStream", "-", "type not found")
		return
	}
	nfn := 0
	for _, fn := range p.LibFuncs() {
		if fn.Signature.Recv() == nil {
			continue
		}
		// TimeOf-shaped methods
		if c01IsTimeOf(fn) {
			c := NewPolyCtx(fn)
			recv := fn.Params[0].Name()
			n := polySym(fn.Params[1].Name())
			want := polySym(recv + ".firstTime").Add(n.Mul(polySym(recv + ".framesPerSample")).Mul(polySym(recv + ".framePeriod")))
			Instrs(fn, func(in ssa.Instruction) {
				if ret, ok := in.(*ssa.Return); ok {
					got := c.Of(ret.Results[0])
					r.Fn(FuncName(fn))
					r.Check(got.Equal(want), "C01.R2", FuncName(fn)+" formula", p.InstrPos(ret), "firstTime + n*framesPerSample*framePeriod", fmt.Sprintf("time of sample n is computed as %s, want %s", got, want))
				}
			})
			continue
		}
		if typeName(fn.Signature.Recv().Type()) != ds.Obj().Name() {
			continue
		}
		c := NewPolyCtx(fn)
		recv := fn.Params[0].Name()
		pfx := ""
		var bufStore *ssa.Store
		Instrs(fn, func(in ssa.Instruction) {
			if st, ok := in.(*ssa.Store); ok {
				if path, ok := c.accessPath(st.Addr); ok && strings.HasPrefix(path, recv+".") && strings.HasSuffix(path, ".rawData") {
					bufStore = st
					pfx = strings.TrimSuffix(path, ".rawData")
				}
			}
		})
		if bufStore == nil {
			continue
		}
		nfn++
		r.Fn(FuncName(fn))
		name := FuncName(fn)
		findStore := func(field string) *ssa.Store {
			var out *ssa.Store
			Instrs(fn, func(in ssa.Instruction) {
				if st, ok := in.(*ssa.Store); ok {
					if path, ok := c.accessPath(st.Addr); ok && path == pfx+"."+field {
						out = st
					}
				}
			})
			return out
		}
		ffiSt, ftSt := findStore("firstFrameIndex"), findStore("firstTime")
		oldLen := polySym("len(" + pfx + ".rawData)")
		oldFFI := polySym(pfx + ".firstFrameIndex")
		oldFT := polySym(pfx + ".firstTime")
		oldFPS := polySym(pfx + ".framesPerSample")
		oldPer := polySym(pfx + ".framePeriod")
		// every path from the buffer edit (or to it) must also update both labels
		unconditional := func(st *ssa.Store) bool {
			if st == nil {
				return false
			}
			// label store and buffer store are on the same paths: each dominates or is dominated, and
			// no return is reachable from the first without the second
			a, b := ssa.Instruction(st), ssa.Instruction(bufStore)
			if !InstrDominates(a, b) && !InstrDominates(b, a) {
				return false
			}
			first, second := a, b
			if InstrDominates(b, a) {
				first, second = b, a
			}
			esc := ReachAvoiding(fn, first, func(x ssa.Instruction) bool { return x == second }, isReturn)
			return len(esc) == 0
		}
		switch v := bufStore.Val.(type) {
		case *ssa.Call: // append form
			b, isB := v.Call.Value.(*ssa.Builtin)
			if !isB || b.Name() != "append" || len(v.Call.Args) != 2 {
				r.Unk("C01.R2", name+" buffer edit", p.InstrPos(bufStore), "unrecognised buffer edit")
				continue
			}
			// appended segment prefix
			segPfx := ""
			if ld, ok := v.Call.Args[1].(*ssa.UnOp); ok && ld.Op == token.MUL {
				if path, ok := c.accessPath(ld.X); ok && strings.HasSuffix(path, ".rawData") {
					segPfx = strings.TrimSuffix(path, ".rawData")
				}
			}
			keeps := false
			if ld, ok := v.Call.Args[0].(*ssa.UnOp); ok && ld.Op == token.MUL {
				if path, ok := c.accessPath(ld.X); ok && path == pfx+".rawData" {
					keeps = true
				}
			}
			r.Check(keeps && segPfx != "", "C01.R2", name+" appends the whole segment at the tail", p.InstrPos(bufStore), "rawData = append(rawData, segment.rawData...)", "the stream buffer is not extended by the whole new segment at its tail")
			if segPfx == "" {
				continue
			}
			segFPS := polySym(segPfx + ".framesPerSample")
			if ffiSt == nil || !unconditional(ffiSt) {
				r.Bad("C01.R2", name+" re-bases firstFrameIndex", p.InstrPos(bufStore), "appending a segment does not (on every path) re-base the stream's first frame index on the new segment")
			} else {
				got := polySym(segPfx + ".firstFrameIndex").Sub(c.Of(ffiSt.Val))
				ok := got.Equal(oldLen.Mul(segFPS)) || got.Equal(oldLen.Mul(oldFPS))
				r.Check(ok, "C01.R2", name+" re-bases firstFrameIndex", p.InstrPos(ffiSt), "segment.firstFrameIndex - firstFrameIndex' = len(rawData before) * framesPerSample",
					fmt.Sprintf("after append, segment.firstFrameIndex - stream.firstFrameIndex = %s, want %s: frame labels of retained samples drift", got, oldLen.Mul(segFPS)))
			}
			if ftSt == nil || !unconditional(ftSt) {
				r.Bad("C01.R2", name+" re-bases firstTime", p.InstrPos(bufStore), "appending a segment does not (on every path) re-base the stream's first-sample time on the new segment's time stamp: trigger times ignore the source's block time stamps")
			} else {
				got := polySym(segPfx + ".firstTime").Sub(c.Of(ftSt.Val))
				ok := false
				for _, f := range []Poly{segFPS, oldFPS} {
					for _, per := range []Poly{polySym(segPfx + ".framePeriod"), oldPer} {
						if got.Equal(oldLen.Mul(f).Mul(per)) {
							ok = true
						}
					}
				}
				r.Check(ok, "C01.R2", name+" re-bases firstTime", p.InstrPos(ftSt), "segment.firstTime - firstTime' = len(rawData before) * framesPerSample * framePeriod",
					fmt.Sprintf("after append, segment.firstTime - stream.firstTime = %s, want len(before)*framesPerSample*framePeriod", got))
			}
			// the per-sample scale factors follow the segment
			for _, fld := range []string{"framesPerSample", "framePeriod", "signed"} {
				st := findStore(fld)
				good := false
				if st != nil {
					if ld, ok := st.Val.(*ssa.UnOp); ok && ld.Op == token.MUL {
						if path, _ := c.accessPath(ld.X); path == segPfx+"."+fld {
							good = true
						}
					}
				}
				r.Check(good, "C01.R2", name+" adopts segment."+fld, p.InstrPos(bufStore), "copied from the segment", "the stream does not adopt the new segment's "+fld)
			}
		case *ssa.Slice: // trim form
			_, nlo, nhi := c.SliceBounds(v)
			var cp *ssa.Call
			Instrs(fn, func(in ssa.Instruction) {
				if call, ok := in.(*ssa.Call); ok {
					if b, ok := call.Call.Value.(*ssa.Builtin); ok && b.Name() == "copy" {
						cp = call
					}
				}
			})
			if cp == nil {
				r.Bad("C01.R2", name+" keeps the tail", p.InstrPos(bufStore), "the stream is re-sliced without moving the retained samples to the front")
				continue
			}
			dst, _ := cp.Call.Args[0].(*ssa.Slice)
			src, _ := cp.Call.Args[1].(*ssa.Slice)
			if dst == nil || src == nil {
				r.Unk("C01.R2", name+" keeps the tail", p.InstrPos(cp), "copy operands are not slice expressions")
				continue
			}
			_, dlo, dhi := c.SliceBounds(dst)
			_, slo, shi := c.SliceBounds(src)
			D := slo.Sub(dlo)
			okTail := shi.Equal(oldLen) && dlo.IsZero() && nlo.IsZero() && dhi.Sub(dlo).Equal(shi.Sub(slo)) && nhi.Equal(dhi)
			r.Check(okTail, "C01.R2", name+" keeps the tail", p.InstrPos(cp), fmt.Sprintf("moves [%s:%s] to the front and keeps %s samples", slo, shi, nhi),
				fmt.Sprintf("trim copies [%s:%s] to [%s:%s] and keeps [%s:%s]: the retained window is not exactly the newest samples", slo, shi, dlo, dhi, nlo, nhi))
			if ffiSt == nil || !unconditional(ffiSt) {
				r.Bad("C01.R2", name+" advances firstFrameIndex", p.InstrPos(bufStore), "dropping samples from the front does not (on every path) advance the first frame index")
			} else {
				got := c.Of(ffiSt.Val).Sub(oldFFI)
				r.Check(got.Equal(D.Mul(oldFPS)), "C01.R2", name+" advances firstFrameIndex", p.InstrPos(ffiSt), "by (samples dropped) * framesPerSample",
					fmt.Sprintf("first frame index advances by %s while %s samples are dropped (want %s)", got, D, D.Mul(oldFPS)))
			}
			if ftSt == nil || !unconditional(ftSt) {
				r.Bad("C01.R2", name+" advances firstTime", p.InstrPos(bufStore), "dropping samples from the front does not (on every path) advance the first-sample time")
			} else {
				got := c.Of(ftSt.Val).Sub(oldFT)
				r.Check(got.Equal(D.Mul(oldFPS).Mul(oldPer)), "C01.R2", name+" advances firstTime", p.InstrPos(ftSt), "by (samples dropped) * framesPerSample * framePeriod",
					fmt.Sprintf("first-sample time advances by %s while %s samples are dropped (want %s)", got, D, D.Mul(oldFPS).Mul(oldPer)))
			}
		default:
			r.Unk("C01.R2", name+" buffer edit", p.InstrPos(bufStore), "unrecognised buffer edit (neither append nor trim)")
		}
	}
	if nfn < 2 {
		r.Bad("C01.R2", "stream bookkeeping functions", "-", fmt.Sprintf("expected an append and a trim method on DataStream, found %d buffer-editing methods", nfn))
	}
}

// ---- R3 -----------------------------------------------------------------------------------

func calleeNamed(in ssa.Instruction, names ...string) bool {
	cc := CallOf(in)
	if cc == nil || cc.StaticCallee() == nil {
		return false
	}
	n := cc.StaticCallee().Name()
	for _, x := range names {
		if n == x {
			return true
		}
	}
	return false
}

func c01R3(p *Prog, r *Report) {
	type stage struct {
		name  string
		calls []string
	}
	check := func(fn *ssa.Function, stages []stage) {
		if fn == nil {
			r.Unk("C01.R3", "pipeline function", "-", "name-keyed anchor not found")
			return
		}
		r.Fn(FuncName(fn))
		// a stage may be called directly or inside a helper of the module (to depth 3): the call
		// path from fn down to the stage call is kept, and order / argument flow are checked along it
		var paths [][]ssa.Instruction
		for _, s := range stages {
			path := locateCall(p, fn, s.calls, 0)
			if path == nil {
				r.Bad("C01.R3", FuncName(fn)+" stage "+s.name, p.Pos(fn.Pos()), "pipeline stage "+s.name+" is not called")
				return
			}
			paths = append(paths, path)
		}
		for i := 1; i < len(paths); i++ {
			a, b := paths[i-1], paths[i]
			k := 0
			for k < len(a)-1 && k < len(b)-1 && a[k] == b[k] {
				k++
			}
			r.Check(a[k] != b[k] && InstrDominates(a[k], b[k]), "C01.R3", fmt.Sprintf("%s: %s before %s", FuncName(fn), stages[i-1].name, stages[i].name), p.InstrPos(b[k]),
				"order holds on every path", stages[i].name+" can run without (or before) "+stages[i-1].name)
		}
		// the record slice produced by the trigger stage is the one analysed and published
		var trig ssa.Value
		for i, s := range stages {
			if s.name == "trigger" && len(paths[i]) == 1 {
				trig, _ = paths[i][0].(ssa.Value)
			}
		}
		if trig != nil {
			for i, s := range stages {
				if s.name == "analyze" || s.name == "publish" {
					// follow the value down the call path: argument -> parameter
					cur := trig
					same := true
					for _, in := range paths[i] {
						cc := CallOf(in)
						idx := -1
						for j, a := range cc.Args {
							if a == cur {
								idx = j
							}
						}
						if idx < 0 {
							same = false
							break
						}
						if callee := cc.StaticCallee(); callee != nil && idx < len(callee.Params) {
							cur = callee.Params[idx]
						}
					}
					r.Check(same, "C01.R3", fmt.Sprintf("%s: %s receives the triggered records", FuncName(fn), s.name), p.InstrPos(paths[i][0]), "same SSA value (followed through helper parameters)", s.name+" is not given the record slice returned by the trigger stage")
				}
			}
		}
	}
	check(p.Func("", "DataStreamProcessor", "processSegment"), []stage{
		{"decimate", []string{"DecimateData"}}, {"append", []string{"AppendSegment"}}, {"trigger", []string{"TriggerData"}}, {"analyze", []string{"AnalyzeData"}}, {"publish", []string{"PublishData"}}})
	check(p.Func("", "DataStreamProcessor", "processSecondaries"), []stage{
		{"trigger", []string{"TriggerDataSecondary"}}, {"analyze", []string{"AnalyzeData"}}, {"publish", []string{"PublishData"}}})
	// fan-out / fan-in in ProcessSegments
	ps := p.Func("", "AnySource", "ProcessSegments")
	if ps == nil {
		r.Unk("C01.R3", "ProcessSegments", "-", "not found")
		return
	}
	r.Fn(FuncName(ps))
	// the events may sit in ProcessSegments itself or in module helpers it calls (two levels)
	var waits, gosPrim, gosSec, dist, trims []DeepInstr
	InstrsDeep(ps, 2, func(d DeepInstr) {
		in := d.In
		if IsCallTo(in, "(*sync.WaitGroup).Wait") {
			waits = append(waits, d)
		}
		if g, ok := in.(*ssa.Go); ok {
			for _, f := range ResolveOr(p, g) {
				callsP, callsS := false, false
				Instrs(f, func(x ssa.Instruction) {
					callsP = callsP || calleeNamed(x, "processSegment")
					callsS = callsS || calleeNamed(x, "processSecondaries")
				})
				if callsP {
					gosPrim = append(gosPrim, d)
				}
				if callsS {
					gosSec = append(gosSec, d)
				}
			}
		}
		if calleeNamed(in, "Distribute") {
			dist = append(dist, d)
		}
		if calleeNamed(in, "TrimStream", "TrimKeepingN") {
			trims = append(trims, d)
		}
	})
	sort.SliceStable(waits, func(i, j int) bool { return DeepDominates(waits[i], waits[j]) })
	if len(gosPrim) > 0 && len(gosSec) > 0 && len(dist) > 0 && len(trims) > 0 && len(waits) < 2 {
		r.Bad("C01.R3", "ProcessSegments fan-out/fan-in shape", p.Pos(ps.Pos()), fmt.Sprintf("primary and secondary record cutting both run in goroutines but there are only %d WaitGroup.Wait joins: one is needed before Distribute and one before the streams are trimmed", len(waits)))
		return
	}
	// the streams must not be trimmed by the per-channel goroutines themselves: primaries of all
	// channels (and then the secondaries cut from them) are still to be read from the streams
	preAppendTrim := false
	if len(gosPrim)+len(gosSec) > 0 {
		var inGo ssa.Instruction
		isPrim := map[ssa.Instruction]bool{}
		for _, gd := range gosPrim {
			isPrim[gd.In] = true
		}
		for _, gd := range append(append([]DeepInstr{}, gosPrim...), gosSec...) {
			for _, f := range ResolveOr(p, gd.In.(*ssa.Go)) {
				InstrsDeep(f, 2, func(x DeepInstr) {
					if !calleeNamed(x.In, "TrimStream", "TrimKeepingN") {
						return
					}
					// a trim at the head of the per-channel step, before the new segment is appended,
					// removes what only the previous block's records could need (all cut by then):
					// the same as a trim at the end of the previous block
					if isPrim[gd.In] {
						ok := false
						for _, li := range append(append([]ssa.Instruction{}, x.Path...), x.In) {
							Instrs(li.Parent(), func(y ssa.Instruction) {
								if calleeNamed(y, "AppendSegment") && InstrReaches(li, y) && !InstrReaches(y, li) {
									ok = true
								}
							})
						}
						if ok {
							preAppendTrim = true
							return
						}
					}
					inGo = x.In
				})
			}
		}
		if inGo != nil {
			r.Bad("C01.R3", "streams trimmed only after all records are cut", p.InstrPos(inGo), "a stream is trimmed inside a per-channel processing goroutine, before the second join: group-trigger (secondary) records of this block are cut from a stream that has already lost the samples they need")
			return
		}
	}
	if len(waits) < 2 || len(gosPrim) == 0 || len(gosSec) == 0 || len(dist) == 0 || (len(trims) == 0 && !preAppendTrim) {
		r.Unk("C01.R3", "ProcessSegments fan-out/fan-in shape", p.Pos(ps.Pos()), fmt.Sprintf("expected two WaitGroup.Wait, primary and secondary goroutines, Distribute and TrimStream in ProcessSegments or its helpers; found waits=%d prim=%d sec=%d distribute=%d trim=%d", len(waits), len(gosPrim), len(gosSec), len(dist), len(trims)))
		return
	}
	w1, w2 := waits[0], waits[len(waits)-1]
	for _, g := range gosPrim {
		r.Check(!DeepReaches(w1, g) && DeepReaches(g, w1), "C01.R3", "primary processing joins before distribution", p.InstrPos(g.In), "every processSegment goroutine is started before the first Wait", "a primary-processing goroutine can start after the first Wait: group-trigger distribution would read unfinished trigger lists")
	}
	for _, d := range dist {
		r.Check(DeepDominates(w1, d) && DeepDominates(d, w2), "C01.R3", "distribution between the two joins", p.InstrPos(d.In), "first Wait < Distribute < second Wait", "Distribute is not between the two joins")
	}
	for _, g := range gosSec {
		r.Check(DeepDominates(dist[0], g) && DeepReaches(g, w2) && !DeepReaches(w2, g), "C01.R3", "secondary processing joins before trimming", p.InstrPos(g.In), "started after Distribute, joined by the second Wait", "a secondary-processing goroutine is not joined before the streams are trimmed")
	}
	if len(trims) == 0 && preAppendTrim {
		r.OK("C01.R3", "streams trimmed only after all records are cut", p.Pos(ps.Pos()), "each stream is trimmed at the head of its per-channel step, before the next segment is appended (every record of the previous block has been cut by then)")
	}
	for _, t := range trims {
		r.Check(DeepDominates(w2, t), "C01.R3", "streams trimmed only after all records are cut", p.InstrPos(t.In), "TrimStream is dominated by the second Wait", "a stream can be trimmed while a channel may still be cutting (secondary) records from it")
	}
}

// ResolveOr returns the functions a go statement can start.
func ResolveOr(p *Prog, g *ssa.Go) []*ssa.Function {
	if f := g.Call.StaticCallee(); f != nil {
		return []*ssa.Function{f}
	}
	if fns, ok := ResolveFuncs(g.Call.Value); ok {
		return fns
	}
	return p.callees(g)
}

// ---- R4 -----------------------------------------------------------------------------------

func c01R4(p *Prog, r *Report) {
	ds := p.NamedType("", "DataStream")
	if ds == nil {
		return
	}
	var bad []string
	n := 0
	for _, fn := range p.LibFuncs() {
		Instrs(fn, func(in ssa.Instruction) {
			st, ok := in.(*ssa.Store)
			if !ok {
				return
			}
			// does the address chain pass through a DataStream?
			through := false
			v := st.Addr
			for {
				fa, ok := v.(*ssa.FieldAddr)
				if !ok {
					break
				}
				if typeName(fa.X.Type()) == ds.Obj().Name() {
					through = true
				}
				v = fa.X
			}
			if !through {
				return
			}
			if root := addrRoot(st.Addr); root != nil {
				if _, fresh := root.(*ssa.Alloc); fresh {
					return // constructing a new stream / local copy
				}
			}
			n++
			if fn.Signature.Recv() == nil || typeName(fn.Signature.Recv().Type()) != ds.Obj().Name() {
				// a whole-stream field written through its owner (e.g. dsp.stream.voltsPerArb in the constructor phase)
				path := ""
				if fa, ok := st.Addr.(*ssa.FieldAddr); ok {
					path = "." + derefStruct(fa.X.Type()).Field(fa.Field).Name()
				}
				if strings.HasSuffix(path, ".voltsPerArb") {
					return // calibration constant set once in the start phase, not bookkeeping
				}
				bad = append(bad, FuncName(fn)+" at "+p.InstrPos(st)+" ("+path+")")
			}
		})
	}
	r.Check(len(bad) == 0 && n > 0, "C01.R4", "writers of stream buffer and labels", "-", fmt.Sprintf("%d stores, all inside DataStream methods", n), "stream bookkeeping is written outside DataStream's own methods: "+strings.Join(bad, "; "))
}

// locateCall finds a call of one of the named functions in fn, directly or inside a module
// helper fn calls (depth <= 3, no goroutines); returns the chain of call instructions from fn
// down to the direct call.
func locateCall(p *Prog, fn *ssa.Function, names []string, depth int) []ssa.Instruction {
	var direct ssa.Instruction
	Instrs(fn, func(in ssa.Instruction) {
		if direct == nil && calleeNamed(in, names...) {
			if _, isGo := in.(*ssa.Go); !isGo {
				direct = in
			}
		}
	})
	if direct != nil {
		return []ssa.Instruction{direct}
	}
	if depth >= 3 {
		return nil
	}
	var out []ssa.Instruction
	Instrs(fn, func(in ssa.Instruction) {
		if out != nil {
			return
		}
		if _, isGo := in.(*ssa.Go); isGo {
			return
		}
		cc := CallOf(in)
		if cc == nil || cc.StaticCallee() == nil || cc.StaticCallee().Blocks == nil {
			return
		}
		callee := cc.StaticCallee()
		pk := fnPkg(callee)
		if pk == nil || !strings.HasPrefix(pk.Path(), modPath) || callee == fn {
			return
		}
		if sub := locateCall(p, callee, names, depth+1); sub != nil {
			out = append([]ssa.Instruction{in}, sub...)
		}
	})
	return out
}
