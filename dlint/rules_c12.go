package main

import (
	"fmt"
	"go/token"
	"sort"
	"strings"

	"golang.org/x/tools/go/ssa"
)

func init() {
	register(&RuleSet{
		Property: "C12",
		Explanation: "Decides the structural clauses of phase unwrapping (the numeric identities over all 16-bit sequences are not decided): " +
			"(R1) call-split independence: in the sample loop all state carried from sample to sample lives in receiver fields (no loop-carried local), and the position of a sample inside the call (the loop index) is used only to address the sample, never in arithmetic or conditions; " +
			"(R2) modulo-quantum shape: each output sample is the masked, shifted input plus the offset field, and every store to the offset is the previous offset plus or minus one quantum or the home offset, which the constructor sets to a multiple of the quantum; both the enabled and the disabled path apply the same mask-then-shift to the input; " +
			"(R3) step rule shape: the step is the difference between the current value and the last-value field, which is refreshed from the current value on every sample; the offset is lowered under `step > upper limit` and raised under `step < lower limit`; the limits are one bias value plus/minus half a quantum, and that bias depends only on the configured bias level and the bit counts (not on pulse sign or other options); " +
			"(R4) reset rule shape: the away-counter is zeroed whenever the offset equals the home offset, incremented by one otherwise, and the offset returns home (counter zeroed) when the counter exceeds the configured interval; the disabled path only zeroes the counter. " +
			"Does not decide: the modulo-quantum identity, the half-quantum step bound and the reset timing as numeric facts over all input sequences.",
		RuleDocs: []string{
			"C12.R1 E5 carried-state rule: loop-header phis, uses of the range index",
			"C12.R2 E3 congruence of the stored output and of every offset store; constructor home offset; sibling arms agree on mask/shift",
			"C12.R3 control pairing of offset updates with the limit comparisons; dependence slice of the limits",
			"C12.R4 control pairing of counter stores with the home test and the interval test",
		},
		Assumptions: []string{"PhaseUnwrapper field names (lastVal, offset, twoPi, resetCount, resetAfter, resetOffset, upperStepLim, lowerStepLim, signMask, lowBitsToDrop) are name-keyed anchors"},
		Run:         runC12,
	})
}

const puT = "PhaseUnwrapper"

func puField(v ssa.Value) string {
	o, f, _, ok := FieldOf(v)
	if ok && o == puT {
		return f
	}
	return ""
}

// condOnFields: the If condition compares loads of the two named fields (or field vs value); returns op and whether operands are swapped.
func cmpFields(cond ssa.Value) (a, b string, op token.Token, ok bool) {
	bo, isB := cond.(*ssa.BinOp)
	if !isB {
		return
	}
	return puField(stripConv(bo.X)), puField(stripConv(bo.Y)), bo.Op, true
}

func runC12(p *Prog, r *Report) {
	r.MinInstances["C12.R1"] = 3
	r.MinInstances["C12.R2"] = 6
	r.MinInstances["C12.R3"] = 5
	r.MinInstances["C12.R4"] = 4
	fn := p.Func("", puT, "UnwrapInPlace")
	ctor := p.Func("", "", "NewPhaseUnwrapper")
	if fn == nil || ctor == nil {
		r.Unk("C12.anchor", "UnwrapInPlace/NewPhaseUnwrapper", "-", "anchor not found")
		return
	}
	r.Fn(FuncName(fn))
	r.Fn(FuncName(ctor))
	loops := RangeLoops(fn)
	// the enabled loop: the one that stores to the offset field
	var main, disabled *RangeLoop
	for _, l := range loops {
		hasOffset, hasShift := false, false
		Instrs(fn, func(in ssa.Instruction) {
			if !l.Contains(in.Block()) {
				return
			}
			if st, ok := in.(*ssa.Store); ok && puField(st.Addr) == "offset" {
				hasOffset = true
			}
			if bo, ok := in.(*ssa.BinOp); ok && bo.Op == token.SHR {
				hasShift = true
			}
		})
		if hasOffset {
			main = l
		} else if hasShift {
			disabled = l
		}
	}
	if main == nil {
		r.Unk("C12.anchor", "unwrapping loop", p.Pos(fn.Pos()), "no range loop storing the offset field found")
		return
	}
	_ = NewPolyCtx

	// ---- R1
	var extraPhis []string
	for _, in := range main.Header.Instrs {
		if ph, ok := in.(*ssa.Phi); ok && ph != main.Phi {
			extraPhis = append(extraPhis, ph.Comment)
		}
	}
	// phis inside the body that are loop-carried would sit in the header; body-internal merges are fine
	r.Check(len(extraPhis) == 0, "C12.R1", "no loop-carried local in the unwrapping loop", p.Pos(fn.Pos()), "only the range index is carried in a local", "loop-carried locals "+strings.Join(extraPhis, ",")+" are seeded per call: the result depends on how the stream is split into calls")
	badUse := ""
	for _, v := range []ssa.Value{main.Idx, main.Phi} {
		for _, ref := range *v.Referrers() {
			switch x := ref.(type) {
			case *ssa.IndexAddr:
				if x.Index == v {
					continue
				}
			case *ssa.BinOp:
				if x == main.Idx || (x.Op == token.LSS && x.X == main.Idx && x.Block() == main.Header) {
					continue
				}
			case *ssa.Phi:
				if x == main.Phi {
					continue
				}
			case *ssa.DebugRef:
				continue
			}
			if in, ok := ref.(ssa.Instruction); ok {
				badUse = p.InstrPos(in)
			}
		}
	}
	r.Check(badUse == "", "C12.R1", "the sample's position in the call is used only to address it", p.Pos(fn.Pos()), "index used only in data[i]", "the loop index takes part in a computation or condition at "+badUse+": the result depends on where a call boundary falls")
	// every piece of carried state is a field that is stored inside the loop: lastVal every iteration
	var lastStore *ssa.Store
	Instrs(fn, func(in ssa.Instruction) {
		if st, ok := in.(*ssa.Store); ok && main.Contains(st.Block()) && puField(st.Addr) == "lastVal" {
			lastStore = st
		}
	})
	r.Check(lastStore != nil && main.EveryIteration(lastStore.Block()), "C12.R1", "the last-value field is refreshed on every sample", p.Pos(fn.Pos()), "unconditional store in the loop body", "the previous-sample state is not updated on every sample")

	// ---- R2: output = v + offset; v = uint16(raw & signMask) >> drop
	var outStore *ssa.Store
	Instrs(fn, func(in ssa.Instruction) {
		if st, ok := in.(*ssa.Store); ok && main.Contains(st.Block()) {
			if ia, ok := st.Addr.(*ssa.IndexAddr); ok && ia.Index == main.Idx {
				outStore = st
			}
		}
	})
	var vVal ssa.Value
	if lastStore != nil {
		vVal = lastStore.Val
	}
	okOut := false
	outDesc := "?"
	if outStore != nil && vVal != nil {
		// the stored value: convert(v + load offset)
		if bo, ok := stripConv(outStore.Val).(*ssa.BinOp); ok && bo.Op == token.ADD {
			x, y := stripConv(bo.X), stripConv(bo.Y)
			if (x == vVal && puField(y) == "offset") || (y == vVal && puField(x) == "offset") {
				okOut = true
			}
			outDesc = c05Describe(outStore.Val, nil, 0)
		}
	}
	r.Check(okOut && main.EveryIteration(outStore.Block()), "C12.R2", "each output sample is the reduced input plus the offset field", p.Pos(fn.Pos()), outDesc, "the stored sample is `"+outDesc+"`, not (masked, shifted input) + offset: the output is no longer the input modulo a quantum")
	// v = (raw & signMask) >> drop in both arms
	shape := func(v ssa.Value) string {
		v = stripConv(v)
		bo, ok := v.(*ssa.BinOp)
		if !ok || bo.Op != token.SHR {
			return "no shift"
		}
		inner, ok := stripConv(bo.X).(*ssa.BinOp)
		if !ok || inner.Op != token.AND {
			return "shift of a non-masked value"
		}
		m := puField(stripConv(inner.Y))
		if m == "" {
			m = puField(stripConv(inner.X))
		}
		sh := c05Describe(bo.Y, nil, 0)
		return "(raw & " + m + ") >> " + sh
	}
	mainShape := "?"
	if vVal != nil {
		mainShape = shape(vVal)
	}
	r.Check(strings.HasPrefix(mainShape, "(raw & signMask) >> ") && strings.Contains(mainShape, "lowBitsToDrop"), "C12.R2", "the input is masked with the sign mask and shifted by the dropped bits", p.Pos(fn.Pos()), mainShape, "the enabled path reduces the input as `"+mainShape+"`")
	if disabled != nil {
		var dStore *ssa.Store
		Instrs(fn, func(in ssa.Instruction) {
			if st, ok := in.(*ssa.Store); ok && disabled.Contains(st.Block()) {
				if ia, ok := st.Addr.(*ssa.IndexAddr); ok && ia.Index == disabled.Idx {
					dStore = st
				}
			}
		})
		ds := "?"
		if dStore != nil {
			ds = shape(dStore.Val)
		}
		r.Check(ds == mainShape, "C12.R2", "enabled and disabled paths reduce the input identically", p.Pos(fn.Pos()), ds, "the disabled path uses `"+ds+"`, the enabled path `"+mainShape+"`")
	} else {
		r.Bad("C12.R2", "enabled and disabled paths reduce the input identically", p.Pos(fn.Pos()), "no disabled-path loop found")
	}
	// offset stores: prev ± twoPi or resetOffset
	type offStore struct {
		st   *ssa.Store
		kind string
	}
	var offs []offStore
	Instrs(fn, func(in ssa.Instruction) {
		st, ok := in.(*ssa.Store)
		if !ok || puField(st.Addr) != "offset" {
			return
		}
		kind := "other: " + c05Describe(st.Val, nil, 0)
		if puField(stripConv(st.Val)) == "resetOffset" {
			kind = "home"
		} else if bo, ok := stripConv(st.Val).(*ssa.BinOp); ok && (bo.Op == token.ADD || bo.Op == token.SUB) {
			if puField(stripConv(bo.X)) == "offset" && puField(stripConv(bo.Y)) == "twoPi" {
				kind = map[token.Token]string{token.ADD: "plus", token.SUB: "minus"}[bo.Op]
			}
		}
		offs = append(offs, offStore{st, kind})
	})
	kinds := map[string]int{}
	for _, o := range offs {
		kinds[o.kind]++
		r.Check(!strings.HasPrefix(o.kind, "other"), "C12.R2", fmt.Sprintf("offset store #%d changes the offset by a whole quantum or to the home offset", len(kinds)), p.InstrPos(o.st), o.kind, "the offset is set to `"+o.kind+"`: output and input no longer differ by an integer number of quanta")
	}
	// constructor: resetOffset is ±k*twoPi and offset starts at resetOffset
	okHome := true
	nHome := 0
	for _, st := range StoresTo(ctor, puT, "resetOffset") {
		nHome++
		if !multipleOfField(st.Val, "twoPi") {
			okHome = false
		}
	}
	r.Check(okHome && nHome >= 1, "C12.R2", "the home offset is a whole number of quanta", p.Pos(ctor.Pos()), fmt.Sprintf("%d stores, all multiples of twoPi", nHome), "the constructor sets the home offset to something other than a multiple of the quantum")
	okInit := false
	for _, st := range StoresTo(ctor, puT, "offset") {
		if puField(stripConv(st.Val)) == "resetOffset" {
			okInit = true
		}
	}
	r.Check(okInit, "C12.R2", "the offset starts at the home offset", p.Pos(ctor.Pos()), "offset = resetOffset", "the constructor does not start the offset at the home offset")

	// ---- R3: step and limit pairing
	var step ssa.Value
	okStep := false
	Instrs(fn, func(in ssa.Instruction) {
		bo, ok := in.(*ssa.BinOp)
		if !ok || bo.Op != token.SUB || !main.Contains(bo.Block()) {
			return
		}
		if bo.X == vVal && puField(stripConv(bo.Y)) == "lastVal" {
			// the load of lastVal must precede the refresh store
			if ld, ok := stripConv(bo.Y).(*ssa.UnOp); ok && lastStore != nil && InstrDominates(ld, lastStore) {
				okStep = true
			}
			for _, ref := range *bo.Referrers() {
				if cv, ok := ref.(*ssa.Convert); ok {
					step = cv
				}
			}
			if step == nil {
				step = bo
			}
		}
	})
	r.Check(okStep, "C12.R3", "the step is current value minus the previous sample's value", p.Pos(fn.Pos()), "v - lastVal, read before lastVal is refreshed", "the step is not computed as the current reduced value minus the stored previous value")
	pair := func(kind, limit string, op token.Token) {
		okP := false
		why := "no such offset update"
		for _, o := range offs {
			if o.kind != kind {
				continue
			}
			why = "the update is not controlled by the documented comparison"
			for _, c := range controllingIfs(o.st.Block()) {
				bo, ok := c.If.Cond.(*ssa.BinOp)
				if !ok {
					continue
				}
				x, y := stripConv(bo.X), stripConv(bo.Y)
				step := stripConv(step)
				// step OP limit (true branch)  or  limit OP' step
				if x == step && puField(y) == limit && bo.Op == op && c.Branch == 0 {
					okP = true
				}
				rev := map[token.Token]token.Token{token.GTR: token.LSS, token.LSS: token.GTR}[op]
				if y == step && puField(x) == limit && bo.Op == rev && c.Branch == 0 {
					okP = true
				}
			}
		}
		name := map[string]string{"minus": "lowered", "plus": "raised"}[kind]
		r.Check(okP, "C12.R3", fmt.Sprintf("the offset is %s exactly when the step is %s the %s", name, map[token.Token]string{token.GTR: "above", token.LSS: "below"}[op], limit), p.Pos(fn.Pos()), "paired", why)
	}
	pair("minus", "upperStepLim", token.GTR)
	pair("plus", "lowerStepLim", token.LSS)
	// limits in the constructor: bias ± onePi with one bias value that depends only on biasLevel and the bit counts
	var up, lo *ssa.Store
	for _, st := range StoresTo(ctor, puT, "upperStepLim") {
		up = st
	}
	for _, st := range StoresTo(ctor, puT, "lowerStepLim") {
		lo = st
	}
	okLim := false
	limDesc := ""
	var bias ssa.Value
	if up != nil && lo != nil {
		ub, ok1 := stripConv(up.Val).(*ssa.BinOp)
		lb, ok2 := stripConv(lo.Val).(*ssa.BinOp)
		if ok1 && ok2 && ub.Op == token.ADD && lb.Op == token.SUB && ub.X == lb.X && ub.Y == lb.Y {
			bias = ub.X
			// onePi = 1 << (fractionBits - lowBitsToDrop - 1)
			d := c05Describe(ub.Y, nil, 0)
			limDesc = "bias ± " + d
			okLim = strings.Contains(d, "<<")
		}
	}
	r.Check(okLim, "C12.R3", "the step limits are one bias value plus and minus half a quantum", p.Pos(ctor.Pos()), limDesc, "upper and lower limits are not built as the same bias plus/minus the same half quantum")
	if bias != nil {
		deps := paramDeps(ctor, bias)
		var ds []string
		for d := range deps {
			ds = append(ds, d)
		}
		sort.Strings(ds)
		bad := ""
		for _, d := range ds {
			if d != "biasLevel" && d != "lowBitsToDrop" && d != "fractionBits" {
				bad = d
			}
		}
		r.Check(bad == "" && deps["biasLevel"], "C12.R3", "the bias of the step window depends only on the configured bias level and the bit counts", p.Pos(ctor.Pos()), strings.Join(ds, ","),
			"the bias of the step window also depends on `"+bad+"` (data or control): the window is no longer centred on the configured bias")
	}

	// ---- R4: reset rule
	var zeroHome, incr, zeroWrap *ssa.Store
	Instrs(fn, func(in ssa.Instruction) {
		st, ok := in.(*ssa.Store)
		if !ok || puField(st.Addr) != "resetCount" || !main.Contains(st.Block()) {
			return
		}
		if k, isC := constInt(st.Val); isC && k == 0 {
			for _, c := range controllingIfs(st.Block()) {
				a, b, op, ok := cmpFields(c.If.Cond)
				if !ok {
					continue
				}
				if (a == "offset" && b == "resetOffset" || a == "resetOffset" && b == "offset") && ((op == token.EQL && c.Branch == 0) || (op == token.NEQ && c.Branch == 1)) {
					// nearest controlling condition decides
					if zeroHome == nil {
						zeroHome = st
					}
				}
				if a == "resetCount" && b == "resetAfter" && op == token.GTR && c.Branch == 0 {
					zeroWrap = st
					zeroHome = nilIf(zeroHome, st)
				}
			}
			return
		}
		if bo, ok := stripConv(st.Val).(*ssa.BinOp); ok && bo.Op == token.ADD && puField(stripConv(bo.X)) == "resetCount" {
			if k, isC := constInt(bo.Y); isC && k == 1 {
				incr = st
			}
		}
	})
	r.Check(zeroHome != nil, "C12.R4", "the away-counter is zeroed whenever the offset is at home", p.Pos(fn.Pos()), "resetCount = 0 under offset == resetOffset", "no store zeroes the counter on the offset==home path: separate short excursions add up and trigger a spurious reset in the middle of a pulse")
	okIncr := false
	if incr != nil {
		for _, c := range controllingIfs(incr.Block()) {
			a, b, op, ok := cmpFields(c.If.Cond)
			if ok && (a == "offset" && b == "resetOffset" || a == "resetOffset" && b == "offset") && ((op == token.EQL && c.Branch == 1) || (op == token.NEQ && c.Branch == 0)) {
				okIncr = true
			}
		}
	}
	r.Check(okIncr, "C12.R4", "the away-counter is incremented by one exactly when the offset is away from home", p.Pos(fn.Pos()), "resetCount++ under offset != resetOffset", "the counter increment is not controlled by offset != home")
	okWrap := false
	if zeroWrap != nil {
		for _, o := range offs {
			if o.kind == "home" && o.st.Block() == zeroWrap.Block() {
				okWrap = true
			}
		}
	}
	r.Check(okWrap, "C12.R4", "when the counter exceeds the interval the offset returns home and the counter restarts", p.Pos(fn.Pos()), "offset = resetOffset; resetCount = 0 under resetCount > resetAfter", "the automatic reset is not `if resetCount > resetAfter { offset = home; resetCount = 0 }`")
	// the disabled path zeroes the counter and touches no other state
	if disabled != nil {
		touched := map[string]bool{}
		Instrs(fn, func(in ssa.Instruction) {
			st, ok := in.(*ssa.Store)
			if !ok {
				return
			}
			if f := puField(st.Addr); f != "" {
				// stores that are not in the main loop and are reachable on the disabled path
				if !main.Contains(st.Block()) {
					touched[f] = true
				}
			}
		})
		var ts []string
		for f := range touched {
			ts = append(ts, f)
		}
		sort.Strings(ts)
		r.Check(len(ts) == 1 && ts[0] == "resetCount", "C12.R4", "the disabled path only zeroes the away-counter", p.Pos(fn.Pos()), strings.Join(ts, ","), "outside the unwrapping loop the function stores to {"+strings.Join(ts, ",")+"}")
	}
}

func nilIf(a, b *ssa.Store) *ssa.Store {
	if a == b {
		return nil
	}
	return a
}

// paramDeps: the parameters of fn that v depends on, through data and through the
// conditions selecting phi inputs.
func paramDeps(fn *ssa.Function, v ssa.Value) map[string]bool {
	out := map[string]bool{}
	seen := map[ssa.Value]bool{}
	var walk func(v ssa.Value, d int)
	walk = func(v ssa.Value, d int) {
		if v == nil || seen[v] || d > 40 {
			return
		}
		seen[v] = true
		switch x := v.(type) {
		case *ssa.Parameter:
			out[x.Name()] = true
			return
		case *ssa.Phi:
			for _, e := range x.Edges {
				walk(e, d+1)
			}
			// control: the conditions that decide which edge is taken
			for _, pred := range x.Block().Preds {
				for _, c := range controllingIfs(pred) {
					walk(c.If.Cond, d+1)
				}
				if iff, ok := pred.Instrs[len(pred.Instrs)-1].(*ssa.If); ok {
					walk(iff.Cond, d+1)
				}
			}
			return
		case *ssa.UnOp:
			if x.Op == token.MUL {
				// loads of fields of the object under construction: follow the stores in this function
				if fa, ok := x.X.(*ssa.FieldAddr); ok {
					st := derefStruct(fa.X.Type())
					name := st.Field(fa.Field).Name()
					Instrs(fn, func(in ssa.Instruction) {
						if s2, ok := in.(*ssa.Store); ok {
							if fa2, ok := s2.Addr.(*ssa.FieldAddr); ok && derefStruct(fa2.X.Type()) == st && st.Field(fa2.Field).Name() == name {
								walk(s2.Val, d+1)
							}
						}
					})
					return
				}
			}
		}
		if in, ok := v.(ssa.Instruction); ok {
			for _, op := range in.Operands(nil) {
				if *op != nil {
					walk(*op, d+1)
				}
			}
		}
	}
	walk(v, 0)
	return out
}

// multipleOfField: v is (a conversion of) the field, or a constant times it.
func multipleOfField(v ssa.Value, field string) bool {
	v = stripConv(v)
	if puField(v) == field {
		return true
	}
	if bo, ok := v.(*ssa.BinOp); ok && bo.Op == token.MUL {
		if _, isC := constInt(bo.X); isC {
			return multipleOfField(bo.Y, field)
		}
		if _, isC := constInt(bo.Y); isC {
			return multipleOfField(bo.X, field)
		}
	}
	if u, ok := v.(*ssa.UnOp); ok && u.Op == token.SUB {
		return multipleOfField(u.X, field)
	}
	return false
}
