package main

import (
	"fmt"
	"go/token"
	"go/types"
	"sort"
	"strings"

	"golang.org/x/tools/go/ssa"
)

func init() {
	register(&RuleSet{
		Property: "C12",
		Explanation: "Decides the structural clauses of phase unwrapping (the numeric identities over all 16-bit sequences are not decided): " +
			"(R1) call-split independence: in the sample loop all state carried from sample to sample lives in receiver fields (no loop-carried local), and the position of a sample inside the call (the loop index) is used only to address the sample, never in arithmetic or conditions; " +
			"(R2) modulo-quantum shape: each output sample is the masked, shifted input plus the offset field, and every store to the offset is the previous offset plus or minus one quantum or the home offset, which the constructor sets to a multiple of the quantum; both the enabled and the disabled path apply the same mask-then-shift to the input; " +
			"(R3) step rule shape: the step is the difference between the current value and the last-value field, which is refreshed from the current value on every sample; the offset is lowered under `step > upper limit` and raised under `step < lower limit`; the limits are one bias value plus/minus half a quantum, and that bias depends only on the configured bias level and the bit counts (not on pulse sign or other options); " +
			"(R4) reset rule shape: the away-counter is zeroed whenever the offset equals the home offset, incremented by one otherwise, and the offset returns home (counter zeroed) when the counter exceeds the configured interval; the disabled path only zeroes the counter. " +
			"Does not decide: the modulo-quantum identity, the half-quantum step bound and the reset timing as numeric facts over all input sequences.",
		RuleDocs: []string{
			"C12.R10 every method of the unwrapper that assigns one of its fields has a pointer receiver (with a value receiver the assignment lands on a copy and the carried state - last value, offset, reset count - is lost at return, so the output depends on how the stream is cut into calls)",
			"C12.R6 (siblings) in a function that builds one channel's unwrapper, a constructor call with a constant inversion flag next to one that computes it is reported; the lookup is followed through predicate helpers of the options and through the parameters of a per-channel helper called from the loop",
			"C12.R9 when the channels of a group are shared among worker goroutines by index ranges (first = worker x share), the share is the channel count divided by the worker count rounded up (polynomial form of the quotient); rounded down is reported, other forms are undecided",
			"C12.R6 backward data slice of the inversion flag handed to each channel's unwrapper reads the group's first channel number (flags that leave the function through memory or a module call are undecided)",
			"C12.R1 E5 carried-state rule: loop-header phis, uses of the range index",
			"C12.R5 a binary search is only made over a list sorted by a dominating call or a field the module sorts (no instance on the pinned tree; seed C12-6 is the positive example)",
			"C12.R2 E3 congruence of the stored output and of every offset store; constructor home offset; sibling arms agree on mask/shift",
			"C12.R3 control pairing of offset updates with the limit comparisons; dependence slice of the limits",
			"C12.R4 control pairing of counter stores with the home test and the interval test",
		},
		Assumptions: []string{"PhaseUnwrapper field names (lastVal, offset, twoPi, resetCount, resetAfter, resetOffset, upperStepLim, lowerStepLim, signMask, lowBitsToDrop) are name-keyed anchors"},
		Run:         runC12,
	})
}

const puT = "PhaseUnwrapper"

func puField(v ssa.Value) string {
	o, f, _, ok := FieldOf(v)
	if ok && o == puT {
		return f
	}
	return ""
}

// condOnFields: the If condition compares loads of the two named fields (or field vs value); returns op and whether operands are swapped.
func cmpFields(cond ssa.Value) (a, b string, op token.Token, ok bool) {
	bo, isB := cond.(*ssa.BinOp)
	if !isB {
		return
	}
	return puField(stripConv(bo.X)), puField(stripConv(bo.Y)), bo.Op, true
}

func runC12(p *Prog, r *Report) {
	r.MinInstances["C12.R1"] = 3
	r.MinInstances["C12.R2"] = 6
	r.MinInstances["C12.R3"] = 5
	r.MinInstances["C12.R4"] = 4
	r.MinInstances["C12.R6"] = 1
	r.MinInstances["C12.R10"] = 1
	c12R5(p, r)
	c12R6(p, r)
	c12R9(p, r)
	c12R10(p, r)
	fn := p.Func("", puT, "UnwrapInPlace")
	ctor := p.Func("", "", "NewPhaseUnwrapper")
	if fn == nil || ctor == nil {
		r.Unk("C12.anchor", "UnwrapInPlace/NewPhaseUnwrapper", "-", "anchor not found")
		return
	}
	r.Fn(FuncName(fn))
	r.Fn(FuncName(ctor))
	loops := RangeLoops(fn)
	// the enabled loop: the one that stores to the offset field
	var main, disabled *RangeLoop
	mixed := false
	disabledFn := fn
	classify := func(host *ssa.Function, l *RangeLoop) (hasOffset, hasShift bool) {
		Instrs(host, func(in ssa.Instruction) {
			if !l.Contains(in.Block()) {
				return
			}
			if st, ok := in.(*ssa.Store); ok && puField(st.Addr) == "offset" {
				hasOffset = true
			}
			if bo, ok := in.(*ssa.BinOp); ok && bo.Op == token.SHR {
				hasShift = true
			}
		})
		return
	}
	for _, l := range loops {
		hasOffset, hasShift := classify(fn, l)
		if hasOffset {
			main = l
		} else if hasShift {
			disabled = l
		}
	}
	// the region that handles one sample: the body of the main loop, or a helper method called
	// once per sample from a loop of UnwrapInPlace whose result is stored as the output sample
	R := &c12Region{body: fn, loopFn: fn}
	if main == nil {
		for _, l := range loops {
			Instrs(fn, func(in ssa.Instruction) {
				call, ok := in.(*ssa.Call)
				if !ok || !l.Contains(call.Block()) || !l.EveryIteration(call.Block()) {
					return
				}
				h := call.Call.StaticCallee()
				if !isModuleFn(h) || len(StoresTo(h, puT, "offset")) == 0 || len(RangeLoops(h)) > 0 {
					return
				}
				// data[i] = h(...)
				var outSt *ssa.Store
				// the call's result, possibly added to the reduced input and converted
				var follow func(v ssa.Value, depth int)
				follow = func(v ssa.Value, depth int) {
					if depth > 3 || v.Referrers() == nil {
						return
					}
					for _, ref := range *v.Referrers() {
						switch x := ref.(type) {
						case *ssa.Store:
							if ia, ok := x.Addr.(*ssa.IndexAddr); ok && x.Val == v && ia.Index == l.Idx {
								outSt = x
							}
						case *ssa.Convert:
							follow(x, depth+1)
						case *ssa.ChangeType:
							follow(x, depth+1)
						case *ssa.BinOp:
							if x.Op == token.ADD {
								follow(x, depth+1)
							}
						}
					}
				}
				follow(call, 0)
				if outSt == nil || !l.EveryIteration(outSt.Block()) {
					return
				}
				main = l
				R.body = h
				R.call = call
				R.outStore = outSt
			})
		}
	}
	if main != nil && disabled == main {
		disabled = nil
		for _, l := range loops {
			if _, hasShift := classify(fn, l); hasShift && l != main {
				disabled = l
			}
		}
	}
	if disabled == nil {
		for _, h := range recvHelpers(fn, 1) {
			if h == fn || h == R.body {
				continue
			}
			for _, l := range RangeLoops(h) {
				if hasOffset, hasShift := classify(h, l); hasShift && !hasOffset {
					disabled = l
					disabledFn = h
				}
			}
		}
	}
	if main != nil {
		// mixed form: the loop carries a local copy of a state field (a header phi seeded from the
		// field) and also assigns that field inside the loop.  The assignment is invisible to the
		// copy the samples are computed from, and the write-back after the loop overwrites it.
		for _, in := range main.Header.Instrs {
			ph, ok := in.(*ssa.Phi)
			if !ok || ph == main.Phi {
				continue
			}
			for i, e := range ph.Edges {
				if main.Header.Dominates(main.Header.Preds[i]) {
					continue
				}
				f := puField(stripConv(e))
				if f == "" {
					continue
				}
				for _, st := range StoresTo(fn, puT, f) {
					if !main.Contains(st.Block()) {
						continue
					}
					writtenBack := false
					for _, st2 := range StoresTo(fn, puT, f) {
						if !main.Contains(st2.Block()) && InstrReaches(st, st2) {
							writtenBack = true
						}
					}
					r.Bad("C12.R1", "the unwrapping loop keeps "+f+" in one place", p.InstrPos(st),
						"the loop computes the samples from a local copy of "+f+" (seeded from the unwrapper before the loop"+map[bool]string{true: " and stored back after it", false: ""}[writtenBack]+") but this statement inside the loop assigns the field itself: the copy in use does not see it, "+map[bool]string{true: "and the write-back after the loop overwrites it, ", false: ""}[writtenBack]+"so the change (the return to the home offset after the configured number of samples away) never takes effect")
					mixed = true
				}
			}
		}
		if mixed {
			main = nil
		}
	}
	if main == nil {
		// the loop may work on local copies of the state: loop-header phis seeded from the
		// unwrapper's fields.  Then every seeded field must be written back after the loop on
		// every path to a return; whether the copies are used correctly is not decided for this form.
		type carried struct {
			field string
			phi   *ssa.Phi
		}
		var cs []carried
		for _, l := range loops {
			for _, in := range l.Header.Instrs {
				ph, ok := in.(*ssa.Phi)
				if !ok || ph == l.Phi {
					continue
				}
				for i, e := range ph.Edges {
					if l.Header.Dominates(l.Header.Preds[i]) {
						continue
					}
					if f := puField(stripConv(e)); f != "" {
						cs = append(cs, carried{f, ph})
					}
				}
			}
		}
		if len(cs) == 0 {
			r.Unk("C12.anchor", "unwrapping loop", p.Pos(fn.Pos()), "no range loop storing the offset field, and no loop carrying copies of the unwrapper's fields, found")
			return
		}
		for _, c := range cs {
			written := false
			for _, st := range StoresTo(fn, puT, c.field) {
				if InstrReaches(c.phi, st) {
					written = true
				}
			}
			r.Check(written, "C12.R1", "the local copy of "+c.field+" carried through the unwrapping loop is stored back into the unwrapper", p.InstrPos(c.phi), "stored back after the loop",
				"the loop works on a local copy of "+c.field+" that is seeded from the unwrapper at every call and never stored back: the value restarts at every call, so the result depends on how the stream is split into calls")
		}
		r.Unk("C12.anchor", "unwrapping loop on local copies", p.Pos(fn.Pos()), "the loop works on local copies of the unwrapper's fields: write-back is checked, the arithmetic rules R2-R4 are written for the field form and cannot decide this form")
		return
	}
	_ = NewPolyCtx
	R.loop = main
	if R.body != fn {
		r.Fn(FuncName(R.body))
	}
	if disabledFn != fn {
		r.Fn(FuncName(disabledFn))
	}

	// the step rule delegated to a helper (offset += change(rule, step)): the arithmetic rules
	// R2-R4 are written for updates made in place and do not decide this form
	delegated := ""
	c12Hosts(fn, R.body)(func(in ssa.Instruction) {
		st, ok := in.(*ssa.Store)
		if !ok || puField(st.Addr) != "offset" {
			return
		}
		if bo, ok := stripConv(st.Val).(*ssa.BinOp); ok && (bo.Op == token.ADD || bo.Op == token.SUB) && puField(stripConv(bo.X)) == "offset" {
			if call, isCall := stripConv(bo.Y).(*ssa.Call); isCall && isModuleFn(call.Call.StaticCallee()) {
				delegated = FuncName(call.Call.StaticCallee()) + " at " + p.InstrPos(st)
			}
		}
	})
	if delegated != "" {
		r.Unk("C12.anchor", "offset update computed by a helper", p.Pos(fn.Pos()), "the amount added to the offset is computed by "+delegated+": whether it is always a whole number of quanta, and paired with the step limits, is not decided for this form")
		return
	}

	// ---- R1
	var extraPhis []string
	for _, in := range main.Header.Instrs {
		if ph, ok := in.(*ssa.Phi); ok && ph != main.Phi {
			extraPhis = append(extraPhis, ph.Comment)
		}
	}
	// phis inside the body that are loop-carried would sit in the header; body-internal merges are fine
	r.Check(len(extraPhis) == 0, "C12.R1", "no loop-carried local in the unwrapping loop", p.Pos(fn.Pos()), "only the range index is carried in a local", "loop-carried locals "+strings.Join(extraPhis, ",")+" are seeded per call: the result depends on how the stream is split into calls")
	badUse := ""
	for _, v := range []ssa.Value{main.Idx, main.Phi} {
		for _, ref := range *v.Referrers() {
			switch x := ref.(type) {
			case *ssa.IndexAddr:
				if x.Index == v {
					continue
				}
			case *ssa.BinOp:
				if x == main.Idx || (x.Op == token.LSS && x.X == main.Idx && x.Block() == main.Header) {
					continue
				}
				// the increment of a counting loop: i+1 used only to feed the loop's own counter
				if k, isC := constInt(x.Y); isC && k == 1 && x.Op == token.ADD && x.X == v {
					onlyPhi := true
					for _, r2 := range *x.Referrers() {
						if ph, isPhi := r2.(*ssa.Phi); isPhi && ph == main.Phi {
							continue
						}
						if _, isDbg := r2.(*ssa.DebugRef); isDbg {
							continue
						}
						onlyPhi = false
					}
					if onlyPhi {
						continue
					}
				}
			case *ssa.Phi:
				if x == main.Phi {
					continue
				}
			case *ssa.DebugRef:
				continue
			}
			if in, ok := ref.(ssa.Instruction); ok {
				badUse = p.InstrPos(in)
			}
		}
	}
	r.Check(badUse == "", "C12.R1", "the sample's position in the call is used only to address it", p.Pos(fn.Pos()), "index used only in data[i]", "the loop index takes part in a computation or condition at "+badUse+": the result depends on where a call boundary falls")
	// every piece of carried state is a field that is stored inside the loop: lastVal every iteration
	var lastStore *ssa.Store
	Instrs(R.body, func(in ssa.Instruction) {
		if st, ok := in.(*ssa.Store); ok && R.contains(st.Block()) && puField(st.Addr) == "lastVal" {
			lastStore = st
		}
	})
	// several stores, one on each way through the sample's code, do as well as one unconditional store
	refreshed := lastStore != nil && R.every(lastStore.Block())
	if lastStore != nil && !refreshed {
		isLast := func(in ssa.Instruction) bool {
			st, ok := in.(*ssa.Store)
			return ok && puField(st.Addr) == "lastVal" && st.Val == lastStore.Val
		}
		if R.body != fn {
			refreshed = len(ReachAvoiding(R.body, nil, isLast, isReturn)) == 0
		} else if main != nil && len(main.Body.Instrs) > 0 {
			hdr := main.Header
			refreshed = len(ReachAvoiding(fn, main.Body.Instrs[0], isLast, func(in ssa.Instruction) bool { return in.Block() == hdr && in == hdr.Instrs[0] })) == 0 && !isLast(main.Body.Instrs[0]) || isLast(main.Body.Instrs[0])
		}
	}
	r.Check(refreshed, "C12.R1", "the last-value field is refreshed on every sample", p.Pos(fn.Pos()), "unconditional store in the loop body", "the previous-sample state is not updated on every sample")

	// ---- R2: output = v + offset; v = uint16(raw & signMask) >> drop
	var outStore *ssa.Store
	var outVal ssa.Value
	atCaller := func(v ssa.Value) ssa.Value {
		prm, ok := v.(*ssa.Parameter)
		if !ok || prm.Parent() == fn {
			return v
		}
		var site ssa.Instruction
		n := 0
		Instrs(fn, func(in ssa.Instruction) {
			if cc := CallOf(in); cc != nil && cc.StaticCallee() == prm.Parent() {
				site = in
				n++
			}
		})
		if n != 1 {
			return v
		}
		return ArgForParam([]ssa.Instruction{site}, prm)
	}
	if R.body == fn {
		Instrs(fn, func(in ssa.Instruction) {
			if st, ok := in.(*ssa.Store); ok && main.Contains(st.Block()) {
				if ia, ok := st.Addr.(*ssa.IndexAddr); ok && ia.Index == main.Idx {
					outStore = st
					outVal = st.Val
				}
			}
		})
	} else {
		outStore = R.outStore
		if R.outStore.Val == ssa.Value(R.call) {
			outVal = singleReturn(R.body)
		}
	}
	var vVal ssa.Value
	if lastStore != nil {
		vVal = lastStore.Val
	}
	okOut := false
	outDesc := "?"
	sumUnk := ""
	if R.body != fn && outStore != nil && R.outStore.Val != ssa.Value(R.call) && vVal != nil {
		// data[i] = conv(v + helper(v)): the helper hands back the offset to add
		if bo, ok := stripConv(R.outStore.Val).(*ssa.BinOp); ok && bo.Op == token.ADD {
			x, y := stripConv(bo.X), stripConv(bo.Y)
			other := x
			if x == ssa.Value(R.call) {
				other = y
			} else if y != ssa.Value(R.call) {
				other = nil
			}
			outDesc = c05Describe(R.outStore.Val, nil, 0)
			if other != nil && other == stripConv(atCaller(stripConv(vVal))) {
				okOut = true
				Instrs(R.body, func(in ssa.Instruction) {
					ret, isRet := in.(*ssa.Return)
					if !isRet || len(ret.Results) != 1 {
						return
					}
					switch f := puField(stripConv(ret.Results[0])); f {
					case "offset":
					case "":
						okOut = false
						outDesc = "input + " + c05Describe(ret.Results[0], nil, 0)
					default:
						// the field that was just copied into the offset: equal to it
						same := false
						Instrs(R.body, func(y ssa.Instruction) {
							st, ok := y.(*ssa.Store)
							if !ok || puField(st.Addr) != "offset" || puField(stripConv(st.Val)) != f || !InstrDominates(st, ret) {
								return
							}
							later := ReachAvoiding(R.body, st, func(z ssa.Instruction) bool { return z == ssa.Instruction(ret) }, func(z ssa.Instruction) bool {
								s2, ok := z.(*ssa.Store)
								return ok && s2 != st && (puField(s2.Addr) == "offset" || puField(s2.Addr) == f)
							})
							if len(later) == 0 {
								same = true
							}
						})
						if !same {
							sumUnk = "the helper returns the field " + f + " at " + p.InstrPos(ret) + " as the amount to add; whether it equals the offset there is not decided"
						}
					}
				})
			}
		}
	}
	if outStore != nil && vVal != nil && outVal != nil {
		// the stored value: convert(v + load offset)
		if bo, ok := stripConv(outVal).(*ssa.BinOp); ok && bo.Op == token.ADD {
			x, y := stripConv(bo.X), stripConv(bo.Y)
			if (x == vVal && puField(y) == "offset") || (y == vVal && puField(x) == "offset") {
				okOut = true
			}
			outDesc = c05Describe(outVal, nil, 0)
		}
	}
	if okOut && sumUnk != "" {
		r.Unk("C12.R2", "each output sample is the reduced input plus the offset field", p.Pos(fn.Pos()), sumUnk)
	} else {
		r.Check(okOut && outStore != nil && main.EveryIteration(outStore.Block()), "C12.R2", "each output sample is the reduced input plus the offset field", p.Pos(fn.Pos()), outDesc, "the stored sample is `"+outDesc+"`, not (masked, shifted input) + offset: the output is no longer the input modulo a quantum")
	}
	// v = (raw & signMask) >> drop in both arms
	shape := func(v ssa.Value) string {
		v = stripConv(atCaller(stripConv(v)))
		bo, ok := v.(*ssa.BinOp)
		if !ok || bo.Op != token.SHR {
			return "no shift"
		}
		inner, ok := stripConv(bo.X).(*ssa.BinOp)
		if !ok || inner.Op != token.AND {
			return "shift of a non-masked value"
		}
		other := inner.X
		m := puField(stripConv(inner.Y))
		if m == "" {
			m = puField(stripConv(inner.X))
			other = inner.Y
		}
		// what is masked: the sample itself (element of the data slice), or something made of it
		in := "raw"
		ov := stripConv(other)
		isElem := false
		// a helper's parameter: what it stands for at the helper's call in UnwrapInPlace
		ov = stripConv(atCaller(ov))
		if ld, ok := ov.(*ssa.UnOp); ok && ld.Op == token.MUL {
			if _, isIA := ld.X.(*ssa.IndexAddr); isIA {
				isElem = true
			}
		}
		if !isElem {
			in = "[" + c05Describe(other, nil, 0) + "]"
		}
		sh := c05Describe(atCaller(stripConv(bo.Y)), nil, 0)
		return "(" + in + " & " + m + ") >> " + sh
	}
	mainShape := "?"
	if vVal != nil {
		mainShape = shape(vVal)
	}
	r.Check(strings.Contains(mainShape, " & signMask) >> ") && strings.Contains(mainShape, "lowBitsToDrop"), "C12.R2", "the input is masked with the sign mask and shifted by the dropped bits", p.Pos(fn.Pos()), mainShape, "the enabled path reduces the input as `"+mainShape+"`")
	if disabled != nil {
		var dStore *ssa.Store
		Instrs(disabledFn, func(in ssa.Instruction) {
			if st, ok := in.(*ssa.Store); ok && disabled.Contains(st.Block()) {
				if ia, ok := st.Addr.(*ssa.IndexAddr); ok && ia.Index == disabled.Idx {
					dStore = st
				}
			}
		})
		ds := "?"
		if dStore != nil {
			ds = shape(dStore.Val)
		}
		r.Check(ds == mainShape, "C12.R2", "enabled and disabled paths reduce the input identically", p.Pos(fn.Pos()), ds, "the disabled path uses `"+ds+"`, the enabled path `"+mainShape+"`")
	} else {
		r.Bad("C12.R2", "enabled and disabled paths reduce the input identically", p.Pos(fn.Pos()), "no disabled-path loop found")
	}
	// offset stores: prev ± twoPi or resetOffset
	type offStore struct {
		st   *ssa.Store
		kind string
	}
	var offs []offStore
	c12Hosts(fn, R.body, disabledFn)(func(in ssa.Instruction) {
		st, ok := in.(*ssa.Store)
		if !ok || puField(st.Addr) != "offset" {
			return
		}
		kind := "other: " + c05Describe(st.Val, nil, 0)
		if puField(stripConv(st.Val)) == "resetOffset" {
			kind = "home"
		} else if bo, ok := stripConv(st.Val).(*ssa.BinOp); ok && (bo.Op == token.ADD || bo.Op == token.SUB) {
			if puField(stripConv(bo.X)) == "offset" && puField(stripConv(bo.Y)) == "twoPi" {
				kind = map[token.Token]string{token.ADD: "plus", token.SUB: "minus"}[bo.Op]
			}
		}
		offs = append(offs, offStore{st, kind})
	})
	kinds := map[string]int{}
	for _, o := range offs {
		kinds[o.kind]++
		r.Check(!strings.HasPrefix(o.kind, "other"), "C12.R2", fmt.Sprintf("offset store #%d changes the offset by a whole quantum or to the home offset", len(kinds)), p.InstrPos(o.st), o.kind, "the offset is set to `"+o.kind+"`: output and input no longer differ by an integer number of quanta")
	}
	// constructor: resetOffset is ±k*twoPi and offset starts at resetOffset
	okHome := true
	nHome := 0
	c12Quanta = map[ssa.Value]bool{}
	for _, st := range StoresTo(ctor, puT, "twoPi") {
		c12Quanta[stripConv(st.Val)] = true
	}
	homeVals := map[ssa.Value]bool{}
	for _, st := range StoresTo(ctor, puT, "resetOffset") {
		homeVals[stripConv(st.Val)] = true
	}
	for _, st := range StoresTo(ctor, puT, "resetOffset") {
		nHome++
		if !multipleOfField(st.Val, "twoPi") {
			okHome = false
		}
	}
	r.Check(okHome && nHome >= 1, "C12.R2", "the home offset is a whole number of quanta", p.Pos(ctor.Pos()), fmt.Sprintf("%d stores, all multiples of twoPi", nHome), "the constructor sets the home offset to something other than a multiple of the quantum")
	okInit := false
	for _, st := range StoresTo(ctor, puT, "offset") {
		if puField(stripConv(st.Val)) == "resetOffset" || homeVals[stripConv(st.Val)] {
			okInit = true
		}
	}
	r.Check(okInit, "C12.R2", "the offset starts at the home offset", p.Pos(ctor.Pos()), "offset = resetOffset", "the constructor does not start the offset at the home offset")

	// ---- R3: step and limit pairing
	var step ssa.Value
	okStep := false
	Instrs(R.body, func(in ssa.Instruction) {
		bo, ok := in.(*ssa.BinOp)
		if !ok || bo.Op != token.SUB || !R.contains(bo.Block()) {
			return
		}
		if bo.X == vVal && puField(stripConv(bo.Y)) == "lastVal" {
			// the load of lastVal must precede the refresh store
			if ld, ok := stripConv(bo.Y).(*ssa.UnOp); ok && lastStore != nil && InstrDominates(ld, lastStore) {
				okStep = true
			}
			for _, ref := range *bo.Referrers() {
				if cv, ok := ref.(*ssa.Convert); ok {
					step = cv
				}
			}
			if step == nil {
				step = bo
			}
		}
	})
	r.Check(okStep, "C12.R3", "the step is current value minus the previous sample's value", p.Pos(fn.Pos()), "v - lastVal, read before lastVal is refreshed", "the step is not computed as the current reduced value minus the stored previous value")
	pair := func(kind, limit string, op token.Token) {
		okP := false
		why := "no such offset update"
		for _, o := range offs {
			if o.kind != kind {
				continue
			}
			why = "the update is not controlled by the documented comparison"
			for _, c := range controllingIfs(o.st.Block()) {
				bo, ok := c.If.Cond.(*ssa.BinOp)
				if !ok {
					continue
				}
				step := stripConv(step)
				_ = bo
				// step > limit (op GTR) or step < limit (op LSS) on this side, however spelled
				if lx, ly, side, ok := strictLess(c.If.Cond); ok && side == c.Branch {
					lx, ly = stripConv(lx), stripConv(ly)
					if op == token.LSS && lx == step && puField(ly) == limit {
						okP = true
					}
					if op == token.GTR && ly == step && puField(lx) == limit {
						okP = true
					}
				}
			}
		}
		name := map[string]string{"minus": "lowered", "plus": "raised"}[kind]
		r.Check(okP, "C12.R3", fmt.Sprintf("the offset is %s exactly when the step is %s the %s", name, map[token.Token]string{token.GTR: "above", token.LSS: "below"}[op], limit), p.Pos(fn.Pos()), "paired", why)
	}
	pair("minus", "upperStepLim", token.GTR)
	pair("plus", "lowerStepLim", token.LSS)
	// limits in the constructor: bias ± onePi with one bias value that depends only on biasLevel and the bit counts
	var up, lo *ssa.Store
	for _, st := range StoresTo(ctor, puT, "upperStepLim") {
		up = st
	}
	for _, st := range StoresTo(ctor, puT, "lowerStepLim") {
		lo = st
	}
	okLim := false
	limDesc := ""
	var bias ssa.Value
	if up != nil && lo != nil {
		upV, loV := stripConv(up.Val), stripConv(lo.Val)
		// both limits handed back by one helper call: look at what it returns, and read its
		// parameters as the constructor's arguments
		var viaCall *ssa.Call
		if e1, isE1 := upV.(*ssa.Extract); isE1 {
			if e2, isE2 := loV.(*ssa.Extract); isE2 && e1.Tuple == e2.Tuple {
				if call, isCall := e1.Tuple.(*ssa.Call); isCall && call.Call.StaticCallee() != nil && isModuleFn(call.Call.StaticCallee()) {
					if ret := singleReturnInstr(call.Call.StaticCallee()); ret != nil && e1.Index < len(ret.Results) && e2.Index < len(ret.Results) {
						viaCall = call
						upV, loV = stripConv(ret.Results[e1.Index]), stripConv(ret.Results[e2.Index])
					}
				}
			}
		}
		toCtor := func(v ssa.Value) ssa.Value {
			if viaCall == nil {
				return v
			}
			return ArgForParam([]ssa.Instruction{viaCall}, stripConv(v))
		}
		ub, ok1 := upV.(*ssa.BinOp)
		lb, ok2 := loV.(*ssa.BinOp)
		sameOperand := func(a, b ssa.Value) bool { return a == b || stripConv(a) == stripConv(b) }
		if ok1 && ok2 && ub.Op == token.ADD && lb.Op == token.SUB && sameOperand(ub.X, lb.X) && sameOperand(ub.Y, lb.Y) {
			bias = toCtor(ub.X)
			// onePi = 1 << (fractionBits - lowBitsToDrop - 1), or half of the quantum
			d := c05Describe(ub.Y, nil, 0)
			limDesc = "bias ± " + d
			okLim = strings.Contains(d, "<<")
			if hb, isB := stripConv(ub.Y).(*ssa.BinOp); isB && !okLim {
				k, isC := constInt(hb.Y)
				if isC && ((hb.Op == token.QUO && k == 2) || (hb.Op == token.SHR && k == 1)) {
					whole := toCtor(hb.X)
					wd := c05Describe(whole, nil, 0)
					limDesc = "bias ± half of " + wd
					okLim = puField(stripConv(whole)) == "twoPi" || strings.Contains(wd, "<<")
				}
			}
		}
	}
	r.Check(okLim, "C12.R3", "the step limits are one bias value plus and minus half a quantum", p.Pos(ctor.Pos()), limDesc, "upper and lower limits are not built as the same bias plus/minus the same half quantum")
	if bias != nil {
		// the bias is brought into one quantum: bias = (...) % Q with Q the quantum the offset
		// moves by (the twoPi field, or the very value stored into it)
		if rem, isRem := stripConv(bias).(*ssa.BinOp); isRem && rem.Op == token.REM {
			q := stripConv(rem.Y)
			okQ := puField(q) == "twoPi"
			for _, st := range StoresTo(ctor, puT, "twoPi") {
				if stripConv(st.Val) == q {
					okQ = true
				}
			}
			r.Check(okQ, "C12.R3", "the bias is reduced modulo the quantum the offset moves by", p.InstrPos(rem), "modulus is the twoPi value", "the bias of the step window is reduced modulo `"+c05Describe(rem.Y, nil, 0)+"`, which is not the quantum kept in twoPi (the units after the low bits are dropped): a bias level of a quantum or more is not brought into the window, and every step is then taken for a wrap")
		}
		deps := paramDeps(ctor, bias)
		var ds []string
		for d := range deps {
			ds = append(ds, d)
		}
		sort.Strings(ds)
		bad := ""
		for _, d := range ds {
			if d != "biasLevel" && d != "lowBitsToDrop" && d != "fractionBits" {
				bad = d
			}
		}
		r.Check(bad == "" && deps["biasLevel"], "C12.R3", "the bias of the step window depends only on the configured bias level and the bit counts", p.Pos(ctor.Pos()), strings.Join(ds, ","),
			"the bias of the step window also depends on `"+bad+"` (data or control): the window is no longer centred on the configured bias")
	}

	// ---- R4: reset rule
	var zeroHome, incr, zeroWrap *ssa.Store
	Instrs(R.body, func(in ssa.Instruction) {
		st, ok := in.(*ssa.Store)
		if !ok || puField(st.Addr) != "resetCount" || !R.contains(st.Block()) {
			return
		}
		if k, isC := constInt(st.Val); isC && k == 0 {
			for _, c := range controllingIfs(st.Block()) {
				a, b, op, ok := cmpFields(c.If.Cond)
				if !ok {
					continue
				}
				if (a == "offset" && b == "resetOffset" || a == "resetOffset" && b == "offset") && ((op == token.EQL && c.Branch == 0) || (op == token.NEQ && c.Branch == 1)) {
					// nearest controlling condition decides
					if zeroHome == nil {
						zeroHome = st
					}
				}
				wrapSide := false
				if lx, ly, side, ok := strictLess(c.If.Cond); ok && side == c.Branch && puField(stripConv(lx)) == "resetAfter" && puField(stripConv(ly)) == "resetCount" {
					wrapSide = true // resetAfter < resetCount here
				}
				if wrapSide {
					zeroWrap = st
					zeroHome = nilIf(zeroHome, st)
				}
			}
			return
		}
		if bo, ok := stripConv(st.Val).(*ssa.BinOp); ok && bo.Op == token.ADD && puField(stripConv(bo.X)) == "resetCount" {
			if k, isC := constInt(bo.Y); isC && k == 1 {
				incr = st
			}
		}
	})
	r.Check(zeroHome != nil, "C12.R4", "the away-counter is zeroed whenever the offset is at home", p.Pos(fn.Pos()), "resetCount = 0 under offset == resetOffset", "no store zeroes the counter on the offset==home path: separate short excursions add up and trigger a spurious reset in the middle of a pulse")
	okIncr := false
	if incr != nil {
		for _, c := range controllingIfs(incr.Block()) {
			a, b, op, ok := cmpFields(c.If.Cond)
			if ok && (a == "offset" && b == "resetOffset" || a == "resetOffset" && b == "offset") && ((op == token.EQL && c.Branch == 1) || (op == token.NEQ && c.Branch == 0)) {
				okIncr = true
			}
		}
	}
	r.Check(okIncr, "C12.R4", "the away-counter is incremented by one exactly when the offset is away from home", p.Pos(fn.Pos()), "resetCount++ under offset != resetOffset", "the counter increment is not controlled by offset != home")
	okWrap := false
	if zeroWrap != nil {
		for _, o := range offs {
			if o.kind == "home" && o.st.Block() == zeroWrap.Block() {
				okWrap = true
			}
		}
	}
	r.Check(okWrap, "C12.R4", "when the counter exceeds the interval the offset returns home and the counter restarts", p.Pos(fn.Pos()), "offset = resetOffset; resetCount = 0 under resetCount > resetAfter", "the automatic reset is not `if resetCount > resetAfter { offset = home; resetCount = 0 }`")
	// the disabled path zeroes the counter and touches no other state
	if disabled != nil {
		touched := map[string]bool{}
		c12Hosts(fn, disabledFn)(func(in ssa.Instruction) {
			st, ok := in.(*ssa.Store)
			if !ok {
				return
			}
			if f := puField(st.Addr); f != "" {
				// stores that are not in the main loop and are reachable on the disabled path
				if in.Parent() != R.body || !R.contains(st.Block()) {
					touched[f] = true
				}
			}
		})
		var ts []string
		for f := range touched {
			ts = append(ts, f)
		}
		sort.Strings(ts)
		r.Check(len(ts) == 1 && ts[0] == "resetCount", "C12.R4", "the disabled path only zeroes the away-counter", p.Pos(fn.Pos()), strings.Join(ts, ","), "outside the unwrapping loop the function stores to {"+strings.Join(ts, ",")+"}")
	}
}

// c12Region: the code that handles one sample.
type c12Region struct {
	body     *ssa.Function // UnwrapInPlace (the body of loop) or a per-sample helper (all of it)
	loopFn   *ssa.Function
	loop     *RangeLoop
	call     *ssa.Call  // the per-sample call of the helper
	outStore *ssa.Store // data[i] = helper(...)
}

func (R *c12Region) contains(b *ssa.BasicBlock) bool {
	if R.body == R.loopFn {
		return R.loop.Contains(b)
	}
	return b.Parent() == R.body
}

func (R *c12Region) every(b *ssa.BasicBlock) bool {
	if R.body == R.loopFn {
		return R.loop.EveryIteration(b)
	}
	if b.Parent() != R.body || len(b.Instrs) == 0 {
		return false
	}
	return alwaysExecutes(b.Instrs[0])
}

// c12Hosts visits the instructions of the given functions, each function once.
func c12Hosts(fns ...*ssa.Function) func(func(ssa.Instruction)) {
	return func(visit func(ssa.Instruction)) {
		seen := map[*ssa.Function]bool{}
		for _, f := range fns {
			if f == nil || seen[f] {
				continue
			}
			seen[f] = true
			Instrs(f, visit)
		}
	}
}

func nilIf(a, b *ssa.Store) *ssa.Store {
	if a == b {
		return nil
	}
	return a
}

// paramDeps: the parameters of fn that v depends on, through data and through the
// conditions selecting phi inputs.
func paramDeps(fn *ssa.Function, v ssa.Value) map[string]bool {
	out := map[string]bool{}
	seen := map[ssa.Value]bool{}
	var walk func(v ssa.Value, d int)
	walk = func(v ssa.Value, d int) {
		if v == nil || seen[v] || d > 40 {
			return
		}
		seen[v] = true
		switch x := v.(type) {
		case *ssa.Parameter:
			out[x.Name()] = true
			return
		case *ssa.Phi:
			for _, e := range x.Edges {
				walk(e, d+1)
			}
			// control: the conditions that decide which edge is taken
			for _, pred := range x.Block().Preds {
				for _, c := range controllingIfs(pred) {
					walk(c.If.Cond, d+1)
				}
				if iff, ok := pred.Instrs[len(pred.Instrs)-1].(*ssa.If); ok {
					walk(iff.Cond, d+1)
				}
			}
			return
		case *ssa.UnOp:
			if x.Op == token.MUL {
				// loads of fields of the object under construction: follow the stores in this function
				if fa, ok := x.X.(*ssa.FieldAddr); ok {
					st := derefStruct(fa.X.Type())
					name := st.Field(fa.Field).Name()
					Instrs(fn, func(in ssa.Instruction) {
						if s2, ok := in.(*ssa.Store); ok {
							if fa2, ok := s2.Addr.(*ssa.FieldAddr); ok && derefStruct(fa2.X.Type()) == st && st.Field(fa2.Field).Name() == name {
								walk(s2.Val, d+1)
							}
						}
					})
					return
				}
			}
		}
		if in, ok := v.(ssa.Instruction); ok {
			for _, op := range in.Operands(nil) {
				if *op != nil {
					walk(*op, d+1)
				}
			}
		}
	}
	walk(v, 0)
	return out
}

// multipleOfField: v is (a conversion of) the field, or a constant times it.
// c12Quanta: the values stored into the quantum field in the function under analysis (a multiple
// of the quantum may be written in terms of the local the field was set from).
var c12Quanta = map[ssa.Value]bool{}

func multipleOfField(v ssa.Value, field string) bool {
	v = stripConv(v)
	if puField(v) == field || c12Quanta[v] {
		return true
	}
	if ph, ok := v.(*ssa.Phi); ok {
		for _, e := range ph.Edges {
			if !multipleOfField(e, field) {
				return false
			}
		}
		return len(ph.Edges) > 0
	}
	if bo, ok := v.(*ssa.BinOp); ok && bo.Op == token.MUL {
		if _, isC := constInt(bo.X); isC {
			return multipleOfField(bo.Y, field)
		}
		if _, isC := constInt(bo.Y); isC {
			return multipleOfField(bo.X, field)
		}
	}
	if u, ok := v.(*ssa.UnOp); ok && u.Op == token.SUB {
		return multipleOfField(u.X, field)
	}
	return false
}

// ---- R5: per-channel options are looked up by a test that is right for any list order ------------

// c12R5: the per-channel settings of the unwrappers (which channels are inverted) come from
// client-supplied lists in arbitrary order.  A binary search (sort.Search*, slices.BinarySearch)
// over such a list is only a membership test when the list is sorted: the searched slice must be
// sorted by a dominating call in the same function, or be a field that the module sorts somewhere.
// There is no binary search in the pinned tree (the look-up is a linear scan), so this rule
// normally has no instance; the kept seed C12-6 is its positive example in the thorough tier.
func c12R5(p *Prog, r *Report) {
	isSearch := func(name string) bool {
		switch name {
		case "sort.SearchInts", "sort.SearchStrings", "sort.SearchFloat64s", "sort.Search", "sort.Find", "slices.BinarySearch", "slices.BinarySearchFunc":
			return true
		}
		return false
	}
	isSort := func(name string) bool {
		switch name {
		case "sort.Ints", "sort.Strings", "sort.Float64s", "sort.Sort", "sort.Stable", "sort.Slice", "sort.SliceStable", "slices.Sort", "slices.SortFunc", "slices.SortStableFunc":
			return true
		}
		return false
	}
	sortedFields := map[FieldKey]bool{}
	for _, fn := range p.LibFuncs() {
		Instrs(fn, func(in ssa.Instruction) {
			cc := CallOf(in)
			if cc == nil || cc.StaticCallee() == nil || !isSort(CalleeName(cc)) || len(cc.Args) == 0 {
				return
			}
			a := cc.Args[0]
			if mi, ok := a.(*ssa.MakeInterface); ok {
				a = mi.X
			}
			if ct, ok := a.(*ssa.ChangeType); ok {
				a = ct.X
			}
			if u, ok := a.(*ssa.UnOp); ok {
				if k, ok := fieldKeyOfAddr(u.X); ok {
					sortedFields[k] = true
				}
			}
		})
	}
	n := map[string]int{}
	for _, fn := range p.LibFuncs() {
		Instrs(fn, func(in ssa.Instruction) {
			cc := CallOf(in)
			if cc == nil || cc.StaticCallee() == nil || !isSearch(CalleeName(cc)) || len(cc.Args) == 0 {
				return
			}
			r.Fn(FuncName(fn))
			base := "binary search in " + FuncName(fn)
			n[base]++
			s := cc.Args[0]
			ok := false
			why := "the searched slice is neither sorted by a dominating call in this function nor a field the module sorts"
			// sorted in this function?
			Instrs(fn, func(x ssa.Instruction) {
				c2 := CallOf(x)
				if c2 != nil && c2.StaticCallee() != nil && isSort(CalleeName(c2)) && len(c2.Args) > 0 && c2.Args[0] == s && InstrDominates(x, in) {
					ok = true
				}
			})
			if u, isU := s.(*ssa.UnOp); isU && !ok {
				if k, isF := fieldKeyOfAddr(u.X); isF {
					if sortedFields[k] {
						ok = true
					} else {
						why = "the searched list " + k.String() + " is never sorted anywhere in the module (clients send it in any order)"
					}
				}
			}
			r.Check(ok, "C12.R5", fmt.Sprintf("%s #%d is over a sorted list", base, n[base]), p.InstrPos(in), "sorted before the search",
				why+": for an unsorted list the search misses entries, so listed channels get the wrong per-channel setting (e.g. are not inverted) and their unwrapped signal differs from the input by more than whole flux quanta")
		})
	}
}

// ---- R6: the inversion flag of a channel is looked up by channel number ---------------------------

// c12R6: the client lists the channels to invert by channel NUMBER; a group of channels starts at
// its own first channel number.  Where the unwrappers of a group are built, the inversion flag of
// the i-th channel of the group must therefore be looked up with a key made of i and the group's
// first channel (or in a table whose keys were shifted by it).  Decided on the backward data slice
// of the flag: it must contain a read of the first-channel field; a slice that leaves the function
// through memory or a module call is not decided.
func c12R6(p *Prog, r *Report) {
	ctor := p.Func("", "", "NewPhaseUnwrapper")
	if ctor == nil {
		return
	}
	inv := -1
	for k, prm := range ctor.Params {
		if b, ok := prm.Type().Underlying().(*types.Basic); ok && b.Kind() == types.Bool && strings.Contains(strings.ToLower(prm.Name()), "inver") {
			inv = k
		}
	}
	if inv < 0 {
		r.Unk("C12.R6", "inversion parameter of NewPhaseUnwrapper", p.Pos(ctor.Pos()), "no bool parameter named invert*")
		return
	}
	isFirst := func(v ssa.Value) bool {
		switch x := v.(type) {
		case *ssa.Field:
			if st, ok := x.X.Type().Underlying().(*types.Struct); ok {
				return st.Field(x.Field).Name() == "Firstchan"
			}
		case *ssa.FieldAddr:
			if st := derefStruct(x.X.Type()); st != nil {
				return st.Field(x.Field).Name() == "Firstchan"
			}
		}
		return false
	}
	for _, fn := range p.LibFuncs() {
		Instrs(fn, func(in ssa.Instruction) {
			call, ok := in.(*ssa.Call)
			if !ok || call.Call.StaticCallee() != ctor || inv >= len(call.Call.Args) {
				return
			}
			inLoopAt := func(in2 ssa.Instruction) bool {
				b := in2.Block()
				for _, sc := range b.Succs {
					if sc == b || BlockReaches(sc, b) {
						return true
					}
				}
				return false
			}
			// frame: the constructor may be called from a helper that builds one channel's
			// unwrapper and is itself called once per channel from a loop: its parameters then
			// stand for the arguments of that call
			frame := map[*ssa.Parameter]ssa.Value{}
			inLoop := inLoopAt(call)
			if !inLoop {
				sites, all := p.staticCallSites(fn)
				if all && len(sites) == 1 && inLoopAt(sites[0]) && len(CallOf(sites[0]).Args) == len(fn.Params) {
					for i, q := range fn.Params {
						frame[q] = CallOf(sites[0]).Args[i]
					}
					inLoop = true
				}
			}
			if !inLoop {
				return
			}
			if _, isC := call.Call.Args[inv].(*ssa.Const); isC {
				// inversion not in use at this site - unless a sibling call in the same function
				// computes the flag: then this way of building the unwrapper drops the inversion
				sibling := false
				Instrs(fn, func(y ssa.Instruction) {
					if c2, ok := y.(*ssa.Call); ok && c2 != call && c2.Call.StaticCallee() == ctor && inv < len(c2.Call.Args) {
						if _, isC2 := c2.Call.Args[inv].(*ssa.Const); !isC2 {
							sibling = true
						}
					}
				})
				if sibling {
					r.Fn(FuncName(fn))
					r.Bad("C12.R6", "every way "+FuncName(fn)+" builds an unwrapper passes the channel's inversion flag", p.InstrPos(call), "this call passes a constant as the inversion flag while another call in the same function looks the flag up for the channel: on the way that leads here the channels listed for inversion are not inverted (their output is then the complement of what the options ask for, not the input plus whole quanta)")
				}
				return
			}
			r.Fn(FuncName(fn))
			found, opaque := false, ""
			seen := map[ssa.Value]bool{}
			var walk func(v ssa.Value, d int)
			walk = func(v ssa.Value, d int) {
				if v == nil || seen[v] || d > 30 {
					return
				}
				seen[v] = true
				if isFirst(v) {
					found = true
					return
				}
				if prm, isPrm := v.(*ssa.Parameter); isPrm {
					if a, has := frame[prm]; has {
						walk(a, d+1)
					}
					return
				}
				switch x := v.(type) {
				case *ssa.Const, *ssa.Parameter, *ssa.FreeVar, *ssa.Global, *ssa.Function, *ssa.Builtin:
					return
				case *ssa.Phi:
					allConst := true
					for _, e := range x.Edges {
						walk(e, d+1)
						if _, isC := e.(*ssa.Const); !isC {
							if _, isPhi := e.(*ssa.Phi); !isPhi {
								allConst = false
							}
						}
					}
					if allConst {
						// a flag set to constants under conditions: the conditions carry the key
						for _, pred := range x.Block().Preds {
							for _, c := range controllingIfs(pred) {
								walk(c.If.Cond, d+1)
							}
							if iff, ok := pred.Instrs[len(pred.Instrs)-1].(*ssa.If); ok {
								walk(iff.Cond, d+1)
							}
						}
					}
				case *ssa.Lookup:
					walk(x.Index, d+1)
					// a table: the keys it was filled with
					if mm, ok := x.X.(*ssa.MakeMap); ok {
						for _, ref := range *mm.Referrers() {
							if mu, ok := ref.(*ssa.MapUpdate); ok {
								walk(mu.Key, d+1)
							}
						}
					} else {
						opaque = "a table that was not built in this function"
					}
				case *ssa.Call:
					g := x.Call.StaticCallee()
					if mc, ok := x.Call.Value.(*ssa.MakeClosure); ok {
						g = mc.Fn.(*ssa.Function)
					}
					switch {
					case x.Call.IsInvoke() || g == nil:
						if _, isB := x.Call.Value.(*ssa.Builtin); !isB {
							opaque = "a call that is not resolved at " + p.InstrPos(x)
						}
					case g.Parent() == fn:
						Instrs(g, func(y ssa.Instruction) {
							if v2, ok := y.(ssa.Value); ok && isFirst(v2) {
								found = true
							}
						})
					case isModuleFn(g) && len(g.Params) == len(x.Call.Args) && len(g.Blocks) > 0:
						// a predicate of the options (`opt.inverts(channum)`): what it returns, with
						// its parameters bound to the arguments
						for i, q := range g.Params {
							frame[q] = x.Call.Args[i]
						}
						Instrs(g, func(y ssa.Instruction) {
							if ret, ok := y.(*ssa.Return); ok && len(ret.Results) > 0 {
								walk(ret.Results[0], d+1)
								for _, c := range controllingIfs(ret.Block()) {
									walk(c.If.Cond, d+1)
								}
							}
						})
					case isModuleFn(g):
						opaque = "the result of " + FuncName(g)
					}
					for _, a := range x.Call.Args {
						walk(a, d+1)
					}
				case *ssa.UnOp:
					if x.Op == token.MUL {
						if _, isFA := x.X.(*ssa.FieldAddr); isFA && isFirst(x.X) {
							found = true
							return
						}
						if al, isAl := x.X.(*ssa.Alloc); isAl {
							for _, ref := range *al.Referrers() {
								if st, ok := ref.(*ssa.Store); ok && st.Addr == ssa.Value(al) {
									walk(st.Val, d+1)
								}
							}
							return
						}
						if ia, isIA := x.X.(*ssa.IndexAddr); isIA {
							// an element of a list handed to this function (the list of channel numbers)
							base := ia.X
							if ld, ok := base.(*ssa.UnOp); ok && ld.Op == token.MUL {
								if fa, ok := ld.X.(*ssa.FieldAddr); ok {
									base = fa.X
								}
							}
							if f, ok := base.(*ssa.Field); ok {
								base = f.X
							}
							switch base.(type) {
							case *ssa.Parameter, *ssa.Alloc, *ssa.FreeVar:
								return
							}
						}
						opaque = "a value read from memory at " + p.InstrPos(x)
						return
					}
					walk(x.X, d+1)
				default:
					if y, ok := v.(ssa.Instruction); ok {
						for _, op := range y.Operands(nil) {
							if *op != nil {
								walk(*op, d+1)
							}
						}
					}
				}
			}
			walk(call.Call.Args[inv], 0)
			key := "inversion flag of each channel built in " + FuncName(fn) + " is looked up by channel number"
			switch {
			case found:
				r.OK("C12.R6", key, p.InstrPos(call), "the flag's key is made with the group's first channel number")
			case opaque != "":
				r.Unk("C12.R6", key, p.InstrPos(call), "the flag comes from "+opaque+": not decided how it is keyed")
			default:
				r.Bad("C12.R6", key, p.InstrPos(call), "nothing in the computation of the flag reads the group's first channel number: the list of channels to invert holds channel numbers, so for a group that does not start at channel 0 the listed channels are not inverted and others are (their output is the complement of the input, not the input plus whole quanta)")
			}
		})
	}
}

// singleReturnInstr: the only return instruction of fn, or nil.
func singleReturnInstr(fn *ssa.Function) *ssa.Return {
	var out *ssa.Return
	n := 0
	Instrs(fn, func(in ssa.Instruction) {
		if ret, ok := in.(*ssa.Return); ok {
			out = ret
			n++
		}
	})
	if n != 1 {
		return nil
	}
	return out
}

// ---- R9: every channel of a group is unwrapped ------------------------------------------------

// c12R9: when the per-channel unwrapping of a group is shared among worker goroutines by index
// ranges (worker k takes [k*share, k*share+share)), the shares must cover every channel: share is
// the number of channels divided by the number of workers *rounded up*.  With the quotient rounded
// down the last (channels mod workers) channels are never unwrapped: their samples keep the low
// bits and wraps.  Decided on the polynomial form of the share (a quotient symbol); other forms of
// sharing are left undecided.
func c12R9(p *Prog, r *Report) {
	n := 0
	for _, fn := range p.LibFuncs() {
		if fn.Signature.Recv() == nil || typeName(fn.Signature.Recv().Type()) != "AbacoGroup" {
			continue
		}
		pc := NewPolyCtx(fn)
		pc.G = true
		Instrs(fn, func(in ssa.Instruction) {
			g, ok := in.(*ssa.Go)
			if !ok {
				return
			}
			mc, ok := g.Call.Value.(*ssa.MakeClosure)
			if !ok {
				return
			}
			cl, _ := mc.Fn.(*ssa.Function)
			if cl == nil || len(cl.Params) != len(g.Call.Args) {
				return
			}
			// the closure unwraps elements of the group's unwrapper table at computed indices
			unwraps := false
			Instrs(cl, func(x ssa.Instruction) {
				if calleeNamed(x, "UnwrapInPlace") {
					unwraps = true
				}
			})
			if !unwraps {
				return
			}
			for i, q := range cl.Params {
				if !isIntLike(q.Type()) {
					continue
				}
				// first = k * share with k the counter of the loop that starts the workers
				first := pc.Of(g.Call.Args[i])
				var kSym string
				for _, sy := range first.Symbols() {
					for _, part := range strings.Split(sy, "*") {
						if strings.HasPrefix(part, "phi#") {
							kSym = part
						}
					}
				}
				if kSym == "" {
					continue
				}
				kv, okv := pc.symValue(kSym)
				kph, isPhi := kv.(*ssa.Phi)
				if !okv || !isPhi {
					continue
				}
				loop := ivLoopAt(kph.Block())
				if loop == nil || loop.counter != kph {
					continue
				}
				n++
				r.Fn(FuncName(fn))
				key := FuncName(fn) + ": the workers' shares cover every channel of the group"
				// share = first / k
				var share Poly
				for mono, co := range first {
					parts := strings.Split(mono, "*")
					if len(parts) == 2 && co == 1 {
						if parts[0] == kSym {
							share = polySym(parts[1])
						} else if parts[1] == kSym {
							share = polySym(parts[0])
						}
					}
				}
				W := pc.Of(loop.bound)
				if share == nil || len(first) != 1 {
					r.Unk("C12.R9", key, p.InstrPos(g), "the first index handed to a worker is `"+first.String()+"`, not (worker number) x (share): coverage of the channels is not decided")
					continue
				}
				ssym := share.Symbols()[0]
				args := pc.opArgs[ssym]
				switch {
				case strings.HasPrefix(ssym, "/(") && len(args) == 2 && args[1].Equal(W):
					num := args[0]
					// rounded up: (n + W - 1) / W
					rest := num.Sub(W).Add(polyConst(1))
					isLen := len(rest) == 1 && strings.HasPrefix(rest.Symbols()[0], "len(") && rest[rest.Symbols()[0]] == 1
					floorLen := len(num) == 1 && strings.HasPrefix(num.Symbols()[0], "len(") && num[num.Symbols()[0]] == 1
					switch {
					case isLen:
						r.OK("C12.R9", key, p.InstrPos(g), "share = (channels + workers - 1) / workers: rounded up")
					case floorLen:
						r.Bad("C12.R9", key, p.InstrPos(g), "each worker takes `"+share.String()+"` channels: the quotient is rounded down, so when the number of channels is not a multiple of the number of workers the last channels belong to no worker and are never unwrapped (no bit drop, no inversion, wraps stay in): their output is not the input modulo a quantum")
					default:
						r.Unk("C12.R9", key, p.InstrPos(g), "the share is `"+share.String()+"`: neither the rounded-up nor the rounded-down quotient of the channel count: not decided")
					}
				default:
					r.Unk("C12.R9", key, p.InstrPos(g), "the share is `"+share.String()+"` with "+W.String()+" workers: coverage of the channels is not decided")
				}
			}
		})
	}
	if n == 0 {
		r.OK("C12.R9", "every channel of a group is unwrapped", "-", "no sharing of channels among workers by index ranges: one unwrapping step per element of the group's table")
	}
}


// C12.R10: state carried across calls lives in the unwrapper's fields; a method with a value
// receiver that assigns a field assigns a copy.
func c12R10(p *Prog, r *Report) {
	n := 0
	for _, fn := range p.LibFuncs() {
		recv := fn.Signature.Recv()
		if recv == nil || typeName(recv.Type()) != puT || fn.Synthetic != "" {
			continue
		}
		_, isPtr := recv.Type().(*types.Pointer)
		var st0 *ssa.Store
		nst := 0
		Instrs(fn, func(in ssa.Instruction) {
			st, ok := in.(*ssa.Store)
			if !ok || puField(st.Addr) == "" {
				return
			}
			nst++
			if fa, isFa := st.Addr.(*ssa.FieldAddr); isFa {
				if _, local := fa.X.(*ssa.Alloc); local && !isPtr && st0 == nil {
					st0 = st
				}
			}
		})
		if nst == 0 {
			continue
		}
		n++
		r.Fn(FuncName(fn))
		if st0 != nil {
			r.Bad("C12.R10", FuncName(fn)+": the unwrapper's state is assigned through a pointer receiver", p.InstrPos(st0), "this method has a value receiver and assigns "+puField(st0.Addr)+": the assignment lands on the copy made for the call, so the state carried from one call to the next (last value, offset, reset count) is lost when the method returns and the output depends on how the stream is cut into calls")
		} else {
			r.OK("C12.R10", FuncName(fn)+": the unwrapper's state is assigned through a pointer receiver", p.Pos(fn.Pos()), "pointer receiver")
		}
	}
	if n == 0 {
		r.Unk("C12.R10", "methods of the unwrapper that assign its fields", "-", "none found")
	}
}
