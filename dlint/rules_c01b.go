package main

// C01.R5: the block path turns an error into a panic in a few places (`panic(err)` after
// publishing).  An error that reaches such a panic must come from a resource (file creation, a
// write) and never from a check of the record's own samples: with variable-length records the
// number of samples of a record depends on the stream content, so a length check that can reach
// the panic lets a particular stream content stop the whole server.
//
// Decided by a backward walk over SSA values and return values (no execution): from the operand
// of every panic in the functions the block path runs, through phis, result cells, static and
// interface callees inside the module, to the places where the error value is made.  An origin
// made in the module (fmt.Errorf, errors.New) under a condition on len(parameter) is traced to
// the call sites on the walked path; if the argument there is (a view of) the sample slice of a
// record, the obligation is violated.

import (
	"fmt"
	"go/token"
	"go/types"
	"sort"
	"strings"

	"golang.org/x/tools/go/ssa"
)

// c01Origin: where an error value is made, and the calls walked down to it (outermost first).
type c01Origin struct {
	site ssa.Instruction
	path []*ssa.Call
}

func c01R5(p *Prog, r *Report) {
	root := p.Func("", "AnySource", "ProcessSegments")
	if root == nil {
		r.Unk("C01.R5", "ProcessSegments", "-", "name-keyed anchor not found")
		return
	}
	// the functions the block path runs (static and resolved dynamic callees, goroutines included)
	inPath := map[*ssa.Function]bool{}
	var visit func(f *ssa.Function, d int)
	visit = func(f *ssa.Function, d int) {
		if f == nil || inPath[f] || !isModuleFn(f) || d > 8 {
			return
		}
		inPath[f] = true
		Instrs(f, func(in ssa.Instruction) {
			if CallOf(in) == nil {
				return
			}
			for _, c := range p.callees(in) {
				visit(c, d+1)
			}
			if mc, ok := CallOf(in).Value.(*ssa.MakeClosure); ok {
				if cf, ok := mc.Fn.(*ssa.Function); ok {
					visit(cf, d+1)
				}
			}
		})
	}
	visit(root, 0)
	var fns []*ssa.Function
	for f := range inPath {
		fns = append(fns, f)
	}
	sort.Slice(fns, func(i, j int) bool { return FuncName(fns[i]) < FuncName(fns[j]) })

	npanic := 0
	for _, f := range fns {
		Instrs(f, func(in ssa.Instruction) {
			pn, ok := in.(*ssa.Panic)
			if !ok {
				return
			}
			// the panic's operand as an error value
			v := pn.X
			for i := 0; i < 3; i++ {
				switch x := v.(type) {
				case *ssa.ChangeInterface:
					v = x.X
				case *ssa.MakeInterface:
					v = x.X
				}
			}
			if !isErrorType(v.Type()) {
				return
			}
			npanic++
			r.Fn(FuncName(f))
			var origins []c01Origin
			seen := map[ssa.Value]bool{}
			var walk func(v ssa.Value, path []*ssa.Call, depth int)
			walk = func(v ssa.Value, path []*ssa.Call, depth int) {
				if v == nil || seen[v] || depth > 12 {
					return
				}
				seen[v] = true
				switch x := v.(type) {
				case *ssa.Phi:
					for _, e := range x.Edges {
						walk(e, path, depth+1)
					}
				case *ssa.Const:
				case *ssa.UnOp:
					if x.Op == token.MUL {
						if a, isA := x.X.(*ssa.Alloc); isA {
							for _, ref := range *a.Referrers() {
								if st, isSt := ref.(*ssa.Store); isSt && st.Addr == ssa.Value(a) {
									walk(st.Val, path, depth+1)
								}
							}
						}
					}
				case *ssa.Extract:
					if c, isC := x.Tuple.(*ssa.Call); isC {
						walkCall(p, c, x.Index, path, depth, walk, &origins)
					}
				case *ssa.Call:
					walkCall(p, x, 0, path, depth, walk, &origins)
				case *ssa.MakeInterface, *ssa.ChangeInterface:
					if in2, isIn := v.(ssa.Instruction); isIn {
						origins = append(origins, c01Origin{in2, append([]*ssa.Call{}, path...)})
					}
				}
			}
			walk(v, nil, 0)
			key := fmt.Sprintf("panic on an error in %s: no origin is a check of a record's samples", FuncName(f))
			bad := ""
			nmade := 0
			for _, o := range origins {
				call, isCall := o.site.(*ssa.Call)
				if !isCall {
					continue
				}
				name := CalleeName(&call.Call)
				if name != "fmt.Errorf" && name != "errors.New" {
					continue
				}
				nmade++
				g := o.site.Parent()
				// conditions on len(parameter) that lead to this origin
				for _, ci := range controllingIfs(o.site.Block()) {
					bo, ok := ci.If.Cond.(*ssa.BinOp)
					if !ok {
						continue
					}
					for _, side := range []ssa.Value{bo.X, bo.Y} {
						lc, ok := stripConv(side).(*ssa.Call)
						if !ok {
							continue
						}
						b, isB := lc.Call.Value.(*ssa.Builtin)
						if !isB || b.Name() != "len" {
							continue
						}
						prm, isPrm := lc.Call.Args[0].(*ssa.Parameter)
						if !isPrm {
							continue
						}
						idx := -1
						for i, q := range g.Params {
							if q == prm {
								idx = i
							}
						}
						// the call on the walked path that entered g
						for _, pc := range o.path {
							callee := pc.Call.StaticCallee()
							args := pc.Call.Args
							if pc.Call.IsInvoke() {
								args = append([]ssa.Value{pc.Call.Value}, args...)
							}
							ok := callee == g
							if !ok {
								for _, c2 := range p.callees(pc) {
									if c2 == g {
										ok = true
									}
								}
							}
							if !ok || idx < 0 || idx >= len(args) {
								continue
							}
							if c01IsRecordSamples(args[idx], 0) {
								bad = fmt.Sprintf("the error made at %s (when len(%s) differs from what the file expects) is returned up to this panic, and %s hands it the samples of a record at %s", p.InstrPos(o.site), prm.Name(), FuncName(pc.Parent()), p.InstrPos(pc))
							}
						}
					}
				}
			}
			r.Check(bad == "", "C01.R5", key, p.InstrPos(pn), fmt.Sprintf("%d origins of the error value, %d made in the module, none under a test of the length of a record's samples", len(origins), nmade),
				bad+": in edge-multi mode with variable-length records the number of samples of a record depends on the stream content, so a particular content (two pulses close together) stops the whole server instead of, at worst, leaving one record out of one file")
		})
	}
	if npanic == 0 {
		r.OK("C01.R5", "panic on an error in the block path", "-", "no panic on an error value in the functions the block path runs")
	}
}

// walkCall: the error result idx of call: into the module callees' returns, or an origin.
func walkCall(p *Prog, call *ssa.Call, idx int, path []*ssa.Call, depth int, walk func(ssa.Value, []*ssa.Call, int), origins *[]c01Origin) {
	name := CalleeName(&call.Call)
	if name == "fmt.Errorf" || name == "errors.New" {
		*origins = append(*origins, c01Origin{call, append([]*ssa.Call{}, path...)})
		return
	}
	any := false
	for _, g := range p.callees(call) {
		if !isModuleFn(g) || len(g.Blocks) == 0 {
			continue
		}
		any = true
		np := append(append([]*ssa.Call{}, path...), call)
		Instrs(g, func(in ssa.Instruction) {
			ret, ok := in.(*ssa.Return)
			if !ok || idx >= len(ret.Results) || ret.Block() == g.Recover {
				return
			}
			if !isErrorType(ret.Results[idx].Type()) {
				return
			}
			walk(returnedValue(ret, idx), np, depth+1)
			walk(ret.Results[idx], np, depth+1)
		})
	}
	if !any {
		// a resource outside the module (os, bufio, io, ...): an origin that is not a content check
		*origins = append(*origins, c01Origin{call, append([]*ssa.Call{}, path...)})
	}
}

// c01IsRecordSamples: v is the sample slice of a record (the data field of a DataRecord), a view of
// it, or what a one-argument conversion helper of the module makes of it.
func c01IsRecordSamples(v ssa.Value, depth int) bool {
	if depth > 5 {
		return false
	}
	switch x := v.(type) {
	case *ssa.UnOp:
		if x.Op == token.MUL {
			if o, f, _, ok := FieldOf(x); ok && o == "DataRecord" && f == "data" {
				return true
			}
		}
	case *ssa.Slice:
		return c01IsRecordSamples(x.X, depth+1)
	case *ssa.ChangeType:
		return c01IsRecordSamples(x.X, depth+1)
	case *ssa.Call:
		if g := x.Call.StaticCallee(); g != nil && isModuleFn(g) && len(x.Call.Args) == 1 {
			if _, isSl := x.Call.Args[0].Type().Underlying().(*types.Slice); isSl {
				return c01IsRecordSamples(x.Call.Args[0], depth+1)
			}
		}
	}
	return false
}

var _ = strings.HasPrefix
