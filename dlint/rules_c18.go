package main

// C18: the shared-memory ring buffer.  The property quantifies over histories of reads and
// writes; what is decided here are the algebraic clauses every single operation must satisfy for
// any history to come out right, each as a polynomial identity over the values the function
// loads (the two pointers, the size) with x%c rewritten to x - c*(x/c):
//
//   R1  who may store which pointer (consumer: read pointer; producer: write pointer; only the
//       creator stores both), and the cached size is a copy of the descriptor's;
//   R2  an operation that moves bytes advances its pointer by exactly the count it moved
//       (stored value = loaded value + N) and N is shown non-negative;
//   R3  the bytes moved are the N bytes at pointer%size: first piece [p%size : (p+N)%size or
//       size), second piece [0 : N - len(first)) on the wrap side only;
//   R4  the wrap side is chosen by (p+N)/size > p/size;
//   R5  N is the smaller of the request and the occupancy w-r (consumer) or the free space
//       size-(w-r+1) (producer); the accessors that report these agree with the operations;
//   R6  the chunked read asks for k*(x/k) bytes, x what is readable;
//   R7  the discard stores stride*(w/stride), w the write pointer.
//
// Not decided: that these per-operation identities compose to a FIFO over every history (they
// are necessary, and with the stated lemmas about / and % sufficient for one operation at a
// time), unsigned wrap-around of the 64-bit pointers, and anything about the other process.

import (
	"fmt"
	"go/token"
	"go/types"
	"sort"
	"strings"

	"golang.org/x/tools/go/ssa"
)

func init() {
	register(&RuleSet{
		Property: "C18",
		Explanation: "Decides the per-operation algebraic clauses of the ring buffer that any FIFO history needs, as polynomial identities over the loaded pointers and size (x%c read as x - c*(x/c)): " +
			"(R1) the read pointer is stored only by consumer operations, the write pointer only by the producer, both only by the creator, and the cached size is a copy of the descriptor's size; " +
			"(R2) a moving operation stores pointer + N, N shown non-negative where it comes from a request; " +
			"(R3) the bytes moved are [p%size : (p+N)%size or size) followed, on the wrap side only, by [0 : N - first); " +
			"(R4) the wrap side is selected by (p+N)/size > p/size; " +
			"(R5) N is the smaller of the request and w-r (read) or size-(w-r+1) (write), and BytesReadable/BytesWriteable report the same quantities; " +
			"(R6) ReadMultipleOf asks for k*(x/k) bytes with x the readable count; " +
			"(R7) DiscardStride stores stride*(w/stride); " +
			"(R8) the Abaco user reads in chunks of its packet size and discards to a stride of the same field. " +
			"Does not decide: the composition of operations over a history, 64-bit wrap-around of the pointers, concurrent access by the other process.",
		RuleDocs: []string{
			"C18.R1 who-may-store table of bufferDescription.readPointer / writePointer / bufferSize and RingBuffer.size over the package; consumers do not write the data region",
			"C18.R2 stored pointer = loaded pointer + N (polynomial identity); for a consumer N >= 0 is proven at the store by guard dominance",
			"C18.R3 pieces of the returned / copied data: bounds compared as polynomials with x%c = x - c*(x/c); the second piece exists, starts at 0, has length N - len(first), and lies on the wrap side",
			"C18.R4 the condition selecting the `end = size` alternative compares the quotients of p+N and p by the size with > (or !=)",
			"C18.R5 N is a two-way minimum (phi under a comparison of its two values, or min) of the request and the occupancy / free-space polynomial; accessors returning these polynomials agree",
			"C18.R6 the argument of the read issued by ReadMultipleOf is k*quo(x,k), k its parameter, x a readable-count accessor's result or w-r",
			"C18.R8 a user of the buffer that reads in chunks (ReadMultipleOf(x)) discards stale data only through DiscardStride of the same x (same field of the same owner), so that the read position stays on a chunk boundary; grouped by the struct type that holds the buffer",
			"C18.R7 every alternative of the pointer stored by DiscardStride equals stride*quo(w,stride), the alternative `w` being taken only where w%stride was tested zero",
		},
		Assumptions: []string{
			"pointer values stay below 2^63 (no wrap-around of the 64-bit counters, conversions between int and uint64 keep the value)",
			"lemmas used to read the identities as behaviour: for c > 0 and N >= 0, (p+N)/c >= p/c; if (p+N)/c == p/c then (p+N)%c - p%c == N; if (p+N)/c > p/c and N < c then (p+N)/c == p/c + 1",
			"RingBuffer.size equals bufferDescription.bufferSize after Open/Create (checked by R1: it is only ever assigned from it)",
		},
		Run: runC18,
	})
}

const c18Desc = "bufferDescription"
const c18Ring = "RingBuffer"

type c18ctx struct {
	p   *Prog
	r   *Report
	fns []*ssa.Function
}

func runC18(p *Prog, r *Report) {
	r.MinInstances["C18.R1"] = 4
	r.MinInstances["C18.R2"] = 2
	r.MinInstances["C18.R3"] = 4
	r.MinInstances["C18.R4"] = 2
	r.MinInstances["C18.R5"] = 3
	r.MinInstances["C18.R6"] = 1
	r.MinInstances["C18.R7"] = 1
	r.MinInstances["C18.R8"] = 1
	c := &c18ctx{p: p, r: r}
	for _, fn := range p.LibFuncs() {
		if pk := fnPkg(fn); pk != nil && pk.Path() == modPath+"/ringbuffer" {
			c.fns = append(c.fns, fn)
		}
	}
	if len(c.fns) == 0 {
		r.Unk("C18.anchor", "package ringbuffer", "-", "no functions found")
		return
	}
	sort.Slice(c.fns, func(i, j int) bool { return c.fns[i].Pos() < c.fns[j].Pos() })
	c.ruleR1()
	c.operations()
	c.ruleR6()
	c.ruleR8()
}

// ---- polynomial helpers ----------------------------------------------------------------

// c18norm: x%c -> x - c*quo(x,c), x/c -> quo(x,c), with canonical quotient names built from the
// normalised arguments; the two names of the buffer size (descriptor field, cached copy) are one.
func c18norm(pc *PolyCtx, p Poly) Poly {
	return c18normD(pc, p, 0)
}

func c18normD(pc *PolyCtx, p Poly, depth int) Poly {
	if depth > 6 {
		return p
	}
	whole := map[string]Poly{}
	for _, s := range p.Symbols() {
		if strings.HasSuffix(s, ".bufferSize") || strings.HasSuffix(s, "›.size") {
			whole[s] = polySym("SIZE")
			continue
		}
		isDiv, isMod := strings.HasPrefix(s, "/("), strings.HasPrefix(s, "%(")
		args := pc.opArgs[s]
		if !(isDiv || isMod) || len(args) != 2 {
			continue
		}
		a, b := c18normD(pc, args[0], depth+1), c18normD(pc, args[1], depth+1)
		q := polySym(strings.ReplaceAll("quo("+a.String()+","+b.String()+")", "*", "·"))
		if isDiv {
			whole[s] = q
		} else {
			whole[s] = a.Sub(b.Mul(q))
		}
	}
	if len(whole) == 0 {
		return p
	}
	out, _ := substPoly(p, whole, nil)
	return out
}

// c18normSub: c18norm with whole symbols replaced by given (already normalised) polynomials at
// every level, for reading a helper's formula in its caller's terms.
func c18normSub(pc *PolyCtx, p Poly, subst map[string]Poly, depth int) Poly {
	if depth > 6 {
		return p
	}
	whole := map[string]Poly{}
	for _, s := range p.Symbols() {
		if q, has := subst[s]; has {
			whole[s] = q
			continue
		}
		if strings.HasSuffix(s, ".bufferSize") || strings.HasSuffix(s, "›.size") {
			whole[s] = polySym("SIZE")
			continue
		}
		isDiv, isMod := strings.HasPrefix(s, "/("), strings.HasPrefix(s, "%(")
		args := pc.opArgs[s]
		if !(isDiv || isMod) || len(args) != 2 {
			continue
		}
		a, b := c18normSub(pc, args[0], subst, depth+1), c18normSub(pc, args[1], subst, depth+1)
		q := c18quo(a, b)
		if isDiv {
			whole[s] = q
		} else {
			whole[s] = a.Sub(b.Mul(q))
		}
	}
	if len(whole) == 0 {
		return p
	}
	out, _ := substPoly(p, whole, nil)
	return out
}

// c18isSizeMask: q is a single `x & (SIZE-1)` value.
func c18isSizeMask(pc *PolyCtx, q Poly) bool {
	syms := q.Symbols()
	if len(q) != 1 || len(syms) != 1 || !strings.HasPrefix(syms[0], "&(") {
		return false
	}
	args := pc.opArgs[syms[0]]
	if len(args) != 2 {
		return false
	}
	m := c18Size.Sub(polyConst(1))
	return c18norm(pc, args[1]).Equal(m) || c18norm(pc, args[0]).Equal(m)
}

func c18quo(a, b Poly) Poly {
	return polySym(strings.ReplaceAll("quo("+a.String()+","+b.String()+")", "*", "·"))
}

func c18rem(a, b Poly) Poly { return a.Sub(b.Mul(c18quo(a, b))) }

var c18Size = polySym("SIZE")

// fieldLoads: loads of owner.field in fn.
func c18fieldLoads(fn *ssa.Function, owner, field string) []*ssa.UnOp {
	var out []*ssa.UnOp
	Instrs(fn, func(in ssa.Instruction) {
		if u, ok := in.(*ssa.UnOp); ok && u.Op == token.MUL {
			if o, f, _, okf := FieldOf(u); okf && o == owner && f == field {
				out = append(out, u)
			}
		}
	})
	return out
}

// ---- R1 ----------------------------------------------------------------------------------

func (c *c18ctx) isCreator(fn *ssa.Function) bool {
	return len(StoresTo(fn, c18Desc, "bufferSize")) > 0
}

func (c *c18ctx) ruleR1() {
	p, r := c.p, c.r
	nR, nW := 0, 0
	for _, fn := range c.fns {
		sr := StoresTo(fn, c18Desc, "readPointer")
		sw := StoresTo(fn, c18Desc, "writePointer")
		if len(sr)+len(sw) == 0 {
			continue
		}
		r.Fn(FuncName(fn))
		if c.isCreator(fn) {
			r.OK("C18.R1", FuncName(fn)+": creator", p.Pos(fn.Pos()), "stores the size and both pointers (a new, empty buffer)")
			for i, st := range append(append([]*ssa.Store{}, sr...), sw...) {
				k, isC := constInt(st.Val)
				r.Check(isC && k == 0, "C18.R1", fmt.Sprintf("%s: pointers start at 0 #%d", FuncName(fn), i+1), p.InstrPos(st), "stored constant 0", "the creator stores a pointer value other than 0: the buffer does not start empty at position 0")
			}
			continue
		}
		nR += len(sr)
		nW += len(sw)
		r.Check(len(sr) == 0 || len(sw) == 0, "C18.R1", FuncName(fn)+": stores one side's pointer only", p.Pos(fn.Pos()),
			"stores only the "+map[bool]string{true: "read", false: "write"}[len(sr) > 0]+" pointer",
			"this operation stores the read pointer and the write pointer: each pointer belongs to one side (the consumer advances the read pointer, the producer the write pointer); an operation that moves the other side's pointer loses or repeats bytes the other side has in flight")
		if len(sr) > 0 {
			// a consumer does not write into the data region
			var bad ssa.Instruction
			Instrs(fn, func(in ssa.Instruction) {
				if cc := CallOf(in); cc != nil {
					if b, ok := cc.Value.(*ssa.Builtin); ok && b.Name() == "copy" && c.isRaw(cc.Args[0]) {
						bad = in
					}
				}
				if st, ok := in.(*ssa.Store); ok {
					if ia, ok := st.Addr.(*ssa.IndexAddr); ok && c.isRaw(ia.X) {
						bad = in
					}
				}
			})
			if bad != nil {
				r.Bad("C18.R1", FuncName(fn)+": a consumer does not write the data region", p.InstrPos(bad), "an operation that advances the read pointer writes into the data region: bytes the producer put there are altered before (or while) they are read")
			} else {
				r.OK("C18.R1", FuncName(fn)+": a consumer does not write the data region", p.Pos(fn.Pos()), "no copy into / store to RingBuffer.raw")
			}
		}
	}
	if nR == 0 || nW == 0 {
		r.Unk("C18.R1", "pointer stores", "-", fmt.Sprintf("stores of the read pointer outside the creator: %d, of the write pointer: %d: the descriptor's fields are not found under the anchored names", nR, nW))
	}
	// the cached size is only ever a copy of the descriptor's size
	for _, fn := range c.fns {
		for i, st := range StoresTo(fn, c18Ring, "size") {
			_, f, _, ok := FieldOf(stripConv(st.Val))
			r.Check(ok && f == "bufferSize", "C18.R1", fmt.Sprintf("%s: RingBuffer.size is a copy of the descriptor's size #%d", FuncName(fn), i+1), p.InstrPos(st),
				"assigned from bufferDescription.bufferSize", "RingBuffer.size is assigned something other than the descriptor's bufferSize: the operations that use the cached size and those that use the descriptor's wrap at different places")
		}
	}
}

// isRaw: v is (a slice of) a load of RingBuffer.raw.
func (c *c18ctx) isRaw(v ssa.Value) bool {
	for i := 0; i < 4; i++ {
		switch x := v.(type) {
		case *ssa.Slice:
			v = x.X
			continue
		case *ssa.UnOp:
			if x.Op == token.MUL {
				o, f, _, ok := FieldOf(x)
				return ok && o == c18Ring && f == "raw"
			}
		}
		break
	}
	return false
}

var _ = types.Typ

// ---- operations: R2-R5, R7 -----------------------------------------------------------------

func (c *c18ctx) operations() {
	for _, fn := range c.fns {
		if c.isCreator(fn) {
			continue
		}
		for _, which := range []string{"readPointer", "writePointer"} {
			for i, st := range StoresTo(fn, c18Desc, which) {
				c.operation(fn, st, which, i+1)
			}
		}
	}
	c.accessors()
}

type c18alt struct {
	v     ssa.Value
	phi   *ssa.Phi // the phi this alternative enters through (nil: the value itself)
	idx   int
	chain []c18edge // all phi edges passed on the way (outermost first)
}

type c18edge struct {
	phi *ssa.Phi
	idx int
}

// c18alts: the values v can be, through at most `depth` levels of phis (loop phis are not entered).
func c18alts(v ssa.Value, depth int) []c18alt {
	var out []c18alt
	var walk func(v ssa.Value, chain []c18edge, d int)
	walk = func(v ssa.Value, chain []c18edge, d int) {
		if cv, isCv := v.(*ssa.Convert); isCv && isIntLike(cv.Type()) && isIntLike(cv.X.Type()) && intSize(cv.Type()) >= intSize(cv.X.Type()) {
			if _, isPhi := cv.X.(*ssa.Phi); isPhi {
				v = cv.X
			}
		}
		if ph, ok := v.(*ssa.Phi); ok && d < depth {
			loop := false
			for _, pr := range ph.Block().Preds {
				if ph.Block().Dominates(pr) {
					loop = true
				}
			}
			if !loop {
				for i, e := range ph.Edges {
					walk(e, append(append([]c18edge{}, chain...), c18edge{ph, i}), d+1)
				}
				return
			}
		}
		a := c18alt{v: v, chain: chain}
		if len(chain) > 0 {
			a.phi, a.idx = chain[len(chain)-1].phi, chain[len(chain)-1].idx
		}
		out = append(out, a)
	}
	walk(v, nil, 0)
	return out
}

// c18edgeConds: the branch conditions known to hold when control enters ph through edge idx:
// the test that selects the edge itself and the tests that control the predecessor.
func c18edgeConds(ph *ssa.Phi, idx int) []ctrl {
	blk := ph.Block()
	pred := blk.Preds[idx]
	var out []ctrl
	if iff, ok := pred.Instrs[len(pred.Instrs)-1].(*ssa.If); ok && pred.Succs[0] != pred.Succs[1] {
		if pred.Succs[0] == blk {
			out = append(out, ctrl{iff, 0})
		} else if pred.Succs[1] == blk {
			out = append(out, ctrl{iff, 1})
		}
	}
	seen := map[*ssa.If]bool{}
	for _, ct := range controllingIfs(blk) {
		seen[ct.If] = true
	}
	for _, ct := range controllingIfs(pred) {
		if !seen[ct.If] {
			out = append(out, ct)
		}
	}
	return out
}

func (c *c18ctx) operation(fn *ssa.Function, st *ssa.Store, which string, ord int) {
	p, r := c.p, c.r
	r.Fn(FuncName(fn))
	g := NewGuardCtx(p, fn, nil)
	pc := g.PC
	consumer := which == "readPointer"
	side := map[bool]string{true: "read", false: "write"}[consumer]
	name := fmt.Sprintf("%s: %s-pointer store #%d", FuncName(fn), side, ord)
	own := c18fieldLoads(fn, c18Desc, which)
	wl := c18fieldLoads(fn, c18Desc, "writePointer")
	rl := c18fieldLoads(fn, c18Desc, "readPointer")
	rawV := pc.Of(st.Val)
	V := c18norm(pc, rawV)
	var ownP Poly
	if len(own) > 0 {
		ownP = c18norm(pc, pc.Of(own[0]))
	}
	mentions := func(q Poly, s Poly) bool {
		for _, sym := range s.Symbols() {
			for mono := range q {
				for _, f := range strings.Split(mono, "*") {
					if f == sym {
						return true
					}
				}
			}
		}
		return false
	}
	// ---- form (a): pointer + N
	if ownP != nil && len(ownP) == 1 {
		N := V.Sub(ownP)
		if !mentions(N, ownP) && !N.IsZero() {
			r.OK("C18.R2", name+" advances by the count moved", p.InstrPos(st), fmt.Sprintf("stored value = loaded %s pointer + N, N = %s", side, N))
			c.moving(fn, g, st, consumer, name, own[0], ownP, N, wl, rl)
			return
		}
	}
	// ---- form (b): a consumer jumps to a position derived from the write pointer (discard)
	if consumer && len(wl) > 0 {
		c.discard(fn, g, st, name, wl[0])
		return
	}
	if k, isC := constInt(st.Val); isC {
		r.Bad("C18.R2", name+" advances by the count moved", p.InstrPos(st), fmt.Sprintf("the %s pointer is set to the constant %d outside the creator: the pointers only ever count up (position = pointer %% size); resetting one loses the bytes in flight and desynchronises the other side", side, k))
		return
	}
	r.Unk("C18.R2", name+" advances by the count moved", p.InstrPos(st), fmt.Sprintf("the stored value %s is neither the loaded %s pointer plus a count nor a position derived from the write pointer: not decided", V, side))
}

// moving: an operation that stores pointer+N.
func (c *c18ctx) moving(fn *ssa.Function, g *GuardCtx, st *ssa.Store, consumer bool, name string, ownLoad *ssa.UnOp, ownP, N Poly, wl, rl []*ssa.UnOp) {
	p, r := c.p, c.r
	pc := g.PC
	fname := FuncName(fn)
	// N >= 0 for a consumer (a negative count moves the pointer back: bytes delivered twice)
	if consumer {
		rawN := pc.Of(st.Val).Sub(pc.Of(ownLoad))
		if g.Prove(rawN, st) {
			r.OK("C18.R2", name+": N >= 0", p.InstrPos(st), "proven from the dominating tests")
		} else {
			// positive evidence: nothing at all tests the count or what it is made of
			tested := false
			for _, ct := range controllingIfs(st.Block()) {
				if bo, ok := ct.If.Cond.(*ssa.BinOp); ok {
					for _, s := range rawN.Symbols() {
						if pc.Of(bo.X).Sub(pc.Of(bo.Y))[s] != 0 {
							tested = true
						}
					}
				}
			}
			if tested {
				r.Unk("C18.R2", name+": N >= 0", p.InstrPos(st), "the count is tested before the store but N >= 0 does not follow from the tests in a form the guard engine reads: not decided")
			} else {
				r.Bad("C18.R2", name+": N >= 0", p.InstrPos(st), "the read pointer is advanced by a count ("+N.String()+") that no test on the way to the store bounds from below: a negative request moves the pointer back, and bytes already delivered are delivered again")
			}
		}
	}
	// the wrap test and the first piece
	expLo := c18rem(ownP, c18Size)
	expHiNoWrap := c18rem(ownP.Add(N), c18Size)
	Qa, Qb := c18quo(ownP.Add(N), c18Size), c18quo(ownP, c18Size)
	// wrapTruth: what cond evaluates to when the data wrap / do not wrap; ok=false: not a test of the two quotients
	// condCmp: cond as a comparison x op y of normalised polynomials; a call of a module helper whose
	// single return is a comparison of its parameters / loads is read through the call.
	condCmp := func(cond ssa.Value) (x, y Poly, op token.Token, neg bool, ok bool) {
		for {
			u, isU := cond.(*ssa.UnOp)
			if !isU || u.Op != token.NOT {
				break
			}
			cond, neg = u.X, !neg
		}
		switch b := cond.(type) {
		case *ssa.BinOp:
			return c18norm(pc, pc.Of(b.X)), c18norm(pc, pc.Of(b.Y)), b.Op, neg, true
		case *ssa.Call:
			callee := b.Call.StaticCallee()
			if callee == nil || !isModuleFn(callee) {
				return nil, nil, 0, false, false
			}
			var ret *ssa.Return
			n := 0
			for _, blk := range callee.Blocks {
				if rt, isR := blk.Instrs[len(blk.Instrs)-1].(*ssa.Return); isR && blk != callee.Recover {
					ret = rt
					n++
				}
			}
			if n != 1 || len(ret.Results) != 1 {
				return nil, nil, 0, false, false
			}
			inner, isB := ret.Results[0].(*ssa.BinOp)
			if !isB {
				return nil, nil, 0, false, false
			}
			cpc := NewPolyCtx(callee)
			cpc.G = true
			subst := map[string]Poly{}
			for i, prm := range callee.Params {
				if i < len(b.Call.Args) && isIntLike(prm.Type()) {
					for _, sym := range cpc.Of(prm).Symbols() {
						subst[sym] = c18norm(pc, pc.Of(b.Call.Args[i]))
					}
				}
			}
			return c18normSub(cpc, cpc.Of(inner.X), subst, 0), c18normSub(cpc, cpc.Of(inner.Y), subst, 0), inner.Op, neg, true
		}
		return nil, nil, 0, false, false
	}
	wrapTruth := func(cond ssa.Value) (onWrap, onNoWrap bool, ok bool) {
		x, y, op, neg, okc := condCmp(cond)
		if !okc {
			return false, false, false
		}
		if x.Equal(Qb) && y.Equal(Qa) {
			x, y = y, x
			op = map[token.Token]token.Token{token.LSS: token.GTR, token.GTR: token.LSS, token.LEQ: token.GEQ, token.GEQ: token.LEQ, token.EQL: token.EQL, token.NEQ: token.NEQ}[op]
		}
		if !x.Equal(Qa) || !y.Equal(Qb) {
			return false, false, false
		}
		// Qa >= Qb always; wrap: Qa > Qb, no wrap: Qa == Qb
		switch op {
		case token.GTR, token.NEQ:
			onWrap, onNoWrap = true, false
		case token.LEQ, token.EQL:
			onWrap, onNoWrap = false, true
		case token.GEQ:
			onWrap, onNoWrap = true, true
		case token.LSS:
			onWrap, onNoWrap = false, false
		default:
			return false, false, false
		}
		if neg {
			onWrap, onNoWrap = !onWrap, !onNoWrap
		}
		return onWrap, onNoWrap, true
	}
	// onWrapSide: is block b reached only when the data wrap (1), only when they do not (0), or unknown (-1)
	sideOf := func(conds []ctrl) int {
		for _, ct := range conds {
			w, nw, ok := wrapTruth(ct.If.Cond)
			if !ok || w == nw {
				continue
			}
			truth := ct.Branch == 0
			if truth == w {
				return 1
			}
			return 0
		}
		return -1
	}

	// wrapEvidence: the wrap side was not recognised under conds.  A comparison of p/size with the
	// quotient of something other than p+N is positive evidence (the test looks at the wrong end);
	// anything else is left undecided.
	wrapEvidence := func(conds []ctrl, rule, key string, at ssa.Instruction) {
		for _, ct := range conds {
			x, y, _, _, ok := condCmp(ct.If.Cond)
			if !ok {
				continue
			}
			for _, pr := range [][2]Poly{{x, y}, {y, x}} {
				if !pr[1].Equal(Qb) || pr[0].Equal(Qa) {
					continue
				}
				syms := pr[0].Symbols()
				if len(pr[0]) == 1 && len(syms) == 1 && strings.HasPrefix(syms[0], "quo(") && strings.HasSuffix(syms[0], ",SIZE)") {
					other := strings.TrimSuffix(strings.TrimPrefix(syms[0], "quo("), ",SIZE)")
					r.Bad(rule, key, p.InstrPos(ct.If), fmt.Sprintf("the test that tells a transfer that crosses the end of the buffer from one that does not compares pointer/size with (%s)/size, but the transfer ends at pointer+N = %s: whenever the two differ the pieces are cut at the wrong place (more bytes than N are moved, or the part after the wrap is left out)", strings.ReplaceAll(other, "·", "*"), ownP.Add(N)))
					return
				}
			}
		}
		r.Unk(rule, key, p.InstrPos(at), "the condition is not recognised as (p+N)/size > p/size: not decided")
	}
	_ = wrapEvidence

	// pieces: slices of the data region
	type piece struct {
		s      *ssa.Slice
		lo, hi Poly
	}
	asPiece := func(v ssa.Value) *piece {
		s, ok := v.(*ssa.Slice)
		if !ok || !c.isRaw(s.X) {
			return nil
		}
		lo := polyConst(0)
		if s.Low != nil {
			lo = c18norm(pc, pc.Of(s.Low))
		}
		var hi Poly
		if s.High != nil {
			hi = c18norm(pc, pc.Of(s.High))
		}
		return &piece{s, lo, hi}
	}
	// checkFirst: lo == p%size, hi in {(p+N)%size on the no-wrap side, size on the wrap side}
	checkFirst := func(pc1 *piece, what string) (sawWrap bool) {
		if pc1.lo.Equal(expLo) {
			r.OK("C18.R3", fname+": "+what+" starts at pointer % size", p.InstrPos(pc1.s), "low bound = "+pc1.lo.String())
		} else if sh := func() int64 {
			for _, k := range []int64{-2, -1, 1, 2} {
				if pc1.lo.Equal(c18rem(ownP.Add(polyConst(k)), c18Size)) {
					return k
				}
			}
			return 0
		}(); sh != 0 {
			r.Bad("C18.R3", fname+": "+what+" starts at pointer % size", p.InstrPos(pc1.s), fmt.Sprintf("the first piece starts at (pointer %+d) %% size: every transfer is shifted by %d byte(s) against the position the pointer stands for", sh, sh))
		} else if c18isSizeMask(pc, pc1.lo) {
			r.Bad("C18.R3", fname+": "+what+" starts at pointer % size", p.InstrPos(pc1.s), "the offset into the data region is taken with a bit mask (x & (size-1)) instead of x % size: the two agree only when the size is a power of two, and the size is whatever the creator of the buffer chose; for any other size the pieces are read from / written to the wrong places")
		} else if d, isC := pc1.lo.Sub(expLo).IsConst(); isC {
			r.Bad("C18.R3", fname+": "+what+" starts at pointer % size", p.InstrPos(pc1.s), fmt.Sprintf("the first piece starts %d byte(s) away from pointer %% size: every transfer is shifted, bytes are skipped or repeated", d))
		} else {
			r.Unk("C18.R3", fname+": "+what+" starts at pointer % size", p.InstrPos(pc1.s), "the low bound "+pc1.lo.String()+" is not recognised as pointer % size: not decided")
		}
		if pc1.s.High == nil {
			r.Unk("C18.R3", fname+": "+what+" ends at (pointer+N) % size, or at size when the data wrap", p.InstrPos(pc1.s), "no high bound")
			return true
		}
		alts := c18alts(pc1.s.High, 2)
		sawNo := false
		for _, a := range alts {
			h := c18norm(pc, pc.Of(a.v))
			sd := -1
			if a.phi != nil {
				var conds []ctrl
				for _, e := range a.chain {
					conds = append(conds, c18edgeConds(e.phi, e.idx)...)
				}
				sd = sideOf(conds)
			} else {
				sd = sideOf(controllingIfs(pc1.s.Block()))
			}
			key := fname + ": " + what + " ends at (pointer+N) % size, or at size when the data wrap"
			switch {
			case h.Equal(c18Size):
				sawWrap = true
				switch sd {
				case 1:
					r.OK("C18.R4", key+" [size]", p.InstrPos(pc1.s), "end = size exactly where (p+N)/size > p/size")
				case 0:
					r.Bad("C18.R4", key+" [size]", p.InstrPos(pc1.s), "the end of the first piece is the buffer size on the side where the data do NOT cross the end of the buffer: bytes beyond the transfer are moved")
				default:
					// a recognised comparison of the two quotients that does not separate the cases?
					bad := false
					var conds []ctrl
					for _, e := range a.chain {
						conds = append(conds, c18edgeConds(e.phi, e.idx)...)
					}
					for _, ct := range conds {
						if w, nw, ok := wrapTruth(ct.If.Cond); ok && w == nw {
							bad = true
							r.Bad("C18.R4", key+" [size]", p.InstrPos(ct.If), "the test that selects `end = size` compares (p+N)/size with p/size in a way that does not tell a wrap from no wrap (it is the same for both): the transfer ends at the wrong place in one of the cases")
						}
					}
					if !bad {
						wrapEvidence(conds, "C18.R4", key+" [size]", pc1.s)
					}
				}
			case h.Equal(expHiNoWrap):
				sawNo = true
				switch sd {
				case 0:
					r.OK("C18.R4", key+" [(p+N)%size]", p.InstrPos(pc1.s), "end = (p+N) % size exactly where the quotients are equal")
				case 1:
					r.Bad("C18.R4", key+" [(p+N)%size]", p.InstrPos(pc1.s), "the end of the first piece is (p+N) % size on the side where the data cross the end of the buffer: that is below the start, the slice expression panics or the transfer is cut")
				default:
					if len(alts) == 1 {
						// one alternative only: right when the data never wrap; the wrap case is judged below
						r.Unk("C18.R4", key+" [(p+N)%size]", p.InstrPos(pc1.s), "the end is always (p+N) % size: a transfer that crosses the end of the buffer is not treated separately in a form the rule reads")
					} else {
						r.Unk("C18.R4", key+" [(p+N)%size]", p.InstrPos(pc1.s), "the condition under which the end is (p+N) % size is not recognised: not decided")
					}
				}
			default:
				if d, isC := h.Sub(expHiNoWrap).IsConst(); isC {
					r.Bad("C18.R3", key, p.InstrPos(pc1.s), fmt.Sprintf("the first piece ends %d byte(s) away from (pointer+N) %% size: a byte is lost or repeated at every transfer", d))
				} else if d, isC := h.Sub(c18Size).IsConst(); isC {
					r.Bad("C18.R3", key, p.InstrPos(pc1.s), fmt.Sprintf("on the wrap side the first piece ends %d byte(s) away from the buffer size", d))
				} else {
					r.Unk("C18.R3", key, p.InstrPos(pc1.s), "end "+h.String()+" not recognised: not decided")
				}
			}
		}
		if sawNo && sawWrap {
			r.OK("C18.R3", fname+": "+what+" has both ends", p.InstrPos(pc1.s), "(p+N) % size and size")
		}
		if !sawNo && !sawWrap {
			return true // unrecognised ends: do not conclude that the wrap side is absent
		}
		return sawWrap
	}
	// checkSecond: [0 : N - len(first)) and on the wrap side
	checkSecond := func(first, second *piece, at ssa.Instruction, what string) {
		key := fname + ": " + what
		if !second.lo.IsZero() {
			r.Bad("C18.R3", key+" starts at 0", p.InstrPos(second.s), "the piece moved after the wrap does not start at offset 0 of the data region (low bound "+second.lo.String()+")")
		} else {
			r.OK("C18.R3", key+" starts at 0", p.InstrPos(second.s), "low bound 0")
		}
		firstLen := pc.lenOf(first.s)
		k := Poly(nil)
		if second.s.High != nil {
			k = pc.Of(second.s.High)
		}
		rawN := pc.Of(st.Val).Sub(pc.Of(ownLoad))
		switch {
		case k == nil:
			r.Unk("C18.R3", key+" has length N - len(first)", p.InstrPos(second.s), "no high bound")
		case k.Add(firstLen).Sub(rawN).IsZero(), c18norm(pc, k).Equal(expHiNoWrap):
			r.OK("C18.R3", key+" has length N - len(first)", p.InstrPos(second.s), "high bound = "+k.String())
		default:
			if d, isC := k.Add(firstLen).Sub(rawN).IsConst(); isC {
				r.Bad("C18.R3", key+" has length N - len(first)", p.InstrPos(second.s), fmt.Sprintf("the two pieces together are %d byte(s) off the count the pointer advances by: the stream loses or repeats bytes at every wrap", d))
			} else if tot := k.Add(firstLen); len(tot.Symbols()) == 1 && tot[tot.Symbols()[0]] == 1 && len(tot) == 1 {
				r.Bad("C18.R3", key+" has length N - len(first)", p.InstrPos(second.s), fmt.Sprintf("the two pieces together hold %s bytes, but the pointer advances by %s: two different counts, so whenever they differ bytes are skipped or delivered twice", tot, rawN))
			} else {
				r.Unk("C18.R3", key+" has length N - len(first)", p.InstrPos(second.s), "high bound "+k.String()+" not recognised: not decided")
			}
		}
		switch sideOf(controllingIfs(at.Block())) {
		case 1:
			r.OK("C18.R4", key+" is moved only when the data wrap", p.InstrPos(at), "under (p+N)/size > p/size")
		case 0:
			r.Bad("C18.R4", key+" is moved only when the data wrap", p.InstrPos(at), "the piece at the start of the data region is moved on the side where the data do not cross the end of the buffer")
		default:
			wrapEvidence(controllingIfs(at.Block()), "C18.R4", key+" is moved only when the data wrap", at)
		}
	}

	if consumer {
		// the returned bytes
		var first *piece
		wrapSeen := false
		nSecond, nLeaves := 0, 0
		for _, b := range fn.Blocks {
			if b == fn.Recover {
				continue
			}
			ret, ok := b.Instrs[len(b.Instrs)-1].(*ssa.Return)
			if !ok || len(ret.Results) == 0 || !(InstrDominates(st, ret)) {
				continue
			}
			if _, isSl := ret.Results[0].Type().Underlying().(*types.Slice); !isSl {
				continue
			}
			for _, a := range c18alts(returnedValue(ret, 0), 3) {
				nLeaves++
				if pc1 := asPiece(a.v); pc1 != nil {
					if first == nil || first.s != pc1.s {
						if first == nil {
							first = pc1
							wrapSeen = checkFirst(pc1, "the returned bytes: first piece")
						}
					}
					// a lone first piece on the wrap side needs N <= len(first)
					var conds []ctrl
					for _, e := range a.chain {
						conds = append(conds, c18edgeConds(e.phi, e.idx)...)
					}
					if sideOf(conds) == 1 {
						rawN := pc.Of(st.Val).Sub(pc.Of(ownLoad))
						want := pc.lenOf(pc1.s).Sub(rawN) // >= 0
						okFit := false
						badFit := int64(0)
						for _, ct := range conds {
							for _, f := range g.condFacts(ct.If.Cond, ct.Branch == 0, "") {
								if f.NE {
									continue
								}
								if d, isC := want.Sub(f.D).IsConst(); isC && d >= 0 {
									okFit = true
								} else if isC {
									badFit = -d
								}
							}
						}
						if okFit {
							r.OK("C18.R3", fname+": on the wrap side the first piece alone is returned only when it holds all N bytes", p.InstrPos(pc1.s), "under N <= len(first)")
						} else if badFit > 0 {
							r.Bad("C18.R3", fname+": on the wrap side the first piece alone is returned only when it holds all N bytes", p.InstrPos(pc1.s), fmt.Sprintf("on the wrap side the first piece is returned alone also when N exceeds its length by up to %d: those bytes at the start of the data region are never delivered, though the pointer passes them", badFit))
						} else {
							r.Unk("C18.R3", fname+": on the wrap side the first piece alone is returned only when it holds all N bytes", p.InstrPos(pc1.s), "the test that lets the first piece stand alone on the wrap side is not recognised as N <= len(first): not decided")
						}
					}
					continue
				}
				if call, ok := a.v.(*ssa.Call); ok {
					if b, isB := call.Call.Value.(*ssa.Builtin); isB && b.Name() == "append" && len(call.Call.Args) == 2 {
						f1 := asPiece(call.Call.Args[0])
						s2 := asPiece(call.Call.Args[1])
						if f1 != nil && s2 != nil {
							nSecond++
							if first == nil {
								first = f1
								wrapSeen = checkFirst(f1, "the returned bytes: first piece")
							}
							checkSecond(f1, s2, call, "the returned bytes: second piece")
							continue
						}
					}
				}
				r.Unk("C18.R3", fname+": the returned bytes", p.InstrPos(ret), "a returned value that is neither a slice of the data region nor such a slice with a second one appended: not decided")
			}
		}
		if nLeaves == 0 {
			r.Unk("C18.R3", fname+": the returned bytes", p.InstrPos(st), "no byte-slice result is returned after the pointer store: where the bytes go is not recognised")
		} else if first != nil && nSecond == 0 && wrapSeen {
			r.Bad("C18.R3", fname+": the returned bytes: second piece", p.InstrPos(first.s), "no way through the function appends the piece at the start of the data region: a read that crosses the end of the buffer delivers only the bytes up to the end while the pointer advances by the full count - the rest are lost")
		}
	} else {
		// the producer: copy(raw[..], data[..]); a copy moves min(len(dst), len(src)) bytes, so a side
		// without an upper bound relies on the other side's
		type cp struct {
			call         *ssa.Call
			dst          *ssa.Slice // nil: the whole data region
			dLo, dLn     Poly       // dLn nil: to the end of the region
			sLo, sLn     Poly       // sLn nil: to the end of the source
			srcIsWhole   bool
			dstHasBounds bool
		}
		var copies []cp
		Instrs(fn, func(in ssa.Instruction) {
			call, ok := in.(*ssa.Call)
			if !ok {
				return
			}
			b, isB := call.Call.Value.(*ssa.Builtin)
			if !isB || b.Name() != "copy" || !c.isRaw(call.Call.Args[0]) || !InstrReaches(call, st) {
				return
			}
			x := cp{call: call, dLo: polyConst(0), sLo: polyConst(0)}
			if d, isS := call.Call.Args[0].(*ssa.Slice); isS {
				x.dst = d
				if d.Low != nil {
					x.dLo = pc.Of(d.Low)
				}
				if d.High != nil {
					x.dLn = pc.Of(d.High).Sub(x.dLo)
					x.dstHasBounds = true
				}
			}
			if sl, isS := call.Call.Args[1].(*ssa.Slice); isS {
				if sl.Low != nil {
					x.sLo = pc.Of(sl.Low)
				}
				if sl.High != nil {
					x.sLn = pc.Of(sl.High).Sub(x.sLo)
				}
			} else {
				x.srcIsWhole = true
			}
			copies = append(copies, x)
		})
		rawN := pc.Of(st.Val).Sub(pc.Of(ownLoad))
		var firstP *piece
		var firstLen Poly
		wrapSeenP := false
		firstRes := map[string]Poly{} // the first copy's result stands for len(first)
		nSecond := 0
		for _, cpy := range copies {
			isSecond := c18norm(pc, cpy.dLo).IsZero()
			if !isSecond {
				if firstP != nil {
					r.Unk("C18.R3", fname+": the bytes stored", p.InstrPos(cpy.call), "more than one copy to a position other than the start of the data region: not decided")
					continue
				}
				if cpy.dst == nil || cpy.dst.High == nil {
					r.Unk("C18.R3", fname+": the bytes stored: first piece", p.InstrPos(cpy.call), "the destination of the copy at pointer % size has no upper bound: not decided")
					continue
				}
				firstP = asPiece(cpy.dst)
				firstLen = cpy.dLn
				wrapSeenP = checkFirst(firstP, "the bytes stored: first piece")
				if sym := pc.Of(cpy.call).Symbols(); len(sym) == 1 {
					firstRes[sym[0]] = firstLen
				}
				key := fname + ": the bytes stored: first piece takes the first bytes of the source"
				switch {
				case !cpy.sLo.IsZero():
					r.Bad("C18.R3", key, p.InstrPos(cpy.call), "the first copy does not start at the first byte of the caller's slice (offset "+cpy.sLo.String()+")")
				case cpy.sLn == nil || cpy.sLn.Sub(firstLen).IsZero():
					r.OK("C18.R3", key, p.InstrPos(cpy.call), "source from offset 0, as many bytes as the destination holds")
				default:
					if d, isC := cpy.sLn.Sub(firstLen).IsConst(); isC && d < 0 {
						r.Bad("C18.R3", key, p.InstrPos(cpy.call), fmt.Sprintf("the source of the first copy is %d byte(s) shorter than its destination: the last byte(s) before the wrap point keep their old contents", -d))
					} else if isC {
						r.OK("C18.R3", key, p.InstrPos(cpy.call), "source from offset 0, at least as long as the destination")
					} else {
						r.Unk("C18.R3", key, p.InstrPos(cpy.call), "source bounds not recognised: not decided")
					}
				}
				continue
			}
			// a copy to the start of the data region: the second piece
			if firstP == nil {
				r.Unk("C18.R3", fname+": the bytes stored: second piece", p.InstrPos(cpy.call), "a copy to the start of the data region precedes the copy at pointer % size: not decided")
				continue
			}
			nSecond++
			sub := func(q Poly) Poly {
				if q == nil {
					return nil
				}
				out, _ := substPoly(q, firstRes, nil)
				return out
			}
			E := rawN.Sub(firstLen)
			dLn, sLn, sLo := sub(cpy.dLn), sub(cpy.sLn), sub(cpy.sLo)
			key := fname + ": the bytes stored: second piece has length N - len(first)"
			r.OK("C18.R3", fname+": the bytes stored: second piece starts at 0", p.InstrPos(cpy.call), "destination offset 0")
			if dLn == nil && sLn == nil {
				r.Bad("C18.R3", key, p.InstrPos(cpy.call), "the copy to the start of the data region is bounded neither by its destination nor by its source: it moves every remaining byte of the caller's slice, not N - len(first); when the write was clamped to the free space, the bytes that were not accepted are stored too and overwrite data that have not been read")
			} else {
				verdict := 0 // 1 ok, -1 bad, 0 unknown
				msg := ""
				for _, b := range []Poly{dLn, sLn} {
					if b == nil {
						continue
					}
					switch {
					case b.Sub(E).IsZero(), c18norm(pc, b).Equal(expHiNoWrap):
						if verdict == 0 {
							verdict = 1
						}
					default:
						if d, isC := b.Sub(E).IsConst(); isC {
							if d < 0 || verdict != 1 { // a looser bound beside an exact one is harmless
								verdict, msg = -1, fmt.Sprintf("the two pieces together are %d byte(s) off the count the pointer advances by: the stream loses or repeats bytes at every wrap", d)
							}
						} else if tot := b.Add(firstLen); len(tot) == 1 && len(tot.Symbols()) == 1 && tot[tot.Symbols()[0]] == 1 {
							verdict, msg = -1, fmt.Sprintf("the two pieces together hold %s bytes, but the pointer advances by %s: two different counts", tot, rawN)
						} else if verdict == 0 {
							msg = "bound " + b.String() + " not recognised"
						}
					}
				}
				switch verdict {
				case 1:
					r.OK("C18.R3", key, p.InstrPos(cpy.call), "the copy moves N - len(first) bytes")
				case -1:
					r.Bad("C18.R3", key, p.InstrPos(cpy.call), msg)
				default:
					r.Unk("C18.R3", key, p.InstrPos(cpy.call), msg+": not decided")
				}
			}
			key = fname + ": the bytes stored: second piece continues the source"
			switch {
			case sLo.Sub(firstLen).IsZero():
				r.OK("C18.R3", key, p.InstrPos(cpy.call), "source starts at len(first)")
			case sLo.IsZero():
				r.Bad("C18.R3", key, p.InstrPos(cpy.call), "the second copy takes the caller's bytes from their start again: the first bytes are stored twice and the rest are lost")
			default:
				if d, isC := sLo.Sub(firstLen).IsConst(); isC {
					r.Bad("C18.R3", key, p.InstrPos(cpy.call), fmt.Sprintf("the second copy takes the caller's bytes from %d byte(s) past where the first copy stopped: bytes are skipped or stored twice at every wrap", d))
				} else {
					r.Unk("C18.R3", key, p.InstrPos(cpy.call), "source offset "+sLo.String()+" not recognised: not decided")
				}
			}
			key = fname + ": the bytes stored: second piece is moved only when the data wrap"
			switch sideOf(controllingIfs(cpy.call.Block())) {
			case 1:
				r.OK("C18.R4", key, p.InstrPos(cpy.call), "under (p+N)/size > p/size")
			case 0:
				r.Bad("C18.R4", key, p.InstrPos(cpy.call), "the piece at the start of the data region is moved on the side where the data do not cross the end of the buffer")
			default:
				wrapEvidence(controllingIfs(cpy.call.Block()), "C18.R4", key, cpy.call)
			}
		}
		if firstP == nil {
			r.Unk("C18.R3", fname+": the bytes stored", p.InstrPos(st), "no copy into the data region at pointer % size found in the producer")
		} else if nSecond == 0 && wrapSeenP {
			r.Bad("C18.R3", fname+": the bytes stored: second piece", p.InstrPos(firstP.s), "no copy to the start of the data region: a write that crosses the end of the buffer stores only the bytes up to the end while the pointer advances by the full count")
		}
		// the count returned is the count the pointer advanced by
		for _, b := range fn.Blocks {
			if b == fn.Recover {
				continue
			}
			ret, ok := b.Instrs[len(b.Instrs)-1].(*ssa.Return)
			if !ok || len(ret.Results) == 0 || !InstrDominates(st, ret) || !isIntLike(ret.Results[0].Type()) {
				continue
			}
			got := c18norm(pc, pc.Of(returnedValue(ret, 0)))
			if got.Equal(N) {
				r.OK("C18.R2", fname+": reports the count it stored", p.InstrPos(ret), "returned count = N")
			} else if d, isC := got.Sub(N).IsConst(); isC {
				r.Bad("C18.R2", fname+": reports the count it stored", p.InstrPos(ret), fmt.Sprintf("the count reported to the caller differs by %d from the count the write pointer advanced by: the caller resumes at the wrong byte", d))
			} else {
				r.Unk("C18.R2", fname+": reports the count it stored", p.InstrPos(ret), "returned "+got.String()+" vs N = "+N.String()+": not decided")
			}
		}
	}
	c.clamp(fn, g, st, consumer, name, ownP, N, wl, rl)
}

// c18occ: the occupancy / free-space polynomials over the function's own loads.
func (c *c18ctx) quantities(pc *PolyCtx, wl, rl []*ssa.UnOp) (occ, free Poly, ok bool) {
	if len(wl) == 0 || len(rl) == 0 {
		return nil, nil, false
	}
	W, R := c18norm(pc, pc.Of(wl[0])), c18norm(pc, pc.Of(rl[0]))
	occ = W.Sub(R)
	free = c18Size.Sub(occ).Sub(polyConst(1))
	return occ, free, true
}

// clamp (R5): N = min(request, occupancy | free space)
func (c *c18ctx) clamp(fn *ssa.Function, g *GuardCtx, st *ssa.Store, consumer bool, name string, ownP, N Poly, wl, rl []*ssa.UnOp) {
	p, r := c.p, c.r
	pc := g.PC
	fname := FuncName(fn)
	what := map[bool]string{true: "the occupancy w - r", false: "the free space size - (w - r + 1)"}[consumer]
	key := fname + ": N is the smaller of the request and " + what
	occ, free, ok := c.quantities(pc, wl, rl)
	wantKind := map[bool]string{true: "occ", false: "free"}[consumer]
	syms := N.Symbols()
	// the bound taken from an accessor (BytesReadable / BytesWriteable): judged where the accessor is (R5 accessors)
	if len(syms) == 1 && N[syms[0]] == 1 {
		if nv, okv := pc.symValue(syms[0]); okv {
			var cands []ssa.Value
			isMin := false
			switch x := nv.(type) {
			case *ssa.Call:
				if b, isB := x.Call.Value.(*ssa.Builtin); isB && b.Name() == "min" {
					cands, isMin = x.Call.Args, true
				} else if callee := x.Call.StaticCallee(); callee != nil && minMaxKind(callee) == "min" {
					cands, isMin = x.Call.Args, true
				}
			}
			if isMin {
				for _, a := range cands {
					if c.accessorCall(a, wantKind) {
						r.OK("C18.R5", key, p.InstrPos(nv.(ssa.Instruction)), "N = min(request, the accessor that reports "+what+")")
						return
					}
				}
				other := map[string]string{"occ": "free", "free": "occ"}[wantKind]
				for _, a := range cands {
					if c.accessorCall(a, other) {
						r.Bad("C18.R5", key, p.InstrPos(nv.(ssa.Instruction)), "N is bounded by the accessor for the other side's quantity, not by "+what)
						return
					}
				}
			}
		}
	}
	if !ok {
		r.Unk("C18.R5", key, p.InstrPos(st), "the function does not load both pointers and the bound is not an accessor's result: what bounds N is not visible here")
		return
	}
	want := occ
	if !consumer {
		want = free
	}
	if len(syms) != 1 || N[syms[0]] != 1 {
		r.Unk("C18.R5", key, p.InstrPos(st), "N = "+N.String()+" is not a single value: not decided")
		return
	}
	nv, _ := pc.symValue(syms[0]) // nil (a length, a parameter): judged as a plain value below
	// judge the bound candidate
	judge := func(cand Poly, at string) (good bool) {
		if cand.Equal(want) {
			return true
		}
		// built from the same loads but another polynomial: positive evidence
		if d, isC := cand.Sub(want).IsConst(); isC {
			r.Bad("C18.R5", key, at, fmt.Sprintf("the bound on N is %s, %d off %s: ", cand, d, what)+map[bool]string{
				true:  "more than is there can be read (bytes the producer has not written are delivered) or less (bytes are held back for ever)",
				false: "the producer can fill the last free byte, after which full and empty cannot be told apart (w - r == size reads as a full buffer minus one byte: a byte is lost), or it leaves capacity unused",
			}[consumer])
			return false
		}
		if cand.Add(want).IsZero() || cand.Equal(occ.Neg()) {
			r.Bad("C18.R5", key, at, "the bound on N is "+cand.String()+": the pointers are subtracted the wrong way round")
			return false
		}
		r.Unk("C18.R5", key, at, "the bound on N is "+cand.String()+", not recognised as "+want.String()+": not decided")
		return false
	}
	usesPtrs := func(q Poly) bool {
		n := 0
		for _, s := range occ.Symbols() {
			for mono := range q {
				if strings.Contains(mono, s) {
					n++
					break
				}
			}
		}
		return n == 2
	}
	switch x := nv.(type) {
	case *ssa.Phi:
		if len(x.Edges) != 2 {
			r.Unk("C18.R5", key, p.InstrPos(x), "N merges more than two values: not decided")
			return
		}
		pa, pb := c18norm(pc, pc.Of(x.Edges[0])), c18norm(pc, pc.Of(x.Edges[1]))
		bi := -1
		if usesPtrs(pa) && !usesPtrs(pb) {
			bi = 0
		} else if usesPtrs(pb) && !usesPtrs(pa) {
			bi = 1
		}
		if bi < 0 {
			r.Unk("C18.R5", key, p.InstrPos(x), fmt.Sprintf("N is one of %s and %s: which is the bound is not recognised", pa, pb))
			return
		}
		bound, req := []Poly{pa, pb}[bi], []Poly{pa, pb}[1-bi]
		if !judge(bound, p.InstrPos(x)) {
			return
		}
		// the bound is taken when the request exceeds it
		rawB, rawR := pc.Of(x.Edges[bi]), pc.Of(x.Edges[1-bi])
		verdict := 0 // 1 picks the smaller, -1 picks the larger
		for _, ct := range c18edgeConds(x, bi) {
			for _, f := range g.condFacts(ct.If.Cond, ct.Branch == 0, "") {
				if f.NE {
					continue
				}
				if d, isC := rawR.Sub(rawB).Sub(f.D).IsConst(); isC && d >= 0 {
					verdict = 1 // request - bound >= 0 on the bound's edge
				}
				if d, isC := rawB.Sub(rawR).Sub(f.D).IsConst(); isC && d > 0 {
					verdict = -1 // bound - request >= 1 on the bound's edge
				}
			}
		}
		switch verdict {
		case 1:
			r.OK("C18.R5", key, p.InstrPos(x), fmt.Sprintf("N = min(%s, %s)", req, bound))
		case -1:
			r.Bad("C18.R5", key, p.InstrPos(x), "N takes the bound exactly when the request is smaller than it, i.e. the larger of the two: more bytes are moved than were asked for or than there is room / data for")
		default:
			r.Unk("C18.R5", key, p.InstrPos(x), "the test that selects the bound is not recognised as request > bound: not decided")
		}
	case *ssa.Call:
		if args := pc.opArgs[syms[0]]; strings.HasPrefix(syms[0], "min(") && len(args) == 2 {
			a, b := c18norm(pc, args[0]), c18norm(pc, args[1])
			bound := a
			if usesPtrs(b) && !usesPtrs(a) {
				bound = b
			}
			if judge(bound, p.InstrPos(x)) {
				r.OK("C18.R5", key, p.InstrPos(x), "N = min of the request and "+bound.String())
			}
			return
		}
		if strings.HasPrefix(syms[0], "max(") {
			r.Bad("C18.R5", key, p.InstrPos(x), "N is the larger of the request and the bound")
			return
		}
		r.Unk("C18.R5", key, p.InstrPos(x), "N is the result of a call that is not read as a minimum: not decided")
	default:
		if usesPtrs(N) {
			// always the whole occupancy / free space: a read-all
			if judge(N, p.InstrPos(st)) {
				r.OK("C18.R5", key, p.InstrPos(st), "N is "+what+" itself")
			}
			return
		}
		r.Bad("C18.R5", key, p.InstrPos(st), "N ("+N.String()+") is not bounded by "+what+": the pointer can be moved past the other side's pointer")
	}
}

// discard (R7): the consumer jumps to stride*(w/stride)
func (c *c18ctx) discard(fn *ssa.Function, g *GuardCtx, st *ssa.Store, name string, wLoad *ssa.UnOp) {
	p, r := c.p, c.r
	pc := g.PC
	fname := FuncName(fn)
	key := fname + ": the read position after a discard is the last stride boundary at or below the write pointer"
	W := c18norm(pc, pc.Of(wLoad))
	// the stride: an integer parameter
	var strides []Poly
	for _, prm := range fn.Params {
		if isIntLike(prm.Type()) {
			strides = append(strides, pc.Of(prm))
		}
	}
	alts := c18alts(st.Val, 2)
	nOK := 0
	for _, a := range alts {
		v := c18norm(pc, pc.Of(a.v))
		matched := false
		for _, s := range strides {
			target := s.Mul(c18quo(W, s))
			if v.Equal(target) {
				matched = true
				break
			}
			// the alternative `w` itself: only where w % stride was tested zero
			if v.Equal(W) && a.phi != nil {
				rem := pc.Of(wLoad) // raw symbol for matching facts
				_ = rem
				for _, ct := range c18edgeConds(a.phi, a.idx) {
					bo, isB := ct.If.Cond.(*ssa.BinOp)
					if !isB {
						continue
					}
					x := c18norm(pc, pc.Of(bo.X))
					y, isC := constInt(bo.Y)
					if isC && y != 0 && x.Equal(c18rem(W, s)) {
						r.Bad("C18.R7", key, p.InstrPos(ct.If), fmt.Sprintf("the write pointer itself is taken as the new read position where w %% stride was compared with %d, not 0: a remainder that passes that test leaves the reader off the stride boundary", y))
						return
					}
					if !isC || y != 0 || !x.Equal(c18rem(W, s)) {
						continue
					}
					truth := ct.Branch == 0
					if (bo.Op == token.GTR && !truth) || (bo.Op == token.NEQ && !truth) || (bo.Op == token.EQL && truth) || (bo.Op == token.LEQ && truth) {
						matched = true
					}
				}
				if matched {
					break
				}
				// the write pointer itself on a way where its remainder was not looked at
				testedRem, strideIsOne := false, false
				for _, ct := range c18edgeConds(a.phi, a.idx) {
					if bo, isB := ct.If.Cond.(*ssa.BinOp); isB {
						if c18norm(pc, pc.Of(bo.X)).Equal(c18rem(W, s)) || c18norm(pc, pc.Of(bo.Y)).Equal(c18rem(W, s)) {
							testedRem = true
						}
						if k, isC := constInt(bo.Y); isC && k == 1 && c18norm(pc, pc.Of(bo.X)).Equal(s) {
							strideIsOne = true
						}
					}
				}
				if !testedRem && !strideIsOne {
					r.Bad("C18.R7", key, p.InstrPos(st), "on one way the write pointer itself becomes the new read position without its remainder modulo the stride having been tested: when the writer is part-way through a unit the reader is left off the stride boundary, and every later chunked read straddles two units")
					return
				}
			}
			if d, isC := v.Sub(target).IsConst(); isC && d != 0 {
				r.Bad("C18.R7", key, p.InstrPos(st), fmt.Sprintf("the stored position is %d byte(s) off stride*(w/stride): the reader resumes in the middle of a unit", d))
				return
			}
			if v.Sub(target).Equal(s) {
				r.Bad("C18.R7", key, p.InstrPos(st), "the stored position is the stride boundary ABOVE the write pointer: bytes that were never written become readable")
				return
			}
		}
		if matched {
			nOK++
			continue
		}
		if len(strides) == 0 && v.Equal(W) {
			nOK++ // discard everything
			continue
		}
		r.Unk("C18.R7", key, p.InstrPos(st), "stored alternative "+v.String()+" is not recognised as stride*(w/stride): not decided")
		return
	}
	if nOK == len(alts) && nOK > 0 {
		r.OK("C18.R7", key, p.InstrPos(st), fmt.Sprintf("%d alternative(s), each stride*(w/stride) (the alternative `w` only where w %% stride == 0)", nOK))
	}
}

// accessorKind: "occ" when fn stores no pointer and every value it returns is w - r (or the clamp
// size - 1), "free" when every value is size - (w - r + 1), "" otherwise.
func (c *c18ctx) accessorKind(fn *ssa.Function) string {
	if fn == nil || fn.Blocks == nil {
		return ""
	}
	if len(StoresTo(fn, c18Desc, "readPointer"))+len(StoresTo(fn, c18Desc, "writePointer")) > 0 {
		return ""
	}
	wl := c18fieldLoads(fn, c18Desc, "writePointer")
	rl := c18fieldLoads(fn, c18Desc, "readPointer")
	if len(wl) == 0 || len(rl) == 0 || fn.Signature.Results().Len() != 1 || !isIntLike(fn.Signature.Results().At(0).Type()) {
		return ""
	}
	pc := NewPolyCtx(fn)
	pc.G = true
	occ, free, _ := c.quantities(pc, wl, rl)
	kind := ""
	for _, b := range fn.Blocks {
		ret, ok := b.Instrs[len(b.Instrs)-1].(*ssa.Return)
		if !ok || b == fn.Recover {
			continue
		}
		for _, a := range c18alts(returnedValue(ret, 0), 2) {
			q := c18norm(pc, pc.Of(a.v))
			switch {
			case q.Equal(occ):
				if kind == "free" {
					return ""
				}
				kind = "occ"
			case q.Equal(free):
				if kind == "occ" {
					return ""
				}
				kind = "free"
			case q.Equal(c18Size.Sub(polyConst(1))):
			default:
				return ""
			}
		}
	}
	return kind
}

// accessorCall: v (conversions stripped) is a call of an accessor of the given kind.
func (c *c18ctx) accessorCall(v ssa.Value, kind string) bool {
	call, ok := stripConv(v).(*ssa.Call)
	if !ok {
		return false
	}
	return c.accessorKind(call.Call.StaticCallee()) == kind
}

// accessors (R5, sibling agreement): functions that load both pointers, store neither, return an int.
func (c *c18ctx) accessors() {
	p, r := c.p, c.r
	for _, fn := range c.fns {
		if len(StoresTo(fn, c18Desc, "readPointer"))+len(StoresTo(fn, c18Desc, "writePointer")) > 0 {
			continue
		}
		wl := c18fieldLoads(fn, c18Desc, "writePointer")
		rl := c18fieldLoads(fn, c18Desc, "readPointer")
		if len(wl) == 0 || len(rl) == 0 || fn.Signature.Results().Len() != 1 || !isIntLike(fn.Signature.Results().At(0).Type()) {
			continue
		}
		r.Fn(FuncName(fn))
		pc := NewPolyCtx(fn)
		pc.G = true
		occ, free, _ := c.quantities(pc, wl, rl)
		var got []Poly
		for _, b := range fn.Blocks {
			if ret, ok := b.Instrs[len(b.Instrs)-1].(*ssa.Return); ok && b != fn.Recover {
				for _, a := range c18alts(returnedValue(ret, 0), 2) {
					got = append(got, c18norm(pc, pc.Of(a.v)))
				}
			}
		}
		key := FuncName(fn) + ": reports the quantity the operations use"
		kind := ""
		bad := ""
		for _, q := range got {
			switch {
			case q.Equal(occ):
				kind = "occupancy w - r"
			case q.Equal(free):
				kind = "free space size - (w - r + 1)"
			case q.Equal(c18Size.Sub(polyConst(1))):
				// the clamp of a reader that sees an over-full buffer
			default:
				if d, isC := q.Sub(occ).IsConst(); isC {
					bad = fmt.Sprintf("%s is %d off the occupancy w - r the read operation uses", q, d)
				} else if d, isC := q.Sub(free).IsConst(); isC {
					bad = fmt.Sprintf("%s is %d off the free space size - (w - r + 1) the write operation uses", q, d)
				} else if bad == "" {
					bad = "?" + q.String()
				}
			}
		}
		switch {
		case bad != "" && !strings.HasPrefix(bad, "?"):
			r.Bad("C18.R5", key, p.Pos(fn.Pos()), "the accessor and the operation disagree: "+bad+"; a caller that sizes its request from the accessor (the chunked read does) asks for bytes that are not there, or leaves some for ever")
		case bad != "" || kind == "":
			r.Unk("C18.R5", key, p.Pos(fn.Pos()), "returns "+strings.TrimPrefix(bad, "?")+": not recognised as occupancy or free space")
		default:
			r.OK("C18.R5", key, p.Pos(fn.Pos()), "returns the "+kind)
		}
	}
}

// ---- R6 ----------------------------------------------------------------------------------

func (c *c18ctx) ruleR6() {
	p, r := c.p, c.r
	var fn *ssa.Function
	for _, f := range c.fns {
		if f.Name() == "ReadMultipleOf" && f.Signature.Recv() != nil {
			fn = f
		}
	}
	key := "ReadMultipleOf asks for a whole number of chunks of what is readable"
	if fn == nil {
		r.Unk("C18.R6", key, "-", "no method ReadMultipleOf in package ringbuffer (anchor)")
		return
	}
	r.Fn(FuncName(fn))
	pc := NewPolyCtx(fn)
	pc.G = true
	var k Poly
	for i, prm := range fn.Params {
		if i > 0 && isIntLike(prm.Type()) {
			k = pc.Of(prm)
		}
	}
	if k == nil {
		r.Unk("C18.R6", key, p.Pos(fn.Pos()), "no integer parameter")
		return
	}
	found := false
	InstrsDeep(fn, 1, func(d DeepInstr) {
		if len(d.Path) > 0 {
			return
		}
		call, ok := d.In.(*ssa.Call)
		if !ok {
			return
		}
		callee := call.Call.StaticCallee()
		if callee == nil || len(StoresTo(callee, c18Desc, "readPointer")) == 0 || len(call.Call.Args) < 2 {
			return
		}
		found = true
		type quoT struct {
			x  Poly
			xv ssa.Value
		}
		var quos []quoT
		Instrs(fn, func(in ssa.Instruction) {
			if bo, ok := in.(*ssa.BinOp); ok && (bo.Op == token.QUO || bo.Op == token.REM) && c18norm(pc, pc.Of(bo.Y)).Equal(k) {
				quos = append(quos, quoT{c18norm(pc, pc.Of(bo.X)), stripConv(bo.X)})
			}
		})
		hasFactor := func(q Poly, sym string) bool {
			for mono := range q {
				has := false
				for _, f := range strings.Split(mono, "*") {
					if f == sym {
						has = true
					}
				}
				if !has {
					return false
				}
			}
			return true
		}
		ksym := ""
		if ks := k.Symbols(); len(ks) == 1 {
			ksym = ks[0]
		}
		wl := c18fieldLoads(fn, c18Desc, "writePointer")
		rl := c18fieldLoads(fn, c18Desc, "readPointer")
		occ, _, haveOcc := c.quantities(pc, wl, rl)
		verdict, why := 1, ""
		note := func(v int, msg string) {
			if v < verdict {
				verdict, why = v, msg
			}
		}
		for _, a := range c18alts(call.Call.Args[1], 2) {
			arg := c18norm(pc, pc.Of(a.v))
			if arg.IsZero() {
				continue
			}
			var xv ssa.Value
			okForm := false
			for _, q := range quos {
				if arg.Equal(k.Mul(c18quo(q.x, k))) {
					okForm, xv = true, q.xv
				}
			}
			if !okForm {
				done := false
				for _, q := range quos {
					if arg.Equal(c18quo(q.x, k)) {
						note(-1, "the read is asked for x/k bytes, the number of chunks, not k*(x/k): the result is not a whole number of chunks")
						done = true
					} else if dd, isC := arg.Sub(k.Mul(c18quo(q.x, k))).IsConst(); isC {
						note(-1, fmt.Sprintf("the read is asked for k*(x/k) %+d bytes: not a whole number of chunks", dd))
						done = true
					}
				}
				if !done {
					if ksym != "" && !hasFactor(arg, ksym) {
						note(-1, "one of the sizes the read can be asked for is "+arg.String()+", which is not a multiple of the chunk size: the bytes returned are then not a whole number of chunks, and the read position is left inside a chunk")
					} else {
						note(0, "the size asked for ("+arg.String()+") is not recognised as k*(x/k)")
					}
				}
				continue
			}
			// x: what is readable, whichever way it was obtained
			for _, xa := range c18alts(xv, 2) {
				xp := c18norm(pc, pc.Of(xa.v))
				switch {
				case c.accessorCall(xa.v, "occ"):
				case haveOcc && xp.Equal(occ):
				default:
					ptr := false
					for _, sym := range xp.Symbols() {
						if strings.Contains(sym, "Pointer") || strings.HasPrefix(sym, "call:") {
							ptr = true
						}
					}
					if !ptr {
						note(-1, "the number of chunks is computed from "+xp.String()+" on one way, which is not what is readable (the occupancy w - r, as BytesReadable reports it): the read then returns what is really there, which need not be a whole number of chunks")
					} else {
						note(0, "asks for k*(x/k) with x = "+xp.String()+", which is not recognised as the readable count")
					}
				}
			}
		}
		switch verdict {
		case 1:
			r.OK("C18.R6", key, p.InstrPos(call), "asks for k*(x/k), x the readable count")
		case -1:
			r.Bad("C18.R6", key, p.InstrPos(call), why)
		default:
			r.Unk("C18.R6", key, p.InstrPos(call), why+": not decided")
		}
	})
	if !found {
		r.Unk("C18.R6", key, p.Pos(fn.Pos()), "no call of a read operation found")
	}
}


// ---- R8: the user keeps the read position on its own unit --------------------------------

func (c *c18ctx) ruleR8() {
	p, r := c.p, c.r
	type use struct {
		in    ssa.Instruction
		name  string
		arg   ssa.Value // nil: no size argument (DiscardAll)
		owner string
	}
	byOwner := map[string][]use{}
	for _, fn := range p.LibFuncs() {
		if pk := fnPkg(fn); pk == nil || pk.Path() == modPath+"/ringbuffer" {
			continue
		}
		Instrs(fn, func(in ssa.Instruction) {
			cc := CallOf(in)
			if cc == nil {
				return
			}
			callee := cc.StaticCallee()
			if callee == nil || fnPkg(callee) == nil || fnPkg(callee).Path() != modPath+"/ringbuffer" || len(cc.Args) == 0 {
				return
			}
			switch callee.Name() {
			case "ReadMultipleOf", "DiscardStride", "DiscardAll", "Read", "ReadAll", "ReadMinimum":
			default:
				return
			}
			owner := "?"
			if o, f, _, ok := FieldOf(cc.Args[0]); ok {
				owner = o + "." + f
			}
			u := use{in: in, name: callee.Name(), owner: owner}
			if len(cc.Args) > 1 {
				u.arg = cc.Args[1]
			}
			byOwner[owner] = append(byOwner[owner], u)
			r.Fn(FuncName(fn))
		})
	}
	var owners []string
	for o := range byOwner {
		owners = append(owners, o)
	}
	sort.Strings(owners)
	fieldKey := func(v ssa.Value) string {
		if v == nil {
			return ""
		}
		if o, f, _, ok := FieldOf(stripConv(v)); ok {
			return o + "." + f
		}
		return ""
	}
	for _, o := range owners {
		unit := ""
		unitOK := true
		for _, u := range byOwner[o] {
			if u.name != "ReadMultipleOf" && u.name != "DiscardStride" {
				continue
			}
			k := fieldKey(u.arg)
			if k == "" || (unit != "" && unit != k) {
				unitOK = false
			}
			unit = k
		}
		if unit == "" && unitOK {
			continue // this holder does not read in chunks
		}
		n, nr := 0, 0
		for _, u := range byOwner[o] {
			if u.name == "ReadMultipleOf" {
				continue
			}
			if u.name == "Read" || u.name == "ReadAll" || u.name == "ReadMinimum" {
				nr++
				if unitOK {
					r.Bad("C18.R8", fmt.Sprintf("%s: read #%d takes whole units", o, nr), p.InstrPos(u.in), "this holder keeps its read position on a boundary of "+unit+" (it discards to that stride / reads in chunks of it) but this call takes whatever is readable ("+u.name+"): a unit the producer has written only in part is consumed and dropped, and the read position is left inside a unit")
				}
				continue
			}
			n++
			key := fmt.Sprintf("%s: discard #%d keeps the read position on the unit of the chunked reads", o, n)
			switch {
			case !unitOK:
				r.Unk("C18.R8", key, p.InstrPos(u.in), "the chunk size of this holder's reads is not one field of the holder: not decided")
			case u.name == "DiscardAll":
				r.Bad("C18.R8", key, p.InstrPos(u.in), "this holder reads in whole chunks of "+unit+" (ReadMultipleOf) but discards stale data with DiscardAll, i.e. to wherever the write pointer stands: when the producer is part-way through a chunk the read position is left inside it, and every later chunked read starts in the middle of a unit")
			case fieldKey(u.arg) == unit:
				r.OK("C18.R8", key, p.InstrPos(u.in), "DiscardStride("+unit+")")
			case fieldKey(u.arg) != "":
				r.Bad("C18.R8", key, p.InstrPos(u.in), "this holder reads in whole chunks of "+unit+" but discards to a stride of "+fieldKey(u.arg)+": the read position can be left off a chunk boundary")
			default:
				if kk, isC := constInt(stripConv(u.arg)); isC {
					r.Bad("C18.R8", key, p.InstrPos(u.in), fmt.Sprintf("this holder reads in whole chunks of %s but discards to a stride of the constant %d", unit, kk))
				} else {
					r.Unk("C18.R8", key, p.InstrPos(u.in), "the stride is not recognised as the field the chunked reads use: not decided")
				}
			}
		}
	}
}
