package main

// C13.R9: the per-channel step may rework the data segment it is given (decimation), but a
// segment that is replaced as a whole must carry over every field that is read later: the
// signedness of the channel decides how the analysis reads the samples (int16 or uint16), and it
// reaches the stream, the records and the analysis only through the segment.  For every store of
// a whole DataSegment through a pointer parameter, the stored value is a segment made on the spot;
// the fields assigned in it (by its constructor and afterwards) must include every field of the
// type that some function of the module reads.

import (
	"sort"
	"strings"

	"golang.org/x/tools/go/ssa"
)

func c13R9(p *Prog, r *Report) {
	const seg = "DataSegment"
	// fields read anywhere in the module (through a FieldAddr load or a Field of a value)
	read := map[string]bool{}
	for _, fn := range p.LibFuncs() {
		Instrs(fn, func(in ssa.Instruction) {
			switch x := in.(type) {
			case *ssa.UnOp:
				if fa, ok := x.X.(*ssa.FieldAddr); ok && typeName(fa.X.Type()) == seg {
					read[derefStruct(fa.X.Type()).Field(fa.Field).Name()] = true
				}
			case *ssa.Field:
				if typeName(x.X.Type()) == seg {
					if st := derefStruct(x.X.Type()); st != nil {
						read[st.Field(x.Field).Name()] = true
					}
				}
			}
		})
	}
	// fields a freshly made segment has assigned: stores to its fields in the maker and by the holder
	var assigned func(v ssa.Value, d int) (map[string]bool, bool)
	assigned = func(v ssa.Value, d int) (map[string]bool, bool) {
		out := map[string]bool{}
		if d > 3 {
			return nil, false
		}
		switch x := v.(type) {
		case *ssa.Alloc:
			for _, ref := range *x.Referrers() {
				if fa, ok := ref.(*ssa.FieldAddr); ok {
					for _, r2 := range *fa.Referrers() {
						if st, ok := r2.(*ssa.Store); ok && st.Addr == ssa.Value(fa) {
							out[derefStruct(x.Type()).Field(fa.Field).Name()] = true
						}
					}
				}
			}
			return out, true
		case *ssa.Call:
			g := x.Call.StaticCallee()
			if !isModuleFn(g) || x.Call.IsInvoke() {
				return nil, false
			}
			ok := false
			Instrs(g, func(in ssa.Instruction) {
				if ret, isRet := in.(*ssa.Return); isRet && len(ret.Results) > 0 {
					if sub, okS := assigned(ret.Results[0], d+1); okS {
						ok = true
						for k := range sub {
							out[k] = true
						}
					}
				}
			})
			// assignments through the returned pointer in the caller
			for _, ref := range *x.Referrers() {
				if fa, isFA := ref.(*ssa.FieldAddr); isFA {
					for _, r2 := range *fa.Referrers() {
						if st, isSt := r2.(*ssa.Store); isSt && st.Addr == ssa.Value(fa) {
							out[derefStruct(x.Type()).Field(fa.Field).Name()] = true
						}
					}
				}
			}
			return out, ok
		}
		return nil, false
	}
	n := 0
	for _, fn := range p.LibFuncs() {
		Instrs(fn, func(in ssa.Instruction) {
			st, ok := in.(*ssa.Store)
			if !ok || typeName(st.Addr.Type()) != seg {
				return
			}
			if _, isPrm := st.Addr.(*ssa.Parameter); !isPrm {
				return
			}
			if derefStruct(st.Val.Type()) == nil {
				return
			}
			n++
			r.Fn(FuncName(fn))
			key := FuncName(fn) + ": a segment replaced as a whole keeps every field that is read later"
			// the value: *X with X a segment made here
			src := st.Val
			if ld, isLd := src.(*ssa.UnOp); isLd {
				src = ld.X
			}
			got, okA := assigned(src, 0)
			if !okA {
				r.Unk("C13.R9", key, p.InstrPos(st), "the segment stored over the caller's segment is not one made on the spot: which fields it carries is not decided")
				return
			}
			var lost []string
			for f := range read {
				if !got[f] {
					lost = append(lost, f)
				}
			}
			sort.Strings(lost)
			r.Check(len(lost) == 0, "C13.R9", key, p.InstrPos(st), "every field of the segment that is read anywhere is assigned in the replacement",
				"the caller's segment is overwritten with a new one that does not carry "+strings.Join(lost, ", ")+" (they are zero in it): the channel's signedness is lost before the segment reaches the stream, so a signed channel's samples are read as unsigned by the analysis (a baseline of -6 becomes 65530), and dropped-frame / scale information is lost likewise")
		})
	}
	if n == 0 {
		r.OK("C13.R9", "segments are reworked in place", "-", "no whole-struct store through a segment parameter: fields that are not touched keep their values")
	}
}
