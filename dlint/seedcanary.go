package main

// Thorough tier: every kept seeded change (seeded/<id>/patch.diff) that this property's
// rules are recorded to detect is applied to an in-memory overlay of /repo's current files
// (nothing is written anywhere), the tree is re-analysed, and the rules must report a
// violation that is absent from the unchanged tree.  This tests the checker in the "fires"
// direction on every thorough run.  A patch that no longer applies to the current tree (the
// tree was edited) is listed as unavailable and does not fail the check.

import (
	"encoding/json"
	"fmt"
	"os"
	"path/filepath"
	"regexp"
	"runtime/debug"
	"sort"
	"strings"
)

type seedMeta struct {
	ID         string      `json:"id"`
	Breaks     string      `json:"breaks_property"`
	DetectedBy interface{} `json:"detected_by"`
}

type hunk struct {
	oldStart int
	old, new []string
}

// parseUnifiedDiff returns file -> hunks for a `git diff` of existing files.
func parseUnifiedDiff(text string) (map[string][]hunk, error) {
	out := map[string][]hunk{}
	var file string
	var cur *hunk
	flush := func() {
		if cur != nil && file != "" {
			out[file] = append(out[file], *cur)
		}
		cur = nil
	}
	hdr := regexp.MustCompile(`^@@ -(\d+)(?:,\d+)? \+\d+(?:,\d+)? @@`)
	for _, ln := range strings.Split(text, "\n") {
		switch {
		case strings.HasPrefix(ln, "diff --git "):
			flush()
			file = ""
		case strings.HasPrefix(ln, "--- "):
			// ignore
		case strings.HasPrefix(ln, "+++ "):
			f := strings.TrimPrefix(ln, "+++ ")
			f = strings.TrimPrefix(f, "b/")
			file = f
		case strings.HasPrefix(ln, "@@"):
			flush()
			m := hdr.FindStringSubmatch(ln)
			if m == nil {
				return nil, fmt.Errorf("bad hunk header %q", ln)
			}
			n := 0
			fmt.Sscanf(m[1], "%d", &n)
			cur = &hunk{oldStart: n}
		case cur != nil && strings.HasPrefix(ln, " "):
			cur.old = append(cur.old, ln[1:])
			cur.new = append(cur.new, ln[1:])
		case cur != nil && strings.HasPrefix(ln, "-"):
			cur.old = append(cur.old, ln[1:])
		case cur != nil && strings.HasPrefix(ln, "+"):
			cur.new = append(cur.new, ln[1:])
		case cur != nil && ln == "":
			// blank context line whose leading space was trimmed, or trailing newline of the file
			cur.old = append(cur.old, "")
			cur.new = append(cur.new, "")
		case strings.HasPrefix(ln, `\ No newline`):
		}
	}
	flush()
	return out, nil
}

// applyHunks applies the hunks to src, locating each by its old text (nearest match to the
// recorded line number).
func applyHunks(src string, hs []hunk) (string, error) {
	lines := strings.Split(src, "\n")
	offset := 0
	for _, h := range hs {
		old := h.old
		// trailing empty context produced by the final split is not significant
		for len(old) > 0 && old[len(old)-1] == "" && len(h.new) > 0 && h.new[len(h.new)-1] == "" {
			old = old[:len(old)-1]
			h.new = h.new[:len(h.new)-1]
		}
		match := func(at int) bool {
			if at < 0 || at+len(old) > len(lines) {
				return false
			}
			for i, l := range old {
				if lines[at+i] != l {
					return false
				}
			}
			return true
		}
		want := h.oldStart - 1 + offset
		found := -1
		for d := 0; d < len(lines)+1 && found < 0; d++ {
			if match(want + d) {
				found = want + d
			} else if match(want - d) {
				found = want - d
			}
		}
		if found < 0 {
			return "", fmt.Errorf("hunk at line %d does not match", h.oldStart)
		}
		nl := append([]string{}, lines[:found]...)
		nl = append(nl, h.new...)
		nl = append(nl, lines[found+len(old):]...)
		offset += len(h.new) - len(old)
		lines = nl
	}
	return strings.Join(lines, "\n"), nil
}

func runSeedCanaries(rs *RuleSet, repo, verif string, rep *Report) {
	dirs, _ := filepath.Glob(filepath.Join(verif, "seeded", "*"))
	sort.Strings(dirs)
	base := map[string]bool{}
	for _, o := range rep.Obs {
		if o.st == Violated {
			base[o.Key] = true
		}
	}
	for _, d := range dirs {
		mb, err := os.ReadFile(filepath.Join(d, "meta.json"))
		if err != nil {
			continue
		}
		var m seedMeta
		if json.Unmarshal(mb, &m) != nil {
			continue
		}
		det := fmt.Sprint(m.DetectedBy)
		if strings.HasPrefix(det, "MISSED") {
			if m.Breaks == rs.Property {
				rep.Canaries = append(rep.Canaries, "seed "+m.ID+": recorded as missed (DESIGN.md 7.5), not required")
			}
			continue
		}
		if !strings.Contains(det, rs.Property+".R") {
			continue // not recorded as detected by this property's rules
		}
		patch := filepath.Join(d, "patch.adapted.diff")
		if _, err := os.Stat(patch); err != nil {
			patch = filepath.Join(d, "patch.diff")
		}
		pb, err := os.ReadFile(patch)
		if err != nil {
			continue
		}
		rep.CanaryTotal++
		files, err := parseUnifiedDiff(string(pb))
		if err != nil {
			rep.Canaries = append(rep.Canaries, fmt.Sprintf("seed %s unavailable: %v", m.ID, err))
			rep.CanaryTotal--
			continue
		}
		ov := map[string][]byte{}
		bad := ""
		for f, hs := range files {
			src, err := os.ReadFile(filepath.Join(repo, f))
			if err != nil {
				bad = err.Error()
				break
			}
			ns, err := applyHunks(string(src), hs)
			if err != nil {
				bad = f + ": " + err.Error()
				break
			}
			ov[filepath.Join(repo, f)] = []byte(ns)
		}
		if bad != "" {
			rep.Canaries = append(rep.Canaries, fmt.Sprintf("seed %s unavailable on this tree (patch does not apply: %s)", m.ID, bad))
			rep.CanaryTotal--
			continue
		}
		p, err := Load(LoadConfig{Repo: repo, Overlay: ov})
		if err != nil {
			rep.Canaries = append(rep.Canaries, fmt.Sprintf("seed %s unavailable: overlay does not load: %v", m.ID, err))
			rep.CanaryTotal--
			continue
		}
		r2 := NewReport(rs.Property, "canary")
		func() {
			defer func() {
				if e := recover(); e != nil {
					r2.Unk(rs.Property+".canary", "seed "+m.ID, "-", fmt.Sprintf("analysis panicked on the seeded tree: %v", e))
				}
			}()
			rs.Run(p, r2)
		}()
		r2.applyFloors()
		p = nil
		debug.FreeOSMemory()
		var fired []string
		for _, o := range r2.Obs {
			if (o.st == Violated || o.st == Undecided) && !base[o.Key] {
				fired = append(fired, o.Rule)
			}
		}
		if len(fired) > 0 {
			sort.Strings(fired)
			fired = uniq(fired)
			rep.CanaryFired++
			rep.Canaries = append(rep.Canaries, fmt.Sprintf("seed %s: reported by %s", m.ID, strings.Join(fired, ", ")))
		} else {
			rep.Canaries = append(rep.Canaries, "seed "+m.ID+": NOT reported")
			rep.Unk(rs.Property+".canary", "seed "+m.ID, "-", "a kept seeded change that these rules are recorded to detect is no longer reported when overlaid on the current tree: a rule has gone blind")
		}
	}
}

func uniq(s []string) []string {
	var out []string
	for i, x := range s {
		if i == 0 || x != s[i-1] {
			out = append(out, x)
		}
	}
	return out
}
