package main

// E8: goroutine roles, locksets, happens-before windows, and field-level conflicts.
//
// A role is the code one `go` statement can run (its callee and everything called
// synchronously from it), plus the RPC role (all handlers) and the main role (server set-up).
// For every struct field the engine collects (role, function, read/write, must-lockset)
// accesses and reports pairs that can run concurrently with at least one write and no
// common lock.  "Can run concurrently" is decided by: the spawn point (what the spawner did
// before `go` happens-before the role), fork-join windows (a role joined by WaitGroup.Wait
// is concurrent with its spawner only between `go` and `Wait`), one-source-at-a-time tags,
// the explicit phase table, and — for roles with several simultaneous instances — per-instance
// object partitions.

import (
	"fmt"
	"go/token"
	"go/types"
	"sort"
	"strings"

	"golang.org/x/tools/go/ssa"
)

type Role struct {
	ID     string
	Go     *ssa.Go
	In     *ssa.Function // function holding the go statement
	Roots  []*ssa.Function
	Reach  map[*ssa.Function]bool
	Multi  bool            // several instances at once (go in a loop, not sequenced)
	Join   ssa.Instruction // WaitGroup.Wait joining the instances, in In
	Scoped bool            // every instance has ended when the spawning function returns (results collected over a channel)
	Entry  map[*ssa.Function]map[string]bool
	PartTy map[string]bool // per-instance object types (multi roles)
}

type RAccess struct {
	Key   FieldKey
	Write bool
	Instr ssa.Instruction
	Fn    *ssa.Function
	Locks map[string]bool
	Role  *Role
}

type RaceEngine struct {
	p       *Prog
	Roles   []*Role
	byID    map[string]*Role
	acc     map[FieldKey][]RAccess
	msgTy   map[string]bool
	after   map[*ssa.Go]map[ssa.Instruction]bool // instructions that may execute after the go statement in the spawner
	window  map[*ssa.Go]map[ssa.Instruction]bool // ... and before the join
	afterFn map[*ssa.Go]map[*ssa.Function]bool   // functions entered after the go statement (whole body)
	winFn   map[*ssa.Go]map[*ssa.Function]bool
	preMemo map[string]*preInfo
	runMemo map[*Role]bool
	Notes   []string
}

func sourceTag(fn *ssa.Function) string {
	for f := fn; f != nil; f = f.Parent() {
		n := FuncName(f)
		for _, pair := range [][2]string{{"TriangleSource", "triangle"}, {"SimPulseSource", "simpulse"}, {"ErroringSource", "erroring"},
			{"LanceroSource", "lancero"}, {"LanceroDevice", "lancero"}, {"RoachSource", "roach"}, {"RoachDevice", "roach"},
			{"AbacoSource", "abaco"}, {"AbacoGroup", "abaco"}, {"AbacoRing", "abaco"}, {"AbacoUDPReceiver", "abaco"}} {
			if strings.Contains(n, "(*"+pair[0]+")") || strings.Contains(n, "("+pair[0]+")") {
				return pair[1]
			}
		}
	}
	return ""
}

func inModule(fn *ssa.Function) bool {
	pk := fnPkg(fn)
	return pk != nil && strings.HasPrefix(pk.Path(), modPath) && !strings.Contains(pk.Path(), "/cmd/")
}

func (e *RaceEngine) reach(roots []*ssa.Function) map[*ssa.Function]bool {
	seen := map[*ssa.Function]bool{}
	var visit func(f *ssa.Function)
	visit = func(f *ssa.Function) {
		if f == nil || seen[f] || f.Blocks == nil || !inModule(f) {
			return
		}
		seen[f] = true
		Instrs(f, func(in ssa.Instruction) {
			if _, isGo := in.(*ssa.Go); isGo {
				return
			}
			if CallOf(in) == nil {
				return
			}
			for _, c := range e.p.callees(in) {
				visit(c)
			}
		})
	}
	for _, r := range roots {
		visit(r)
	}
	return seen
}

func NewRaceEngine(p *Prog, rv *Rendezvous) *RaceEngine {
	e := &RaceEngine{p: p, byID: map[string]*Role{}, acc: map[FieldKey][]RAccess{}, msgTy: map[string]bool{},
		after: map[*ssa.Go]map[ssa.Instruction]bool{}, window: map[*ssa.Go]map[ssa.Instruction]bool{},
		afterFn: map[*ssa.Go]map[*ssa.Function]bool{}, winFn: map[*ssa.Go]map[*ssa.Function]bool{}, preMemo: map[string]*preInfo{}, runMemo: map[*Role]bool{}}
	// roles
	rpc := &Role{ID: "rpc", Roots: rv.Handlers}
	e.Roles = append(e.Roles, rpc)
	// the server set-up / shutdown code (RunRPCServer) is not a role: set-up precedes every
	// goroutine, shutdown is outside the property's workload
	for _, gs := range p.GoStarts() {
		if len(gs.Callees) == 0 {
			e.Notes = append(e.Notes, "go statement with unresolved callee in "+FuncName(gs.In))
			continue
		}
		var names []string
		for _, c := range gs.Callees {
			names = append(names, FuncName(c))
		}
		sort.Strings(names)
		id := "go " + strings.Join(names, "|") + " in " + FuncName(gs.In)
		for i := 2; e.byID[id] != nil; i++ {
			id = fmt.Sprintf("go %s in %s #%d", strings.Join(names, "|"), FuncName(gs.In), i)
		}
		r := &Role{ID: id, Go: gs.Instr, In: gs.In, Roots: gs.Callees}
		r.Multi = InLoop(gs.Instr)
		// joined? a WaitGroup.Wait in the spawning function reachable from the go statement, with Done deferred/called in the callee
		usesDone := false
		for _, c := range gs.Callees {
			Instrs(c, func(in ssa.Instruction) {
				if IsCallTo(in, "(*sync.WaitGroup).Done") {
					usesDone = true
				}
			})
		}
		if usesDone {
			Instrs(gs.In, func(in ssa.Instruction) {
				if IsCallTo(in, "(*sync.WaitGroup).Wait") && InstrReaches(gs.Instr, in) && r.Join == nil {
					// nearest Wait that every path from the go statement to a return passes
					miss := ReachAvoiding(gs.In, gs.Instr, func(x ssa.Instruction) bool { return IsCallTo(x, "(*sync.WaitGroup).Wait") }, isReturn)
					if len(miss) == 0 {
						r.Join = in
					}
				}
			})
		}
		if r.Join == nil {
			r.Scoped = channelJoined(gs)
		}
		e.byID[id] = r
		e.Roles = append(e.Roles, r)
	}
	for _, r := range e.Roles {
		e.byID[r.ID] = r
		r.Reach = e.reach(r.Roots)
	}
	e.messageTypes()
	for _, r := range e.Roles {
		if r.Go != nil {
			e.computeAfter(r)
		}
		if r.Multi {
			r.PartTy = e.partitionTypes(r)
		}
		e.locksets(r)
	}
	e.collect()
	return e
}

// channelJoined: every path of the goroutine sends on a channel made in the spawning
// function, and the spawning function cannot return after the go statement without
// receiving from that channel (results are collected before it returns).
func channelJoined(gs GoStart) bool {
	if len(gs.Callees) != 1 || gs.Callees[0].Parent() != gs.In {
		return false
	}
	cl := gs.Callees[0]
	for i, fv := range cl.FreeVars {
		if _, isChan := derefType(fv.Type()).Underlying().(*types.Chan); !isChan {
			continue
		}
		// sends on this captured channel on every path to return
		isSend := func(in ssa.Instruction) bool {
			s, ok := in.(*ssa.Send)
			if !ok {
				return false
			}
			u, ok := s.Chan.(*ssa.UnOp)
			return ok && u.X == ssa.Value(fv) || s.Chan == ssa.Value(fv)
		}
		if len(ReachAvoiding(cl, nil, isSend, isReturn)) > 0 {
			continue
		}
		// the binding in the spawner
		var cell ssa.Value
		Instrs(gs.In, func(in ssa.Instruction) {
			if mc, ok := in.(*ssa.MakeClosure); ok && mc.Fn == ssa.Value(cl) && i < len(mc.Bindings) {
				cell = mc.Bindings[i]
			}
		})
		if cell == nil {
			continue
		}
		isRecv := func(in ssa.Instruction) bool {
			u, ok := in.(*ssa.UnOp)
			if !ok || u.Op != token.ARROW {
				return false
			}
			if ld, ok := u.X.(*ssa.UnOp); ok && ld.X == cell {
				return true
			}
			return u.X == cell
		}
		if len(ReachAvoiding(gs.In, gs.Instr, isRecv, isReturn)) == 0 {
			return true
		}
		// one goroutine per element of a collection, one receive per element of the same collection
		loops := RangeLoops(gs.In)
		l1 := LoopContaining(loops, gs.Instr)
		if l1 != nil {
			o1, f1 := l1.OverField()
			for _, l2 := range loops {
				if l2 == l1 {
					continue
				}
				o2, f2 := l2.OverField()
				if f1 == "" || o1 != o2 || f1 != f2 || !BlockReaches(l1.Done, l2.Header) {
					continue
				}
				okRecv := false
				Instrs(gs.In, func(in ssa.Instruction) {
					if isRecv(in) && l2.Contains(in.Block()) && l2.EveryIteration(in.Block()) {
						okRecv = true
					}
				})
				if okRecv {
					return true
				}
			}
		}
	}
	return false
}

func derefType(t types.Type) types.Type {
	if p, ok := t.(*types.Pointer); ok {
		return p.Elem()
	}
	return t
}

// messageTypes: struct types that travel through channels (element types of chan-typed fields,
// parameters and make(chan) sites), and the struct types they contain by value or through slices.
func (e *RaceEngine) messageTypes() {
	var add func(t types.Type, d int)
	add = func(t types.Type, d int) {
		if d > 4 {
			return
		}
		switch x := t.(type) {
		case *types.Pointer:
			add(x.Elem(), d+1)
		case *types.Slice:
			add(x.Elem(), d+1)
		case *types.Named:
			st, ok := x.Underlying().(*types.Struct)
			if !ok || x.Obj().Pkg() == nil || !strings.HasPrefix(x.Obj().Pkg().Path(), modPath) {
				return
			}
			n := ownerName(x)
			if e.msgTy[n] {
				return
			}
			e.msgTy[n] = true
			for i := 0; i < st.NumFields(); i++ {
				ft := st.Field(i).Type()
				if _, isPtr := ft.(*types.Pointer); isPtr {
					continue
				}
				add(ft, d+1)
			}
		}
	}
	for _, fn := range e.p.LibFuncs() {
		Instrs(fn, func(in ssa.Instruction) {
			if mc, ok := in.(*ssa.MakeChan); ok {
				add(mc.Type().Underlying().(*types.Chan).Elem(), 0)
			}
		})
	}
	for _, pk := range e.p.Pkgs {
		sc := pk.Types.Scope()
		for _, name := range sc.Names() {
			tn, ok := sc.Lookup(name).(*types.TypeName)
			if !ok {
				continue
			}
			st, ok := tn.Type().Underlying().(*types.Struct)
			if !ok {
				continue
			}
			for i := 0; i < st.NumFields(); i++ {
				if ch, ok := st.Field(i).Type().Underlying().(*types.Chan); ok {
					add(ch.Elem(), 0)
				}
			}
		}
	}
}

// computeAfter: what the spawner may still execute after the go statement (and, for joined
// roles, before the join): the rest of the spawning function, whole bodies of functions called
// from there, and — walking up — the rest of every caller after the call returns.
func (e *RaceEngine) computeAfter(r *Role) {
	after := map[ssa.Instruction]bool{}
	afterFn := map[*ssa.Function]bool{}
	win := map[ssa.Instruction]bool{}
	winFn := map[*ssa.Function]bool{}
	addCallees := func(in ssa.Instruction, fnSet map[*ssa.Function]bool) {
		if _, isGo := in.(*ssa.Go); isGo {
			return
		}
		if CallOf(in) == nil {
			return
		}
		for _, c := range e.p.callees(in) {
			for f := range e.reach([]*ssa.Function{c}) {
				fnSet[f] = true
			}
		}
	}
	// inside the spawning function
	isJoin := func(x ssa.Instruction) bool { return r.Join != nil && x == r.Join }
	for _, in := range ReachAvoiding(r.In, r.Go, nil, func(ssa.Instruction) bool { return true }) {
		after[in] = true
		addCallees(in, afterFn)
	}
	for _, in := range ReachAvoiding(r.In, r.Go, isJoin, func(ssa.Instruction) bool { return true }) {
		win[in] = true
		addCallees(in, winFn)
	}
	if r.Join == nil && !r.Scoped {
		// up the call chain: code after the calls that (transitively) reach the spawning function
		seen := map[*ssa.Function]bool{r.In: true}
		var up func(f *ssa.Function, d int)
		up = func(f *ssa.Function, d int) {
			if d > 8 {
				return
			}
			n := e.p.CallGraph().Nodes[f]
			if n == nil {
				return
			}
			for _, edge := range n.In {
				c := edge.Caller.Func
				if edge.Site == nil || c == nil || !inModule(c) {
					continue
				}
				if _, isGo := edge.Site.(*ssa.Go); isGo {
					continue
				}
				for _, in := range ReachAvoiding(c, edge.Site, nil, func(ssa.Instruction) bool { return true }) {
					after[in] = true
					addCallees(in, afterFn)
				}
				if !seen[c] {
					seen[c] = true
					up(c, d+1)
				}
			}
		}
		up(r.In, 0)
	}
	if r.Join == nil {
		for k := range after {
			win[k] = true
		}
		for k := range afterFn {
			winFn[k] = true
		}
	}
	e.after[r.Go], e.afterFn[r.Go], e.window[r.Go], e.winFn[r.Go] = after, afterFn, win, winFn
}

// partitionTypes: the struct types an instance of a multi-instance role owns exclusively: the
// types of the go statement's arguments that are loop elements / fresh per iteration, what they
// contain by value, and what they point to through fields that are only ever assigned fresh objects.
func (e *RaceEngine) partitionTypes(r *Role) map[string]bool {
	out := map[string]bool{}
	var add func(t types.Type, d int)
	add = func(t types.Type, d int) {
		if d > 5 {
			return
		}
		if pt, ok := t.(*types.Pointer); ok {
			t = pt.Elem()
		}
		n, ok := t.(*types.Named)
		if !ok {
			return
		}
		st, ok := n.Underlying().(*types.Struct)
		if !ok || n.Obj().Pkg() == nil || !strings.HasPrefix(n.Obj().Pkg().Path(), modPath) {
			return
		}
		name := ownerName(n)
		if out[name] {
			return
		}
		out[name] = true
		for i := 0; i < st.NumFields(); i++ {
			f := st.Field(i)
			ft := f.Type()
			if pt, isPtr := ft.(*types.Pointer); isPtr {
				if e.onlyFreshStores(FieldKey{name, f.Name()}) {
					add(pt.Elem(), d+1)
				}
				continue
			}
			add(ft, d+1)
		}
	}
	for _, a := range r.Go.Call.Args {
		if _, isPtr := a.Type().(*types.Pointer); isPtr {
			add(a.Type(), 0)
		}
		if it, isI := a.Type().Underlying().(*types.Interface); isI {
			// every module type implementing the interface: each instance gets its own object
			for _, pk := range e.p.Pkgs {
				sc := pk.Types.Scope()
				for _, name := range sc.Names() {
					if tn, ok := sc.Lookup(name).(*types.TypeName); ok {
						if _, isSt := tn.Type().Underlying().(*types.Struct); isSt && types.Implements(types.NewPointer(tn.Type()), it) {
							add(tn.Type(), 0)
						}
					}
				}
			}
		}
	}
	// the receiver of a method started with `go x.m()` in a loop over distinct objects
	if r.Go.Call.StaticCallee() != nil && r.Go.Call.StaticCallee().Signature.Recv() != nil && len(r.Go.Call.Args) > 0 {
		add(r.Go.Call.Args[0].Type(), 0)
	}
	return out
}

func (e *RaceEngine) onlyFreshStores(k FieldKey) bool {
	n := 0
	ok := true
	for _, fn := range e.p.LibFuncs() {
		Instrs(fn, func(in ssa.Instruction) {
			st, isSt := in.(*ssa.Store)
			if !isSt {
				return
			}
			kk, isF := fieldKeyOfAddr(st.Addr)
			if !isF || kk != k {
				return
			}
			n++
			switch v := st.Val.(type) {
			case *ssa.Alloc:
			case *ssa.Const:
				if v.Value != nil {
					ok = false
				}
			case *ssa.Call:
				// constructor result (NewWriter ...): a function whose returns are fresh allocations
				c := v.Call.StaticCallee()
				if c == nil || !returnsFresh(c) {
					ok = false
				}
			default:
				ok = false
			}
		})
	}
	return ok && n > 0
}

func returnsFresh(fn *ssa.Function) bool {
	if fn.Blocks == nil {
		return false
	}
	ok := true
	n := 0
	Instrs(fn, func(in ssa.Instruction) {
		ret, isRet := in.(*ssa.Return)
		if !isRet || len(ret.Results) == 0 {
			return
		}
		n++
		if _, isAlloc := ret.Results[0].(*ssa.Alloc); !isAlloc {
			if c, isC := ret.Results[0].(*ssa.Const); !isC || c.Value != nil {
				ok = false
			}
		}
	})
	return ok && n > 0
}

// ---- locksets ---------------------------------------------------------------------------

func mutexKey(v ssa.Value) string {
	// receiver of Lock/Unlock: &x.mu  or &x.Mutex (embedded)
	if fa, ok := v.(*ssa.FieldAddr); ok {
		k, _ := fieldKeyOfAddr(fa)
		return k.String()
	}
	if u, ok := v.(*ssa.UnOp); ok && u.Op == token.MUL {
		return mutexKey(u.X)
	}
	return ""
}

func lockOp(in ssa.Instruction) (key string, acquire bool, ok bool) {
	cc := CallOf(in)
	if cc == nil || len(cc.Args) == 0 {
		return
	}
	switch CalleeName(cc) {
	case "(*sync.Mutex).Lock", "(*sync.RWMutex).Lock", "(*sync.RWMutex).RLock":
		return mutexKey(cc.Args[0]), true, true
	case "(*sync.Mutex).Unlock", "(*sync.RWMutex).Unlock", "(*sync.RWMutex).RUnlock":
		return mutexKey(cc.Args[0]), false, true
	}
	return
}

func copySet(m map[string]bool) map[string]bool {
	out := map[string]bool{}
	for k := range m {
		out[k] = true
	}
	return out
}

func intersect(a, b map[string]bool) map[string]bool {
	out := map[string]bool{}
	for k := range a {
		if b[k] {
			out[k] = true
		}
	}
	return out
}

// heldAt computes, for fn entered with `entry` held, the must-held set before each instruction.
func heldAt(fn *ssa.Function, entry map[string]bool) map[ssa.Instruction]map[string]bool {
	in := make([]map[string]bool, len(fn.Blocks))
	out := map[ssa.Instruction]map[string]bool{}
	in[0] = copySet(entry)
	changed := true
	for changed {
		changed = false
		for _, b := range fn.Blocks {
			if in[b.Index] == nil {
				continue
			}
			cur := copySet(in[b.Index])
			for _, ins := range b.Instrs {
				out[ins] = copySet(cur)
				if _, isDefer := ins.(*ssa.Defer); isDefer {
					continue
				}
				if k, acq, ok := lockOp(ins); ok && k != "" {
					if acq {
						cur[k] = true
					} else {
						delete(cur, k)
					}
				}
			}
			for _, s := range b.Succs {
				if in[s.Index] == nil {
					in[s.Index] = copySet(cur)
					changed = true
				} else {
					m := intersect(in[s.Index], cur)
					if len(m) != len(in[s.Index]) {
						in[s.Index] = m
						changed = true
					}
				}
			}
		}
	}
	return out
}

func (e *RaceEngine) locksets(r *Role) {
	r.Entry = map[*ssa.Function]map[string]bool{}
	for _, root := range r.Roots {
		r.Entry[root] = map[string]bool{}
	}
	for iter := 0; iter < 6; iter++ {
		changed := false
		for fn := range r.Reach {
			entry, known := r.Entry[fn]
			if !known {
				continue
			}
			held := heldAt(fn, entry)
			Instrs(fn, func(in ssa.Instruction) {
				if _, isGo := in.(*ssa.Go); isGo {
					return
				}
				if CallOf(in) == nil {
					return
				}
				for _, c := range e.p.callees(in) {
					if !r.Reach[c] {
						continue
					}
					h := held[in]
					if _, isDefer := in.(*ssa.Defer); isDefer {
						h = map[string]bool{}
					}
					old, had := r.Entry[c]
					if !had {
						r.Entry[c] = copySet(h)
						changed = true
					} else {
						m := intersect(old, h)
						if len(m) != len(old) {
							r.Entry[c] = m
							changed = true
						}
					}
				}
			})
		}
		if !changed {
			break
		}
	}
}

func (e *RaceEngine) collect() {
	for _, r := range e.Roles {
		var fns []*ssa.Function
		for f := range r.Reach {
			fns = append(fns, f)
		}
		sort.Slice(fns, func(i, j int) bool { return fns[i].Pos() < fns[j].Pos() || fns[i].Pos() == fns[j].Pos() && fns[i].String() < fns[j].String() })
		for _, fn := range fns {
			entry := r.Entry[fn]
			if entry == nil {
				entry = map[string]bool{}
			}
			held := heldAt(fn, entry)
			for _, a := range DirectAccesses(fn) {
				if a.Key.Field == "*" {
					continue
				}
				e.acc[a.Key] = append(e.acc[a.Key], RAccess{a.Key, a.Write, a.Instr, fn, held[a.Instr], r})
			}
		}
	}
}

// ---- concurrency ------------------------------------------------------------------------

// parents: roles that execute r's go statement.
func (e *RaceEngine) parents(r *Role) []*Role {
	var out []*Role
	if r.Go == nil {
		return nil
	}
	for _, s := range e.Roles {
		if s != r && s.Reach[r.In] {
			out = append(out, s)
		}
	}
	return out
}

// childOnPath: the role directly spawned by s on a spawn chain from s down to r (nil if s is not an ancestor of r).
func (e *RaceEngine) childOnPath(s, r *Role) *Role {
	seen := map[*Role]bool{}
	var up func(x *Role) *Role
	up = func(x *Role) *Role {
		if seen[x] {
			return nil
		}
		seen[x] = true
		for _, par := range e.parents(x) {
			if par == s {
				return x
			}
			if c := up(par); c != nil {
				return c
			}
		}
		return nil
	}
	return up(r)
}

// pre computes, for spawner s and its directly spawned child c, which of s's instructions /
// functions can only execute before c's go statement.
type preInfo struct {
	instr map[ssa.Instruction]bool
	fn    map[*ssa.Function]bool
}

func (e *RaceEngine) pre(s, c *Role) *preInfo {
	key := s.ID + "->" + c.ID
	if pi, ok := e.preMemo[key]; ok {
		return pi
	}
	pi := &preInfo{instr: map[ssa.Instruction]bool{}, fn: map[*ssa.Function]bool{}}
	e.preMemo[key] = pi
	afterFn := map[*ssa.Function]bool{}
	preCallees := map[*ssa.Function]bool{}
	chainRoots := map[*ssa.Function]bool{}
	addReach := func(in ssa.Instruction, set map[*ssa.Function]bool) {
		if _, isGo := in.(*ssa.Go); isGo {
			return
		}
		if CallOf(in) == nil {
			return
		}
		for _, cal := range e.p.callees(in) {
			for f := range e.reach([]*ssa.Function{cal}) {
				set[f] = true
			}
		}
	}
	seen := map[*ssa.Function]bool{}
	var walk func(f *ssa.Function, site ssa.Instruction, d int)
	walk = func(f *ssa.Function, site ssa.Instruction, d int) {
		after := map[ssa.Instruction]bool{}
		for _, in := range ReachAvoiding(f, site, nil, func(ssa.Instruction) bool { return true }) {
			after[in] = true
			addReach(in, afterFn)
		}
		Instrs(f, func(in ssa.Instruction) {
			if !after[in] && in != site {
				pi.instr[in] = true
				addReach(in, preCallees)
			}
		})
		isRoot := false
		for _, rt := range s.Roots {
			if rt == f {
				isRoot = true
			}
		}
		if isRoot {
			chainRoots[f] = true
		}
		if seen[f] || d > 8 {
			return
		}
		seen[f] = true
		if n := e.p.CallGraph().Nodes[f]; n != nil {
			for _, edge := range n.In {
				cal := edge.Caller.Func
				if edge.Site == nil || cal == nil || !s.Reach[cal] {
					continue
				}
				if _, isGo := edge.Site.(*ssa.Go); isGo {
					continue
				}
				walk(cal, edge.Site, d+1)
			}
		}
	}
	walk(c.In, c.Go, 0)
	// other entry points of the spawner may run at any later time
	for _, rt := range s.Roots {
		if !chainRoots[rt] {
			for f := range e.reach([]*ssa.Function{rt}) {
				afterFn[f] = true
			}
		}
	}
	for f := range preCallees {
		if !afterFn[f] {
			pi.fn[f] = true
		}
	}
	return pi
}

// runPhase: roles that live inside a run: the core loop, everything it spawns, and the
// goroutines started by the sources' StartRun.
func (e *RaceEngine) runPhase(r *Role) bool {
	if v, ok := e.runMemo[r]; ok {
		return v
	}
	e.runMemo[r] = false
	res := false
	for _, rt := range r.Roots {
		if rt.Name() == "CoreLoop" {
			res = true
		}
	}
	if r.In != nil {
		for f := r.In; f != nil; f = f.Parent() {
			if f.Name() == "StartRun" || f.Name() == "getNextBlock" {
				res = true
			}
		}
	}
	for _, par := range e.parents(r) {
		if e.runPhase(par) {
			res = true
		}
	}
	e.runMemo[r] = res
	return res
}

// afterRunBarrier: the access executes only after a call of the run-done barrier wait
// (RunDoneWait) in its function: the core loop and all run-phase goroutines have ended.
func (e *RaceEngine) afterRunBarrier(a RAccess) bool {
	check := func(fn *ssa.Function, at ssa.Instruction) bool {
		ok := false
		Instrs(fn, func(in ssa.Instruction) {
			cc := CallOf(in)
			if cc == nil {
				return
			}
			name := ""
			if cc.IsInvoke() {
				name = cc.Method.Name()
			} else if c := cc.StaticCallee(); c != nil {
				name = c.Name()
			}
			if name == "RunDoneWait" && InstrDominates(in, at) {
				ok = true
			}
		})
		return ok
	}
	if check(a.Fn, a.Instr) {
		return true
	}
	// callee of a function, all of whose call sites in the role lie after the barrier
	n := e.p.CallGraph().Nodes[a.Fn]
	if n == nil || len(n.In) == 0 {
		return false
	}
	all := true
	cnt := 0
	var visit func(f *ssa.Function, d int) bool
	seen := map[*ssa.Function]bool{}
	visit = func(f *ssa.Function, d int) bool {
		if seen[f] || d > 6 {
			return true
		}
		seen[f] = true
		nn := e.p.CallGraph().Nodes[f]
		if nn == nil {
			return false
		}
		okAll := true
		k := 0
		for _, edge := range nn.In {
			c := edge.Caller.Func
			if edge.Site == nil || c == nil || !a.Role.Reach[c] {
				continue
			}
			k++
			if check(c, edge.Site) {
				continue
			}
			if !visit(c, d+1) {
				okAll = false
			}
		}
		return okAll && k > 0
	}
	_ = all
	_ = cnt
	return visit(a.Fn, 0)
}

// inactiveOnly: the access is dominated, in its function, by a test establishing that the
// source's life-cycle state is Inactive (constant 0): no run is in progress.
func (e *RaceEngine) inactiveOnly(a RAccess) bool {
	b := a.Instr.Block()
	for d := b.Idom(); d != nil; d = d.Idom() {
		iff, ok := d.Instrs[len(d.Instrs)-1].(*ssa.If)
		if !ok {
			continue
		}
		edge := edgeOwner(d, b)
		if edge < 0 {
			continue
		}
		bo, ok := iff.Cond.(*ssa.BinOp)
		if !ok {
			continue
		}
		_, f, _, okf := FieldOf(bo.X)
		k, isC := constInt(bo.Y)
		if !okf || f != "sourceState" || !isC || k != 0 {
			continue
		}
		if (bo.Op == token.NEQ && edge == 1) || (bo.Op == token.EQL && edge == 0) {
			return true
		}
	}
	return false
}

// mayRunDuring: can access a (of role a.Role) execute while role r runs?
func (e *RaceEngine) mayRunDuring(a RAccess, r *Role) (bool, string) {
	return e.mayRunDuringD(a, r, 0)
}

// bounded: the role's instances have all ended when its spawning function returns.
func (ro *Role) bounded() bool { return ro.Go != nil && (ro.Join != nil || ro.Scoped) }

func (e *RaceEngine) mayRunDuringD(a RAccess, r *Role, depth int) (bool, string) {
	s := a.Role
	if depth < 4 && s != r {
		// a role whose life is bounded by its spawning function overlaps r only if its go
		// statement, as an action of the spawner, can run during r
		if s.bounded() && e.childOnPath(r, s) == nil {
			any := false
			for _, par := range e.parents(s) {
				if ok, _ := e.mayRunDuringD(RAccess{Key: a.Key, Instr: s.Go, Fn: s.In, Role: par}, r, depth+1); ok {
					any = true
				}
			}
			if !any && len(e.parents(s)) > 0 {
				return false, "the goroutine's bounded life lies outside the other role's life"
			}
		}
		if r.bounded() && e.childOnPath(s, r) == nil && e.childOnPath(r, s) == nil {
			any := false
			for _, par := range e.parents(r) {
				if par == s {
					any = true
					continue
				}
				if ok, _ := e.mayRunDuringD(a, par, depth+1); ok {
					any = true
				}
			}
			if !any && len(e.parents(r)) > 0 {
				return false, "the other goroutine's bounded life lies inside a spawner that cannot overlap this access"
			}
		}
	}
	if s == r {
		if !r.Multi {
			return false, "same single-instance goroutine"
		}
		if r.PartTy[a.Key.Owner] {
			return false, "per-instance object of a fork-join role"
		}
		return true, ""
	}
	if ta, tr := sourceTag(a.Fn), roleTag(r); ta != "" && tr != "" && ta != tr {
		return false, "different source types never run together"
	}
	if e.runPhase(r) {
		if e.afterRunBarrier(a) {
			return false, "after the run-done barrier"
		}
		if e.inactiveOnly(a) {
			return false, "only while the source is inactive"
		}
	}
	if s.Join != nil && r.Join != nil && s.In == r.In && s != r {
		if !(e.window[s.Go][ssa.Instruction(r.Go)] || e.window[r.Go][ssa.Instruction(s.Go)]) {
			return false, "fork-join windows of the two goroutine families do not overlap"
		}
	}
	if c := e.childOnPath(s, r); c != nil {
		if c.Join != nil {
			if e.window[c.Go][a.Instr] || e.winFn[c.Go][a.Fn] {
				return true, ""
			}
			return false, "outside the fork-join window of the spawner"
		}
		pi := e.pre(s, c)
		if pi.instr[a.Instr] || pi.fn[a.Fn] {
			return false, "executed by the spawner before the go statement"
		}
		return true, ""
	}
	return true, ""
}

func roleTag(r *Role) string {
	for _, f := range r.Roots {
		if t := sourceTag(f); t != "" {
			return t
		}
	}
	if r.In != nil {
		return sourceTag(r.In)
	}
	return ""
}

type Conflict struct {
	Key  FieldKey
	A, B RAccess
}

// Conflicts lists concurrent access pairs with a write and no common lock.
func (e *RaceEngine) Conflicts(ordered func(a, b RAccess) string) []Conflict {
	var out []Conflict
	var keys []FieldKey
	for k := range e.acc {
		keys = append(keys, k)
	}
	sort.Slice(keys, func(i, j int) bool { return keys[i].String() < keys[j].String() })
	for _, k := range keys {
		as := e.acc[k]
		seen := map[string]bool{}
		for i := 0; i < len(as); i++ {
			for j := i; j < len(as); j++ {
				a, b := as[i], as[j]
				if !a.Write && !b.Write {
					continue
				}
				if i == j && !(a.Role.Multi && a.Write) {
					continue
				}
				if len(intersect(a.Locks, b.Locks)) > 0 {
					continue
				}
				if ok, _ := e.mayRunDuring(a, b.Role); !ok {
					continue
				}
				if ok, _ := e.mayRunDuring(b, a.Role); !ok {
					continue
				}
				// ownership transfer: fields of message types conflict only between sibling instances
				if e.msgTy[k.Owner] && a.Role != b.Role {
					continue
				}
				if ordered != nil && ordered(a, b) != "" {
					continue
				}
				w, o := a, b
				if !w.Write {
					w, o = b, a
				}
				sig := w.Role.ID + "|" + FuncName(w.Fn) + "|" + o.Role.ID + "|" + FuncName(o.Fn)
				if seen[sig] {
					continue
				}
				seen[sig] = true
				out = append(out, Conflict{k, w, o})
			}
		}
	}
	return out
}
