package main

// E8: goroutine roles, locksets, happens-before windows, and field-level conflicts.
//
// A role is the code one `go` statement can run (its callee and everything called
// synchronously from it), plus the RPC role (all handlers) and the main role (server set-up).
// For every struct field the engine collects (role, function, read/write, must-lockset)
// accesses and reports pairs that can run concurrently with at least one write and no
// common lock.  "Can run concurrently" is decided by: the spawn point (what the spawner did
// before `go` happens-before the role), fork-join windows (a role joined by WaitGroup.Wait
// is concurrent with its spawner only between `go` and `Wait`), one-source-at-a-time tags,
// the explicit phase table, and — for roles with several simultaneous instances — per-instance
// object partitions.

import (
	"fmt"
	"go/token"
	"go/types"
	"sort"
	"strings"

	"golang.org/x/tools/go/ssa"
)

type Role struct {
	partFresh map[string]bool
	freshOnly bool
	ID        string
	Go        *ssa.Go
	In        *ssa.Function // function holding the go statement
	Roots     []*ssa.Function
	Reach     map[*ssa.Function]bool
	Multi     bool            // several instances at once (go in a loop, not sequenced)
	Join      ssa.Instruction // WaitGroup.Wait joining the instances, in In
	Scoped    bool            // every instance has ended when the spawning function returns (results collected over a channel)
	// JoinElsewhere: the instances report on a channel that the spawning function hands back to
	// its caller; whether and where they are collected is not followed
	JoinElsewhere bool
	Entry     map[*ssa.Function]map[string]bool
	PartTy    map[string]bool // per-instance object types (multi roles)
}

type RAccess struct {
	Key   FieldKey
	Write bool
	Instr ssa.Instruction
	Fn    *ssa.Function
	Locks map[string]bool
	Role  *Role
}

type RaceEngine struct {
	BadJoins [][2]string // goroutine family, where its collection can be cut short
	capAlloc     map[FieldKey]*ssa.Alloc
	capCells     map[ssa.Value]FieldKey
	lingerMemo   map[*Role]bool
	distinctMemo map[FieldKey]bool
	Why          map[FieldKey]map[string]int // per field: how many access pairs each mechanism ordered
	p            *Prog
	Roles        []*Role
	byID         map[string]*Role
	acc          map[FieldKey][]RAccess
	msgTy        map[string]bool
	after        map[*ssa.Go]map[ssa.Instruction]bool // instructions that may execute after the go statement in the spawner
	window       map[*ssa.Go]map[ssa.Instruction]bool // ... and before the join
	afterFn      map[*ssa.Go]map[*ssa.Function]bool   // functions entered after the go statement (whole body)
	winFn        map[*ssa.Go]map[*ssa.Function]bool
	preMemo      map[string]*preInfo
	runMemo      map[*Role]bool
	rv           *Rendezvous
	runFn        map[*ssa.Function]bool
	closeHB      map[*ssa.Function]map[*Role]bool // function -> roles that have ended (closed their channel) before it runs
	stars        []RAccess
	starsDone    bool
	closesAtExit map[*Role][]FieldKey
	sendsAtExit  map[*Role][]FieldKey
	endsMemo     map[*Role]bool
	reqOnly      map[*ssa.Function]bool // functions reachable only from request closures (never from block processing)
	Notes        []string
}

func sourceTag(fn *ssa.Function) string {
	for f := fn; f != nil; f = f.Parent() {
		n := FuncName(f)
		for _, pair := range [][2]string{{"TriangleSource", "triangle"}, {"SimPulseSource", "simpulse"}, {"ErroringSource", "erroring"},
			{"LanceroSource", "lancero"}, {"LanceroDevice", "lancero"}, {"RoachSource", "roach"}, {"RoachDevice", "roach"},
			{"AbacoSource", "abaco"}, {"AbacoGroup", "abaco"}, {"AbacoRing", "abaco"}, {"AbacoUDPReceiver", "abaco"}} {
			if strings.Contains(n, "(*"+pair[0]+")") || strings.Contains(n, "("+pair[0]+")") {
				return pair[1]
			}
		}
	}
	return ""
}

func inModule(fn *ssa.Function) bool {
	pk := fnPkg(fn)
	return pk != nil && strings.HasPrefix(pk.Path(), modPath) && !strings.Contains(pk.Path(), "/cmd/")
}

func (e *RaceEngine) reach(roots []*ssa.Function) map[*ssa.Function]bool {
	seen := map[*ssa.Function]bool{}
	var visit func(f *ssa.Function)
	visit = func(f *ssa.Function) {
		if f == nil || seen[f] || f.Blocks == nil || !inModule(f) {
			return
		}
		seen[f] = true
		Instrs(f, func(in ssa.Instruction) {
			if _, isGo := in.(*ssa.Go); isGo {
				return
			}
			if CallOf(in) == nil {
				return
			}
			for _, c := range e.p.callees(in) {
				visit(c)
			}
		})
	}
	for _, r := range roots {
		visit(r)
	}
	return seen
}

func NewRaceEngine(p *Prog, rv *Rendezvous) *RaceEngine {
	e := &RaceEngine{p: p, byID: map[string]*Role{}, acc: map[FieldKey][]RAccess{}, msgTy: map[string]bool{},
		after: map[*ssa.Go]map[ssa.Instruction]bool{}, window: map[*ssa.Go]map[ssa.Instruction]bool{},
		afterFn: map[*ssa.Go]map[*ssa.Function]bool{}, winFn: map[*ssa.Go]map[*ssa.Function]bool{}, preMemo: map[string]*preInfo{}, runMemo: map[*Role]bool{}}
	// roles
	rpc := &Role{ID: "rpc", Roots: rv.Handlers}
	e.Roles = append(e.Roles, rpc)
	// the server set-up / shutdown code (RunRPCServer) is not a role: set-up precedes every
	// goroutine, shutdown is outside the property's workload
	starts := p.GoStarts()
	// goroutines started by the server's main function
	if mp := p.pkgOf("cmd/dastard"); mp != nil {
		for _, mem := range mp.Members {
			fn, ok := mem.(*ssa.Function)
			if !ok {
				continue
			}
			Instrs(fn, func(in ssa.Instruction) {
				if g, ok := in.(*ssa.Go); ok {
					if f := g.Call.StaticCallee(); f != nil {
						starts = append(starts, GoStart{Instr: g, In: fn, Callees: []*ssa.Function{f}})
					}
				}
			})
		}
	}
	for _, gs := range starts {
		if len(gs.Callees) == 0 {
			e.Notes = append(e.Notes, "go statement with unresolved callee in "+FuncName(gs.In))
			continue
		}
		var names []string
		for _, c := range gs.Callees {
			names = append(names, FuncName(c))
		}
		sort.Strings(names)
		id := "go " + strings.Join(names, "|") + " in " + FuncName(gs.In)
		for i := 2; e.byID[id] != nil; i++ {
			id = fmt.Sprintf("go %s in %s #%d", strings.Join(names, "|"), FuncName(gs.In), i)
		}
		r := &Role{ID: id, Go: gs.Instr, In: gs.In, Roots: gs.Callees}
		r.Multi = InLoop(gs.Instr)
		// joined? a WaitGroup.Wait in the spawning function reachable from the go statement, with Done deferred/called in the callee
		usesDone := false
		for _, c := range gs.Callees {
			Instrs(c, func(in ssa.Instruction) {
				if IsCallTo(in, "(*sync.WaitGroup).Done") {
					usesDone = true
				}
			})
		}
		// the counter must have been raised for this goroutine before it is started: an Add made
		// by the goroutine itself can come after the spawner's Wait has already returned
		if usesDone {
			addBefore := false
			Instrs(gs.In, func(in ssa.Instruction) {
				if IsCallTo(in, "(*sync.WaitGroup).Add") && InstrDominates(in, gs.Instr) {
					addBefore = true
				}
			})
			if !addBefore {
				addInside := ""
				for _, c := range gs.Callees {
					Instrs(c, func(in ssa.Instruction) {
						if IsCallTo(in, "(*sync.WaitGroup).Add") {
							addInside = p.InstrPos(in)
						}
					})
				}
				usesDone = false
				if addInside != "" {
					e.BadJoins = append(e.BadJoins, [2]string{id, "the goroutines raise the WaitGroup counter themselves (Add at " + addInside + ", inside the goroutine) instead of the function that starts them doing so before the go statement: Wait in " + FuncName(gs.In) + " can return before a goroutine has registered, or even started"})
				}
			}
		}
		if usesDone {
			Instrs(gs.In, func(in ssa.Instruction) {
				if IsCallTo(in, "(*sync.WaitGroup).Wait") && InstrReaches(gs.Instr, in) && r.Join == nil {
					// nearest Wait that every path from the go statement to a return passes
					miss := ReachAvoiding(gs.In, gs.Instr, func(x ssa.Instruction) bool { return IsCallTo(x, "(*sync.WaitGroup).Wait") }, isReturn)
					if len(miss) == 0 {
						r.Join = in
					}
				}
			})
		}
		if r.Join == nil {
			r.Scoped = channelJoined(gs)
			if !r.Scoped {
				r.JoinElsewhere = channelHandedBack(gs)
				if r.JoinElsewhere {
					// the single caller of the spawner collects one result per instance?
					switch complete, where := callerCollects(p, gs); {
					case complete:
						r.JoinElsewhere, r.Scoped = false, true
						e.Notes = append(e.Notes, "goroutines started in "+FuncName(gs.In)+" are collected by its caller ("+where+"): treated as ended when the spawning function returns")
					case where != "":
						e.BadJoins = append(e.BadJoins, [2]string{id, where})
					}
				}
			}
		}
		e.byID[id] = r
		e.Roles = append(e.Roles, r)
	}
	for _, r := range e.Roles {
		e.byID[r.ID] = r
		r.Reach = e.reach(r.Roots)
	}
	e.rv = rv
	e.requestContext()
	e.messageTypes()
	for _, r := range e.Roles {
		if r.Go != nil {
			e.computeAfter(r)
		}
		if r.Multi {
			r.PartTy = e.partitionTypes(r)
		}
		e.locksets(r)
	}
	e.closeOrder()
	e.collect()
	return e
}

// closeOrder: a goroutine that closes channel C as its last action (deferred close in its root,
// or close immediately followed by return) has finished everything else before another
// goroutine observes C closed.  Functions called only from the "C is closed" branch of a
// receive in role B are therefore ordered after every role that closes C at exit.
func (e *RaceEngine) closeOrder() {
	e.closeHB = map[*ssa.Function]map[*Role]bool{}
	e.closesAtExit = map[*Role][]FieldKey{}
	e.sendsAtExit = map[*Role][]FieldKey{}
	closers := map[FieldKey][]*Role{}
	for _, r := range e.Roles {
		for _, root := range r.Roots {
			Instrs(root, func(in ssa.Instruction) {
				if snd, isSend := in.(*ssa.Send); isSend {
					// a goroutine whose last action is a send (followed only by return) on a channel an
					// ending role receives from does nothing after the hand-off
					if k, ok := chanKey(snd.Chan); ok && onlyReturnFollows(in) {
						e.sendsAtExit[r] = append(e.sendsAtExit[r], k)
					}
					return
				}
				cc := CallOf(in)
				if cc == nil {
					return
				}
				b, ok := cc.Value.(*ssa.Builtin)
				if !ok || b.Name() != "close" {
					// defer func() { close(ch) }(): a deferred closure that does nothing but close
					if d, isDefer := in.(*ssa.Defer); isDefer {
						if inner := onlyCloses(d); inner != nil {
							cc = inner
						} else {
							return
						}
					} else {
						return
					}
				}
				k, ok := chanKey(cc.Args[0])
				if !ok {
					return
				}
				atExit := false
				if _, isDefer := in.(*ssa.Defer); isDefer {
					// deferred calls run last-in-first-out: the close is the goroutine's last action
					// only if no other (non-trivial) defer was registered before it
					atExit = true
					Instrs(root, func(y ssa.Instruction) {
						d, isD := y.(*ssa.Defer)
						if !isD || y == in {
							return
						}
						if InstrDominates(d, in) || !InstrDominates(in.(*ssa.Defer), d) {
							if c := d.Call.StaticCallee(); c != nil && inModule(c) {
								atExit = false
							}
						}
					})
				} else {
					// followed only by return
					atExit = onlyReturnFollows(in)
				}
				if atExit {
					closers[k] = append(closers[k], r)
					e.closesAtExit[r] = append(e.closesAtExit[r], k)
				}
			})
		}
	}
	for _, r := range e.Roles {
		for fn := range r.Reach {
			// receives with comma-ok (plain or in a select) from a chan field
			Instrs(fn, func(in ssa.Instruction) {
				var k FieldKey
				var okVal ssa.Value
				switch x := in.(type) {
				case *ssa.UnOp:
					if x.Op != token.ARROW || !x.CommaOk {
						return
					}
					kk, ok := chanKey(x.X)
					if !ok {
						return
					}
					k = kk
					for _, ref := range *x.Referrers() {
						if ex, ok := ref.(*ssa.Extract); ok && ex.Index == 1 {
							okVal = ex
						}
					}
				case *ssa.Select:
					for _, st := range x.States {
						if st.Dir == types.RecvOnly {
							if kk, ok := chanKey(st.Chan); ok && len(closers[kk]) > 0 {
								k = kk
							}
						}
					}
					for _, ref := range *x.Referrers() {
						if ex, ok := ref.(*ssa.Extract); ok && ex.Index == 1 {
							okVal = ex
						}
					}
				default:
					return
				}
				if okVal == nil || len(closers[k]) == 0 {
					return
				}
				// blocks entered when ok is false: If(cond involving !ok) -- find Ifs whose condition depends on okVal
				region := map[*ssa.BasicBlock]bool{}
				for _, b := range fn.Blocks {
					iff, isIf := b.Instrs[len(b.Instrs)-1].(*ssa.If)
					if !isIf || !dependsOn(iff.Cond, okVal) {
						continue
					}
					// the successor from which the receive cannot be repeated without leaving: take the branch
					// that contains a close/return path: heuristic = the branch where ok is false: cond is NOT ok or (x || !ok)
					neg := false
					if u, ok := iff.Cond.(*ssa.UnOp); ok && u.Op == token.NOT && u.X == okVal {
						neg = true
					}
					var entry *ssa.BasicBlock
					if neg {
						entry = b.Succs[0]
					} else if iff.Cond == okVal {
						entry = b.Succs[1]
					} else {
						continue
					}
					for _, x := range fn.Blocks {
						if x == entry || entry.Dominates(x) {
							region[x] = true
						}
					}
				}
				// short-circuit forms (a == nil || !ok): the block evaluating !ok jumps to the same target as its predecessor test
				if len(region) == 0 {
					return
				}
				inRegion := map[*ssa.Function]bool{}
				outRegion := map[*ssa.Function]bool{}
				for _, b := range fn.Blocks {
					for _, x := range b.Instrs {
						if _, isGo := x.(*ssa.Go); isGo || CallOf(x) == nil {
							continue
						}
						for _, c := range e.p.callees(x) {
							for f := range e.reach([]*ssa.Function{c}) {
								if region[b] {
									inRegion[f] = true
								} else {
									outRegion[f] = true
								}
							}
						}
					}
				}
				for f := range inRegion {
					if outRegion[f] {
						continue
					}
					if e.closeHB[f] == nil {
						e.closeHB[f] = map[*Role]bool{}
					}
					for _, cl := range closers[k] {
						e.closeHB[f][cl] = true
					}
				}
			})
		}
	}
}

// channelJoined: every path of the goroutine sends on a channel made in the spawning
// function, and the spawning function cannot return after the go statement without
// receiving from that channel (results are collected before it returns).
func channelJoined(gs GoStart) bool {
	if len(gs.Callees) != 1 {
		return false
	}
	cl := gs.Callees[0]
	// the channel as the goroutine sees it (a captured variable, or a parameter) and as the
	// spawner holds it (the captured cell, or the value passed at the go statement)
	type chanPair struct{ inner, cell ssa.Value }
	var pairs []chanPair
	if cl.Parent() == gs.In {
		for i, fv := range cl.FreeVars {
			if _, isChan := derefType(fv.Type()).Underlying().(*types.Chan); !isChan {
				continue
			}
			var cell ssa.Value
			Instrs(gs.In, func(in ssa.Instruction) {
				if mc, ok := in.(*ssa.MakeClosure); ok && mc.Fn == ssa.Value(cl) && i < len(mc.Bindings) {
					cell = mc.Bindings[i]
				}
			})
			if cell != nil {
				pairs = append(pairs, chanPair{fv, cell})
			}
		}
	}
	if gs.Instr.Call.StaticCallee() == cl || cl.Parent() == gs.In {
		for i, prm := range cl.Params {
			if _, isChan := prm.Type().Underlying().(*types.Chan); !isChan || i >= len(gs.Instr.Call.Args) {
				continue
			}
			arg := gs.Instr.Call.Args[i]
			for {
				ct, isCT := arg.(*ssa.ChangeType)
				if !isCT {
					break
				}
				arg = ct.X
			}
			// only a channel made by the spawner itself (nobody else can receive from it)
			if _, isMk := arg.(*ssa.MakeChan); isMk {
				pairs = append(pairs, chanPair{prm, arg})
			}
		}
	}
	for _, cp := range pairs {
		fv, cell := cp.inner, cp.cell
		// sends on this channel on every path to return
		isSend := func(in ssa.Instruction) bool {
			s, ok := in.(*ssa.Send)
			if !ok {
				return false
			}
			u, ok := s.Chan.(*ssa.UnOp)
			return ok && u.X == fv || s.Chan == fv
		}
		if len(ReachAvoiding(cl, nil, isSend, isReturn)) > 0 {
			continue
		}
		isRecv := func(in ssa.Instruction) bool {
			u, ok := in.(*ssa.UnOp)
			if !ok || u.Op != token.ARROW {
				return false
			}
			if ld, ok := u.X.(*ssa.UnOp); ok && ld.X == cell {
				return true
			}
			return u.X == cell
		}
		if len(ReachAvoiding(gs.In, gs.Instr, isRecv, isReturn)) == 0 {
			return true
		}
		// one goroutine per element of a collection, one receive per element of the same collection
		loops := RangeLoops(gs.In)
		l1 := LoopContaining(loops, gs.Instr)
		if l1 != nil {
			o1, f1 := l1.OverField()
			for _, l2 := range loops {
				if l2 == l1 {
					continue
				}
				o2, f2 := l2.OverField()
				if f1 == "" || o1 != o2 || f1 != f2 || !BlockReaches(l1.Done, l2.Header) {
					continue
				}
				okRecv := false
				Instrs(gs.In, func(in ssa.Instruction) {
					if isRecv(in) && l2.Contains(in.Block()) && l2.EveryIteration(in.Block()) {
						okRecv = true
					}
				})
				// the collecting loop has no way out other than exhausting the collection
				// (an early return would leave the remaining goroutines running)
				exhaust := true
				for _, b := range gs.In.Blocks {
					if !l2.Contains(b) {
						continue
					}
					if len(b.Succs) == 0 {
						exhaust = false // return or panic inside the loop
					}
					for _, sc := range b.Succs {
						if !l2.Contains(sc) && sc != l2.Done {
							exhaust = false
						}
					}
				}
				if okRecv && exhaust {
					return true
				}
			}
		}
	}
	return false
}

func derefType(t types.Type) types.Type {
	if p, ok := t.(*types.Pointer); ok {
		return p.Elem()
	}
	return t
}

// requestContext: request closures run in the core goroutine while the issuing RPC handler
// is blocked on the rendezvous; with one client that orders them with everything the RPC
// goroutine does.  A function is in request context when it is reachable from request
// closures but not from the core loop by any other route.
func (e *RaceEngine) requestContext() {
	e.reqOnly = map[*ssa.Function]bool{}
	core := e.p.Func("", "", "CoreLoop")
	if core == nil || e.rv == nil {
		return
	}
	isClosure := map[*ssa.Function]bool{}
	for _, c := range e.rv.Closures {
		isClosure[c] = true
	}
	// the fire-and-forget path queues its closure from a goroutine of its own: not synchronous
	for _, cs := range e.rv.CallSites {
		if cs.Parent() == nil {
			continue
		}
		if _, started := goStarted(cs.Parent()); !started {
			continue
		}
		args := cs.Common().Args
		fns, _ := ResolveFuncs(args[len(args)-1])
		for _, c := range fns {
			if isClosure[c] {
				delete(isClosure, c)
				e.Notes = append(e.Notes, "request closure "+FuncName(c)+" is also queued from a goroutine of its own ("+FuncName(cs.Parent())+", fire-and-forget mode): not treated as synchronous with the RPC goroutine")
			}
		}
	}
	other := map[*ssa.Function]bool{}
	var visit func(f *ssa.Function)
	visit = func(f *ssa.Function) {
		if f == nil || other[f] || f.Blocks == nil || !inModule(f) || isClosure[f] {
			return
		}
		other[f] = true
		Instrs(f, func(in ssa.Instruction) {
			if _, isGo := in.(*ssa.Go); isGo {
				return
			}
			if CallOf(in) == nil {
				return
			}
			for _, c := range e.p.callees(in) {
				visit(c)
			}
		})
	}
	visit(core)
	for c := range isClosure {
		for f := range e.reach([]*ssa.Function{c}) {
			if !other[f] {
				e.reqOnly[f] = true
			}
		}
	}
}

// goStarted: is fn the callee of a go statement?
func goStarted(fn *ssa.Function) (*ssa.Go, bool) {
	par := fn.Parent()
	if par == nil {
		return nil, false
	}
	var g *ssa.Go
	Instrs(par, func(in ssa.Instruction) {
		if x, ok := in.(*ssa.Go); ok {
			if fns, ok := ResolveFuncs(x.Call.Value); ok {
				for _, f := range fns {
					if f == fn {
						g = x
					}
				}
			}
		}
	})
	return g, g != nil
}

// messageTypes: struct types that travel through channels (element types of chan-typed fields,
// parameters and make(chan) sites), and the struct types they contain by value or through slices.
func (e *RaceEngine) messageTypes() {
	var add func(t types.Type, d int)
	add = func(t types.Type, d int) {
		if d > 4 {
			return
		}
		switch x := t.(type) {
		case *types.Pointer:
			add(x.Elem(), d+1)
		case *types.Slice:
			add(x.Elem(), d+1)
		case *types.Named:
			st, ok := x.Underlying().(*types.Struct)
			if !ok || x.Obj().Pkg() == nil || !strings.HasPrefix(x.Obj().Pkg().Path(), modPath) {
				return
			}
			n := ownerName(x)
			if e.msgTy[n] {
				return
			}
			e.msgTy[n] = true
			for i := 0; i < st.NumFields(); i++ {
				add(st.Field(i).Type(), d+1) // what a message points to travels with it
			}
		}
	}
	for _, fn := range e.p.LibFuncs() {
		Instrs(fn, func(in ssa.Instruction) {
			if mc, ok := in.(*ssa.MakeChan); ok {
				add(mc.Type().Underlying().(*types.Chan).Elem(), 0)
			}
		})
	}
	for _, pk := range e.p.Pkgs {
		sc := pk.Types.Scope()
		for _, name := range sc.Names() {
			tn, ok := sc.Lookup(name).(*types.TypeName)
			if !ok {
				continue
			}
			st, ok := tn.Type().Underlying().(*types.Struct)
			if !ok {
				continue
			}
			for i := 0; i < st.NumFields(); i++ {
				if ch, ok := st.Field(i).Type().Underlying().(*types.Chan); ok {
					add(ch.Elem(), 0)
				}
			}
		}
	}
}

// computeAfter: what the spawner may still execute after the go statement (and, for joined
// roles, before the join): the rest of the spawning function, whole bodies of functions called
// from there, and — walking up — the rest of every caller after the call returns.
func (e *RaceEngine) computeAfter(r *Role) {
	after := map[ssa.Instruction]bool{}
	afterFn := map[*ssa.Function]bool{}
	win := map[ssa.Instruction]bool{}
	winFn := map[*ssa.Function]bool{}
	addCallees := func(in ssa.Instruction, fnSet map[*ssa.Function]bool) {
		if _, isGo := in.(*ssa.Go); isGo {
			return
		}
		if CallOf(in) == nil {
			return
		}
		for _, c := range e.p.callees(in) {
			for f := range e.reach([]*ssa.Function{c}) {
				fnSet[f] = true
			}
		}
	}
	// inside the spawning function
	isJoin := func(x ssa.Instruction) bool { return r.Join != nil && x == r.Join }
	for _, in := range ReachAvoiding(r.In, r.Go, nil, func(ssa.Instruction) bool { return true }) {
		after[in] = true
		addCallees(in, afterFn)
	}
	for _, in := range ReachAvoiding(r.In, r.Go, isJoin, func(ssa.Instruction) bool { return true }) {
		win[in] = true
		addCallees(in, winFn)
	}
	if r.Join == nil && !r.Scoped {
		// up the call chain: code after the calls that (transitively) reach the spawning function
		seen := map[*ssa.Function]bool{r.In: true}
		nilOnly := map[*ssa.Function]bool{r.In: returnsNilErrorAfter(r.In, r.Go, nil)}
		var up func(f *ssa.Function, d int)
		up = func(f *ssa.Function, d int) {
			if d > 8 {
				return
			}
			n := e.p.CallGraph().Nodes[f]
			if n == nil {
				return
			}
			for _, edge := range n.In {
				c := edge.Caller.Func
				if edge.Site == nil || c == nil || !inModule(c) {
					continue
				}
				if _, isGo := edge.Site.(*ssa.Go); isGo {
					continue
				}
				// when the callee returns a non-nil error only on paths that do not pass the go
				// statement, the caller's "err != nil" branch of this call runs without the goroutine
				var failed map[*ssa.BasicBlock]bool
				if nilOnly[f] {
					failed = errBranchBlocks(edge.Site)
				}
				barrier := func(x ssa.Instruction) bool { return failed[x.Block()] }
				for _, in := range ReachAvoiding(c, edge.Site, barrier, func(ssa.Instruction) bool { return true }) {
					after[in] = true
					addCallees(in, afterFn)
				}
				if _, done := nilOnly[c]; !done {
					nilOnly[c] = returnsNilErrorAfter(c, edge.Site, barrier)
				} else if nilOnly[c] {
					nilOnly[c] = returnsNilErrorAfter(c, edge.Site, barrier)
				}
				if !seen[c] {
					seen[c] = true
					up(c, d+1)
				}
			}
		}
		up(r.In, 0)
	}
	if r.Join == nil {
		for k := range after {
			win[k] = true
		}
		for k := range afterFn {
			winFn[k] = true
		}
	}
	e.after[r.Go], e.afterFn[r.Go], e.window[r.Go], e.winFn[r.Go] = after, afterFn, win, winFn
}

// returnsNilErrorAfter: fn's last result is an error and every return reachable from `from`
// (not passing the barrier) returns the nil constant there.
func returnsNilErrorAfter(fn *ssa.Function, from ssa.Instruction, barrier func(ssa.Instruction) bool) bool {
	res := fn.Signature.Results()
	if res.Len() == 0 || !isErrorType(res.At(res.Len()-1).Type()) {
		return false
	}
	rets := ReachAvoiding(fn, from, barrier, isReturn)
	if len(rets) == 0 {
		return false
	}
	for _, x := range rets {
		ret := x.(*ssa.Return)
		if len(ret.Results) == 0 {
			return false
		}
		c, ok := ret.Results[len(ret.Results)-1].(*ssa.Const)
		if !ok || c.Value != nil {
			return false
		}
	}
	return true
}

// errBranchBlocks: the blocks of the caller that execute only when the error result of the
// call instruction is non-nil (true branch of `err != nil`, and what it dominates).
func errBranchBlocks(call ssa.Instruction) map[*ssa.BasicBlock]bool {
	out := map[*ssa.BasicBlock]bool{}
	v, ok := call.(ssa.Value)
	if !ok {
		return out
	}
	var errVals []ssa.Value
	if _, isTuple := v.Type().(*types.Tuple); isTuple {
		for _, ref := range *v.Referrers() {
			if ex, ok := ref.(*ssa.Extract); ok && isErrorType(ex.Type()) {
				errVals = append(errVals, ex)
			}
		}
	} else if isErrorType(v.Type()) {
		errVals = append(errVals, v)
	}
	fn := call.Parent()
	for _, ev := range errVals {
		for _, ref := range *ev.Referrers() {
			bo, ok := ref.(*ssa.BinOp)
			if !ok || bo.Op != token.NEQ {
				continue
			}
			if c, isC := bo.Y.(*ssa.Const); !isC || c.Value != nil {
				continue
			}
			for _, r2 := range *bo.Referrers() {
				if iff, ok := r2.(*ssa.If); ok {
					tb := iff.Block().Succs[0]
					if len(tb.Preds) != 1 {
						continue
					}
					for _, b := range fn.Blocks {
						if tb.Dominates(b) {
							out[b] = true
						}
					}
				}
			}
		}
	}
	return out
}

// partitionTypes: the struct types an instance of a multi-instance role owns exclusively: the
// types of the go statement's arguments that are loop elements / fresh per iteration, what they
// contain by value, and what they point to through fields that are only ever assigned fresh objects.
func (e *RaceEngine) partitionTypes(r *Role) map[string]bool {
	out := map[string]bool{}
	var add func(t types.Type, d int)
	add = func(t types.Type, d int) {
		if d > 5 {
			return
		}
		if pt, ok := t.(*types.Pointer); ok {
			t = pt.Elem()
		}
		n, ok := t.(*types.Named)
		if !ok {
			return
		}
		st, ok := n.Underlying().(*types.Struct)
		if !ok || n.Obj().Pkg() == nil || !strings.HasPrefix(n.Obj().Pkg().Path(), modPath) {
			return
		}
		name := ownerName(n)
		if out[name] {
			return
		}
		out[name] = true
		for i := 0; i < st.NumFields(); i++ {
			f := st.Field(i)
			ft := f.Type()
			if pt, isPtr := ft.(*types.Pointer); isPtr {
				if e.onlyFreshStores(FieldKey{name, f.Name()}) {
					add(pt.Elem(), d+1)
				}
				continue
			}
			if sl, isSl := ft.(*types.Slice); isSl {
				if pt, isPtr := sl.Elem().(*types.Pointer); isPtr {
					if e.onlyFreshElemStores(FieldKey{name, f.Name()}) {
						add(pt.Elem(), d+1)
					}
					continue
				}
			}
			add(ft, d+1)
		}
	}
	for _, a := range effectiveGoArgs(r.Go) {
		if !e.perInstanceArg(r, a) {
			if _, isPtr := a.Type().(*types.Pointer); isPtr {
				e.Notes = append(e.Notes, fmt.Sprintf("go statement of %s: argument %s is not a per-iteration element or fresh object: treated as shared by all instances", r.ID, a.Name()))
			}
			continue
		}
		if _, isPtr := a.Type().(*types.Pointer); isPtr {
			add(a.Type(), 0)
		}
		if it, isI := a.Type().Underlying().(*types.Interface); isI {
			// every module type implementing the interface: each instance gets its own object
			for _, pk := range e.p.Pkgs {
				sc := pk.Types.Scope()
				for _, name := range sc.Names() {
					if tn, ok := sc.Lookup(name).(*types.TypeName); ok {
						if _, isSt := tn.Type().Underlying().(*types.Struct); isSt && types.Implements(types.NewPointer(tn.Type()), it) {
							add(tn.Type(), 0)
						}
					}
				}
			}
		}
	}
	// `go work(i)` with i the index of the starting loop: an element of a table of distinct objects
	// that the goroutine selects with exactly that index is its own
	{
		var cl *ssa.Function
		switch x := r.Go.Call.Value.(type) {
		case *ssa.MakeClosure:
			cl, _ = x.Fn.(*ssa.Function)
		case *ssa.UnOp:
			if mc, ok := resolveCell(x).(*ssa.MakeClosure); ok {
				cl, _ = mc.Fn.(*ssa.Function)
			}
		}
		if cl == nil {
			cl = r.Go.Call.StaticCallee()
		}
		if cl != nil && len(cl.Params) == len(r.Go.Call.Args) {
			for i, q := range cl.Params {
				if !isIntLike(q.Type()) {
					continue
				}
				// the argument is the loop's own index (not arithmetic on it)
				arg := r.Go.Call.Args[i]
				direct := false
				switch a := arg.(type) {
				case *ssa.Phi:
					direct = a.Block().Dominates(r.Go.Block())
				case *ssa.Extract:
					_, isNext := a.Tuple.(*ssa.Next)
					direct = isNext
				case *ssa.BinOp:
					// range-over-slice index: phi + 1
					if _, isPhi := a.X.(*ssa.Phi); isPhi && a.Op == token.ADD {
						if k, isC := constInt(a.Y); isC && k == 1 {
							direct = true
						}
					}
				}
				if !direct {
					continue
				}
				Instrs(cl, func(in ssa.Instruction) {
					ia, ok := in.(*ssa.IndexAddr)
					if !ok || stripConv(ia.Index) != ssa.Value(q) {
						return
					}
					u, ok := ia.X.(*ssa.UnOp)
					if !ok {
						return
					}
					k, isF := fieldKeyOfAddr(u.X)
					if !isF || !e.distinctElems(k, 0) {
						return
					}
					if sl, isSl := ia.X.Type().Underlying().(*types.Slice); isSl {
						if pt, isPtr := sl.Elem().(*types.Pointer); isPtr {
							add(pt.Elem(), 0)
						}
					}
				})
			}
		}
	}
	// the receiver of a method started with `go x.m()` in a loop over distinct objects
	if r.Go.Call.StaticCallee() != nil && r.Go.Call.StaticCallee().Signature.Recv() != nil && len(r.Go.Call.Args) > 0 && e.perInstanceArg(r, r.Go.Call.Args[0]) {
		add(r.Go.Call.Args[0].Type(), 0)
	}
	return out
}

// perInstanceArg: the value passed to the go statement differs for every instance of the role:
// an element of a slice/map selected by the induction variable of the loop around the go
// statement (for pointer elements the container must hold distinct objects), or an object
// freshly allocated for this instance.
func (e *RaceEngine) perInstanceArg(r *Role, v ssa.Value) bool {
	induction := func(idx ssa.Value) bool {
		for i := 0; i < 4; i++ {
			switch x := idx.(type) {
			case *ssa.Phi:
				return true
			case *ssa.BinOp:
				if _, isC := x.Y.(*ssa.Const); isC {
					idx = x.X
					continue
				}
				return false
			case *ssa.Convert:
				idx = x.X
			case *ssa.Extract: // key of a map/string range
				_, isNext := x.Tuple.(*ssa.Next)
				return isNext
			default:
				return false
			}
		}
		return false
	}
	distinctContainer := func(c ssa.Value) bool {
		// a slice of pointers held in a field: every element ever stored must be a fresh object,
		// or the slice is appended to only with fresh objects / elements of another such slice
		u, ok := c.(*ssa.UnOp)
		if !ok {
			return true // local container built in this function
		}
		k, isF := fieldKeyOfAddr(u.X)
		if !isF {
			return true
		}
		return e.distinctElems(k, 0)
	}
	switch x := v.(type) {
	case *ssa.Alloc:
		return true
	case *ssa.Call:
		c := x.Call.StaticCallee()
		return c != nil && returnsFresh(c)
	}
	if r.freshOnly {
		if mi, ok := v.(*ssa.MakeInterface); ok {
			return e.perInstanceArg(r, mi.X)
		}
		return false
	}
	switch x := v.(type) {
	case *ssa.IndexAddr: // &container[i]
		return r.Multi && InLoop(r.Go) && induction(x.Index)
	case *ssa.UnOp: // container[i] loaded
		ia, ok := x.X.(*ssa.IndexAddr)
		if !ok || !induction(ia.Index) {
			return false
		}
		return distinctContainer(ia.X)
	case *ssa.Extract: // value of a map range
		_, isNext := x.Tuple.(*ssa.Next)
		return isNext
	case *ssa.Lookup: // m[key] with a key that differs per iteration, in a map whose values are all distinct fresh objects
		keyVaries := false
		switch k := x.Index.(type) {
		case *ssa.UnOp:
			if ia, ok := k.X.(*ssa.IndexAddr); ok && induction(ia.Index) {
				keyVaries = true
			}
		case *ssa.Extract:
			_, keyVaries = k.Tuple.(*ssa.Next)
		}
		if !keyVaries {
			return false
		}
		if u, ok := x.X.(*ssa.UnOp); ok {
			if fk, isF := fieldKeyOfAddr(u.X); isF {
				return e.distinctMapValues(fk)
			}
		}
		return false
	case *ssa.MakeInterface:
		return e.perInstanceArg(r, x.X)
	}
	return false
}

// distinctMapValues: every value ever put into the map field is a fresh object (constructor result or allocation).
func (e *RaceEngine) distinctMapValues(k FieldKey) bool {
	ok := true
	n := 0
	for _, fn := range e.p.LibFuncs() {
		Instrs(fn, func(in ssa.Instruction) {
			mu, isMU := in.(*ssa.MapUpdate)
			if !isMU {
				return
			}
			u, isU := mu.Map.(*ssa.UnOp)
			if !isU {
				return
			}
			if kk, isF := fieldKeyOfAddr(u.X); !isF || kk != k {
				return
			}
			n++
			switch v := mu.Value.(type) {
			case *ssa.Alloc:
			case *ssa.Call:
				c := v.Call.StaticCallee()
				if c == nil || !returnsFresh(c) {
					ok = false
				}
			default:
				ok = false
			}
		})
	}
	return ok && n > 0
}

// distinctElems: every pointer ever put into the slice field is a distinct object: stored or
// appended values are fresh allocations, constructor results, or elements of another distinct slice/map.
func (e *RaceEngine) distinctElems(k FieldKey, depth int) bool {
	if depth > 3 {
		return false
	}
	if v, ok := e.distinctMemo[k]; ok {
		return v
	}
	if e.distinctMemo == nil {
		e.distinctMemo = map[FieldKey]bool{}
	}
	e.distinctMemo[k] = true // optimistic for cycles
	ok := true
	n := 0
	var freshVal func(v ssa.Value, d int) bool
	freshVal = func(v ssa.Value, d int) bool {
		if d > 6 {
			return false
		}
		switch x := v.(type) {
		case *ssa.Alloc:
			return true
		case *ssa.Const:
			return true
		case *ssa.Call:
			c := x.Call.StaticCallee()
			return c != nil && returnsFresh(c)
		case *ssa.Extract:
			if call, isCall := x.Tuple.(*ssa.Call); isCall {
				c := call.Call.StaticCallee()
				return c != nil && returnsFresh(c) && x.Index == 0
			}
			if _, isNext := x.Tuple.(*ssa.Next); isNext {
				return true // values of a map range: distinct keys; the map's values are assumed distinct objects (see note)
			}
			if ta, isTA := x.Tuple.(*ssa.TypeAssert); isTA {
				return freshVal(ta.X, d+1)
			}
		case *ssa.MakeInterface:
			return freshVal(x.X, d+1)
		case *ssa.ChangeInterface:
			return freshVal(x.X, d+1)
		case *ssa.TypeAssert:
			return freshVal(x.X, d+1)
		case *ssa.Lookup: // m[key] with key varying per iteration
			return true
		case *ssa.UnOp:
			if ia, isIA := x.X.(*ssa.IndexAddr); isIA {
				if u, isU := ia.X.(*ssa.UnOp); isU {
					if kk, isF := fieldKeyOfAddr(u.X); isF {
						return e.distinctElems(kk, depth+1)
					}
				}
				return true
			}
		}
		return false
	}
	for _, fn := range e.p.LibFuncs() {
		Instrs(fn, func(in ssa.Instruction) {
			st, isSt := in.(*ssa.Store)
			if !isSt {
				return
			}
			// element store
			if ia, isIA := st.Addr.(*ssa.IndexAddr); isIA {
				if u, isU := ia.X.(*ssa.UnOp); isU {
					if kk, isF := fieldKeyOfAddr(u.X); isF && kk == k {
						n++
						if !freshVal(st.Val, 0) {
							ok = false
						}
					}
				}
				return
			}
			kk, isF := fieldKeyOfAddr(st.Addr)
			if !isF || kk != k {
				return
			}
			n++
			// whole-slice store: make(...), nil, slice[:0] of itself, or append(self, fresh...)
			val := st.Val
			for i := 0; i < 4; i++ {
				if sl, isSl := val.(*ssa.Slice); isSl {
					val = sl.X
					continue
				}
				break
			}
			switch x := val.(type) {
			case *ssa.MakeSlice, *ssa.Const, *ssa.Alloc:
			case *ssa.UnOp:
				if k2, isF2 := fieldKeyOfAddr(x.X); !isF2 || (k2 != k && !e.distinctElems(k2, depth+1)) {
					ok = false
				}
			case *ssa.Call:
				if b, isB := x.Call.Value.(*ssa.Builtin); isB && b.Name() == "append" && len(x.Call.Args) == 2 {
					// append(s, elems...): the variadic slice is built from stores into a fresh array
					if !e.appendedFresh(x.Call.Args[1], freshVal) {
						ok = false
					}
				} else {
					ok = false
				}
			case *ssa.Phi:
				// loop-carried append chains: every edge is the field itself, a make, or an append of fresh values
				for _, ed := range x.Edges {
					switch y := ed.(type) {
					case *ssa.MakeSlice, *ssa.Const:
					case *ssa.Phi:
					case *ssa.Call:
						if b, isB := y.Call.Value.(*ssa.Builtin); !isB || b.Name() != "append" || !e.appendedFresh(y.Call.Args[1], freshVal) {
							ok = false
						}
					default:
						ok = false
					}
				}
			default:
				ok = false
			}
		})
	}
	res := ok && n > 0
	e.distinctMemo[k] = res
	return res
}

// appendedFresh: the variadic argument of append is a slice over a fresh array whose stored
// elements are all fresh values.
func (e *RaceEngine) appendedFresh(arg ssa.Value, freshVal func(ssa.Value, int) bool) bool {
	sl, ok := arg.(*ssa.Slice)
	if !ok {
		return false
	}
	arr, ok := sl.X.(*ssa.Alloc)
	if !ok {
		return false
	}
	good := true
	n := 0
	for _, ref := range *arr.Referrers() {
		ia, isIA := ref.(*ssa.IndexAddr)
		if !isIA {
			continue
		}
		for _, r2 := range *ia.Referrers() {
			if st, isSt := r2.(*ssa.Store); isSt && st.Addr == ia {
				n++
				if !freshVal(st.Val, 0) {
					good = false
				}
			}
		}
	}
	return good && n > 0
}

func (e *RaceEngine) onlyFreshStores(k FieldKey) bool {
	n := 0
	ok := true
	for _, fn := range e.p.LibFuncs() {
		Instrs(fn, func(in ssa.Instruction) {
			st, isSt := in.(*ssa.Store)
			if !isSt {
				return
			}
			kk, isF := fieldKeyOfAddr(st.Addr)
			if !isF || kk != k {
				return
			}
			n++
			switch v := st.Val.(type) {
			case *ssa.Alloc:
			case *ssa.Const:
				if v.Value != nil {
					ok = false
				}
			case *ssa.Call:
				// constructor result (NewWriter ...): a function whose returns are fresh allocations
				c := v.Call.StaticCallee()
				if c == nil || !returnsFresh(c) {
					ok = false
				}
			case *ssa.Extract:
				call, isCall := v.Tuple.(*ssa.Call)
				if !isCall || call.Call.StaticCallee() == nil || !returnsFresh(call.Call.StaticCallee()) || v.Index != 0 {
					ok = false
				}
			default:
				// a pointer into memory owned by the same object (e.g. &x.buf[0] stored into x.p)
				if !derivedFromSameObject(st) {
					ok = false
				}
			}
		})
	}
	return ok && n > 0
}

// derivedFromSameObject: the stored pointer is computed from an address inside the object
// whose field is being assigned.
func derivedFromSameObject(st *ssa.Store) bool {
	base := addrRoot(st.Addr)
	v := st.Val
	for i := 0; i < 8; i++ {
		switch x := v.(type) {
		case *ssa.Convert:
			v = x.X
			continue
		case *ssa.ChangeType:
			v = x.X
			continue
		case *ssa.IndexAddr:
			v = x.X
			continue
		case *ssa.FieldAddr:
			if addrRoot(x) == base {
				return true
			}
			v = x.X
			continue
		case *ssa.UnOp:
			if x.Op == token.MUL {
				v = x.X
				continue
			}
		}
		break
	}
	return v == base
}

// onlyFreshElemStores: every element stored into the slice field is a freshly allocated object.
func (e *RaceEngine) onlyFreshElemStores(k FieldKey) bool {
	n := 0
	ok := true
	for _, fn := range e.p.LibFuncs() {
		Instrs(fn, func(in ssa.Instruction) {
			st, isSt := in.(*ssa.Store)
			if !isSt {
				return
			}
			ia, isIA := st.Addr.(*ssa.IndexAddr)
			if !isIA {
				return
			}
			u, isU := ia.X.(*ssa.UnOp)
			if !isU {
				return
			}
			kk, isF := fieldKeyOfAddr(u.X)
			if !isF || kk != k {
				return
			}
			n++
			switch v := st.Val.(type) {
			case *ssa.Alloc:
			case *ssa.Call:
				c := v.Call.StaticCallee()
				if c == nil || !returnsFresh(c) {
					ok = false
				}
			default:
				ok = false
			}
		})
	}
	return ok && n > 0
}

func returnsFresh(fn *ssa.Function) bool { return returnsFreshD(fn, 0) }

// returnsFreshD: every return hands out an object made for this call: an allocation of the
// function itself, nil, or what another such function returned (a constructor behind a helper).
func returnsFreshD(fn *ssa.Function, depth int) bool {
	if fn == nil || fn.Blocks == nil || depth > 3 {
		return false
	}
	ok := true
	n := 0
	var fresh func(v ssa.Value, d int) bool
	fresh = func(v ssa.Value, d int) bool {
		if d > 4 {
			return false
		}
		switch x := v.(type) {
		case *ssa.Alloc:
			return true
		case *ssa.Const:
			return x.Value == nil
		case *ssa.Call:
			return !x.Call.IsInvoke() && returnsFreshD(x.Call.StaticCallee(), depth+1)
		case *ssa.Extract:
			if call, isCall := x.Tuple.(*ssa.Call); isCall && x.Index == 0 {
				return !call.Call.IsInvoke() && returnsFreshD(call.Call.StaticCallee(), depth+1)
			}
		case *ssa.Phi:
			for _, e := range x.Edges {
				if !fresh(e, d+1) {
					return false
				}
			}
			return len(x.Edges) > 0
		}
		return false
	}
	Instrs(fn, func(in ssa.Instruction) {
		ret, isRet := in.(*ssa.Return)
		if !isRet || len(ret.Results) == 0 || ret.Block() == fn.Recover {
			return
		}
		n++
		if !fresh(ret.Results[0], 0) {
			ok = false
		}
	})
	return ok && n > 0
}

// ---- locksets ---------------------------------------------------------------------------

func mutexKey(v ssa.Value) string {
	// receiver of Lock/Unlock: &x.mu  or &x.Mutex (embedded)
	if fa, ok := v.(*ssa.FieldAddr); ok {
		k, _ := fieldKeyOfAddr(fa)
		return k.String()
	}
	if u, ok := v.(*ssa.UnOp); ok && u.Op == token.MUL {
		return mutexKey(u.X)
	}
	if g, ok := v.(*ssa.Global); ok {
		return "var " + g.Name()
	}
	return ""
}

func lockOp(in ssa.Instruction) (key string, acquire bool, ok bool) {
	cc := CallOf(in)
	if cc == nil || len(cc.Args) == 0 {
		return
	}
	switch CalleeName(cc) {
	case "(*sync.Mutex).Lock", "(*sync.RWMutex).Lock", "(*sync.RWMutex).RLock":
		return mutexKey(cc.Args[0]), true, true
	case "(*sync.Mutex).Unlock", "(*sync.RWMutex).Unlock", "(*sync.RWMutex).RUnlock":
		return mutexKey(cc.Args[0]), false, true
	}
	return
}

func copySet(m map[string]bool) map[string]bool {
	out := map[string]bool{}
	for k := range m {
		out[k] = true
	}
	return out
}

func intersect(a, b map[string]bool) map[string]bool {
	out := map[string]bool{}
	for k := range a {
		if b[k] {
			out[k] = true
		}
	}
	return out
}

// heldAt computes, for fn entered with `entry` held, the must-held set before each instruction.
func heldAt(fn *ssa.Function, entry map[string]bool) map[ssa.Instruction]map[string]bool {
	in := make([]map[string]bool, len(fn.Blocks))
	out := map[ssa.Instruction]map[string]bool{}
	in[0] = copySet(entry)
	changed := true
	for changed {
		changed = false
		for _, b := range fn.Blocks {
			if in[b.Index] == nil {
				continue
			}
			cur := copySet(in[b.Index])
			for _, ins := range b.Instrs {
				out[ins] = copySet(cur)
				if _, isDefer := ins.(*ssa.Defer); isDefer {
					continue
				}
				if k, acq, ok := lockOp(ins); ok && k != "" {
					if acq {
						cur[k] = true
					} else {
						delete(cur, k)
					}
				}
			}
			for _, s := range b.Succs {
				if in[s.Index] == nil {
					in[s.Index] = copySet(cur)
					changed = true
				} else {
					m := intersect(in[s.Index], cur)
					if len(m) != len(in[s.Index]) {
						in[s.Index] = m
						changed = true
					}
				}
			}
		}
	}
	return out
}

func (e *RaceEngine) locksets(r *Role) {
	r.Entry = map[*ssa.Function]map[string]bool{}
	for _, root := range r.Roots {
		r.Entry[root] = map[string]bool{}
	}
	for iter := 0; iter < 6; iter++ {
		changed := false
		for fn := range r.Reach {
			entry, known := r.Entry[fn]
			if !known {
				continue
			}
			held := heldAt(fn, entry)
			Instrs(fn, func(in ssa.Instruction) {
				if _, isGo := in.(*ssa.Go); isGo {
					return
				}
				if CallOf(in) == nil {
					return
				}
				for _, c := range e.p.callees(in) {
					if !r.Reach[c] {
						continue
					}
					h := held[in]
					if _, isDefer := in.(*ssa.Defer); isDefer {
						h = map[string]bool{}
					}
					old, had := r.Entry[c]
					if !had {
						r.Entry[c] = copySet(h)
						changed = true
					} else {
						m := intersect(old, h)
						if len(m) != len(old) {
							r.Entry[c] = m
							changed = true
						}
					}
				}
			})
		}
		if !changed {
			break
		}
	}
}

// postRendezvousFns: functions an RPC handler calls after one of its rendezvous calls returned.
// The core loop has resumed by then, in whatever state the request left: what these functions read
// is read while the processing goroutines run.
func (e *RaceEngine) postRendezvousFns() map[*ssa.Function]bool {
	out := map[*ssa.Function]bool{}
	if e.rv == nil {
		return out
	}
	reachesQueue := map[*ssa.Function]int{} // 1 yes, 2 no
	var rq func(f *ssa.Function, d int) bool
	rq = func(f *ssa.Function, d int) bool {
		if f == nil || f.Blocks == nil || d > 4 {
			return false
		}
		if e.rv.Queues[f] {
			return true
		}
		if v, ok := reachesQueue[f]; ok {
			return v == 1
		}
		reachesQueue[f] = 2
		res := false
		Instrs(f, func(in ssa.Instruction) {
			if _, isGo := in.(*ssa.Go); isGo || res {
				return
			}
			if cc := CallOf(in); cc != nil {
				if g := cc.StaticCallee(); g != nil && inModule(g) && rq(g, d+1) {
					res = true
				}
			}
		})
		if res {
			reachesQueue[f] = 1
		}
		return res
	}
	var mark func(f *ssa.Function, d int)
	mark = func(f *ssa.Function, d int) {
		if f == nil || out[f] || f.Blocks == nil || !inModule(f) || d > 6 {
			return
		}
		out[f] = true
		Instrs(f, func(in ssa.Instruction) {
			if _, isGo := in.(*ssa.Go); isGo {
				return
			}
			if CallOf(in) == nil {
				return
			}
			for _, c := range e.p.callees(in) {
				mark(c, d+1)
			}
		})
	}
	for _, h := range e.rv.Handlers {
		var rvCalls []ssa.Instruction
		Instrs(h, func(in ssa.Instruction) {
			if cc := CallOf(in); cc != nil {
				if g := cc.StaticCallee(); g != nil && inModule(g) && rq(g, 0) {
					rvCalls = append(rvCalls, in)
				}
			}
		})
		if len(rvCalls) == 0 {
			continue
		}
		Instrs(h, func(in ssa.Instruction) {
			if CallOf(in) == nil {
				return
			}
			after := false
			for _, rc := range rvCalls {
				if in != rc && InstrReaches(rc, in) {
					after = true
				}
			}
			if !after {
				return
			}
			for _, c := range e.p.callees(in) {
				if c != nil && inModule(c) && !rq(c, 0) {
					mark(c, 0)
				}
			}
		})
	}
	return out
}

func (e *RaceEngine) collect() {
	postRV := e.postRendezvousFns()
	for _, r := range e.Roles {
		var fns []*ssa.Function
		for f := range r.Reach {
			fns = append(fns, f)
		}
		sort.Slice(fns, func(i, j int) bool {
			return fns[i].Pos() < fns[j].Pos() || fns[i].Pos() == fns[j].Pos() && fns[i].String() < fns[j].String()
		})
		for _, fn := range fns {
			entry := r.Entry[fn]
			if entry == nil {
				entry = map[string]bool{}
			}
			held := heldAt(fn, entry)
			for _, a := range DirectAccesses(fn) {
				if e.freshBase(a.Instr) {
					continue // a private copy returned by a function that allocates its result
				}
				if e.requestObject(fn, a.Instr) {
					continue // the decoded request / reply object of this very RPC call
				}
				a.Key = e.qualifyLongLived(a.Instr, a.Key)
				ra := RAccess{a.Key, a.Write, a.Instr, fn, held[a.Instr], r}
				if u, ok := a.Instr.(*ssa.UnOp); ok && u.Op == token.MUL && a.Key.Field != "*" {
					if nt, ok := u.Type().(*types.Named); ok {
						if _, isSt := nt.Underlying().(*types.Struct); isSt && nt.Obj().Pkg() != nil && strings.HasPrefix(nt.Obj().Pkg().Path(), modPath) {
							e.stars = append(e.stars, RAccess{FieldKey{ownerName(nt), "*"}, false, a.Instr, fn, held[a.Instr], r})
							// a copy made by a handler after its request was served also reads every
							// struct held by value inside (the processing goroutines are running again)
							if r.ID == "rpc" && postRV[fn] {
								for _, inner := range nestedValueStructs(nt, 3) {
									e.stars = append(e.stars, RAccess{FieldKey{ownerName(inner), "*"}, false, a.Instr, fn, held[a.Instr], r})
								}
							}
						}
					}
				}
				if a.Key.Field == "*" {
					e.stars = append(e.stars, ra)
					continue
				}
				e.acc[a.Key] = append(e.acc[a.Key], ra)
			}
			// package-level variables of the module, and the global stores of libraries that
			// are not safe for concurrent use (table below)
			Instrs(fn, func(in ssa.Instruction) {
				// local variables shared with goroutines through closure capture
				var cell ssa.Value
				wr := false
				switch x := in.(type) {
				case *ssa.Store:
					cell, wr = x.Addr, true
				case *ssa.UnOp:
					if x.Op == token.MUL {
						cell = x.X
					}
				}
				if cell != nil {
					if k, ok := e.capturedKey(cell); ok {
						e.acc[k] = append(e.acc[k], RAccess{k, wr, in, fn, held[in], r})
					}
				}
				switch x := in.(type) {
				case *ssa.Store:
					if g, ok := x.Addr.(*ssa.Global); ok && g.Pkg != nil && strings.HasPrefix(g.Pkg.Pkg.Path(), modPath) {
						k := FieldKey{"var", g.Name()}
						e.acc[k] = append(e.acc[k], RAccess{k, true, in, fn, held[in], r})
					}
				case *ssa.UnOp:
					if g, ok := x.X.(*ssa.Global); ok && x.Op == token.MUL && g.Pkg != nil && strings.HasPrefix(g.Pkg.Pkg.Path(), modPath) {
						k := FieldKey{"var", g.Name()}
						e.acc[k] = append(e.acc[k], RAccess{k, false, in, fn, held[in], r})
					}
				}
				if cc := CallOf(in); cc != nil {
					if callee := cc.StaticCallee(); callee != nil && callee.Pkg != nil && callee.Signature.Recv() == nil {
						if tbl, ok := librarySingletons[callee.Pkg.Pkg.Path()]; ok {
							k := FieldKey{tbl.name, "global store"}
							e.acc[k] = append(e.acc[k], RAccess{k, tbl.writes[callee.Name()], in, fn, held[in], r})
						}
					}
				}
			})
		}
	}
}

// capturedKey: the cell is a local variable of scalar (or slice/map header) type that a `go`
// closure captures: either the variable in the function that declares it, or the closure's
// free variable bound to it.
func (e *RaceEngine) capturedKey(cell ssa.Value) (FieldKey, bool) {
	if e.capCells == nil {
		e.capCells = map[ssa.Value]FieldKey{}
		for _, ro := range e.Roles {
			if ro.Go == nil {
				continue
			}
			mc, ok := ro.Go.Call.Value.(*ssa.MakeClosure)
			if !ok {
				continue
			}
			cl, _ := mc.Fn.(*ssa.Function)
			if cl == nil {
				continue
			}
			for i, b := range mc.Bindings {
				al, isAl := b.(*ssa.Alloc)
				if !isAl || i >= len(cl.FreeVars) {
					continue
				}
				switch derefType(al.Type()).Underlying().(type) {
				case *types.Struct, *types.Chan, *types.Signature, *types.Interface, *types.Pointer:
					continue // structs are tracked by field; channels, functions and pointers are only read
				}
				k := FieldKey{"local", FuncName(ro.In) + "." + al.Comment}
				e.capCells[al] = k
				e.capCells[cl.FreeVars[i]] = k
				if e.capAlloc == nil {
					e.capAlloc = map[FieldKey]*ssa.Alloc{}
				}
				e.capAlloc[k] = al
			}
		}
	}
	k, ok := e.capCells[cell]
	return k, ok
}

// librarySingletons: third-party packages whose package-level functions operate on one global
// object without internal locking.  A call is a write when the function is listed, else a read.
var librarySingletons = map[string]struct {
	name   string
	writes map[string]bool
}{
	"github.com/spf13/viper": {"viper", map[string]bool{
		"Set": true, "SetDefault": true, "SetConfigName": true, "SetConfigFile": true, "SetConfigType": true,
		"AddConfigPath": true, "ReadInConfig": true, "MergeInConfig": true, "ReadConfig": true, "MergeConfig": true,
		"MergeConfigMap": true, "Reset": true, "BindEnv": true, "AutomaticEnv": true, "RegisterAlias": true,
	}},
}

// qualifyLongLived: a struct of a message type that is held by value inside a struct that is
// not a message (SourceControl.totalData is a Heartbeat, DataStream embeds a DataSegment) is a
// long-lived object, not a message in flight: its fields are keyed by the holder so that the
// ownership-transfer exemption of message types does not apply to them.
func (e *RaceEngine) qualifyLongLived(in ssa.Instruction, k FieldKey) FieldKey {
	if !e.msgTy[k.Owner] {
		return k
	}
	var addr ssa.Value
	switch x := in.(type) {
	case *ssa.Store:
		addr = x.Addr
	case *ssa.UnOp:
		addr = x.X
	default:
		return k
	}
	if ia, ok := addr.(*ssa.IndexAddr); ok {
		addr = ia.X
		if u, isU := addr.(*ssa.UnOp); isU {
			addr = u.X
		}
	}
	fa, ok := addr.(*ssa.FieldAddr)
	if !ok {
		return k
	}
	for x := fa.X; ; {
		in2, ok := x.(*ssa.FieldAddr)
		if !ok {
			return k
		}
		outer := ownerName(derefType(in2.X.Type()))
		st := derefStruct(in2.X.Type())
		if st != nil && !e.msgTy[outer] {
			return FieldKey{outer + "·" + st.Field(in2.Field).Name(), k.Field}
		}
		x = in2.X
	}
}

func ownerBase(o string) string {
	if i := strings.Index(o, "·"); i >= 0 {
		return o[:i]
	}
	return o
}

// freshBase: the accessed object is the result of a call whose every target returns a fresh allocation.
func (e *RaceEngine) freshBase(in ssa.Instruction) bool {
	var addr ssa.Value
	switch x := in.(type) {
	case *ssa.Store:
		addr = x.Addr
	case *ssa.UnOp:
		addr = x.X
	case *ssa.Field:
		addr = x.X
	default:
		return false
	}
	root := addrRoot(addr)
	if u, ok := root.(*ssa.UnOp); ok && u.Op == token.MUL {
		// pointer held in a local cell: the single stored value
		if a, ok := u.X.(*ssa.Alloc); ok {
			var v ssa.Value
			n := 0
			for _, ref := range *a.Referrers() {
				if st, ok := ref.(*ssa.Store); ok && st.Addr == ssa.Value(a) {
					v = st.Val
					n++
				}
			}
			if n == 1 {
				root = v
			}
		}
	}
	call, ok := root.(*ssa.Call)
	if !ok {
		return false
	}
	cs := e.p.callees(call)
	if len(cs) == 0 {
		return false
	}
	for _, c := range cs {
		u := Unwrap(c)
		if u == nil || !returnsFresh(u) {
			return false
		}
	}
	return true
}

// requestObject: the access goes through the argument or reply parameter of an RPC handler
// (objects decoded / allocated by net/rpc for this one call).
func (e *RaceEngine) requestObject(fn *ssa.Function, in ssa.Instruction) bool {
	isHandler := false
	for _, h := range e.rv.Handlers {
		if h == fn {
			isHandler = true
		}
	}
	if !isHandler || len(fn.Params) < 3 {
		return false
	}
	var addr ssa.Value
	switch x := in.(type) {
	case *ssa.Store:
		addr = x.Addr
	case *ssa.UnOp:
		addr = x.X
	case *ssa.Field:
		addr = x.X
	default:
		return false
	}
	root := addrRoot(addr)
	for i := 0; i < 3; i++ {
		if u, ok := root.(*ssa.UnOp); ok && u.Op == token.MUL {
			root = addrRoot(u.X)
			// captured/spilled parameter cell
			if a, ok := root.(*ssa.Alloc); ok {
				for _, ref := range *a.Referrers() {
					if st, ok := ref.(*ssa.Store); ok && st.Addr == ssa.Value(a) {
						root = st.Val
					}
				}
			}
		}
	}
	return root == ssa.Value(fn.Params[1]) || root == ssa.Value(fn.Params[2])
}

// ---- concurrency ------------------------------------------------------------------------

// parents: roles that execute r's go statement.
func (e *RaceEngine) parents(r *Role) []*Role {
	var out []*Role
	if r.Go == nil {
		return nil
	}
	for _, s := range e.Roles {
		if s != r && s.Reach[r.In] {
			out = append(out, s)
		}
	}
	return out
}

// childOnPath: the role directly spawned by s on a spawn chain from s down to r (nil if s is not an ancestor of r).
func (e *RaceEngine) childOnPath(s, r *Role) *Role {
	seen := map[*Role]bool{}
	var up func(x *Role) *Role
	up = func(x *Role) *Role {
		if seen[x] {
			return nil
		}
		seen[x] = true
		for _, par := range e.parents(x) {
			if par == s {
				return x
			}
			if c := up(par); c != nil {
				return c
			}
		}
		return nil
	}
	return up(r)
}

// pre computes, for spawner s and its directly spawned child c, which of s's instructions /
// functions can only execute before c's go statement.
type preInfo struct {
	instr map[ssa.Instruction]bool
	fn    map[*ssa.Function]bool
}

func (e *RaceEngine) pre(s, c *Role) *preInfo {
	key := s.ID + "->" + c.ID
	if pi, ok := e.preMemo[key]; ok {
		return pi
	}
	pi := &preInfo{instr: map[ssa.Instruction]bool{}, fn: map[*ssa.Function]bool{}}
	e.preMemo[key] = pi
	afterFn := map[*ssa.Function]bool{}
	preCallees := map[*ssa.Function]bool{}
	chainRoots := map[*ssa.Function]bool{}
	addReach := func(in ssa.Instruction, set map[*ssa.Function]bool) {
		if _, isGo := in.(*ssa.Go); isGo {
			return
		}
		if CallOf(in) == nil {
			return
		}
		for _, cal := range e.p.callees(in) {
			for f := range e.reach([]*ssa.Function{cal}) {
				set[f] = true
			}
		}
	}
	seen := map[*ssa.Function]bool{}
	// nilOnly[f]: after the go statement (or after the call leading to it) f returns only a nil error
	nilOnly := map[*ssa.Function]bool{}
	var walk func(f *ssa.Function, site ssa.Instruction, d int, calleeNilOnly bool)
	walk = func(f *ssa.Function, site ssa.Instruction, d int, calleeNilOnly bool) {
		after := map[ssa.Instruction]bool{}
		// the "err != nil" branch of a call that spawns only on its success paths runs without the goroutine
		var failed map[*ssa.BasicBlock]bool
		if calleeNilOnly {
			failed = errBranchBlocks(site)
		}
		barrier := func(x ssa.Instruction) bool { return failed[x.Block()] }
		for _, in := range ReachAvoiding(f, site, barrier, func(ssa.Instruction) bool { return true }) {
			after[in] = true
			addReach(in, afterFn)
		}
		nilOnly[f] = returnsNilErrorAfter(f, site, barrier)
		Instrs(f, func(in ssa.Instruction) {
			if !after[in] && in != site {
				pi.instr[in] = true
				addReach(in, preCallees)
			}
		})
		isRoot := false
		for _, rt := range s.Roots {
			if rt == f {
				isRoot = true
			}
		}
		if isRoot {
			chainRoots[f] = true
		}
		if seen[f] || d > 8 {
			return
		}
		seen[f] = true
		if n := e.p.CallGraph().Nodes[f]; n != nil {
			for _, edge := range n.In {
				cal := edge.Caller.Func
				if edge.Site == nil || cal == nil || !s.Reach[cal] {
					continue
				}
				if _, isGo := edge.Site.(*ssa.Go); isGo {
					continue
				}
				walk(cal, edge.Site, d+1, nilOnly[f])
			}
		}
	}
	walk(c.In, c.Go, 0, false)
	// other entry points of the spawner may run at any later time
	for _, rt := range s.Roots {
		if !chainRoots[rt] {
			for f := range e.reach([]*ssa.Function{rt}) {
				afterFn[f] = true
			}
		}
	}
	for f := range preCallees {
		if !afterFn[f] {
			pi.fn[f] = true
		}
	}
	return pi
}

// runPhase: roles that live inside a run: the core loop, everything it spawns, and the
// goroutines started by the sources' StartRun.
func (e *RaceEngine) runPhase(r *Role) bool {
	if v, ok := e.runMemo[r]; ok {
		return v
	}
	e.runMemo[r] = false
	res := false
	for _, rt := range r.Roots {
		if rt.Name() == "CoreLoop" {
			res = true
		}
	}
	if r.In != nil && e.runFuncs()[r.In] {
		res = true
	}
	for _, par := range e.parents(r) {
		if e.runPhase(par) {
			res = true
		}
	}
	e.runMemo[r] = res
	return res
}

// runFuncs: functions reachable from the core loop and from the sources' StartRun / getNextBlock.
func (e *RaceEngine) runFuncs() map[*ssa.Function]bool {
	if e.runFn != nil {
		return e.runFn
	}
	var roots []*ssa.Function
	for _, fn := range e.p.LibFuncs() {
		if fn.Parent() == nil && (fn.Name() == "CoreLoop" || fn.Name() == "StartRun" || fn.Name() == "getNextBlock") {
			roots = append(roots, fn)
		}
	}
	e.runFn = e.reach(roots)
	// include closures lexically inside those functions (goroutine bodies)
	for f := range e.runFn {
		for _, a := range Anons(f) {
			e.runFn[a] = true
		}
	}
	return e.runFn
}

// endsWithRun: the role has finished by the time the core loop returns (and hence by the time
// the run-done barrier opens and the state can be Inactive again): the core loop itself,
// goroutines joined inside an ending role, and goroutines whose last action is closing a
// channel that an ending role receives from.
// chanKeyDeep: like chanKey, but also sees through a local holding the result of a call
// whose targets all return one chan-typed field (nextBlock := ds.getNextBlock()).
func (e *RaceEngine) chanKeyDeep(v ssa.Value, depth int) (FieldKey, bool) {
	if k, ok := chanKey(v); ok {
		return k, true
	}
	if depth > 3 {
		return FieldKey{}, false
	}
	switch x := v.(type) {
	case *ssa.Phi:
		var res FieldKey
		found := false
		for _, ed := range x.Edges {
			if k, ok := e.chanKeyDeep(ed, depth+1); ok {
				res, found = k, true
			}
		}
		return res, found
	case *ssa.Call:
		var res FieldKey
		found := false
		for _, c := range e.p.callees(x) {
			u := Unwrap(c)
			if u == nil || u.Blocks == nil {
				continue
			}
			Instrs(u, func(in ssa.Instruction) {
				if ret, ok := in.(*ssa.Return); ok && len(ret.Results) == 1 {
					if k, ok := chanKey(ret.Results[0]); ok {
						res, found = k, true
					}
				}
			})
		}
		return res, found
	}
	return FieldKey{}, false
}

func (e *RaceEngine) endsWithRun(r *Role) bool {
	if e.endsMemo == nil {
		e.endsMemo = map[*Role]bool{}
		for iter := 0; iter < 6; iter++ {
			for _, x := range e.Roles {
				if e.endsMemo[x] {
					continue
				}
				if isCoreRole(x) {
					e.endsMemo[x] = true
					continue
				}
				if x.bounded() {
					for _, par := range e.parents(x) {
						if e.endsMemo[par] {
							e.endsMemo[x] = true
						}
					}
				}
				for _, k := range append(append([]FieldKey{}, e.closesAtExit[x]...), e.sendsOnEveryExit(x)...) {
					for _, q := range e.Roles {
						if !e.endsMemo[q] || q == x {
							continue
						}
						for f := range q.Reach {
							Instrs(f, func(in ssa.Instruction) {
								switch y := in.(type) {
								case *ssa.UnOp:
									if y.Op == token.ARROW {
										if kk, ok := e.chanKeyDeep(y.X, 0); ok && kk == k {
											e.endsMemo[x] = true
										}
									}
								case *ssa.Select:
									for _, st := range y.States {
										if st.Dir == types.RecvOnly {
											if kk, ok := e.chanKeyDeep(st.Chan, 0); ok && kk == k {
												e.endsMemo[x] = true
											}
										}
									}
								}
							})
						}
					}
				}
			}
		}
	}
	return e.endsMemo[r]
}

// sendsOnEveryExit: channels on which the role's root sends as its last action on every path
// to a return (the root has no other way to finish).
func (e *RaceEngine) sendsOnEveryExit(r *Role) []FieldKey {
	if len(e.sendsAtExit[r]) == 0 || len(r.Roots) != 1 {
		return nil
	}
	root := r.Roots[0]
	ok := true
	Instrs(root, func(in ssa.Instruction) {
		if _, isRet := in.(*ssa.Return); !isRet {
			return
		}
		// the instruction before the return (ignoring RunDefers) must be a send
		blk := in.Block()
		prev := ssa.Instruction(nil)
		for _, x := range blk.Instrs {
			if x == in {
				break
			}
			if _, isRD := x.(*ssa.RunDefers); isRD {
				continue
			}
			prev = x
		}
		if _, isSend := prev.(*ssa.Send); !isSend {
			ok = false
		}
	})
	if !ok {
		return nil
	}
	return e.sendsAtExit[r]
}

func onlyReturnFollows(in ssa.Instruction) bool {
	trivial := func(y ssa.Instruction) bool {
		switch y.(type) {
		case *ssa.Return, *ssa.RunDefers, *ssa.DebugRef, *ssa.Jump, *ssa.Phi:
			return true
		}
		return false
	}
	blk := in.Block()
	started := false
	for steps := 0; steps < 6; steps++ {
		for _, y := range blk.Instrs {
			if !started {
				started = y == in
				continue
			}
			if !trivial(y) {
				return false
			}
			if _, isRet := y.(*ssa.Return); isRet {
				return true
			}
		}
		// an unconditional jump into a block that only merges and returns
		if len(blk.Succs) != 1 {
			return false
		}
		blk = blk.Succs[0]
	}
	return false
}

// onlyCloses: the deferred call runs a closure whose whole body is close(ch); returns that close.
func onlyCloses(d *ssa.Defer) *ssa.CallCommon {
	mc, ok := d.Call.Value.(*ssa.MakeClosure)
	if !ok {
		return nil
	}
	fn, ok := mc.Fn.(*ssa.Function)
	if !ok || len(fn.Blocks) != 1 {
		return nil
	}
	var found *ssa.CallCommon
	n := 0
	for _, in := range fn.Blocks[0].Instrs {
		switch x := in.(type) {
		case *ssa.Call:
			n++
			if b, isB := x.Call.Value.(*ssa.Builtin); isB && b.Name() == "close" {
				found = &x.Call
			}
		case *ssa.UnOp, *ssa.FieldAddr, *ssa.Return, *ssa.DebugRef, *ssa.RunDefers:
		default:
			return nil
		}
	}
	if n != 1 {
		return nil
	}
	return found
}

// afterRunBarrier: the access executes only after a call of the run-done barrier wait
// (RunDoneWait) in its function: the core loop and all run-phase goroutines have ended.
func (e *RaceEngine) afterRunBarrier(a RAccess) bool {
	check := func(fn *ssa.Function, at ssa.Instruction) bool {
		ok := false
		Instrs(fn, func(in ssa.Instruction) {
			cc := CallOf(in)
			if cc == nil {
				return
			}
			name := ""
			if cc.IsInvoke() {
				name = cc.Method.Name()
			} else if c := cc.StaticCallee(); c != nil {
				name = c.Name()
			}
			if name == "RunDoneWait" && InstrDominates(in, at) {
				ok = true
			}
			// the barrier written out: Wait on the run-done WaitGroup field itself
			if IsCallTo(in, "(*sync.WaitGroup).Wait") && len(cc.Args) > 0 && InstrDominates(in, at) {
				if _, f, _, okf := FieldOf(cc.Args[0]); okf && f == "runDone" {
					ok = true
				}
			}
		})
		return ok
	}
	if check(a.Fn, a.Instr) {
		return true
	}
	// callee of a function, all of whose call sites in the role lie after the barrier
	n := e.p.CallGraph().Nodes[a.Fn]
	if n == nil || len(n.In) == 0 {
		return false
	}
	all := true
	cnt := 0
	var visit func(f *ssa.Function, d int) bool
	seen := map[*ssa.Function]bool{}
	visit = func(f *ssa.Function, d int) bool {
		if seen[f] || d > 6 {
			return true
		}
		seen[f] = true
		nn := e.p.CallGraph().Nodes[f]
		if nn == nil {
			return false
		}
		okAll := true
		k := 0
		for _, edge := range nn.In {
			c := edge.Caller.Func
			if edge.Site == nil || c == nil || !a.Role.Reach[c] {
				continue
			}
			k++
			if check(c, edge.Site) {
				continue
			}
			if !visit(c, d+1) {
				okAll = false
			}
		}
		return okAll && k > 0
	}
	_ = all
	_ = cnt
	return visit(a.Fn, 0)
}

// inactiveOnly: the access is dominated, in its function, by a test establishing that the
// source's life-cycle state is Inactive (constant 0): no run is in progress.
func (e *RaceEngine) inactiveOnly(a RAccess) bool {
	if e.inactiveAt(a.Instr) {
		return true
	}
	// a helper all of whose call sites in the role sit behind the Inactive test
	n := e.p.CallGraph().Nodes[a.Fn]
	if n == nil {
		return false
	}
	cnt := 0
	for _, edge := range n.In {
		c := edge.Caller.Func
		if edge.Site == nil || c == nil || !a.Role.Reach[c] {
			continue
		}
		cnt++
		if !e.inactiveAt(edge.Site) {
			return false
		}
	}
	return cnt > 0
}

func (e *RaceEngine) inactiveAt(at ssa.Instruction) bool { return e.inactiveAtD(at, 0) }

func (e *RaceEngine) inactiveAtD(at ssa.Instruction, depth int) bool {
	b := at.Block()
	for d := b.Idom(); d != nil; d = d.Idom() {
		iff, ok := d.Instrs[len(d.Instrs)-1].(*ssa.If)
		if !ok {
			continue
		}
		edge := edgeOwner(d, b)
		if edge < 0 {
			continue
		}
		bo, ok := iff.Cond.(*ssa.BinOp)
		if !ok {
			continue
		}
		// `if err := helper(...); err != nil { return err }` where the helper returns nil only
		// after having found the state Inactive itself
		if kc, isC := bo.Y.(*ssa.Const); isC && kc.Value == nil && depth < 2 && ((bo.Op == token.NEQ && edge == 1) || (bo.Op == token.EQL && edge == 0)) {
			if ec := errCall(bo.X); ec != nil {
				if callee := ec.Call.StaticCallee(); callee != nil && isModuleFn(callee) {
					n, all := 0, true
					ri := callee.Signature.Results().Len() - 1
					for _, cb := range callee.Blocks {
						ret, isRet := cb.Instrs[len(cb.Instrs)-1].(*ssa.Return)
						if !isRet || cb == callee.Recover || ri < 0 {
							continue
						}
						if rc, isNil := returnedValue(ret, ri).(*ssa.Const); isNil && rc.Value == nil {
							n++
							if !e.inactiveAtD(ret, depth+1) {
								all = false
							}
						}
					}
					if n > 0 && all {
						return true
					}
				}
			}
		}
		_, f, _, okf := FieldOf(bo.X)
		k, isC := constInt(bo.Y)
		if !okf || f != "sourceState" || !isC || k != 0 {
			continue
		}
		if (bo.Op == token.NEQ && edge == 1) || (bo.Op == token.EQL && edge == 0) {
			return true
		}
	}
	return false
}

// mayRunDuring: can access a (of role a.Role) execute while role r runs?
func (e *RaceEngine) mayRunDuring(a RAccess, r *Role) (bool, string) {
	return e.mayRunDuringD(a, r, 0)
}

// bounded: the role's instances have all ended when its spawning function returns.
func (ro *Role) bounded() bool { return ro.Go != nil && (ro.Join != nil || ro.Scoped) }

func (e *RaceEngine) mayRunDuringD(a RAccess, r *Role, depth int) (bool, string) {
	s := a.Role
	if depth < 4 && s != r {
		// a role whose life is bounded by its spawning function overlaps r only if its go
		// statement, as an action of the spawner, can run during r
		if s.bounded() && e.childOnPath(r, s) == nil {
			any := false
			for _, par := range e.parents(s) {
				if ok, _ := e.mayRunDuringD(RAccess{Key: a.Key, Instr: s.Go, Fn: s.In, Role: par}, r, depth+1); ok {
					any = true
				}
			}
			if !any && len(e.parents(s)) > 0 {
				return false, "the goroutine's bounded life lies outside the other role's life"
			}
		}
		if r.bounded() && e.childOnPath(s, r) == nil && e.childOnPath(r, s) == nil {
			any := false
			for _, par := range e.parents(r) {
				if par == s {
					any = true
					continue
				}
				if ok, _ := e.mayRunDuringD(a, par, depth+1); ok {
					any = true
				}
			}
			if !any && len(e.parents(r)) > 0 {
				return false, "the other goroutine's bounded life lies inside a spawner that cannot overlap this access"
			}
		}
	}
	if s == r {
		if !r.Multi && !e.lingers(r) {
			return false, "same single-instance goroutine"
		}
		if e.partOf(r)[ownerBase(a.Key.Owner)] {
			return false, "per-instance object of a multi-instance role"
		}
		if a.Key.Owner == "local" {
			// captured local: one variable per execution of the declaring statement.  Instances of a
			// role started outside a loop never share it; instances started in a loop share it
			// unless it is declared inside that loop.
			if !r.Multi {
				return false, "captured local of one spawn"
			}
			if al := e.capAlloc[a.Key]; al != nil && r.Go != nil && (InLoopWith(al, r.Go) || al.Block() == r.Go.Block()) {
				return false, "captured local declared per iteration"
			}
		}
		return true, ""
	}
	if ta, tr := sourceTag(a.Fn), roleTag(r); ta != "" && tr != "" && ta != tr {
		return false, "different source types never run together"
	}
	if r.ID == "rpc" && e.reqOnly[a.Fn] && isCoreRole(s) {
		return false, "request context: the RPC goroutine is blocked on the rendezvous while this runs"
	}
	if e.runPhase(r) && e.endsWithRun(r) {
		if e.afterRunBarrier(a) {
			return false, "after the run-done barrier"
		}
		if e.inactiveOnly(a) {
			return false, "only while the source is inactive"
		}
	}
	if s.Join != nil && r.Join != nil && s.In == r.In && s != r {
		if !(e.window[s.Go][ssa.Instruction(r.Go)] || e.window[r.Go][ssa.Instruction(s.Go)]) {
			return false, "fork-join windows of the two goroutine families do not overlap"
		}
	}
	if c := e.childOnPath(s, r); c != nil {
		if a.Key.Owner == "local" && c.Go != nil && a.Instr != nil && a.Instr.Parent() == c.Go.Parent() {
			// `v := v` before `go func(){ use v }()`: the variable is made, written and handed to the
			// goroutine in one pass; a later pass makes a new variable before it writes again
			if al := e.capAlloc[a.Key]; al != nil && al.Parent() == c.Go.Parent() && InstrDominates(al, a.Instr) && InstrDominates(a.Instr, c.Go) {
				again := ReachAvoiding(c.Go.Parent(), c.Go, func(x ssa.Instruction) bool { return x == ssa.Instruction(al) }, func(x ssa.Instruction) bool { return x == a.Instr })
				if len(again) == 0 {
					return false, "captured local written before the go statement of the same pass (a new variable per pass)"
				}
			}
		}
		if c.Join != nil {
			if e.window[c.Go][a.Instr] || e.winFn[c.Go][a.Fn] {
				return true, ""
			}
			return false, "outside the fork-join window of the spawner"
		}
		if c.Scoped {
			if e.after[c.Go][a.Instr] || e.afterFn[c.Go][a.Fn] {
				return true, ""
			}
			return false, "outside the spawning function's collect-results window"
		}
		pi := e.pre(s, c)
		if pi.instr[a.Instr] || pi.fn[a.Fn] {
			// an earlier instance of a goroutine that outlives its spawner may still be running
			// (a captured local is a new variable for every execution of the spawner)
			if l := e.chainLingers(c, r); l != nil && !e.partOf(l)[ownerBase(a.Key.Owner)] && a.Key.Owner != "local" {
				return true, ""
			}
			return false, "executed by the spawner before the go statement"
		}
		return true, ""
	}
	if hb := e.closeHB[a.Fn]; hb != nil && hb[r] {
		return false, "runs only after the other goroutine closed its channel at exit"
	}
	return true, ""
}

// lingers: instances started by successive executions of the spawning function can overlap:
// the goroutine is neither joined by its spawner nor known to end with the run, and its
// spawner is code that runs repeatedly (reachable from an RPC handler or another goroutine).
func (e *RaceEngine) lingers(r *Role) bool {
	if r.Go == nil {
		return false
	}
	if v, ok := e.lingerMemo[r]; ok {
		return v
	}
	if e.lingerMemo == nil {
		e.lingerMemo = map[*Role]bool{}
	}
	e.lingerMemo[r] = false
	res := false
	if !r.bounded() && !e.endsWithRun(r) {
		for _, o := range e.Roles {
			if o.Reach[r.In] {
				res = true
			}
		}
	}
	e.lingerMemo[r] = res
	return res
}

// chainLingers: some role on the spawn chain from c (a direct child of s) down to r lingers;
// returns that role.
func (e *RaceEngine) chainLingers(c, r *Role) *Role {
	seen := map[*Role]bool{}
	var up func(x *Role) *Role
	up = func(x *Role) *Role {
		if seen[x] {
			return nil
		}
		seen[x] = true
		if e.lingers(x) {
			return x
		}
		if x == c {
			return nil
		}
		for _, par := range e.parents(x) {
			if par == c || e.childOnPath(c, par) != nil {
				if l := up(par); l != nil {
					return l
				}
			}
		}
		return nil
	}
	return up(r)
}

// partOf: the struct types whose objects belong to one instance of the role.  For a lingering
// role the instances to tell apart are those of successive spawns, so only objects allocated
// for this spawn count (a container element may be handed to the next generation again).
func (e *RaceEngine) partOf(r *Role) map[string]bool {
	if r.Go == nil {
		return nil
	}
	if e.lingers(r) {
		if r.partFresh == nil {
			r.freshOnly = true
			r.partFresh = e.partitionTypes(r)
			r.freshOnly = false
		}
		return r.partFresh
	}
	if r.PartTy == nil {
		r.PartTy = e.partitionTypes(r)
	}
	return r.PartTy
}

func isCoreRole(r *Role) bool {
	for _, rt := range r.Roots {
		if rt.Name() == "CoreLoop" {
			return true
		}
	}
	return false
}

func roleTag(r *Role) string {
	for _, f := range r.Roots {
		if t := sourceTag(f); t != "" {
			return t
		}
	}
	if r.In != nil {
		return sourceTag(r.In)
	}
	return ""
}

// capturedBase: the accessed object is reached through a captured variable of the closure.
func capturedBase(in ssa.Instruction) bool {
	var addr ssa.Value
	switch x := in.(type) {
	case *ssa.Store:
		addr = x.Addr
	case *ssa.UnOp:
		addr = x.X
	case *ssa.Field:
		addr = x.X
	default:
		return false
	}
	root := addrRoot(addr)
	for i := 0; i < 4; i++ {
		switch x := root.(type) {
		case *ssa.FreeVar:
			return true
		case *ssa.UnOp:
			if x.Op == token.MUL {
				root = addrRoot(x.X)
				continue
			}
		case *ssa.IndexAddr:
			root = addrRoot(x.X)
			continue
		}
		break
	}
	_, isFV := root.(*ssa.FreeVar)
	return isFV
}

// ownElement: a store/load of container[i] where i is a parameter of the goroutine's own
// function (each instance addresses its own element).
func ownElement(a RAccess) bool {
	var addr ssa.Value
	switch x := a.Instr.(type) {
	case *ssa.Store:
		addr = x.Addr
	case *ssa.UnOp:
		addr = x.X
	default:
		return false
	}
	for i := 0; i < 4; i++ {
		switch x := addr.(type) {
		case *ssa.FieldAddr:
			addr = x.X
			continue
		case *ssa.IndexAddr:
			if prm, ok := x.Index.(*ssa.Parameter); ok {
				for _, rt := range a.Role.Roots {
					if prm.Parent() == rt {
						return true
					}
				}
			}
			return false
		}
		break
	}
	return false
}

// localEverywhere: the access goes through a pointer parameter of its function, and every
// call site of that function inside the role passes the address of a local that never escapes
// (a value built and consumed by one call chain).
func (e *RaceEngine) localEverywhere(a RAccess, other *Role) bool {
	var addr ssa.Value
	switch x := a.Instr.(type) {
	case *ssa.Store:
		addr = x.Addr
	case *ssa.UnOp:
		addr = x.X
	default:
		return false
	}
	prm, ok := addrRoot(addr).(*ssa.Parameter)
	if !ok {
		return false
	}
	idx := -1
	for i, q := range a.Fn.Params {
		if q == prm {
			idx = i
		}
	}
	if idx < 0 {
		return false
	}
	n := e.p.CallGraph().Nodes[a.Fn]
	if n == nil {
		return false
	}
	cnt := 0
	for _, edge := range n.In {
		c := edge.Caller.Func
		if edge.Site == nil || c == nil || !a.Role.Reach[c] {
			continue
		}
		cnt++
		cc := edge.Site.Common()
		args := cc.Args
		if cc.IsInvoke() {
			return false
		}
		if idx >= len(args) {
			return false
		}
		al, isAlloc := args[idx].(*ssa.Alloc)
		if !isAlloc {
			// a call site passing a shared object counts only if it can run during the other role
			if ok, _ := e.mayRunDuring(RAccess{Key: a.Key, Instr: edge.Site, Fn: c, Role: a.Role}, other); !ok {
				continue
			}
			return false
		}
		// the local's address is used only for field access, loads, stores and this kind of call
		for _, ref := range *al.Referrers() {
			switch ref.(type) {
			case *ssa.FieldAddr, *ssa.UnOp, *ssa.Store, *ssa.Call, *ssa.DebugRef:
			default:
				return false
			}
		}
	}
	return cnt > 0
}

// chanOrdered: access a precedes, in its function, a close of / send on channel K, and access b
// follows, in its function, a receive from K: a happens-before b.
func (e *RaceEngine) chanOrdered(a, b RAccess) bool {
	var sigs []FieldKey
	Instrs(a.Fn, func(in ssa.Instruction) {
		var ch ssa.Value
		switch x := in.(type) {
		case *ssa.Send:
			ch = x.Chan
		case *ssa.Call:
			if bi, ok := x.Call.Value.(*ssa.Builtin); ok && bi.Name() == "close" {
				ch = x.Call.Args[0]
			}
		}
		if ch == nil {
			return
		}
		if k, ok := chanKey(ch); ok && InstrDominates(a.Instr, in) && a.Instr != in {
			// a must not be re-executed after the signal on a path that does not signal again: same-function dominance
			sigs = append(sigs, k)
		}
	})
	if len(sigs) == 0 {
		return false
	}
	ok := false
	Instrs(b.Fn, func(in ssa.Instruction) {
		u, isU := in.(*ssa.UnOp)
		if !isU || u.Op != token.ARROW {
			return
		}
		k, isK := chanKey(u.X)
		if !isK || !InstrDominates(in, b.Instr) {
			return
		}
		for _, s := range sigs {
			if s == k {
				ok = true
			}
		}
	})
	return ok
}

type Conflict struct {
	Key  FieldKey
	A, B RAccess
}

// Conflicts lists concurrent access pairs with a write and no common lock.
func (e *RaceEngine) Conflicts(ordered func(a, b RAccess) string) []Conflict {
	var out []Conflict
	if e.Why == nil {
		e.Why = map[FieldKey]map[string]int{}
	}
	why := func(k FieldKey, r string) {
		if r == "" {
			r = "not concurrent"
		}
		if e.Why[k] == nil {
			e.Why[k] = map[string]int{}
		}
		e.Why[k][r]++
	}
	// whole-struct copies/stores touch every field of the struct
	if !e.starsDone {
		e.starsDone = true
		for _, sa := range e.stars {
			for k := range e.acc {
				if k.Owner == sa.Key.Owner && !strings.HasSuffix(k.Field, "[]") {
					x := sa
					x.Key = k
					e.acc[k] = append(e.acc[k], x)
				}
			}
		}
	}
	var keys []FieldKey
	for k := range e.acc {
		keys = append(keys, k)
	}
	sort.Slice(keys, func(i, j int) bool { return keys[i].String() < keys[j].String() })
	for _, k := range keys {
		as := e.acc[k]
		seen := map[string]bool{}
		for i := 0; i < len(as); i++ {
			for j := i; j < len(as); j++ {
				a, b := as[i], as[j]
				if !a.Write && !b.Write {
					continue
				}
				if i == j && !(a.Role.Multi && a.Write) {
					continue
				}
				if len(intersect(a.Locks, b.Locks)) > 0 {
					why(k, "common mutex")
					continue
				}
				if ok, r := e.mayRunDuring(a, b.Role); !ok {
					why(k, r)
					continue
				}
				if ok, r := e.mayRunDuring(b, a.Role); !ok {
					why(k, r)
					continue
				}
				// ownership transfer: fields of message types conflict only between sibling
				// instances, and then only when the object is one they all share (captured)
				if e.msgTy[k.Owner] {
					if a.Role != b.Role {
						why(k, "message type: ownership moves with the send")
						continue
					}
					if !capturedBase(a.Instr) && !capturedBase(b.Instr) {
						why(k, "message type: siblings touch their own message")
						continue
					}
				}
				// sibling instances writing distinct elements selected by their own parameter
				if a.Role == b.Role && a.Role.Multi && ownElement(a) && ownElement(b) {
					why(k, "siblings index by their own parameter")
					continue
				}
				if e.localEverywhere(a, b.Role) || e.localEverywhere(b, a.Role) {
					why(k, "object is a non-escaping local of one call chain")
					continue
				}
				if e.chanOrdered(a, b) || e.chanOrdered(b, a) {
					why(k, "write precedes a close/send, access follows the receive")
					continue
				}
				if ordered != nil && ordered(a, b) != "" {
					why(k, "phase table")
					continue
				}
				w, o := a, b
				if !w.Write {
					w, o = b, a
				}
				sig := w.Role.ID + "|" + FuncName(w.Fn) + "|" + o.Role.ID + "|" + FuncName(o.Fn)
				if seen[sig] {
					continue
				}
				seen[sig] = true
				out = append(out, Conflict{k, w, o})
			}
		}
	}
	return out
}

// effectiveGoArgs: what a go statement hands to the goroutine: its arguments; the receiver bound
// into a method value passed as an argument; and, for a closure, the values of the per-iteration
// variables it captures (a variable declared in the loop body, assigned once before the go
// statement and only read by the closure, is a fresh cell per iteration holding that value).
func effectiveGoArgs(g *ssa.Go) []ssa.Value {
	var out []ssa.Value
	boundRecv := func(v ssa.Value) ssa.Value {
		if mc, ok := v.(*ssa.MakeClosure); ok {
			if fn, ok := mc.Fn.(*ssa.Function); ok && strings.HasSuffix(fn.Name(), "$bound") && len(mc.Bindings) == 1 {
				return mc.Bindings[0]
			}
		}
		return nil
	}
	for _, a := range g.Call.Args {
		if rv := boundRecv(a); rv != nil {
			out = append(out, rv)
			continue
		}
		out = append(out, a)
	}
	if mc, ok := g.Call.Value.(*ssa.MakeClosure); ok {
		if rv := boundRecv(mc); rv != nil {
			out = append(out, rv)
			return out
		}
		for _, b := range mc.Bindings {
			a, isCell := b.(*ssa.Alloc)
			if !isCell {
				out = append(out, b)
				continue
			}
			// one store, before the go statement, in the same loop iteration; otherwise only reads
			var st *ssa.Store
			ok := true
			for _, ref := range *a.Referrers() {
				switch x := ref.(type) {
				case *ssa.Store:
					if x.Addr != ssa.Value(a) || st != nil {
						ok = false
					}
					st = x
				case *ssa.UnOp, *ssa.DebugRef:
				case *ssa.MakeClosure:
					if x != mc {
						ok = false
					}
				default:
					ok = false
				}
			}
			if ok && st != nil && InstrDominates(a, st) && InstrDominates(st, g) && sameIteration(a, g) {
				out = append(out, st.Val)
			}
		}
	}
	return out
}

// sameIteration: the allocation is redone on every way round to the go statement (no loop
// contains the go statement without containing the allocation).
func sameIteration(a *ssa.Alloc, g ssa.Instruction) bool {
	// every cycle through g's block passes a's block: g cannot reach itself avoiding a
	back := ReachAvoiding(g.Parent(), g, func(in ssa.Instruction) bool { return in == ssa.Instruction(a) }, func(in ssa.Instruction) bool { return in == g })
	return len(back) == 0
}

// nestedValueStructs: the module struct types held by value (fields, embedded or not) inside nt,
// transitively up to depth levels.
func nestedValueStructs(nt *types.Named, depth int) []*types.Named {
	var out []*types.Named
	seen := map[*types.Named]bool{nt: true}
	var walk func(t *types.Named, d int)
	walk = func(t *types.Named, d int) {
		st, ok := t.Underlying().(*types.Struct)
		if !ok || d == 0 {
			return
		}
		for i := 0; i < st.NumFields(); i++ {
			ft, ok := st.Field(i).Type().(*types.Named)
			if !ok || seen[ft] {
				continue
			}
			if _, isSt := ft.Underlying().(*types.Struct); !isSt {
				continue
			}
			if ft.Obj().Pkg() == nil || !strings.HasPrefix(ft.Obj().Pkg().Path(), modPath) {
				continue
			}
			seen[ft] = true
			out = append(out, ft)
			walk(ft, d-1)
		}
	}
	walk(nt, depth)
	return out
}

// channelHandedBack: the goroutine sends on a channel made in the spawning function on every
// path, and the spawning function returns that channel: the results are collected by a caller.
func channelHandedBack(gs GoStart) bool {
	if len(gs.Callees) != 1 {
		return false
	}
	cl := gs.Callees[0]
	var made []*ssa.MakeChan
	Instrs(gs.In, func(in ssa.Instruction) {
		if mk, ok := in.(*ssa.MakeChan); ok {
			made = append(made, mk)
		}
	})
	for _, mk := range made {
		returned := false
		Instrs(gs.In, func(in ssa.Instruction) {
			ret, ok := in.(*ssa.Return)
			if !ok {
				return
			}
			for _, res := range ret.Results {
				v := res
				for {
					ct, isCT := v.(*ssa.ChangeType)
					if !isCT {
						break
					}
					v = ct.X
				}
				if v == ssa.Value(mk) || resolveCell(v) == ssa.Value(mk) {
					returned = true
				}
			}
		})
		if !returned {
			continue
		}
		// the goroutine sees it as a free variable or a parameter
		sends := false
		Instrs(cl, func(in ssa.Instruction) {
			if sd, ok := in.(*ssa.Send); ok {
				c := sd.Chan
				if u, isU := c.(*ssa.UnOp); isU {
					c = u.X
				}
				switch c.(type) {
				case *ssa.FreeVar, *ssa.Parameter:
					if types.Identical(derefType(c.Type()).Underlying(), mk.Type().Underlying()) || true {
						sends = true
					}
				}
			}
		})
		if sends {
			return true
		}
	}
	return false
}

// callerCollects: the spawning function gs.In (which returns the result channel) has one static
// call site; there the caller receives from the returned channel once per element of the same
// collection the spawner started a goroutine for, in a loop that has no other way out.  where
// names the collecting loop (complete) or the early way out (incomplete); "" when no collecting
// loop was found at all.
func callerCollects(p *Prog, gs GoStart) (complete bool, where string) {
	sites, all := p.staticCallSites(gs.In)
	if !all || len(sites) != 1 {
		return false, ""
	}
	call, ok := sites[0].(*ssa.Call)
	if !ok {
		return false, ""
	}
	caller := call.Parent()
	l1 := LoopContaining(RangeLoops(gs.In), gs.Instr)
	if l1 == nil {
		return false, ""
	}
	o1, f1 := l1.OverField()
	// the channel in the caller: the call's result, possibly kept in a local
	isChan := func(v ssa.Value) bool {
		for i := 0; i < 4; i++ {
			if v == ssa.Value(call) {
				return true
			}
			switch x := v.(type) {
			case *ssa.ChangeType:
				v = x.X
			case *ssa.UnOp:
				if rv := resolveCell(x); rv != nil && rv != ssa.Value(x) {
					v = rv
				} else {
					return false
				}
			default:
				return false
			}
		}
		return false
	}
	for _, l2 := range RangeLoops(caller) {
		o2, f2 := l2.OverField()
		if f1 == "" || o1 != o2 || f1 != f2 {
			continue
		}
		var recv ssa.Instruction
		Instrs(caller, func(in ssa.Instruction) {
			if u, ok := in.(*ssa.UnOp); ok && u.Op == token.ARROW && l2.Contains(u.Block()) && isChan(u.X) {
				recv = in
			}
		})
		if recv == nil || !InstrReaches(call, recv) {
			continue
		}
		if !l2.EveryIteration(recv.Block()) {
			return false, "the receive at " + p.InstrPos(recv) + " is not made on every pass of the collecting loop"
		}
		for _, b := range caller.Blocks {
			if !l2.Contains(b) || b == l2.Header {
				continue
			}
			for _, sc := range b.Succs {
				if !l2.Contains(sc) && sc != l2.Header {
					return false, "the collecting loop in " + FuncName(caller) + " can be left at " + p.InstrPos(b.Instrs[len(b.Instrs)-1]) + " before every goroutine has reported"
				}
			}
			if _, isRet := b.Instrs[len(b.Instrs)-1].(*ssa.Return); isRet {
				return false, "the collecting loop in " + FuncName(caller) + " can return at " + p.InstrPos(b.Instrs[len(b.Instrs)-1]) + " before every goroutine has reported"
			}
		}
		return true, "loop at " + p.InstrPos(l2.Header.Instrs[0]) + " in " + FuncName(caller)
	}
	return false, ""
}
