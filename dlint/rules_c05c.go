package main

// C05.R8: the output files state the record length in their headers, so a change of the record
// length must be refused for as long as files are open - paused or not.  For every RPC handler
// from which a store of the processors' record length is reachable, the way from the handler to
// that store passes a guard on the writing state's Active flag alone (the flag itself, or a
// predicate that returns it unaltered, possibly through forwarding methods), taken on its
// "not active" side.  A guard that combines Active with other state (the pause flag) lets the
// request through while files are open.
//
// Decided on the call chain handler -> (queued closure) -> source method -> processor method:
// control dependence of each onward call, and the set of WritingState fields each predicate reads.

import (
	"fmt"
	"sort"
	"strings"

	"golang.org/x/tools/go/ssa"
)

// wsFieldsRead: the WritingState fields a bool-valued module function reads, following static and
// interface calls of module functions (depth levels).
func wsFieldsRead(p *Prog, f *ssa.Function, depth int, seen map[*ssa.Function]bool, out map[string]bool) {
	if f == nil || seen[f] || depth < 0 || !isModuleFn(f) {
		return
	}
	seen[f] = true
	Instrs(f, func(in ssa.Instruction) {
		if u, ok := in.(*ssa.UnOp); ok {
			if o, fld, _, okf := FieldOf(u); okf && o == "WritingState" {
				out[fld] = true
			}
		}
		if CallOf(in) != nil {
			for _, c := range p.callees(in) {
				wsFieldsRead(p, c, depth-1, seen, out)
			}
		}
	})
}

// activityOf: what a branch condition says about the writing state: the set of WritingState
// fields it is computed from (directly, or through predicate calls).
func activityOf(p *Prog, cond ssa.Value) map[string]bool {
	out := map[string]bool{}
	seenV := map[ssa.Value]bool{}
	var walk func(v ssa.Value, d int)
	walk = func(v ssa.Value, d int) {
		if v == nil || seenV[v] || d > 6 {
			return
		}
		seenV[v] = true
		if o, fld, _, okf := FieldOf(v); okf && o == "WritingState" {
			out[fld] = true
			return
		}
		if call, ok := v.(*ssa.Call); ok {
			for _, c := range p.callees(call) {
				wsFieldsRead(p, c, 3, map[*ssa.Function]bool{}, out)
			}
			return
		}
		if in, ok := v.(ssa.Instruction); ok {
			var ops []*ssa.Value
			for _, o := range in.Operands(ops) {
				walk(*o, d+1)
			}
		}
	}
	walk(cond, 0)
	return out
}

func c05R8(p *Prog, r *Report) {
	rv, err := FindRendezvous(p)
	if err != nil {
		r.Unk("C05.R8", "RPC handlers", "-", err.Error())
		return
	}
	// the stores that change the record length of an existing processor
	isLenStore := func(in ssa.Instruction) bool {
		st, ok := in.(*ssa.Store)
		if !ok {
			return false
		}
		o, f, _, okf := FieldOf(st.Addr)
		if !okf || o != "DataStreamProcessor" || (f != "NSamples" && f != "NPresamples") {
			return false
		}
		_, fresh := addrRoot(st.Addr).(*ssa.Alloc)
		return !fresh
	}
	writers := map[*ssa.Function]bool{}
	for _, f := range p.LibFuncs() {
		Instrs(f, func(in ssa.Instruction) {
			if isLenStore(in) {
				writers[f] = true
			}
		})
	}
	// onward: the functions a call instruction can lead to (callees, closures made for it)
	next := func(in ssa.Instruction) []*ssa.Function {
		var out []*ssa.Function
		if CallOf(in) != nil {
			out = append(out, p.callees(in)...)
			for _, a := range CallOf(in).Args {
				if mc, ok := a.(*ssa.MakeClosure); ok {
					if cf, ok := mc.Fn.(*ssa.Function); ok {
						out = append(out, cf)
					}
				}
			}
		}
		return out
	}
	reach := map[*ssa.Function]bool{}
	var reaches func(f *ssa.Function, d int, stack map[*ssa.Function]bool) bool
	reaches = func(f *ssa.Function, d int, stack map[*ssa.Function]bool) bool {
		if f == nil || !isModuleFn(f) || d > 7 || stack[f] {
			return false
		}
		if v, ok := reach[f]; ok {
			return v
		}
		if writers[f] {
			reach[f] = true
			return true
		}
		stack[f] = true
		res := false
		Instrs(f, func(in ssa.Instruction) {
			if res {
				return
			}
			for _, c := range next(in) {
				if reaches(c, d+1, stack) {
					res = true
				}
			}
		})
		delete(stack, f)
		reach[f] = res
		return res
	}
	n := 0
	hs := append([]*ssa.Function{}, rv.Handlers...)
	sort.Slice(hs, func(i, j int) bool { return FuncName(hs[i]) < FuncName(hs[j]) })
	for _, h := range hs {
		if !reaches(h, 0, map[*ssa.Function]bool{}) {
			continue
		}
		// a handler that (re)starts a source builds new processors: only handlers whose way to the
		// store does not pass the source's start are requests on a running configuration
		if strings.Contains(h.Name(), "Start") {
			continue
		}
		n++
		r.Fn(FuncName(h))
		// walk the chain; at each level the onward call must be guarded, or a deeper level is
		guarded, mixed := "", ""
		var walk func(f *ssa.Function, d int, stack map[*ssa.Function]bool) bool // true: every way to a writer is guarded
		walk = func(f *ssa.Function, d int, stack map[*ssa.Function]bool) bool {
			if writers[f] || d > 7 || stack[f] {
				return false
			}
			stack[f] = true
			defer delete(stack, f)
			all := true
			any := false
			Instrs(f, func(in ssa.Instruction) {
				var onward []*ssa.Function
				for _, c := range next(in) {
					if reaches(c, d+1, map[*ssa.Function]bool{}) {
						onward = append(onward, c)
					}
				}
				if len(onward) == 0 {
					return
				}
				any = true
				ok := false
				for _, ct := range controllingIfs(in.Block()) {
					act := activityOf(p, ct.If.Cond)
					if !act["Active"] {
						continue
					}
					if len(act) == 1 {
						ok = true
						guarded = p.InstrPos(ct.If)
					} else {
						var fs []string
						for k := range act {
							fs = append(fs, k)
						}
						sort.Strings(fs)
						mixed = fmt.Sprintf("the test at %s in %s depends on %s", p.InstrPos(ct.If), FuncName(f), strings.Join(fs, ", "))
					}
				}
				if ok {
					return
				}
				for _, c := range onward {
					if !walk(c, d+1, stack) {
						all = false
					}
				}
			})
			return any && all
		}
		okAll := walk(h, 0, map[*ssa.Function]bool{})
		key := FuncName(h) + ": a change of the record length is refused while output files are open"
		switch {
		case okAll:
			r.OK("C05.R8", key, p.Pos(h.Pos()), "every way to the store of the record length passes a test of the Active flag alone (at "+guarded+")")
		case mixed != "":
			r.Bad("C05.R8", key, p.Pos(h.Pos()), "on the way from this request to the store of the processors' record length "+mixed+", not on the Active flag alone: while files are open but that other state lets the request through (writing paused), the record length changes under files whose headers state the old one; later records carry another number of samples or pre-trigger samples than the header says, or are rejected by the writer")
		default:
			r.Bad("C05.R8", key, p.Pos(h.Pos()), "a way from this request to the store of the processors' record length passes no test of the writing state's Active flag: the record length can be changed while files are open, whose headers state the old one")
		}
	}
	if n == 0 {
		r.Unk("C05.R8", "requests that change the record length", "-", "no RPC handler reaches a store of the processors' record length")
	}
}
