package main

// E1: program model.  Loads /repo with go/packages, builds SSA for the whole
// program and (lazily) a VTA call graph.  Nothing here is specific to a rule.

import (
	"fmt"
	"go/ast"
	"go/token"
	"go/types"
	"os"
	"path/filepath"
	"sort"
	"strings"

	"golang.org/x/tools/go/callgraph"
	"golang.org/x/tools/go/callgraph/cha"
	"golang.org/x/tools/go/callgraph/vta"
	"golang.org/x/tools/go/packages"
	"golang.org/x/tools/go/ssa"
	"golang.org/x/tools/go/ssa/ssautil"
)

const modPath = "github.com/usnistgov/dastard"

// LoadConfig names one build configuration of /repo.
type LoadConfig struct {
	Repo    string
	GOARCH  string            // "" = host
	Tags    string            // build tags, comma separated
	Overlay map[string][]byte // extra in-memory files (canaries)
}

func (c LoadConfig) String() string {
	a := c.GOARCH
	if a == "" {
		a = "amd64"
	}
	s := "linux/" + a
	if c.Tags != "" {
		s += " tags=" + c.Tags
	}
	if len(c.Overlay) > 0 {
		s += " +canary"
	}
	return s
}

// Prog is the loaded, type-checked and SSA-lowered program.
type Prog struct {
	Cfg     LoadConfig
	Fset    *token.FileSet
	Pkgs    []*packages.Package // packages of the dastard module
	ByPath  map[string]*packages.Package
	SSA     *ssa.Program
	Root    *ssa.Package // package dastard
	funcs   []*ssa.Function
	cg      *callgraph.Graph
	astFunc map[*ssa.Function]ast.Node
}

// Load loads every package of the module.  An error means "undecided".
func Load(c LoadConfig) (*Prog, error) {
	env := append(os.Environ(), "GOFLAGS=-mod=mod", "GOPROXY=off", "GOSUMDB=off", "GOTOOLCHAIN=local", "GOWORK=off", "GOOS=linux", "CGO_ENABLED=1")
	if c.GOARCH != "" {
		env = append(env, "GOARCH="+c.GOARCH)
		if c.GOARCH != "amd64" {
			// cross configuration: cgo packages (zmq4) cannot be type-checked
			// without a cross C compiler; FakeImportC is not available through
			// go/packages, so the 386 configuration is loaded with cgo off and
			// packages that then fail to load are reported by the caller.
			env = append(env, "CGO_ENABLED=0")
		}
	}
	cfg := &packages.Config{
		Mode:    packages.LoadAllSyntax,
		Dir:     c.Repo,
		Env:     env,
		Tests:   false,
		Overlay: c.Overlay,
	}
	if c.Tags != "" {
		cfg.BuildFlags = []string{"-tags=" + c.Tags}
	}
	pkgs, err := packages.Load(cfg, "./...")
	if err != nil {
		return nil, fmt.Errorf("packages.Load: %v", err)
	}
	if len(pkgs) == 0 {
		return nil, fmt.Errorf("no packages loaded from %s", c.Repo)
	}
	p := &Prog{Cfg: c, ByPath: map[string]*packages.Package{}, astFunc: map[*ssa.Function]ast.Node{}}
	var errs []string
	for _, pk := range pkgs {
		if !strings.HasPrefix(pk.PkgPath, modPath) {
			continue
		}
		for _, e := range pk.Errors {
			errs = append(errs, e.Error())
		}
		if pk.Types == nil || pk.TypesInfo == nil {
			errs = append(errs, pk.PkgPath+": no type information")
		}
		p.Pkgs = append(p.Pkgs, pk)
		p.ByPath[pk.PkgPath] = pk
		p.Fset = pk.Fset
	}
	if len(errs) > 0 {
		return nil, fmt.Errorf("type errors in module packages: %s", strings.Join(errs, "; "))
	}
	if p.ByPath[modPath] == nil {
		return nil, fmt.Errorf("root package %s not loaded", modPath)
	}
	prog, _ := ssautil.AllPackages(pkgs, ssa.InstantiateGenerics)
	prog.Build()
	p.SSA = prog
	p.Root = prog.Package(p.ByPath[modPath].Types)
	if p.Root == nil {
		return nil, fmt.Errorf("no SSA for root package")
	}
	// All functions (incl. anonymous) that belong to the module, sorted.
	for fn := range ssautil.AllFunctions(prog) {
		if fn.Pkg == nil && fn.Parent() == nil && fn.Origin() == nil {
			continue
		}
		pk := fnPkg(fn)
		if pk == nil || !strings.HasPrefix(pk.Path(), modPath) {
			continue
		}
		if fn.Synthetic != "" && fn.Syntax() == nil {
			continue
		}
		if fn.Blocks == nil {
			continue
		}
		// the body of a generic function as such is never run: its instantiations are analysed
		if fn.TypeParams().Len() > 0 && len(fn.TypeArgs()) == 0 {
			continue
		}
		p.funcs = append(p.funcs, fn)
	}
	sort.Slice(p.funcs, func(i, j int) bool {
		a, b := p.funcs[i], p.funcs[j]
		if a.Pos() != b.Pos() {
			return a.Pos() < b.Pos()
		}
		return a.String() < b.String()
	})
	// embedded struct types: embeddedIn[outer][inner] (transitively), so that a rule written for a
	// field of `outer` also sees it after the field was moved into a struct embedded in `outer`
	embeddedIn = map[string]map[string]bool{}
	for _, pkg := range p.Pkgs {
		if pkg.Types == nil {
			continue
		}
		sc := pkg.Types.Scope()
		for _, name := range sc.Names() {
			tn, ok := sc.Lookup(name).(*types.TypeName)
			if !ok {
				continue
			}
			st, ok := tn.Type().Underlying().(*types.Struct)
			if !ok {
				continue
			}
			for i := 0; i < st.NumFields(); i++ {
				f := st.Field(i)
				if !f.Embedded() {
					continue
				}
				if derefStruct(f.Type()) == nil {
					continue
				}
				if embeddedIn[name] == nil {
					embeddedIn[name] = map[string]bool{}
				}
				embeddedIn[name][typeName(f.Type())] = true
			}
		}
	}
	for changed := true; changed; {
		changed = false
		for _, inner := range embeddedIn {
			for in := range inner {
				for in2 := range embeddedIn[in] {
					if !inner[in2] {
						inner[in2] = true
						changed = true
					}
				}
			}
		}
	}
	return p, nil
}

// embeddedIn[outer][inner]: struct type `inner` is embedded (at any depth) in struct type `outer`.
var embeddedIn map[string]map[string]bool

// ownerIs: a field whose declaring struct is `owner` is a (possibly promoted) field of `want`.
func ownerIs(owner, want string) bool {
	return owner == want || embeddedIn[want][owner]
}

func fnPkg(fn *ssa.Function) *types.Package {
	for f := fn; f != nil; f = f.Parent() {
		if f.Pkg != nil {
			return f.Pkg.Pkg
		}
		if o := f.Origin(); o != nil && o.Pkg != nil {
			return o.Pkg.Pkg
		}
		if ob := f.Object(); ob != nil && ob.Pkg() != nil {
			return ob.Pkg() // synthetic wrappers of promoted methods have no Pkg
		}
	}
	return nil
}

// Funcs returns every module function with a body (declared and anonymous).
func (p *Prog) Funcs() []*ssa.Function { return p.funcs }

// LibFuncs returns the functions of library packages (not cmd/*, not lancero/cmd).
func (p *Prog) LibFuncs() []*ssa.Function {
	var out []*ssa.Function
	for _, f := range p.funcs {
		pp := fnPkg(f).Path()
		if strings.Contains(pp, "/cmd/") {
			continue
		}
		out = append(out, f)
	}
	return out
}

// CallGraph builds (once) the CHA-seeded VTA call graph.
func (p *Prog) CallGraph() *callgraph.Graph {
	if p.cg == nil {
		all := ssautil.AllFunctions(p.SSA)
		p.cg = vta.CallGraph(all, cha.CallGraph(p.SSA))
	}
	return p.cg
}

// pkgOf resolves a short package name ("", "ljh", "off", "asyncbufio",
// "packets", "cmd/dastard", ...) to its SSA package.
func (p *Prog) pkgOf(short string) *ssa.Package {
	path := modPath
	if short != "" {
		path += "/" + short
	}
	pk := p.ByPath[path]
	if pk == nil {
		return nil
	}
	return p.SSA.Package(pk.Types)
}

// Func finds a package-level function or a method.  recv == "" for functions.
func (p *Prog) Func(pkg, recv, name string) *ssa.Function {
	sp := p.pkgOf(pkg)
	if sp == nil {
		return nil
	}
	if recv == "" {
		return sp.Func(name)
	}
	tn, _ := sp.Pkg.Scope().Lookup(recv).(*types.TypeName)
	if tn == nil {
		return nil
	}
	for _, t := range []types.Type{tn.Type(), types.NewPointer(tn.Type())} {
		ms := p.SSA.MethodSets.MethodSet(t)
		for i := 0; i < ms.Len(); i++ {
			sel := ms.At(i)
			if sel.Obj().Name() == name {
				// only methods declared on recv itself (not promoted)
				fn := p.SSA.MethodValue(sel)
				if fn != nil && fn.Synthetic == "" {
					return fn
				}
				if fn != nil && len(sel.Index()) == 1 {
					return fn
				}
			}
		}
	}
	return nil
}

// NamedType looks up a named type in a module package.
func (p *Prog) NamedType(pkg, name string) *types.Named {
	sp := p.pkgOf(pkg)
	if sp == nil {
		return nil
	}
	tn, _ := sp.Pkg.Scope().Lookup(name).(*types.TypeName)
	if tn == nil {
		return nil
	}
	n, _ := tn.Type().(*types.Named)
	return n
}

// Pos renders a position relative to the repository root.
func (p *Prog) Pos(pos token.Pos) string {
	if !pos.IsValid() {
		return "?"
	}
	pp := p.Fset.Position(pos)
	rel, err := filepath.Rel(p.Cfg.Repo, pp.Filename)
	if err != nil {
		rel = pp.Filename
	}
	return fmt.Sprintf("%s:%d", rel, pp.Line)
}

// InstrPos finds the best source position for an instruction.
func (p *Prog) InstrPos(in ssa.Instruction) string {
	if in == nil {
		return "?"
	}
	if in.Pos().IsValid() {
		return p.Pos(in.Pos())
	}
	// fall back: nearest instruction with a position in the same block, else the function
	b := in.Block()
	if b != nil {
		for _, x := range b.Instrs {
			if x.Pos().IsValid() {
				return p.Pos(x.Pos()) + "(near)"
			}
		}
	}
	if in.Parent() != nil {
		return p.Pos(in.Parent().Pos()) + "(func)"
	}
	return "?"
}

// FuncName gives a stable, readable name: (*T).M, pkg.F, or F$1 for closures.
func FuncName(fn *ssa.Function) string {
	if fn == nil {
		return "<nil>"
	}
	s := fn.String()
	s = strings.ReplaceAll(s, modPath+"/", "")
	s = strings.ReplaceAll(s, modPath+".", "")
	s = strings.ReplaceAll(s, modPath, "dastard")
	return s
}

// Anons returns the closures lexically inside fn, recursively.
func Anons(fn *ssa.Function) []*ssa.Function {
	var out []*ssa.Function
	for _, a := range fn.AnonFuncs {
		out = append(out, a)
		out = append(out, Anons(a)...)
	}
	return out
}

// Syntax file lookup for doc-driven rules.
func (p *Prog) ReadRepoFile(rel string) ([]byte, error) {
	return os.ReadFile(filepath.Join(p.Cfg.Repo, rel))
}

// FileOf returns the *ast.File and package that declare the given position.
func (p *Prog) FileOf(pos token.Pos) (*ast.File, *packages.Package) {
	for _, pk := range p.Pkgs {
		for _, f := range pk.Syntax {
			if f.Pos() <= pos && pos <= f.End() {
				return f, pk
			}
		}
	}
	return nil, nil
}

// staticCallSites lists the static calls of fn in the module; complete is false when fn is also
// used as a value (method value, function value, interface method set) so that other callers may exist.
func (p *Prog) staticCallSites(fn *ssa.Function) (sites []ssa.Instruction, complete bool) {
	complete = true
	for _, f := range p.funcs {
		Instrs(f, func(in ssa.Instruction) {
			if cc := CallOf(in); cc != nil && cc.StaticCallee() == fn {
				if _, isGo := in.(*ssa.Go); isGo {
					complete = false
				}
				sites = append(sites, in)
				for _, a := range cc.Args {
					if a == ssa.Value(fn) {
						complete = false
					}
				}
				return
			}
			var ops []*ssa.Value
			for _, o := range in.Operands(ops) {
				if *o == ssa.Value(fn) {
					complete = false
				}
			}
		})
	}
	// a method that satisfies an interface may be called dynamically
	if fn.Signature.Recv() != nil && p.CallGraph().Nodes[fn] != nil {
		for _, e := range p.CallGraph().Nodes[fn].In {
			if e.Site != nil && e.Site.Common().StaticCallee() != fn {
				complete = false
			}
		}
	}
	return
}
