package main

// C15.R10: derived sizes are recomputed after the contents change.  When the packet's header
// length is computed by a helper from the packet's current contents (which optional items are
// present), a mutator that calls the helper and then goes on to change one of the fields the
// helper reads leaves the stored lengths describing the old contents: Length() and the header
// field of the encoding then disagree with the bytes the encoder writes, and a decoder consumes
// bytes of the next packet.  Decided by: the set of Packet fields the helper loads; in each
// caller, reachability from the call to a store of one of those fields on the same packet with
// no further call of the helper in between.

import (
	"fmt"
	"go/token"
	"go/types"
	"sort"
	"strings"

	"golang.org/x/tools/go/ssa"
)

func c15R10(p *Prog, r *Report) {
	const owner = "Packet"
	// helpers: methods of Packet that store headerLength and are called by other Packet methods
	type helper struct {
		fn    *ssa.Function
		reads map[string]bool
	}
	var helpers []helper
	for _, fn := range p.LibFuncs() {
		if fn.Signature.Recv() == nil || typeName(fn.Signature.Recv().Type()) != owner {
			continue
		}
		if len(StoresTo(fn, owner, "headerLength")) == 0 {
			continue
		}
		sites, _ := p.staticCallSites(fn)
		called := false
		for _, s := range sites {
			if s.Parent().Signature.Recv() != nil && typeName(s.Parent().Signature.Recv().Type()) == owner {
				called = true
			}
		}
		if !called {
			continue
		}
		reads := map[string]bool{}
		Instrs(fn, func(in ssa.Instruction) {
			u, ok := in.(*ssa.UnOp)
			if !ok || u.Op != token.MUL {
				return
			}
			if o, f, base, okf := FieldOf(u); okf && o == owner && base == ssa.Value(fn.Params[0]) && f != "headerLength" && f != "packetLength" {
				reads[f] = true
			}
		})
		if len(reads) > 0 {
			helpers = append(helpers, helper{fn, reads})
		}
	}
	if len(helpers) == 0 {
		r.OK("C15.R10", "header length bookkeeping", "-", "no helper recomputes the header length from the packet's contents: every mutator sets it itself (covered by R7's accounting of what the encoder writes)")
		return
	}
	for _, h := range helpers {
		r.Fn(FuncName(h.fn))
		var fields []string
		for f := range h.reads {
			fields = append(fields, f)
		}
		sort.Strings(fields)
		sites, _ := p.staticCallSites(h.fn)
		for _, site := range sites {
			m := site.Parent()
			cc := CallOf(site)
			if cc == nil || len(cc.Args) == 0 {
				continue
			}
			recv := cc.Args[0]
			isAgain := func(in ssa.Instruction) bool {
				c2 := CallOf(in)
				return c2 != nil && c2.StaticCallee() == h.fn && in != site && len(c2.Args) > 0 && c2.Args[0] == recv
			}
			var late ssa.Instruction
			lateField := ""
			isLateStore := func(in ssa.Instruction) bool {
				st, ok := in.(*ssa.Store)
				if !ok {
					return false
				}
				o, f, base, okf := FieldOf(st.Addr)
				if !okf || o != owner || !h.reads[f] || base != recv {
					return false
				}
				late, lateField = in, f
				return true
			}
			hits := ReachAvoiding(m, site, isAgain, isLateStore)
			key := fmt.Sprintf("%s: the lengths are recomputed after the last change of the contents", FuncName(m))
			if len(hits) > 0 && late != nil {
				r.Bad("C15.R10", key, p.InstrPos(late), fmt.Sprintf("%s computes the header and packet lengths from the packet's %s, and %s assigns %s after calling it (at %s) without calling it again: the stored lengths describe the old contents, so Length() and the header-length byte of the encoding no longer match the bytes the encoder writes, and a decoder reads into the next packet", FuncName(h.fn), strings.Join(fields, ", "), FuncName(m), lateField, p.InstrPos(site)))
			} else {
				r.OK("C15.R10", key, p.InstrPos(site), "no field read by "+FuncName(h.fn)+" is assigned after the call")
			}
		}
	}
}

// C15.R11: reflection accessors that panic on the wrong kind are reached only under a test of the
// kind.  (reflect.Value).Int panics unless the value's kind is one of the signed integer kinds
// (likewise Uint, Float); a packet's payload can be of any decodable type (a multi-component
// format is kept as bytes), so an accessor that reads samples through reflection must have
// selected the integer element kinds first.  Each such call in the package must be control
// dependent on an equality test of a Kind() result against a constant of the matching family.
func c15R11(p *Prog, r *Report, fns []*ssa.Function) {
	family := map[string][2]int64{"Int": {2, 6}, "Uint": {7, 12}, "Float": {13, 14}}
	n := 0
	for _, fn := range fns {
		Instrs(fn, func(in ssa.Instruction) {
			cc := CallOf(in)
			if cc == nil || cc.StaticCallee() == nil {
				return
			}
			name := CalleeName(cc)
			var fam string
			for f := range family {
				if name == "(reflect.Value)."+f {
					fam = f
				}
			}
			if fam == "" {
				return
			}
			n++
			r.Fn(FuncName(fn))
			lo, hi := family[fam][0], family[fam][1]
			guarded := false
			for _, cd := range controlDependencesClosure(in.Block()) {
				bo, ok := cd.If.Cond.(*ssa.BinOp)
				if !ok || (bo.Op != token.EQL && bo.Op != token.NEQ) {
					continue
				}
				for _, pair := range [][2]ssa.Value{{bo.X, bo.Y}, {bo.Y, bo.X}} {
					k, isC := constInt(pair[1])
					if !isC || k < lo || k > hi {
						continue
					}
					if c2, isCall := stripConv(pair[0]).(*ssa.Call); isCall && strings.HasSuffix(CalleeName(&c2.Call), ".Kind") {
						if (bo.Op == token.EQL && cd.Branch == 0) || (bo.Op == token.NEQ && cd.Branch == 1) {
							guarded = true
						}
					}
				}
			}
			r.Check(guarded, "C15.R11", fmt.Sprintf("(reflect.Value).%s in %s is reached only for values of that kind", fam, FuncName(fn)), p.InstrPos(in), "under an equality test of Kind() against a kind of the "+fam+" family",
				"(reflect.Value)."+fam+" panics for a value of another kind, and nothing on the way here selects the kind: a packet whose payload is kept in another element type (the bytes of a multi-component format such as the external-trigger packets) makes this accessor panic instead of returning")
		})
	}
	if n == 0 {
		r.OK("C15.R11", "reflection accessors", "-", "no call of (reflect.Value).Int/Uint/Float in the package")
	}
}

// C15.R12: the size accessors fold the payload shape the same way.  Frames() divides the payload
// by word length x (channel count derived from shape.Sizes) and ChannelInfo() reports the channel
// count derived from shape.Sizes; the consumer multiplies the two to know how many samples the
// payload holds, so the two must compute the same function of the dimensions.  The rule reads, in
// each accessor (and the module helpers it calls), how elements of Sizes are selected (every
// element of a 0..len loop, or fixed positions) and how they are combined (product with an
// accumulator that starts at 1, only elements > 0 or all), and compares these signatures; the
// accessor pair is the instance table of the rule (frozen from the anchors).
func c15R12(p *Prog, r *Report, fns []*ssa.Function) {
	pair := []string{"Frames", "ChannelInfo"}
	byName := map[string]*ssa.Function{}
	for _, fn := range fns {
		if fn.Signature.Recv() != nil && typeName(fn.Signature.Recv().Type()) == "Packet" {
			byName[fn.Name()] = fn
		}
	}
	isSizes := func(v ssa.Value) bool {
		for i := 0; i < 4; i++ {
			switch x := v.(type) {
			case *ssa.Slice:
				v = x.X
				continue
			case *ssa.UnOp:
				if x.Op == token.MUL {
					_, f, _, ok := FieldOf(x)
					return ok && f == "Sizes"
				}
			}
			break
		}
		return false
	}
	sig := func(fn *ssa.Function) (string, string, bool) {
		var parts []string
		known := true
		where := ""
		InstrsDeep(fn, 2, func(d DeepInstr) {
			ia, ok := d.In.(*ssa.IndexAddr)
			if !ok || !isSizes(ia.X) {
				return
			}
			if where == "" {
				where = p.InstrPos(ia)
			}
			sel := ""
			idx := stripConv(ia.Index)
			if k, isC := constInt(idx); isC {
				sel = fmt.Sprintf("element %d", k)
			} else if c15CountsUp(idx) && c15BoundedByLen(ia, idx, isSizes) {
				sel = "every element"
			} else {
				known = false
				sel = "?"
			}
			// how the element is used
			comb := ""
			var elems []ssa.Value
			for _, u := range *ia.Referrers() {
				if ld, isLd := u.(*ssa.UnOp); isLd && ld.Op == token.MUL {
					elems = append(elems, ld)
					for _, u2 := range *ld.Referrers() {
						if cv, isCv := u2.(*ssa.Convert); isCv {
							elems = append(elems, cv)
						}
					}
				}
			}
			isElem := func(v ssa.Value) bool {
				for _, e := range elems {
					if e == v {
						return true
					}
				}
				return false
			}
			for _, e := range elems {
				for _, u := range *e.Referrers() {
					bo, isB := u.(*ssa.BinOp)
					if !isB || bo.Op != token.MUL {
						continue
					}
					other := bo.X
					if other == e {
						other = bo.Y
					}
					if ph, isPh := other.(*ssa.Phi); isPh {
						one := false
						for _, ed := range ph.Edges {
							if k, isC := constInt(ed); isC && k == 1 {
								one = true
							}
						}
						if one {
							comb = "product"
							for _, cd := range controlDependencesClosure(bo.Block()) {
								c, isC := cd.If.Cond.(*ssa.BinOp)
								if !isC {
									continue
								}
								x, y, op := c.X, c.Y, c.Op
								if isElem(y) { // constant on the left: mirror
									x, y = y, x
									op = map[token.Token]token.Token{token.LSS: token.GTR, token.GTR: token.LSS, token.LEQ: token.GEQ, token.GEQ: token.LEQ, token.EQL: token.EQL, token.NEQ: token.NEQ}[op]
								}
								if !isElem(x) {
									continue
								}
								k, isK := constInt(y)
								switch {
								case isK && ((op == token.GTR && k == 0) || (op == token.GEQ && k == 1)) && cd.Branch == 0,
									isK && ((op == token.LEQ && k == 0) || (op == token.LSS && k == 1)) && cd.Branch == 1:
									comb = "product of those > 0"
								default:
									known = false
									comb = "product of those selected by another test"
								}
							}
						}
					}
				}
			}
			if comb == "" {
				// the element taken as it is (possibly under a sign test)
				comb = "value"
			}
			parts = append(parts, comb+" over "+sel)
		})
		sort.Strings(parts)
		return strings.Join(parts, " + "), where, known
	}
	var sigs, wheres []string
	for _, name := range pair {
		fn := byName[name]
		if fn == nil {
			r.Unk("C15.R12", "the size accessors fold the shape alike", "-", "no method "+name+" of Packet: the accessor pair of this rule (frame count, channel info) is not found under the names of the anchors")
			return
		}
		r.Fn(FuncName(fn))
		s, w, known := sig(fn)
		if s == "" || !known {
			r.Unk("C15.R12", "the size accessors fold the shape alike", p.Pos(fn.Pos()), FuncName(fn)+" reads shape.Sizes in a way that is not recognised ("+s+"): whether it agrees with its sibling is not decided")
			return
		}
		sigs = append(sigs, s)
		wheres = append(wheres, w)
	}
	r.Check(sigs[0] == sigs[1], "C15.R12", "the size accessors fold the shape alike", wheres[1], "Frames and ChannelInfo both compute: "+sigs[0],
		fmt.Sprintf("Frames derives its channel count from shape.Sizes as [%s] (at %s) but ChannelInfo as [%s]: for a shape where the two differ (more than one dimension greater than 1), Frames()*nchan is no longer the number of samples in the payload - the accessors report mutually inconsistent sizes, and the group logic that sizes its buffers from one and counts from the other overruns", sigs[0], wheres[0], sigs[1]))
}

// c15CountsUp: idx is a loop counter that starts at 0 and moves by +1 (either `phi[0, phi+1]` or the
// rotated form of a range loop, `phi[-1, idx] + 1`).
func c15CountsUp(idx ssa.Value) bool {
	if ph, ok := idx.(*ssa.Phi); ok && len(ph.Edges) >= 2 {
		zero, step := 0, 0
		for _, e := range ph.Edges {
			if k, isC := constInt(e); isC && k == 0 {
				zero++
			} else if bo, isB := e.(*ssa.BinOp); isB && bo.Op == token.ADD && bo.X == ssa.Value(ph) {
				if k, isC := constInt(bo.Y); isC && k == 1 {
					step++
				}
			}
		}
		return zero == 1 && zero+step == len(ph.Edges)
	}
	if bo, ok := idx.(*ssa.BinOp); ok && bo.Op == token.ADD {
		k, isC := constInt(bo.Y)
		ph, isPh := bo.X.(*ssa.Phi)
		if !isC || k != 1 || !isPh || len(ph.Edges) < 2 {
			return false
		}
		init, back := 0, 0
		for _, e := range ph.Edges {
			if k, isC := constInt(e); isC && k == -1 {
				init++
			} else if e == ssa.Value(bo) {
				back++
			}
		}
		return init == 1 && init+back == len(ph.Edges)
	}
	return false
}

// c15BoundedByLen: the access is under `idx < len(Sizes)` and nothing else leaves the loop early.
func c15BoundedByLen(ia *ssa.IndexAddr, idx ssa.Value, isSizes func(ssa.Value) bool) bool {
	for _, ct := range controllingIfs(ia.Block()) {
		c, ok := ct.If.Cond.(*ssa.BinOp)
		if !ok || c.Op != token.LSS || ct.Branch != 0 || stripConv(c.X) != idx {
			continue
		}
		if call, isCall := c.Y.(*ssa.Call); isCall {
			if b, isB := call.Call.Value.(*ssa.Builtin); isB && b.Name() == "len" && isSizes(call.Call.Args[0]) {
				// no other exit from the loop
				h := ct.If.Block()
				for _, b := range h.Parent().Blocks {
					if b == h || !naturalLoopContains(h, b) {
						continue
					}
					for _, sc := range b.Succs {
						if !naturalLoopContains(h, sc) {
							return false
						}
					}
				}
				return true
			}
		}
	}
	return false
}


// C15.R13: a fix-up that can never run.  When a nil test of a header item of the packet is reached
// only after that very item was set to nil (every store of the field that can reach the test
// without another one in between stores nil), the guarded branch - in the mutators it is the
// adjustment of the header / packet length for the item being removed - is dead: the stored lengths
// keep counting an item the encoder no longer writes.  (A contradiction rule: the code both clears
// the field and asks whether it is set.)
func c15R13(p *Prog, r *Report, fns []*ssa.Function) {
	n := 0
	for _, fn := range fns {
		if fn.Signature.Recv() == nil || typeName(fn.Signature.Recv().Type()) != "Packet" {
			continue
		}
		Instrs(fn, func(in ssa.Instruction) {
			iff, ok := in.(*ssa.If)
			if !ok {
				return
			}
			bo, ok := iff.Cond.(*ssa.BinOp)
			if !ok || (bo.Op != token.NEQ && bo.Op != token.EQL) {
				return
			}
			kc, isC := bo.Y.(*ssa.Const)
			if !isC || kc.Value != nil {
				return
			}
			o, f, base, okf := FieldOf(bo.X)
			if !okf || o != "Packet" || base != ssa.Value(fn.Params[0]) {
				return
			}
			if _, isPtr := bo.X.Type().Underlying().(*types.Pointer); !isPtr {
				return
			}
			isStoreF := func(x ssa.Instruction) bool {
				st, ok := x.(*ssa.Store)
				if !ok {
					return false
				}
				o2, f2, b2, ok2 := FieldOf(st.Addr)
				return ok2 && o2 == o && f2 == f && b2 == base
			}
			stores := StoresTo(fn, o, f)
			if len(stores) == 0 {
				return
			}
			isThis := func(x ssa.Instruction) bool { return x == ssa.Instruction(iff) }
			// reachable from the entry without any store of the field: the field's old value is tested
			if len(ReachAvoiding(fn, nil, isStoreF, isThis)) > 0 {
				return
			}
			allNil, any := true, false
			for _, st := range stores {
				if !isStoreF(st) {
					continue
				}
				if len(ReachAvoiding(fn, st, isStoreF, isThis)) == 0 {
					continue
				}
				any = true
				if c, isK := st.Val.(*ssa.Const); !isK || c.Value != nil {
					allNil = false
				}
			}
			if !any {
				return
			}
			n++
			r.Fn(FuncName(fn))
			key := fmt.Sprintf("%s: the nil test of %s looks at a value that can be set", FuncName(fn), f)
			if allNil {
				r.Bad("C15.R13", key, p.InstrPos(iff), "every way to this test of p."+f+" passes an assignment of nil to that same field with nothing in between: the branch for a present "+f+" can never run, so whatever it adjusts (the header and packet lengths when the item is removed) keeps its old value and the encoded packet no longer matches its declared lengths")
			} else {
				r.OK("C15.R13", key, p.InstrPos(iff), "the field can be non-nil at the test")
			}
		})
	}
	if n == 0 {
		r.OK("C15.R13", "nil tests after stores of the tested field", "-", "no test of a header item is preceded on every way by a store of that item")
	}
}
