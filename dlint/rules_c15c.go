package main

// C15.R10: derived sizes are recomputed after the contents change.  When the packet's header
// length is computed by a helper from the packet's current contents (which optional items are
// present), a mutator that calls the helper and then goes on to change one of the fields the
// helper reads leaves the stored lengths describing the old contents: Length() and the header
// field of the encoding then disagree with the bytes the encoder writes, and a decoder consumes
// bytes of the next packet.  Decided by: the set of Packet fields the helper loads; in each
// caller, reachability from the call to a store of one of those fields on the same packet with
// no further call of the helper in between.

import (
	"fmt"
	"go/token"
	"sort"
	"strings"

	"golang.org/x/tools/go/ssa"
)

func c15R10(p *Prog, r *Report) {
	const owner = "Packet"
	// helpers: methods of Packet that store headerLength and are called by other Packet methods
	type helper struct {
		fn    *ssa.Function
		reads map[string]bool
	}
	var helpers []helper
	for _, fn := range p.LibFuncs() {
		if fn.Signature.Recv() == nil || typeName(fn.Signature.Recv().Type()) != owner {
			continue
		}
		if len(StoresTo(fn, owner, "headerLength")) == 0 {
			continue
		}
		sites, _ := p.staticCallSites(fn)
		called := false
		for _, s := range sites {
			if s.Parent().Signature.Recv() != nil && typeName(s.Parent().Signature.Recv().Type()) == owner {
				called = true
			}
		}
		if !called {
			continue
		}
		reads := map[string]bool{}
		Instrs(fn, func(in ssa.Instruction) {
			u, ok := in.(*ssa.UnOp)
			if !ok || u.Op != token.MUL {
				return
			}
			if o, f, base, okf := FieldOf(u); okf && o == owner && base == ssa.Value(fn.Params[0]) && f != "headerLength" && f != "packetLength" {
				reads[f] = true
			}
		})
		if len(reads) > 0 {
			helpers = append(helpers, helper{fn, reads})
		}
	}
	if len(helpers) == 0 {
		r.OK("C15.R10", "header length bookkeeping", "-", "no helper recomputes the header length from the packet's contents: every mutator sets it itself (covered by R7's accounting of what the encoder writes)")
		return
	}
	for _, h := range helpers {
		r.Fn(FuncName(h.fn))
		var fields []string
		for f := range h.reads {
			fields = append(fields, f)
		}
		sort.Strings(fields)
		sites, _ := p.staticCallSites(h.fn)
		for _, site := range sites {
			m := site.Parent()
			cc := CallOf(site)
			if cc == nil || len(cc.Args) == 0 {
				continue
			}
			recv := cc.Args[0]
			isAgain := func(in ssa.Instruction) bool {
				c2 := CallOf(in)
				return c2 != nil && c2.StaticCallee() == h.fn && in != site && len(c2.Args) > 0 && c2.Args[0] == recv
			}
			var late ssa.Instruction
			lateField := ""
			isLateStore := func(in ssa.Instruction) bool {
				st, ok := in.(*ssa.Store)
				if !ok {
					return false
				}
				o, f, base, okf := FieldOf(st.Addr)
				if !okf || o != owner || !h.reads[f] || base != recv {
					return false
				}
				late, lateField = in, f
				return true
			}
			hits := ReachAvoiding(m, site, isAgain, isLateStore)
			key := fmt.Sprintf("%s: the lengths are recomputed after the last change of the contents", FuncName(m))
			if len(hits) > 0 && late != nil {
				r.Bad("C15.R10", key, p.InstrPos(late), fmt.Sprintf("%s computes the header and packet lengths from the packet's %s, and %s assigns %s after calling it (at %s) without calling it again: the stored lengths describe the old contents, so Length() and the header-length byte of the encoding no longer match the bytes the encoder writes, and a decoder reads into the next packet", FuncName(h.fn), strings.Join(fields, ", "), FuncName(m), lateField, p.InstrPos(site)))
			} else {
				r.OK("C15.R10", key, p.InstrPos(site), "no field read by "+FuncName(h.fn)+" is assigned after the call")
			}
		}
	}
}

// C15.R11: reflection accessors that panic on the wrong kind are reached only under a test of the
// kind.  (reflect.Value).Int panics unless the value's kind is one of the signed integer kinds
// (likewise Uint, Float); a packet's payload can be of any decodable type (a multi-component
// format is kept as bytes), so an accessor that reads samples through reflection must have
// selected the integer element kinds first.  Each such call in the package must be control
// dependent on an equality test of a Kind() result against a constant of the matching family.
func c15R11(p *Prog, r *Report, fns []*ssa.Function) {
	family := map[string][2]int64{"Int": {2, 6}, "Uint": {7, 12}, "Float": {13, 14}}
	n := 0
	for _, fn := range fns {
		Instrs(fn, func(in ssa.Instruction) {
			cc := CallOf(in)
			if cc == nil || cc.StaticCallee() == nil {
				return
			}
			name := CalleeName(cc)
			var fam string
			for f := range family {
				if name == "(reflect.Value)."+f {
					fam = f
				}
			}
			if fam == "" {
				return
			}
			n++
			r.Fn(FuncName(fn))
			lo, hi := family[fam][0], family[fam][1]
			guarded := false
			for _, cd := range controlDependencesClosure(in.Block()) {
				bo, ok := cd.If.Cond.(*ssa.BinOp)
				if !ok || (bo.Op != token.EQL && bo.Op != token.NEQ) {
					continue
				}
				for _, pair := range [][2]ssa.Value{{bo.X, bo.Y}, {bo.Y, bo.X}} {
					k, isC := constInt(pair[1])
					if !isC || k < lo || k > hi {
						continue
					}
					if c2, isCall := stripConv(pair[0]).(*ssa.Call); isCall && strings.HasSuffix(CalleeName(&c2.Call), ".Kind") {
						if (bo.Op == token.EQL && cd.Branch == 0) || (bo.Op == token.NEQ && cd.Branch == 1) {
							guarded = true
						}
					}
				}
			}
			r.Check(guarded, "C15.R11", fmt.Sprintf("(reflect.Value).%s in %s is reached only for values of that kind", fam, FuncName(fn)), p.InstrPos(in), "under an equality test of Kind() against a kind of the "+fam+" family",
				"(reflect.Value)."+fam+" panics for a value of another kind, and nothing on the way here selects the kind: a packet whose payload is kept in another element type (the bytes of a multi-component format such as the external-trigger packets) makes this accessor panic instead of returning")
		})
	}
	if n == 0 {
		r.OK("C15.R11", "reflection accessors", "-", "no call of (reflect.Value).Int/Uint/Float in the package")
	}
}
