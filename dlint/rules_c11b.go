package main

func (c *c11ctx) ruleR3() {}
func (c *c11ctx) ruleR4() {}
