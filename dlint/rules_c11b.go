package main

import (
	"fmt"
	"go/token"
	"go/types"
	"sort"
	"strings"

	"golang.org/x/tools/go/ssa"
)

func (c *c11ctx) ruleR3() { c11GuardRules(c) }

// ---- R4: no unconditional blocking on a mortal peer ---------------------------------------

func (c *c11ctx) ruleR4() {
	p, r := c.p, c.r
	q := c.rv.Handoff
	ctl := c.rv.Ctl.Obj().Name()
	// (a) the hand-off in the queueing function must be an arm of a select with an alternative
	Instrs(q, func(in ssa.Instruction) {
		if s, ok := in.(*ssa.Send); ok && chanFieldName(s.Chan) == c.rv.ReqField {
			r.Bad("C11.R4", "hand-off in "+FuncName(q), p.InstrPos(in),
				"unconditional send on "+c.rv.ReqField+": its only receiver is the core loop, which ends by itself on a source error or timeout; a request arriving after that blocks its caller forever (the active flag is refreshed only by handlers, not by the core loop's exit)")
		}
		if sel, ok := in.(*ssa.Select); ok {
			for _, st := range sel.States {
				if st.Dir == types.SendOnly && chanFieldName(st.Chan) == c.rv.ReqField {
					alt := len(sel.States) > 1 || !sel.Blocking
					r.Check(alt, "C11.R4", "hand-off in "+FuncName(q), p.InstrPos(in),
						"the hand-off is one arm of a select that has another way out when the core loop is gone",
						"select with the hand-off as its only arm blocks forever once the core loop has ended")
					// when the select is retried in a loop, a timer arm must be armed again for every
					// pass: a time.After / Timer channel made before the loop fires once, and from the
					// second pass on the hand-off is again the only arm that can ever be ready
					if sel.Blocking && InLoop(sel) {
						for _, alt := range sel.States {
							if alt.Dir != types.RecvOnly {
								continue
							}
							mk := timerSource(alt.Chan)
							if mk == nil {
								continue
							}
							rearmed := InLoopWith(mk, sel) || mk.Block() == sel.Block()
							if !rearmed {
								// a Reset of the timer inside the loop also re-arms it
								Instrs(q, func(x ssa.Instruction) {
									if IsCallTo(x, "(*time.Timer).Reset") && (InLoopWith(x, sel) || x.Block() == sel.Block()) {
										rearmed = true
									}
								})
							}
							r.Check(rearmed, "C11.R4", "time-out arm of the hand-off in "+FuncName(q)+" is re-armed on every pass", p.InstrPos(mk),
								"the timer channel is made (or reset) inside the retry loop",
								"the timer behind the alternative arm is created once before the retry loop and never reset: it fires a single time, after which the select can only proceed through the hand-off; a request pending when the core loop ends then blocks its caller forever")
						}
					}
				}
			}
		}
	})
	// (b) the active flag: the bool field of the controller tested by the queueing function
	flag := ""
	q = c.rv.Queue
	Instrs(q, func(in ssa.Instruction) {
		if iff, ok := in.(*ssa.If); ok && flag == "" {
			v := iff.Cond
			if u, isU := v.(*ssa.UnOp); isU && u.Op == token.NOT {
				v = u.X
			}
			if o, f, _, ok := FieldOf(v); ok && o == ctl {
				flag = f
			}
		}
	})
	if flag == "" {
		r.Bad("C11.R4", "active-flag guard in "+FuncName(q), p.Pos(q.Pos()), "the queueing function does not test an active flag before the hand-off: with no source running the request blocks forever")
		return
	}
	// every store of true to the flag must be on the success branch of the call that starts the core loop
	cons := c.coreConsumers()
	var starter *ssa.Function
	if len(cons) == 1 {
		for _, gs := range p.GoStarts() {
			for _, f := range gs.Callees {
				if f == cons[0] {
					starter = gs.In
				}
			}
		}
	}
	for _, fn := range p.LibFuncs() {
		for _, st := range StoresTo(fn, ctl, flag) {
			cst, isC := st.Val.(*ssa.Const)
			if !isC || cst.Value == nil || cst.Value.String() != "true" {
				continue
			}
			r.Fn(FuncName(fn))
			good := false
			for _, ci := range controllingIfs(st.Block()) {
				bo, ok := ci.If.Cond.(*ssa.BinOp)
				if !ok {
					continue
				}
				call, ok := bo.X.(*ssa.Call)
				if !ok || call.Call.StaticCallee() != starter {
					continue
				}
				if cn, isC := bo.Y.(*ssa.Const); !isC || cn.Value != nil {
					continue
				}
				// err != nil : success is the false branch; err == nil : success is the true branch
				if (bo.Op == token.NEQ && ci.Branch == 1) || (bo.Op == token.EQL && ci.Branch == 0) {
					good = true
				}
			}
			r.Check(good, "C11.R4", "store "+flag+"=true in "+FuncName(fn), p.InstrPos(st),
				"the active flag becomes true only after the start function (which launches the core loop) returned success",
				"the active flag is set before / regardless of a successful start: a request from another connection during a slow or failing start passes the guard and blocks forever on the request channel, with no core loop to receive it")
		}
	}
	// (c) handler-side operations on other mortal-peer channels of data sources (mix requests)
	for _, h := range c.rv.Handlers {
		Instrs(h, func(in ssa.Instruction) {
			cc := CallOf(in)
			if cc == nil || !cc.IsInvoke() {
				return
			}
			for _, impl := range p.callees(in) {
				impl = Unwrap(impl)
				if impl == nil || impl.Blocks == nil {
					continue
				}
				blocking := ""
				Instrs(impl, func(x ssa.Instruction) {
					if s, ok := x.(*ssa.Send); ok && chanFieldName(s.Chan) != "" {
						blocking = "send on " + chanFieldName(s.Chan) + " at " + p.InstrPos(x)
					}
					if u, ok := x.(*ssa.UnOp); ok && u.Op == token.ARROW && chanFieldName(u.X) != "" {
						blocking = "receive from " + chanFieldName(u.X) + " at " + p.InstrPos(x)
					}
				})
				if blocking == "" {
					continue
				}
				// the handler must have tested the active flag before the call
				guarded := false
				for _, ci := range controllingIfs(in.Block()) {
					v := ci.If.Cond
					if u, isU := v.(*ssa.UnOp); isU && u.Op == token.NOT {
						v = u.X
					}
					if o, f, _, ok := FieldOf(v); ok && o == ctl && f == flag {
						guarded = true
					}
				}
				// or an early return on !flag dominates
				Instrs(h, func(x ssa.Instruction) {
					iff, ok := x.(*ssa.If)
					if !ok {
						return
					}
					v := iff.Cond
					neg := false
					if u, isU := v.(*ssa.UnOp); isU && u.Op == token.NOT {
						v, neg = u.X, true
					}
					if o, f, _, ok := FieldOf(v); ok && o == ctl && f == flag {
						cont := iff.Block().Succs[0]
						if neg {
							cont = iff.Block().Succs[1]
						}
						if cont == in.Block() || cont.Dominates(in.Block()) {
							guarded = true
						}
					}
				})
				r.Check(guarded, "C11.R4", FuncName(h)+" calls blocking "+FuncName(impl), p.InstrPos(in),
					"the handler tests the active flag before a call that blocks on a per-block goroutine",
					"handler calls "+FuncName(impl)+" ("+blocking+") without testing the active flag: with no running source nothing ever serves that channel and the request blocks forever")
			}
		})
	}
}

// ---- lock re-entrancy (shared by C10 and C11) ------------------------------------------------

// lockSummary: the mutex fields a function may lock, transitively over static callees.
func lockSummary(p *Prog, fn *ssa.Function, memo map[*ssa.Function]map[string]bool, depth int) map[string]bool {
	if m, ok := memo[fn]; ok {
		return m
	}
	out := map[string]bool{}
	memo[fn] = out
	if fn == nil || fn.Blocks == nil || depth > 6 {
		return out
	}
	pk := fnPkg(fn)
	if pk == nil || !strings.HasPrefix(pk.Path(), modPath) {
		return out
	}
	Instrs(fn, func(in ssa.Instruction) {
		if _, isGo := in.(*ssa.Go); isGo {
			return
		}
		if m := mutexFieldOf(in, "Lock"); m != "" {
			out[m] = true
		}
		if cc := CallOf(in); cc != nil {
			if sc := cc.StaticCallee(); sc != nil {
				for k := range lockSummary(p, sc, memo, depth+1) {
					out[k] = true
				}
			}
		}
	})
	return out
}

// checkLockReentrancy reports calls made while a mutex is held to functions that lock the same
// mutex field of the same receiver object (Go mutexes are not re-entrant: self-deadlock).
func checkLockReentrancy(p *Prog, r *Report, rule string) {
	memo := map[*ssa.Function]map[string]bool{}
	for _, fn := range p.LibFuncs() {
		locks := map[string]bool{}
		Instrs(fn, func(in ssa.Instruction) {
			if m := mutexFieldOf(in, "Lock"); m != "" {
				if _, isDefer := in.(*ssa.Defer); !isDefer {
					locks[m] = true
				}
			}
		})
		var names []string
		for m := range locks {
			names = append(names, m)
		}
		sort.Strings(names)
		for _, m := range names {
			isL := func(in ssa.Instruction) bool { return mutexFieldOf(in, "Lock") == m }
			isU := func(in ssa.Instruction) bool { return mutexFieldOf(in, "Unlock") == m }
			st := lockStates(fn, isL, isU)
			bad := ""
			// receiver object of the lock in this function
			var lockRecv ssa.Value
			Instrs(fn, func(in ssa.Instruction) {
				if isL(in) {
					if fa, ok := CallOf(in).Args[0].(*ssa.FieldAddr); ok {
						lockRecv = fa.X
					}
				}
			})
			for in, s := range st {
				if s&2 == 0 || isL(in) || isU(in) {
					continue
				}
				if _, isDefer := in.(*ssa.Defer); isDefer {
					continue
				}
				if _, isGo := in.(*ssa.Go); isGo {
					continue
				}
				cc := CallOf(in)
				if cc == nil {
					continue
				}
				sc := cc.StaticCallee()
				if sc == nil {
					continue
				}
				if !lockSummary(p, sc, memo, 0)[m] {
					continue
				}
				// same object?  the callee is a method on the same receiver value, or receives it
				same := false
				for _, a := range cc.Args {
					if a == lockRecv {
						same = true
					}
					if root, _ := fieldPath(a); root == lockRecv && lockRecv != nil {
						same = true
					}
				}
				if same {
					bad = fmt.Sprintf("call to %s at %s while %s is held; the callee locks it again", FuncName(sc), p.InstrPos(in), m)
				}
			}
			r.Fn(FuncName(fn))
			r.Check(bad == "", rule, FuncName(fn)+" does not re-lock "+m, p.Pos(fn.Pos()),
				"no call made under the mutex locks the same mutex again",
				"self-deadlock: "+bad+" (sync.Mutex is not re-entrant; the goroutine — the core loop when this runs in a request — blocks forever)")
		}
	}
}

// timerSource: ch is the channel of time.After(...) or the C field of a time.NewTimer(...) /
// time.AfterFunc timer; returns the creating call.
func timerSource(ch ssa.Value) ssa.Instruction {
	for i := 0; i < 6; i++ {
		switch x := ch.(type) {
		case *ssa.Call:
			if IsCallTo(x, "time.After") || IsCallTo(x, "time.NewTimer") {
				return x
			}
			return nil
		case *ssa.UnOp: // load of timer.C
			ch = x.X
		case *ssa.FieldAddr:
			ch = x.X
		case *ssa.Field:
			ch = x.X
		case *ssa.Phi:
			return nil
		default:
			return nil
		}
	}
	return nil
}
