package main

// E6b: interprocedural discharge of guard goals.  A goal that the function holding the
// sink cannot prove is turned into candidate requirements over the function's inputs
// (parameters, captured variables, a received message, a loaded field) and must then be
// proven at every place that supplies those inputs (call sites with tainted arguments, the
// closure-creation site, the send sites of the channel, the stores to the field),
// recursively to a small depth.

import (
	"os"
	"fmt"
	"go/token"
	"go/types"
	"regexp"
	"sort"
	"strings"

	"golang.org/x/tools/go/ssa"
)

type GuardEngine struct {
	p     *Prog
	t     *Taint
	inv   *LenInvariants
	ctxs  map[*ssa.Function]*GuardCtx
	sends map[FieldKey][]sendSite
	store map[FieldKey][]*ssa.Store
	Depth int
	// AllSites: requirements are checked at every call site in library code, not only at
	// those passing request-derived values
	AllSites bool
}

type sendSite struct {
	at  ssa.Instruction
	val ssa.Value
}

func NewGuardEngine(p *Prog, t *Taint, inv *LenInvariants) *GuardEngine {
	e := &GuardEngine{p: p, t: t, inv: inv, ctxs: map[*ssa.Function]*GuardCtx{}, sends: map[FieldKey][]sendSite{}, store: map[FieldKey][]*ssa.Store{}, Depth: 8}
	for _, fn := range p.LibFuncs() {
		Instrs(fn, func(in ssa.Instruction) {
			switch x := in.(type) {
			case *ssa.Send:
				if k, ok := chanKey(x.Chan); ok {
					e.sends[k] = append(e.sends[k], sendSite{in, x.X})
				}
			case *ssa.Select:
				for _, s := range x.States {
					if s.Dir == types.SendOnly {
						if k, ok := chanKey(s.Chan); ok {
							e.sends[k] = append(e.sends[k], sendSite{in, s.Send})
						}
					}
				}
			case *ssa.Store:
				if k, ok := fieldKeyOfAddr(x.Addr); ok {
					e.store[k] = append(e.store[k], x)
				}
			}
		})
	}
	return e
}

func (e *GuardEngine) Ctx(fn *ssa.Function) *GuardCtx {
	if c, ok := e.ctxs[fn]; ok {
		return c
	}
	c := NewGuardCtx(e.p, fn, e.inv)
	e.ctxs[fn] = c
	return c
}

// Outcome of trying to discharge one goal.
type Outcome struct {
	OK    bool
	Trail []string // how it was discharged / where it failed
	// Unsure: not discharged, but for a reason that is a limit of the analysis, not evidence of a
	// missing guard (e.g. a table entry whose stored value decides whether its key is ever used)
	Unsure bool
}

var rootTok = regexp.MustCompile(`‹\^?[^‹›]*›`)
var msgTok = regexp.MustCompile(`v\d+:t\d+`)

// liftable: every symbol is built only from delimited roots (parameters, captured
// variables) with wildcarded element indices — i.e. it means the same thing at function entry.
func liftableSym(s string) bool {
	if strings.ContainsAny(s, "#{") {
		return false
	}
	if strings.Contains(s, "local") || msgTok.MatchString(s) {
		return false
	}
	if !rootTok.MatchString(s) {
		return false
	}
	// element indices must be wildcards
	for i := 0; i < len(s); i++ {
		if s[i] == '[' {
			j := strings.IndexByte(s[i:], ']')
			if j < 0 || s[i+1:i+j] != "∀" {
				return false
			}
		}
	}
	return true
}

func liftable(p Poly) bool {
	for _, s := range p.Symbols() {
		if !liftableSym(s) {
			return false
		}
	}
	return true
}

// candidates: the goal itself and the goal minus each known fact, wildcarded, that are liftable.
func (e *GuardEngine) candidates(g *GuardCtx, goal Poly, at ssa.Instruction) []Poly {
	var out []Poly
	seen := map[string]bool{}
	add := func(p Poly) {
		w := wildPoly(p)
		if liftable(w) && !seen[w.String()] {
			seen[w.String()] = true
			out = append(out, w)
		}
	}
	add(goal)
	for _, f := range geList(g.AllFacts(goal, at)) {
		add(goal.Sub(f))
	}
	return out
}

// substSym replaces whole symbols by polynomials and root tokens inside symbols by strings.
func substPoly(p Poly, whole map[string]Poly, tokens map[string]string) (Poly, bool) {
	out := Poly{}
	ok := true
	for mono, c := range p {
		term := polyConst(c)
		if mono != "" {
			for _, s := range strings.Split(mono, "*") {
				if w, has := whole[s]; has {
					term = term.Mul(w)
					continue
				}
				ns := rootTok.ReplaceAllStringFunc(s, func(tok string) string {
					if r, has := tokens[tok]; has {
						return r
					}
					ok = false
					return tok
				})
				ns = msgTok.ReplaceAllStringFunc(ns, func(tok string) string {
					if r, has := tokens[tok]; has {
						return r
					}
					return tok
				})
				term = term.Mul(polySym(ns))
			}
		}
		out = out.Add(term)
	}
	return out, ok
}

// renderArg: how the caller names the value it passes.
func renderArg(pc *PolyCtx, arg ssa.Value) (whole Poly, tok string, ok bool) {
	switch arg.Type().Underlying().(type) {
	case *types.Basic:
		if isIntLike(arg.Type()) {
			return pc.Of(arg), "", true
		}
		return nil, "", false
	case *types.Slice:
		s := pc.sliceSym(arg)
		if len(s) == 1 {
			for k, c := range s {
				if c == 1 && !strings.Contains(k, "#") {
					return nil, strings.ReplaceAll(k, "*", "·"), true
				}
			}
		}
		return nil, "", false
	case *types.Pointer:
		if p, ok := pc.accessPath(arg); ok && !strings.Contains(p, "#") {
			return nil, p, true
		}
		return nil, "", false
	case *types.Struct:
		// struct passed by value: name it by where it was loaded from
		if u, ok := arg.(*ssa.UnOp); ok && u.Op == token.MUL {
			if p, ok := pc.accessPath(u.X); ok {
				return nil, p, true
			}
		}
		return nil, "", false
	}
	return nil, "", false
}

// Discharge tries to prove goal >= 0 (or != 0) at instruction `at` of fn, lifting as needed.
func (e *GuardEngine) Discharge(fn *ssa.Function, goal Poly, ne bool, at ssa.Instruction, depth int, seen map[string]bool) Outcome {
	g := e.Ctx(fn)
	where := fmt.Sprintf("%s@%s", FuncName(fn), e.p.InstrPos(at))
	if ne {
		if g.ProveNE0(goal, at) {
			return Outcome{OK: true, Trail: []string{"proven in " + where}}
		}
	} else if g.Prove(goal, at) {
		return Outcome{OK: true, Trail: []string{"proven in " + where}}
	}
	if os.Getenv("DLINT_DEBUG_DISCHARGE") != "" && strings.Contains(where, os.Getenv("DLINT_DEBUG_DISCHARGE")) {
		fmt.Fprintf(os.Stderr, "DISCHARGE fails at %s goal %s\n", where, goal)
		for _, f := range g.AllFacts(goal, at) {
			fmt.Fprintf(os.Stderr, "     fact %s   [%s]\n", f, f.Why)
		}
	}
	if depth >= e.Depth {
		return Outcome{OK: false, Trail: []string{"not proven in " + where + " (lifting depth exhausted)"}}
	}
	key := fmt.Sprintf("%p|%s|%v", fn, goal.String(), ne)
	if seen[key] {
		return Outcome{OK: false, Trail: []string{"not proven in " + where + " (cycle)"}}
	}
	seen[key] = true
	defer delete(seen, key)

	// 1. message / field roots
	if out, handled := e.liftThroughMemory(fn, g, goal, ne, at, depth, seen); handled {
		return out
	}
	// 2. parameters / captured variables
	var cands []Poly
	if ne {
		if w := wildPoly(goal); liftable(w) {
			cands = []Poly{w}
		}
	} else {
		cands = e.candidates(g, goal, at)
	}
	if len(cands) == 0 {
		return Outcome{OK: false, Trail: []string{"not proven in " + where + " and not expressible over the function's inputs: " + goal.String() + " >= 0"}}
	}
	sites := e.supplySites(fn)
	if len(sites) == 0 {
		return Outcome{OK: false, Trail: []string{"not proven in " + where + "; " + FuncName(fn) + " receives the value directly from the client: need " + cands[0].String() + condStr(ne)}}
	}
	var trail []string
	for _, s := range sites {
		okSite := false
		var lastFail []string
		for _, cand := range cands {
			tg, ok := s.translate(e, cand)
			if !ok {
				continue
			}
			o := e.Discharge(s.fn, tg, ne, s.at, depth+1, seen)
			if o.OK {
				okSite = true
				trail = append(trail, o.Trail...)
				break
			}
			if lastFail == nil {
				lastFail = o.Trail // report the plain goal, not a derived residual
			}
		}
		if !okSite {
			if lastFail == nil {
				lastFail = []string{fmt.Sprintf("requirement %s%s of %s cannot be expressed at %s@%s", cands[0], condStr(ne), FuncName(fn), FuncName(s.fn), e.p.InstrPos(s.at))}
			}
			return Outcome{OK: false, Trail: append([]string{"not proven in " + where}, lastFail...)}
		}
	}
	return Outcome{OK: true, Trail: trail}
}

func condStr(ne bool) string {
	if ne {
		return " != 0"
	}
	return " >= 0"
}

// supplySite: a place that provides fn's inputs.
type supplySite struct {
	fn      *ssa.Function
	at      ssa.Instruction
	args    map[string]ssa.Value // root token -> supplied value
	ptrCell map[string]bool      // captured cells holding a pointer: the callee writes (*‹^x›)
}

// collapseCells rewrites (*‹^x›) to ‹^x› for captured cells that hold a pointer.
func collapseCells(p Poly, cells map[string]bool) Poly {
	if len(cells) == 0 {
		return p
	}
	return mapSyms(p, func(s string) string {
		for tok := range cells {
			s = strings.ReplaceAll(s, "(·"+tok+")", tok)
		}
		return s
	})
}

func (s supplySite) translate(e *GuardEngine, cand Poly) (Poly, bool) {
	pc := e.Ctx(s.fn).PC
	whole := map[string]Poly{}
	tokens := map[string]string{}
	cand = collapseCells(cand, s.ptrCell)
	for _, sym := range cand.Symbols() {
		for _, tok := range rootTok.FindAllString(sym, -1) {
			arg, has := s.args[tok]
			if !has {
				return nil, false
			}
			w, t, ok := renderArg(pc, arg)
			if !ok {
				// a slice the caller made itself (no name of its own): its length is still known there
				if _, isSl := arg.Type().Underlying().(*types.Slice); isSl && sym == "len("+tok+")" {
					whole[sym] = pc.lenOf(arg)
					continue
				}
				return nil, false
			}
			if w != nil {
				if sym != tok {
					// an integer input inside a larger symbol: only when it renders as one symbol
					if len(w) == 1 {
						for k, c := range w {
							if c == 1 && k != "" {
								tokens[tok] = k
							}
						}
					}
					if _, ok := tokens[tok]; !ok {
						return nil, false
					}
				} else {
					whole[tok] = w
				}
			} else {
				tokens[tok] = t
			}
		}
	}
	return substPoly(cand, whole, tokens)
}

// supplySites lists the call sites of fn that pass client-chosen data, and for closures the
// creation site (captured variables are read through their cells).
func (e *GuardEngine) supplySites(fn *ssa.Function) []supplySite {
	var out []supplySite
	cg := e.p.CallGraph()
	n := cg.Nodes[fn]
	if n != nil {
		for _, edge := range n.In {
			caller := edge.Caller.Func
			if edge.Site == nil || caller == nil {
				continue
			}
			pk := fnPkg(caller)
			if pk == nil || !strings.HasPrefix(pk.Path(), modPath) || strings.Contains(pk.Path(), "/cmd/") {
				continue
			}
			cc := edge.Site.Common()
			args := map[string]ssa.Value{}
			anyT := false
			bind := func(i int, v ssa.Value) {
				if i < len(fn.Params) {
					args["‹"+fn.Params[i].Name()+"›"] = v
					if e.t.Is(v) {
						anyT = true
					}
				}
			}
			off := 0
			if cc.IsInvoke() {
				bind(0, cc.Value)
				off = 1
			}
			for i, a := range cc.Args {
				bind(i+off, a)
			}
			if _, isGo := edge.Site.(*ssa.Go); isGo {
				// arguments of a go statement are evaluated at the go statement
			}
			if !anyT && !e.AllSites {
				continue
			}
			// free variables of a closure called here: resolved at the creation site below
			out = append(out, supplySite{caller, edge.Site, args, nil})
		}
	}
	// closure creation sites bind the captured variables
	if par := fn.Parent(); par != nil && len(fn.FreeVars) > 0 {
		Instrs(par, func(in ssa.Instruction) {
			mc, ok := in.(*ssa.MakeClosure)
			if !ok || mc.Fn != fn {
				return
			}
			args := map[string]ssa.Value{}
			cells := map[string]bool{}
			for i, b := range mc.Bindings {
				if i >= len(fn.FreeVars) {
					continue
				}
				tok := "‹^" + fn.FreeVars[i].Name() + "›"
				val := b
				// the binding is the variable's cell: the supplied value is what the cell holds here
				if a, isA := b.(*ssa.Alloc); isA {
					var sts []*ssa.Store
					for _, ref := range *a.Referrers() {
						if st, ok := ref.(*ssa.Store); ok && st.Addr == ssa.Value(a) {
							sts = append(sts, st)
						}
					}
					if len(sts) == 1 && InstrDominates(sts[0], mc) {
						val = sts[0].Val
						if _, isPtr := val.Type().Underlying().(*types.Pointer); isPtr {
							cells[tok] = true
						}
					}
				}
				args[tok] = val
			}
			if len(out) == 0 || len(fn.Params) == 0 {
				out = append(out, supplySite{par, mc, args, cells})
			} else {
				for i := range out {
					for k, v := range args {
						out[i].args[k] = v
					}
					out[i].ptrCell = cells
				}
			}
		})
	}
	sort.Slice(out, func(i, j int) bool { return out[i].at.Pos() < out[j].at.Pos() })
	return out
}

// liftThroughMemory handles goals whose symbols are rooted in a received message or are
// loads of a request-written field: they must hold where the message is sent / the field stored.
func (e *GuardEngine) liftThroughMemory(fn *ssa.Function, g *GuardCtx, goal Poly, ne bool, at ssa.Instruction, depth int, seen map[string]bool) (Outcome, bool) {
	// (a) message roots
	var msgRoot ssa.Value
	var msgKey FieldKey
	var fldSym string
	var fldKey FieldKey
	for _, s := range goal.Symbols() {
		for _, tok := range msgTok.FindAllString(s, -1) {
			for v, n := range g.PC.ids {
				if fmt.Sprintf("v%d:%s", n, v.Name()) == tok {
					if k, ok := e.recvKey(v); ok {
						msgRoot, msgKey = v, k
					}
				}
			}
		}
		if v, ok := g.PC.symVal[s].(*ssa.UnOp); ok && v.Op == token.MUL {
			if k, isF := fieldKeyOfAddr(v.X); isF {
				if _, tainted := e.t.fields[k]; tainted && !e.t.Is(addrBase(v.X)) {
					fldSym, fldKey = s, k
				}
			}
		}
	}
	// (c) keys of a client-keyed map: must hold where the key is inserted
	for _, s := range goal.Symbols() {
		v := g.PC.symVal[s]
		if v == nil {
			continue
		}
		k, ok := e.t.mapTag[v]
		if !ok {
			continue
		}
		ex, isEx := v.(*ssa.Extract)
		if !isEx || ex.Index != 1 {
			continue
		}
		var trail []string
		for _, mu := range e.t.mapUpd[k] {
			sfn := mu.Parent()
			w := e.Ctx(sfn).PC.Of(mu.Key)
			tg, _ := substPoly(goal, map[string]Poly{s: w}, nil)
			tg = envRebase(tg, g, e.Ctx(sfn))
			o := e.Discharge(sfn, tg, ne, mu, depth+1, seen)
			if !o.OK {
				out := Outcome{OK: false, Trail: append([]string{fmt.Sprintf("needed for keys of map %s used in %s@%s: %s%s", k, FuncName(fn), e.p.InstrPos(at), goal, condStr(ne))}, o.Trail...)}
				// a table that stores a computed bool with the key (false = entry not in use): whether
				// this key is ever used as an index depends on the value, which is not followed
				if _, isC := mu.Value.(*ssa.Const); !isC {
					if b, isB := mu.Value.Type().Underlying().(*types.Basic); isB && b.Kind() == types.Bool {
						out.Unsure = true
						out.Trail = append(out.Trail, "the entry is stored with a computed bool: keys stored with false need no bound if readers test the value")
					}
				}
				return out, true
			}
			trail = append(trail, o.Trail...)
		}
		if len(e.t.mapUpd[k]) > 0 {
			return Outcome{OK: true, Trail: trail}, true
		}
	}
	if msgRoot != nil {
		tok := fmt.Sprintf("v%d:%s", g.PC.ids[msgRoot], msgRoot.Name())
		var cands []Poly
		consider := func(p Poly) {
			w := wildPoly(p)
			okc := true
			for _, s := range w.Symbols() {
				s2 := strings.ReplaceAll(s, tok, "‹m›")
				if !liftableSym(s2) {
					okc = false
				}
			}
			if okc {
				cands = append(cands, w)
			}
		}
		consider(goal)
		if !ne {
			for _, f := range geList(g.AllFacts(goal, at)) {
				consider(goal.Sub(f))
			}
		}
		if len(cands) == 0 {
			return Outcome{OK: false, Trail: []string{fmt.Sprintf("not proven in %s@%s and not expressible over the received message", FuncName(fn), e.p.InstrPos(at))}}, true
		}
		sites := e.sends[msgKey]
		if len(sites) == 0 {
			return Outcome{OK: false, Trail: []string{"no send site found for channel " + msgKey.String()}}, true
		}
		var trail []string
		for _, s := range sites {
			sfn := s.at.Parent()
			spc := e.Ctx(sfn).PC
			_, t, ok := renderArg(spc, s.val)
			okSite := false
			var lastFail []string
			if ok {
				for _, cand := range cands {
					// environment roots (receiver fields) are re-rooted by type: both ends are methods/closures of the same object
					tg, ok2 := substPoly(envRebase(cand, e.Ctx(fn), e.Ctx(sfn)), nil, map[string]string{tok: t})
					_ = ok2
					o := e.Discharge(sfn, tg, ne, s.at, depth+1, seen)
					if o.OK {
						okSite = true
						trail = append(trail, o.Trail...)
						break
					}
					lastFail = o.Trail
				}
			}
			if !okSite {
				if lastFail == nil {
					lastFail = []string{"cannot name the sent value at " + e.p.InstrPos(s.at)}
				}
				return Outcome{OK: false, Trail: append([]string{fmt.Sprintf("needed for the message received in %s@%s: %s%s", FuncName(fn), e.p.InstrPos(at), cands[0], condStr(ne))}, lastFail...)}, true
			}
		}
		return Outcome{OK: true, Trail: trail}, true
	}
	if fldSym != "" {
		// only goals in which the field value is the sole non-constant ingredient besides environment
		stores := e.store[fldKey]
		var trail []string
		n := 0
		for _, st := range stores {
			sfn := st.Parent()
			if !e.t.Is(st.Val) {
				continue // a store of a value the client does not choose (initialisation)
			}
			// a record put together in a local and returned by value (`req.n = N; ...; return req, err`)
			// reaches shared state only where a caller stores the result: the goal must hold there,
			// with what the helper's way of returning says about the field
			if al, isLocal := addrRoot(st.Addr).(*ssa.Alloc); isLocal && al.Parent() == sfn {
				if ridx, byVal := returnedByValue(sfn, al); byVal {
					fname := fldKey.Field
					sites, _ := e.p.staticCallSites(sfn)
					handled := 0
					for _, site := range sites {
						call, isCall := site.(*ssa.Call)
						if !isCall {
							continue
						}
						var rv ssa.Value = call
						if sfn.Signature.Results().Len() > 1 {
							rv = nil
							for _, ref := range *call.Referrers() {
								if ex, isEx := ref.(*ssa.Extract); isEx && ex.Index == ridx {
									rv = ex
								}
							}
						}
						if rv == nil {
							continue
						}
						cfn := call.Parent()
						cpc := e.Ctx(cfn).PC
						pth, okP := cpc.accessPath(rv)
						if !okP {
							continue
						}
						for _, ref := range *rv.Referrers() {
							ws, isSt := ref.(*ssa.Store)
							if !isSt || ws.Val != rv {
								continue
							}
							handled++
							n++
							tg := mapSyms(goal, func(sy string) string { return strings.ReplaceAll(sy, fldSym, pth+"."+fname) })
							tg = envRebase(tg, g, e.Ctx(cfn))
							o := e.Discharge(cfn, tg, ne, ws, depth+1, seen)
							if !o.OK {
								return Outcome{OK: false, Trail: append([]string{fmt.Sprintf("needed for field %s read in %s@%s: %s%s (the record is built by %s and stored at %s)", fldKey, FuncName(fn), e.p.InstrPos(at), goal, condStr(ne), FuncName(sfn), e.p.InstrPos(ws))}, o.Trail...)}, true
							}
							trail = append(trail, o.Trail...)
						}
					}
					if handled > 0 {
						continue
					}
				}
			}
			n++
			spc := e.Ctx(sfn).PC
			w := spc.Of(st.Val)
			var tg Poly
			if len(w) == 1 {
				single := ""
				for k, c := range w {
					if c == 1 && k != "" {
						single = k
					}
				}
				if single != "" {
					tg = mapSyms(goal, func(s string) string { return strings.ReplaceAll(s, fldSym, single) })
				}
			}
			if tg == nil {
				ok := true
				for _, s := range goal.Symbols() {
					if s != fldSym && strings.Contains(s, fldSym) {
						ok = false
					}
				}
				if !ok {
					return Outcome{OK: false, Trail: []string{fmt.Sprintf("value stored to %s at %s cannot be substituted into %s", fldKey, e.p.InstrPos(st), goal)}}, true
				}
				tg, _ = substPoly(goal, map[string]Poly{fldSym: w}, nil)
			}
			tg = envRebase(tg, g, e.Ctx(sfn))
			o := e.Discharge(sfn, tg, ne, st, depth+1, seen)
			if !o.OK {
				return Outcome{OK: false, Trail: append([]string{fmt.Sprintf("needed for field %s read in %s@%s: %s%s", fldKey, FuncName(fn), e.p.InstrPos(at), goal, condStr(ne))}, o.Trail...)}, true
			}
			trail = append(trail, o.Trail...)
		}
		if n == 0 {
			return Outcome{}, false
		}
		return Outcome{OK: true, Trail: trail}, true
	}
	return Outcome{}, false
}

// addrBase: the pointer a field address is taken from.
func addrBase(v ssa.Value) ssa.Value {
	for {
		switch x := v.(type) {
		case *ssa.FieldAddr:
			v = x.X
		case *ssa.UnOp:
			if x.Op == token.MUL {
				v = x.X
				continue
			}
			return v
		default:
			return v
		}
	}
}

// recvKey: v is a value received from a chan-typed field.
func (e *GuardEngine) recvKey(v ssa.Value) (FieldKey, bool) {
	switch x := v.(type) {
	case *ssa.UnOp:
		if x.Op == token.ARROW {
			return chanKey(x.X)
		}
	case *ssa.Extract:
		if sel, ok := x.Tuple.(*ssa.Select); ok {
			pos := 2
			for _, s := range sel.States {
				if s.Dir != types.RecvOnly {
					continue
				}
				if pos == x.Index {
					return chanKey(s.Chan)
				}
				pos++
			}
		}
		if u, ok := x.Tuple.(*ssa.UnOp); ok && u.Op == token.ARROW && x.Index == 0 {
			return chanKey(u.X)
		}
	}
	return FieldKey{}, false
}

// envRebase renames the receiver root of one function to the receiver root of another when
// both denote an object of the same named type (a method and a closure inside a method of
// the same object): ‹ls› in a method, (*‹^ls›) in a closure that captured it.
func envRebase(p Poly, from, to *GuardCtx) Poly {
	fr := recvRoots(from.Fn)
	tr := recvRoots(to.Fn)
	type pair struct{ a, b string }
	var pairs []pair
	for tname, r := range fr {
		if r2, ok := tr[tname]; ok && r2 != r {
			pairs = append(pairs, pair{r, r2})
		}
	}
	if len(pairs) == 0 {
		return p
	}
	sort.Slice(pairs, func(i, j int) bool { return pairs[i].a < pairs[j].a })
	return mapSyms(p, func(s string) string {
		for _, pr := range pairs {
			s = strings.ReplaceAll(s, pr.a, pr.b)
		}
		return s
	})
}

// recvRoots: named struct type -> how the function writes "the object": ‹r› for a method
// receiver, (*‹^r›) for a captured pointer variable.
func recvRoots(fn *ssa.Function) map[string]string {
	out := map[string]string{}
	if fn.Signature.Recv() != nil && len(fn.Params) > 0 {
		out[typeName(fn.Params[0].Type())] = "‹" + fn.Params[0].Name() + "›"
	}
	for _, fv := range fn.FreeVars {
		if pp, ok := fv.Type().(*types.Pointer); ok {
			if _, ok2 := pp.Elem().Underlying().(*types.Pointer); ok2 && derefStruct(pp.Elem()) != nil {
				out[typeName(pp.Elem())] = "(·‹^" + fv.Name() + "›)"
			}
		}
	}
	return out
}

// returnedByValue: the local struct al of fn is what fn returns, by value, as result idx (on some return).
func returnedByValue(fn *ssa.Function, al *ssa.Alloc) (int, bool) {
	idx, ok := -1, false
	Instrs(fn, func(in ssa.Instruction) {
		ret, isRet := in.(*ssa.Return)
		if !isRet || ret.Block() == fn.Recover {
			return
		}
		for i := range ret.Results {
			if ld, isLd := returnedValue(ret, i).(*ssa.UnOp); isLd && ld.Op == token.MUL && ld.X == ssa.Value(al) {
				idx, ok = i, true
			}
		}
	})
	return idx, ok
}
