package main

import (
	"fmt"
	"go/token"
	"go/types"
	"sort"
	"strings"

	"golang.org/x/tools/go/ssa"
)

func init() {
	register(&RuleSet{
		Property: "C02",
		Explanation: "Decides the structural preconditions of 'no pulse lost or invented across block edges, from the first block after start and after every reconfiguration': " +
			"(R1) the processor keeps the record length twice (NSamples/NPresamples, used to cut records; EMTState.nsamp/npre, used to size the history kept between blocks): every function that can change either copy leaves them congruent on every path to every return; " +
			"(R2) the number of samples kept when trimming is a*nsamp+b with a>=2, b>=0 of that record-length copy, and TrimStream passes exactly that to the trim; " +
			"(R3) the scan window of the edge and level passes is [max(LastTrigger-firstFrame+NSamples, NPresamples), len+NPresamples-NSamples), the auto pass starts at max(LastTrigger-firstFrame+max(NSamples,autoDelay), NPresamples) and runs while t+NSamples-NPresamples < len, an edge trigger skips exactly one record; " +
			"(R3 also: a record cut in a scan loop is cut at the very loop variable the scan-end test bounded) (R9) the passes that walk the found records with a cursor, and the last-trigger bookkeeping, get them in time order; (R4) the hold-off reference is carried: TriggerData stores the last record's trigger frame into LastTrigger whenever records exist; (R5) every reconfiguration resets the edge-multi search state on each successful path. " +
			"Does not decide: the trigger criteria arithmetic on sample values, non-overlap and the auto-trigger gap bound (numeric over stream contents).",
		RuleDocs: []string{
			"C02.R1 two-copies congruence (E3) after every clobbering store (field store, whole-struct store, composite literal)",
			"C02.R2 polynomial form of the retained-history amount; argument of the trim call; a trim placed before the block's scan in the per-channel step keeps a field stored right after the previous scan (not the amount computed from the current record length)",
			"C02.R3 congruence of scan-window bounds and of the dead-time skip; in the level pass, after the veto by a record found earlier (i + NSamples > next found trigger) the scan resumes at that trigger + NSamples on every way round the loop",
			"C02.R4 LastTrigger store: guarded by len(records)>0, value = records[len-1].trigFrame",
			"C02.R5 must-pass-through EMTState.reset on successful reconfiguration",
			"C02.R7 every record creation in a trigger pass is reachable only through the true side of the pass's enable flag and, where the pass has direction flags, through the true side of a direction test or a comparison with a threshold variable that a direction flag switches (a phi of an unreachable constant and a value assigned directly under `if flag`); such a threshold is installed under its own flag alone (not on the false side of another direction's flag)",
			"C02.R8 in a pass that shifts the samples by a constant in the sample type, a bare shifted sample is compared in that type with a threshold that received the same constant in the same type",
			"C02.R9 (thinning) a helper that copies the found records under a comparison with a parameter is given firstPotentialTriggerFrame(), the scan start common to all passes, not a pass's own first candidate",
			"C02.R9 time order of the found records where it is relied on: every pass of TriggerData that walks the records found so far by index, and the LastTrigger bookkeeping that takes the last record as the latest, receive a list that is empty, sorted by a dominating sort, or returned by passes whose every return hands the ordered argument back or sorts what it appended",
			"C02.R6 initial hold-off: every store to LastTrigger reachable from the per-start preparation step writes a far-past constant (so the first block is searched from NPresamples on)",
		},
		Run: runC02,
	})
}

func runC02(p *Prog, r *Report) {
	r.MinInstances["C02.R1"] = 4
	r.MinInstances["C02.R2"] = 2
	r.MinInstances["C02.R3"] = 7
	r.MinInstances["C02.R4"] = 1
	r.MinInstances["C02.R5"] = 2
	r.MinInstances["C02.R7"] = 8
	r.MinInstances["C02.R8"] = 4
	r.MinInstances["C02.R9"] = 3
	c02R1(p, r)
	c02R2(p, r)
	c02R3(p, r)
	c02R4(p, r)
	c02R5(p, r)
	c02R6(p, r)
	c02R7(p, r)
	c02R8(p, r)
	c02R9(p, r)
	c02R9b(p, r)
}

// lastField returns the final field name of an address and the struct it belongs to.
func lastField(addr ssa.Value) (owner, field string, ok bool) {
	fa, isFA := addr.(*ssa.FieldAddr)
	if !isFA {
		return
	}
	st := derefStruct(fa.X.Type())
	if st == nil {
		return
	}
	return ownerName(fa.X.Type()), st.Field(fa.Field).Name(), true
}

func stripNarrow(p Poly) string {
	s := p.String()
	for _, pre := range []string{"narrow32(", "narrow16(", "narrow8("} {
		if strings.HasPrefix(s, pre) && strings.HasSuffix(s, ")") && strings.Count(s, "(") == strings.Count(s, ")") {
			return strings.ReplaceAll(s[len(pre):len(s)-1], "·", "*")
		}
	}
	return s
}

func c02R1(p *Prog, r *Report) {
	pairs := [][2]string{{"NSamples", "nsamp"}, {"NPresamples", "npre"}}
	dspName := "DataStreamProcessor"
	for _, fn := range p.LibFuncs() {
		if fnPkg(fn) != p.Root.Pkg {
			continue
		}
		c := NewPolyCtx(fn)
		type ev struct {
			in   ssa.Instruction
			root string // access-path prefix of the processor object
			what string
		}
		var events []ev
		Instrs(fn, func(in ssa.Instruction) {
			st, ok := in.(*ssa.Store)
			if !ok {
				return
			}
			o, f, ok := lastField(st.Addr)
			if !ok {
				return
			}
			path, okp := c.accessPath(st.Addr)
			if !okp {
				return
			}
			switch {
			case o == dspName && (f == "NSamples" || f == "NPresamples"):
				events = append(events, ev{in, strings.TrimSuffix(path, "."+f), "store " + f})
			case o == dspName && f == "TriggerState":
				events = append(events, ev{in, strings.TrimSuffix(path, "."+f), "whole TriggerState"})
			case o == "TriggerState" && f == "EMTState":
				// only the EMTState of a processor (not of an RPC argument or a saved state)
				if fa, ok := st.Addr.(*ssa.FieldAddr); ok {
					if fa2, ok := fa.X.(*ssa.FieldAddr); ok && ownerName(fa2.X.Type()) == dspName {
						events = append(events, ev{in, strings.TrimSuffix(path, ".TriggerState.EMTState"), "whole EMTState"})
					}
				}
			}
		})
		if len(events) == 0 {
			continue
		}
		r.Fn(FuncName(fn))
		for _, pr := range pairs {
			big, small := pr[0], pr[1]
			var badAt ssa.Instruction
			var badWhat string
			for _, e := range events {
				if strings.HasPrefix(e.what, "store ") && e.what != "store "+big {
					continue
				}
				// the value the big copy has after the event
				var wantVals []string
				if e.what == "store "+big {
					wantVals = append(wantVals, c.Of(e.in.(*ssa.Store).Val).String())
				}
				wantVals = append(wantVals, e.root+"."+big)
				isSync := func(x ssa.Instruction) bool {
					// a helper that sets the small copy on every path (a setter taking the value, or
					// a method that copies the big copy of the same processor)
					if call, isCall := x.(*ssa.Call); isCall {
						return c02HelperSyncs(c, call, small, big, e.root, wantVals)
					}
					st, ok := x.(*ssa.Store)
					if !ok {
						return false
					}
					o, f, ok := lastField(st.Addr)
					if !ok || o != "EMTState" || f != small {
						return false
					}
					path, _ := c.accessPath(st.Addr)
					if !strings.HasPrefix(path, e.root+".") {
						return false
					}
					got := stripNarrow(c.Of(st.Val))
					for _, w := range wantVals {
						if got == w || basePath(got) == w {
							return true
						}
					}
					return false
				}
				// a later store of the big copy re-opens the obligation and is its own event, so it is a barrier too
				laterBig := func(x ssa.Instruction) bool {
					if x == e.in {
						return false
					}
					for _, e2 := range events {
						if e2.in == x && (e2.what == "store "+big) {
							return true
						}
					}
					return false
				}
				esc := ReachAvoiding(fn, e.in, func(x ssa.Instruction) bool { return isSync(x) || laterBig(x) }, isReturn)
				if len(esc) > 0 {
					badAt, badWhat = e.in, e.what
				}
			}
			key := fmt.Sprintf("%s keeps %s and EMTState.%s equal", FuncName(fn), big, small)
			if badAt != nil {
				r.Bad("C02.R1", key, p.InstrPos(badAt),
					fmt.Sprintf("after %s a return is reachable without EMTState.%s = int32(%s): the history kept between blocks (2*nsamp+10) is then sized from a stale or zero record length, the unscanned tail of each block is dropped, and pulses near block boundaries are lost until the next reconfiguration", badWhat, small, big))
			} else {
				r.OK("C02.R1", key, p.Pos(fn.Pos()), "both copies congruent on every path to every return")
			}
		}
	}
}

// ---- R2 -----------------------------------------------------------------------------------

// c02TrimTiming: the amount of history kept must be the one that held when the block was scanned.
// A trim that comes after the scan of the same block (before control goes back to the loop that
// serves requests) may use the current record length; a trim placed before the next block's scan
// belongs to the previous block and must use an amount noted when that block was scanned, because
// a change of the record length can have been served in between.
func c02TrimTiming(p *Prog, r *Report) {
	seg := p.Func("", "DataStreamProcessor", "processSegment")
	if seg == nil {
		return
	}
	var scan ssa.Instruction
	Instrs(seg, func(in ssa.Instruction) {
		if calleeNamed(in, "TriggerData") {
			scan = in
		}
	})
	if scan == nil {
		return
	}
	InstrsDeep(seg, 1, func(d DeepInstr) {
		if len(d.Path) != 0 || !calleeNamed(d.In, "TrimStream", "TrimKeepingN") {
			return
		}
		in := d.In
		if InstrDominates(scan, in) {
			return // after this block's scan
		}
		r.Fn(FuncName(seg))
		key := FuncName(seg) + ": a trim placed before the scan keeps the amount noted at the previous scan"
		cc := CallOf(in)
		if cc.StaticCallee() != nil && cc.StaticCallee().Name() == "TrimStream" {
			r.Bad("C02.R2", key, p.InstrPos(in), "the stream is trimmed before the new block is scanned, with the amount computed from the record length as it is now: a shorter record length configured since the previous block was scanned makes the trim discard the tail of that block that was never examined, and a pulse there is lost")
			return
		}
		// TrimKeepingN(x): x must be a field of the processor stored after the scan
		amt := stripConv(cc.Args[len(cc.Args)-1])
		_, f, _, okf := FieldOf(amt)
		if !okf {
			if call, isCall := amt.(*ssa.Call); isCall && call.Call.StaticCallee() != nil {
				r.Bad("C02.R2", key, p.InstrPos(in), "the stream is trimmed before the new block is scanned, keeping "+CalleeName(&call.Call)+"() as computed now: a shorter record length configured since the previous block was scanned makes the trim discard the tail of that block that was never examined, and a pulse there is lost")
				return
			}
			r.Unk("C02.R2", key, p.InstrPos(in), "the amount kept by a trim placed before the scan is not a field noted at the previous scan nor a value computed on the spot: not decided")
			return
		}
		noted := false
		for _, st := range StoresTo(seg, "", f) {
			if InstrDominates(scan, st) {
				noted = true
			}
		}
		r.Check(noted, "C02.R2", key, p.InstrPos(in), "the amount is the field "+f+", stored right after the scan of the previous block",
			"the amount kept ("+f+") is not stored after the scan in "+FuncName(seg)+": it does not reflect the record length under which the previous block was scanned")
	})
}

func c02R2(p *Prog, r *Report) {
	c02TrimTiming(p, r)
	trim := p.Func("", "DataStreamProcessor", "TrimStream")
	if trim == nil {
		r.Unk("C02.R2", "TrimStream", "-", "name-keyed anchor not found")
		return
	}
	r.Fn(FuncName(trim))
	var keepFn *ssa.Function
	var trimCall ssa.Instruction
	Instrs(trim, func(in ssa.Instruction) {
		cc := CallOf(in)
		if cc == nil || cc.StaticCallee() == nil {
			return
		}
		// the call that trims: its callee edits the stream buffer (name-keyed: TrimKeepingN)
		if cc.StaticCallee().Name() == "TrimKeepingN" {
			trimCall = in
			if arg, ok := cc.Args[len(cc.Args)-1].(*ssa.Call); ok {
				keepFn = arg.Call.StaticCallee()
			}
		}
	})
	if trimCall == nil {
		r.Bad("C02.R2", "TrimStream argument", p.Pos(trim.Pos()), "the stream is not trimmed to a computed amount of history (no call of TrimKeepingN)")
		return
	}
	// the amount kept: a*X + b with X a path ending in nsamp / NSamples, a >= 2, b >= 0; computed
	// by a helper (the value returned on each of its returns) or in place
	judge := func(pl Poly, at string, who string) {
		good := false
		var a, b int64
		sym := ""
		for k, v := range pl {
			if k == "" {
				b = v
				continue
			}
			if strings.Contains(k, "*") {
				sym = "nonlinear"
				continue
			}
			bp := basePath(k)
			if strings.HasSuffix(bp, ".nsamp") || strings.HasSuffix(bp, ".NSamples") {
				a, sym = v, k
			} else {
				sym = "other:" + k
			}
		}
		if sym != "" && !strings.HasPrefix(sym, "other:") && sym != "nonlinear" && a >= 2 && b >= 0 && len(pl) <= 2 {
			good = true
		}
		r.Check(good, "C02.R2", who+" keeps >= 2 records", at, fmt.Sprintf("keeps %s samples", pl),
			fmt.Sprintf("the history kept between blocks is %s; it must be a*nsamp+b with a>=2, b>=0 (one record of unscanned tail plus one record of look-back for deferred edge-multi triggers), otherwise triggers near block edges are lost", pl))
	}
	if keepFn == nil || !isModuleFn(keepFn) {
		cc := CallOf(trimCall)
		c := NewPolyCtx(trim)
		r.OK("C02.R2", "TrimStream argument", p.InstrPos(trimCall), "TrimKeepingN(<computed in place>)")
		judge(c.Of(cc.Args[len(cc.Args)-1]), p.InstrPos(trimCall), FuncName(trim))
		return
	}
	r.OK("C02.R2", "TrimStream argument", p.InstrPos(trimCall), "TrimKeepingN("+FuncName(keepFn)+"())")
	// every return of the helper; a return that hands on the result of another module helper is
	// judged in that helper (each helper once)
	judged := map[*ssa.Function]bool{}
	var judgeFn func(f *ssa.Function, depth int)
	judgeFn = func(f *ssa.Function, depth int) {
		if judged[f] {
			return
		}
		judged[f] = true
		r.Fn(FuncName(f))
		c := NewPolyCtx(f)
		Instrs(f, func(in ssa.Instruction) {
			ret, ok := in.(*ssa.Return)
			if !ok || len(ret.Results) == 0 {
				return
			}
			if call, isCall := stripConv(ret.Results[0]).(*ssa.Call); isCall && depth > 0 {
				if g := call.Call.StaticCallee(); g != nil && isModuleFn(g) && g.Blocks != nil && len(call.Call.Args) <= 1 {
					judgeFn(g, depth-1)
					return
				}
			}
			judge(c.Of(ret.Results[0]), p.InstrPos(ret), FuncName(f))
		})
	}
	judgeFn(keepFn, 2)
}

// ---- R3 -----------------------------------------------------------------------------------

func c02R3(p *Prog, r *Report) {
	missingStart := map[bool]string{} // auto? -> name of the start function that was not found
	siteJudged := map[bool]bool{}
	// judgeSite: the scan start as computed by the call `call` (in a pass), when the callee takes
	// arguments besides its receiver: analysed for the constants this call passes
	judgeSite := func(pass *ssa.Function, call *ssa.Call, auto bool) {
		h := call.Call.StaticCallee()
		if h == nil || !isModuleFn(h) || h.Blocks == nil || len(h.Params) < 2 || len(h.Params) != len(call.Call.Args) {
			return
		}
		env := map[ssa.Value]lat{}
		var how []string
		for k, a := range call.Call.Args {
			if cst, isC := a.(*ssa.Const); isC && cst.Value != nil {
				if l := (&sccpResult{}).Get(cst); l.isConst() {
					env[h.Params[k]] = l
					how = append(how, h.Params[k].Name()+"="+cst.Value.ExactString())
				}
			}
		}
		if len(env) != len(h.Params)-1 {
			r.Unk("C02.R3", FuncName(pass)+" scan start", p.InstrPos(call), "the scan start is computed by "+FuncName(h)+" with arguments that are not all constants: not decided")
			siteJudged[auto] = true
			return
		}
		r.Fn(FuncName(h))
		siteJudged[auto] = true
		dTerms, desc, msg := scanStartDelayEnv(p, r, h, 0, env)
		good := msg == ""
		if good {
			nsamp := polySym(h.Params[0].Name() + ".NSamples")
			hasN := false
			for _, t := range dTerms {
				hasN = hasN || t.Equal(nsamp)
			}
			switch {
			case !auto && !(len(dTerms) == 1 && hasN):
				good, msg = false, fmt.Sprintf("scan starts at %s, want LastTrigger - firstFrameIndex + NSamples (or NPresamples if smaller): a later start skips samples that were never searched, an earlier one violates the dead time", desc)
			case auto && !hasN:
				good, msg = false, fmt.Sprintf("auto scan starts at %s, want LastTrigger - firstFrameIndex + max(NSamples, autoDelay)", desc)
			}
		}
		r.Check(good, "C02.R3", FuncName(pass)+" scan start", p.InstrPos(call), "max(hold-off start, NPresamples) as computed by "+FuncName(h)+"("+strings.Join(how, ", ")+")", msg)
	}
	// scan start functions
	for _, spec := range []struct {
		name string
		auto bool
	}{{"firstPotentialTriggerFrame", false}, {"firstPotentialAutoTriggerFrame", true}} {
		fn := p.Func("", "DataStreamProcessor", spec.name)
		if fn == nil {
			missingStart[spec.auto] = spec.name
			continue
		}
		r.Fn(FuncName(fn))
		if len(fn.Params) > 1 {
			continue // one function serving several passes: judged per call site below
		}
		dTerms, desc, msg := scanStartDelay(p, r, fn, 0)
		good := msg == ""
		if good {
			c := NewPolyCtx(fn)
			nsamp := polySym(fn.Params[0].Name() + ".NSamples")
			hasN := false
			for _, t := range dTerms {
				hasN = hasN || t.Equal(nsamp)
			}
			switch {
			case !spec.auto && !(len(dTerms) == 1 && hasN):
				good, msg = false, fmt.Sprintf("scan starts at %s, want LastTrigger - firstFrameIndex + NSamples (or NPresamples if smaller): a later start skips samples that were never searched, an earlier one violates the dead time", desc)
			case spec.auto && !hasN:
				// the larger of NSamples and the auto delay, kept in a local: a phi of exactly those two
				okPhi := false
				if len(dTerms) == 1 {
					syms := dTerms[0].Symbols()
					okPhi = len(syms) == 1 && strings.HasPrefix(syms[0], "phi")
				}
				if !okPhi {
					good, msg = false, fmt.Sprintf("auto scan starts at %s, want LastTrigger - firstFrameIndex + max(NSamples, autoDelay)", desc)
				}
			}
			_ = c
		}
		r.Check(good, "C02.R3", FuncName(fn)+" scan start", p.Pos(fn.Pos()), "max(hold-off start, NPresamples)", msg)
	}
	// scan loops
	for _, name := range []string{"edgeTriggerComputeAppend", "levelTriggerComputeAppend"} {
		fn := p.Func("", "DataStreamProcessor", name)
		if fn == nil {
			r.Unk("C02.R3", name, "-", "name-keyed anchor not found")
			continue
		}
		r.Fn(FuncName(fn))
		c := NewPolyCtx(fn)
		recv := fn.Params[0].Name()
		want := polySym("len(" + recv + ".stream.DataSegment.rawData)").Add(polySym(recv + ".NPresamples")).Sub(polySym(recv + ".NSamples"))
		found, startOK := false, false
		var skipOK *bool
		var vetoOK *bool
		vetoWhat := ""
		Instrs(fn, func(in ssa.Instruction) {
			iff, ok := in.(*ssa.If)
			if !ok {
				return
			}
			bo, ok := iff.Cond.(*ssa.BinOp)
			if !ok || bo.Op != token.LSS {
				return
			}
			phi, ok := bo.X.(*ssa.Phi)
			if !ok || !isIntLike(phi.Type()) {
				return
			}
			if !c.Of(bo.Y).Equal(want) {
				return
			}
			found = true
			c02CutAtTested(p, r, fn, c, phi)
			for _, e := range phi.Edges {
				if call, ok := e.(*ssa.Call); ok && call.Call.StaticCallee() != nil && call.Call.StaticCallee().Name() == "firstPotentialTriggerFrame" {
					startOK = true
					judgeSite(fn, call, false)
				}
			}
			if name == "edgeTriggerComputeAppend" {
				// dead time: some back edge advances i by NSamples+1
				ok2 := false
				for _, e := range phi.Edges {
					for _, pe := range polysThroughPhis(c, e, phi, 3) {
						d := pe.Sub(polySym(fmt.Sprintf("phi#%d", c.id(phi))))
						if d.Equal(polySym(recv + ".NSamples").Add(polyConst(1))) {
							ok2 = true
						}
					}
				}
				skipOK = &ok2
			}
			if name == "levelTriggerComputeAppend" {
				// veto by a record found earlier: the test `i + NSamples > next found trigger`; on
				// its true side the scan resumes exactly one record after that trigger, wherever
				// in the vetoed span it was
				isym := polySym(fmt.Sprintf("phi#%d", c.id(phi)))
				nS := polySym(recv + ".NSamples")
				Instrs(fn, func(x ssa.Instruction) {
					vi, ok := x.(*ssa.If)
					if !ok || !naturalLoopContains(phi.Block(), vi.Block()) {
						return
					}
					vb, ok := vi.Cond.(*ssa.BinOp)
					if !ok {
						return
					}
					var next ssa.Value
					switch {
					case vb.Op == token.GTR && c.Of(vb.X).Equal(isym.Add(nS)):
						next = vb.Y
					case vb.Op == token.LSS && c.Of(vb.Y).Equal(isym.Add(nS)):
						next = vb.X
					default:
						return
					}
					vetoSide := vi.Block().Succs[0]
					resume := c.Of(next).Add(nS)
					ok3, seenVeto := true, false
					what := ""
					for k, e := range phi.Edges {
						if !phi.Block().Dominates(phi.Block().Preds[k]) {
							continue
						}
						for _, pv := range c02EdgeValues(e, phi, 3) {
							if !(pv.from == vetoSide || vetoSide.Dominates(pv.from)) {
								continue
							}
							seenVeto = true
							if !c.Of(pv.v).Add(pv.plus).Equal(resume) {
								ok3 = false
								what = c.Of(pv.v).Add(pv.plus).String()
							}
						}
					}
					if !seenVeto {
						return
					}
					vetoOK = &ok3
					vetoWhat = what
				})
			}
		})
		if vetoOK != nil {
			r.Check(*vetoOK, "C02.R3", FuncName(fn)+" veto by an earlier record", p.Pos(fn.Pos()), "when a found trigger is less than a record ahead the scan resumes exactly one record after it",
				"after the veto of a record found earlier the scan resumes at "+vetoWhat+" instead of (that trigger + NSamples): when the scan enters the vetoed span anywhere but at its first sample (the first triggerable sample of a block lies inside it, or two found triggers follow closely) samples after the vetoing record are never examined, and a level crossing there is lost")
		}
		r.Check(found, "C02.R3", FuncName(fn)+" scan end", p.Pos(fn.Pos()), "loop runs while i < len(rawData)+NPresamples-NSamples", "no scan loop bounded by len(rawData)+NPresamples-NSamples: samples whose full record is available are not all searched (or the search overruns the stream)")
		if found {
			r.Check(startOK, "C02.R3", FuncName(fn)+" scan begin", p.Pos(fn.Pos()), "loop starts at firstPotentialTriggerFrame()", "the scan loop does not start at firstPotentialTriggerFrame()")
		}
		if skipOK != nil {
			r.Check(*skipOK, "C02.R3", FuncName(fn)+" dead time", p.Pos(fn.Pos()), "an edge trigger advances the scan by one record", "after an edge trigger the scan does not skip exactly one record length: overlapping records or lost pulses")
		}
	}
	// auto loop bound
	if fn := p.Func("", "DataStreamProcessor", "autoTriggerComputeAppend"); fn != nil {
		r.Fn(FuncName(fn))
		c := NewPolyCtx(fn)
		recv := fn.Params[0].Name()
		found := false
		Instrs(fn, func(in ssa.Instruction) {
			iff, ok := in.(*ssa.If)
			if !ok {
				return
			}
			bo, ok := iff.Cond.(*ssa.BinOp)
			if !ok || bo.Op != token.LSS {
				return
			}
			l, rr := c.Of(bo.X), c.Of(bo.Y)
			syms := l.Symbols()
			var phiSym string
			for _, s := range syms {
				if strings.HasPrefix(s, "phi#") {
					phiSym = s
				}
			}
			if phiSym == "" {
				return
			}
			rest := l.Sub(polySym(phiSym))
			if rest.Equal(polySym(recv+".NSamples").Sub(polySym(recv+".NPresamples"))) && rr.String() == "len("+recv+".stream.DataSegment.rawData)" {
				if !found {
					for v, id := range c.ids {
						if ph, ok := v.(*ssa.Phi); ok && fmt.Sprintf("phi#%d", id) == phiSym {
							c02CutAtTested(p, r, fn, c, ph)
							for k, e := range ph.Edges {
								if ph.Block().Dominates(ph.Block().Preds[k]) {
									continue
								}
								if call, ok := stripConv(e).(*ssa.Call); ok {
									judgeSite(fn, call, true)
								} else if missingStart[true] != "" && !siteJudged[true] {
									// the scan start worked out in the pass itself: it must be at least
									// NPresamples on every way into the loop (the record cut there reaches
									// NPresamples back), proven from the conditions each way is taken under;
									// and it is built on the hold-off reference
									g := NewGuardCtx(p, fn, nil)
									npreS := polySym(g.PC.rootName(fn.Params[0]) + ".NPresamples")
									usesHold := false
									seenV := map[ssa.Value]bool{}
									var walk func(v ssa.Value, d int)
									walk = func(v ssa.Value, d int) {
										if v == nil || seenV[v] || d > 10 {
											return
										}
										seenV[v] = true
										if _, f, _, okf := FieldOf(v); okf && f == "LastTrigger" {
											usesHold = true
										}
										if in2, isIn := v.(ssa.Instruction); isIn {
											var ops []*ssa.Value
											for _, o := range in2.Operands(ops) {
												walk(*o, d+1)
											}
										}
									}
									unproven := ""
									for k2, e2 := range ph.Edges {
										pred := ph.Block().Preds[k2]
										if ph.Block().Dominates(pred) {
											continue
										}
										walk(e2, 0)
										goal := g.PC.Of(e2).Sub(npreS)
										if !g.proveOnEdge(goal, false, pred, ph.Block(), pred.Instrs[len(pred.Instrs)-1], 0) {
											unproven = g.PC.Of(e2).String()
										}
									}
									siteJudged[true] = true
									key := FuncName(fn) + " scan start"
									switch {
									case !usesHold:
										r.Bad("C02.R3", key, p.InstrPos(ph), "the auto scan does not start from the last trigger (LastTrigger - firstFrameIndex + delay): the delay since the previous trigger is forgotten at every block boundary")
									case unproven == "":
										r.OK("C02.R3", key, p.InstrPos(ph), "worked out in the pass: built on LastTrigger and proven >= NPresamples on every way into the loop")
									default:
										r.Bad("C02.R3", key, p.InstrPos(ph), "the first candidate of the auto scan, `"+unproven+"`, is not shown to be at least NPresamples by the conditions it is chosen under (it must be the larger of hold-off end and NPresamples): when the delay after the last trigger ends inside the first NPresamples samples that are kept, the record cut there (and the veto scan before it) starts before the beginning of the stream")
									}
								}
							}
						}
					}
				}
				found = true
			}
		})
		r.Check(found, "C02.R3", FuncName(fn)+" scan end", p.Pos(fn.Pos()), "loop runs while t+NSamples-NPresamples < len(rawData)", "the auto-trigger loop is not bounded by t + NSamples - NPresamples < len(rawData)")
	}
	for auto, name := range missingStart {
		if !siteJudged[auto] {
			r.Unk("C02.R3", name, "-", "name-keyed anchor not found")
		}
	}
}

// c02CutAtTested: the scan-end test bounds the loop variable `tested`; a record cut directly in
// the scan function must be cut at that very value, not at one that was changed after the test
// (a changed index has not been shown to leave a whole record before the end of the data).
func c02CutAtTested(p *Prog, r *Report, fn *ssa.Function, c *PolyCtx, tested *ssa.Phi) {
	want := polySym(fmt.Sprintf("phi#%d", c.id(tested)))
	n := 0
	Instrs(fn, func(in ssa.Instruction) {
		call, ok := in.(*ssa.Call)
		if !ok || call.Call.StaticCallee() == nil || len(call.Call.Args) < 2 {
			return
		}
		if nm := call.Call.StaticCallee().Name(); nm != "triggerAt" && nm != "triggerAtSpecificSamples" {
			return
		}
		n++
		key := FuncName(fn) + " cuts the record at the index the scan-end test bounded"
		if n > 1 {
			key += fmt.Sprintf(" #%d", n)
		}
		got := c.Of(call.Call.Args[1])
		// another test of the same form on the very value that is cut, with the in-range side
		// controlling the cut (a re-check after the index was moved)
		recv := fn.Params[0].Name()
		target := got.Add(polySym(recv + ".NSamples")).Sub(polySym(recv + ".NPresamples")).Sub(polySym("len(" + recv + ".stream.DataSegment.rawData)"))
		rechecked := false
		for _, ct := range controllingIfs(call.Block()) {
			bo, ok := ct.If.Cond.(*ssa.BinOp)
			if !ok {
				continue
			}
			d := c.Of(bo.X).Sub(c.Of(bo.Y))
			inRange := -1
			switch {
			case d.Equal(target) && bo.Op == token.LSS, d.Equal(target.Neg()) && bo.Op == token.GTR:
				inRange = 0
			case d.Equal(target) && bo.Op == token.GEQ, d.Equal(target.Neg()) && bo.Op == token.LEQ:
				inRange = 1
			}
			if inRange == ct.Branch {
				rechecked = true
			}
		}
		switch {
		case rechecked && !got.Equal(want):
			r.OK("C02.R3", key, p.InstrPos(call), "the index is tested again against the end of the data before the cut")
		case got.Equal(want):
			r.OK("C02.R3", key, p.InstrPos(call), "same loop variable, unchanged between the test and the cut")
		case stripConv(call.Call.Args[1]) != nil && (isPhiInLoopOf(stripConv(call.Call.Args[1]), tested) || derivedFromTested(stripConv(call.Call.Args[1]), tested)):
			r.Bad("C02.R3", key, p.InstrPos(call), "the record is cut at an index that was changed after the scan-end test (another merge of the loop variable): nothing shows that a whole record lies before the end of the data there, so the record can run past the samples received")
		default:
			r.Unk("C02.R3", key, p.InstrPos(call), "the cut index "+got.String()+" is not the loop variable the scan-end test bounded; not decided whether it is in range")
		}
	})
}

// derivedFromTested: v is the result of a call that was handed the tested loop variable (the index
// moved on by a helper or closure after the scan-end test).
func derivedFromTested(v ssa.Value, tested *ssa.Phi) bool {
	call, ok := v.(*ssa.Call)
	if !ok {
		return false
	}
	for _, a := range call.Call.Args {
		if stripConv(a) == ssa.Value(tested) {
			return true
		}
	}
	return false
}

// isPhiInLoopOf: v is a phi other than `tested`, fed (directly or through phis) by it.
func isPhiInLoopOf(v ssa.Value, tested *ssa.Phi) bool {
	phi, ok := v.(*ssa.Phi)
	if !ok || phi == tested {
		return false
	}
	seen := map[*ssa.Phi]bool{}
	var feeds func(x *ssa.Phi) bool
	feeds = func(x *ssa.Phi) bool {
		if seen[x] {
			return false
		}
		seen[x] = true
		for _, e := range x.Edges {
			e = stripConv(e)
			if e == ssa.Value(tested) {
				return true
			}
			if q, ok := e.(*ssa.Phi); ok && feeds(q) {
				return true
			}
		}
		return false
	}
	return feeds(phi)
}

// ---- R4 -----------------------------------------------------------------------------------

func c02R4(p *Prog, r *Report) {
	fn := p.Func("", "DataStreamProcessor", "TriggerData")
	if fn == nil {
		r.Unk("C02.R4", "TriggerData", "-", "name-keyed anchor not found")
		return
	}
	r.Fn(FuncName(fn))
	c := NewPolyCtx(fn)
	sts := StoresTo(fn, "DataStreamProcessor", "LastTrigger")
	if len(sts) == 0 {
		r.Bad("C02.R4", "LastTrigger carried across blocks", p.Pos(fn.Pos()), "TriggerData never stores the last trigger frame: the dead time after a trigger is forgotten at every block boundary (records overlap or repeat)")
		return
	}
	for _, st := range sts {
		good := false
		msg := "the stored value is not records[len(records)-1].trigFrame"
		if ld, ok := st.Val.(*ssa.UnOp); ok && ld.Op == token.MUL {
			if fa, ok := ld.X.(*ssa.FieldAddr); ok && derefStruct(fa.X.Type()).Field(fa.Field).Name() == "trigFrame" {
				if el, ok := fa.X.(*ssa.UnOp); ok {
					if ia, ok := el.X.(*ssa.IndexAddr); ok {
						idx := c.Of(ia.Index)
						ln := c.lenOf(ia.X)
						if idx.Equal(ln.Sub(polyConst(1))) {
							good = true
						} else {
							msg = fmt.Sprintf("index %s is not len-1 (%s)", idx, ln.Sub(polyConst(1)))
						}
					}
				}
			}
		}
		guarded := false
		for _, ci := range controllingIfs(st.Block()) {
			// 0 < x on this side, however spelled
			if lx, _, side, ok := strictLess(ci.If.Cond); ok && side == ci.Branch {
				if z, isC := constInt(lx); isC && z == 0 {
					guarded = true
				}
			}
		}
		// reached on every path that has records: the If is not nested in another condition
		r.Check(good && guarded, "C02.R4", "LastTrigger carried across blocks", p.InstrPos(st), "LastTrigger = records[len-1].trigFrame when any record was found", msg)
	}
}

// ---- R5 -----------------------------------------------------------------------------------

func c02R5(p *Prog, r *Report) {
	var reset *ssa.Function
	if emt := p.NamedType("", "EMTState"); emt != nil {
		reset = p.Func("", "EMTState", "reset")
	}
	if reset == nil {
		r.Unk("C02.R5", "EMTState.reset", "-", "name-keyed anchor not found")
		return
	}
	n := 0
	var fns []*ssa.Function
	for _, fn := range p.LibFuncs() {
		if fn.Signature.Recv() == nil || typeName(fn.Signature.Recv().Type()) != "DataStreamProcessor" {
			continue
		}
		// reconfiguration functions: store the trigger state or the record length of an existing processor
		touches := false
		Instrs(fn, func(in ssa.Instruction) {
			if st, ok := in.(*ssa.Store); ok {
				if o, f, ok := lastField(st.Addr); ok && o == "DataStreamProcessor" && (f == "TriggerState" || f == "NSamples" || f == "NPresamples") {
					if _, isP := addrRoot(st.Addr).(*ssa.Parameter); isP {
						touches = true
					}
				}
			}
		})
		if touches {
			fns = append(fns, fn)
		}
	}
	sort.Slice(fns, func(i, j int) bool { return fns[i].Pos() < fns[j].Pos() })
	for _, fn := range fns {
		n++
		r.Fn(FuncName(fn))
		isReset := func(in ssa.Instruction) bool {
			cc := CallOf(in)
			return cc != nil && cc.StaticCallee() == reset
		}
		okRet := func(in ssa.Instruction) bool {
			ret, ok := in.(*ssa.Return)
			if !ok {
				return false
			}
			if len(ret.Results) == 0 {
				return true
			}
			cst, isC := ret.Results[len(ret.Results)-1].(*ssa.Const)
			return isC && cst.Value == nil && types.Identical(ret.Results[len(ret.Results)-1].Type(), types.Universe.Lookup("error").Type())
		}
		esc := ReachAvoiding(fn, nil, isReset, okRet)
		r.Check(len(esc) == 0, "C02.R5", FuncName(fn)+" resets the edge-multi search state", p.Pos(fn.Pos()), "every successful return passes EMTState.reset()", "a successful reconfiguration can return without resetting the edge-multi search state: stale previous/current/next edges from the old settings are used on the next block")
	}
	if n == 0 {
		r.Bad("C02.R5", "reconfiguration functions", "-", "no method of DataStreamProcessor stores the trigger state or record length")
	}
}

// polysThroughPhis expands inner phis (not `stop`) and +/- so that the alternatives merged by an
// if/else inside a loop body become separate polynomials.
func polysThroughPhis(c *PolyCtx, v ssa.Value, stop *ssa.Phi, depth int) []Poly {
	if depth == 0 {
		return []Poly{c.Of(v)}
	}
	switch x := v.(type) {
	case *ssa.Phi:
		if x == stop {
			return []Poly{c.Of(v)}
		}
		var out []Poly
		for _, e := range x.Edges {
			out = append(out, polysThroughPhis(c, e, stop, depth-1)...)
		}
		return out
	case *ssa.BinOp:
		if (x.Op == token.ADD || x.Op == token.SUB) && isIntLike(x.Type()) {
			var out []Poly
			for _, a := range polysThroughPhis(c, x.X, stop, depth-1) {
				for _, b := range polysThroughPhis(c, x.Y, stop, depth-1) {
					if x.Op == token.ADD {
						out = append(out, a.Add(b))
					} else {
						out = append(out, a.Sub(b))
					}
				}
			}
			return out
		}
	case *ssa.Convert:
		if isIntLike(x.Type()) && isIntLike(x.X.Type()) && intSize(x.Type()) >= intSize(x.X.Type()) {
			return polysThroughPhis(c, x.X, stop, depth)
		}
	case *ssa.ChangeType:
		return polysThroughPhis(c, x.X, stop, depth)
	}
	return []Poly{c.Of(v)}
}

// ---- R6 -----------------------------------------------------------------------------------

func c02R6(p *Prog, r *Report) {
	prep := p.Func("", "AnySource", "PrepareRun")
	if prep == nil {
		r.Unk("C02.R6", "PrepareRun", "-", "name-keyed anchor not found")
		return
	}
	seen := map[*ssa.Function]bool{}
	var walk func(f *ssa.Function)
	n := 0
	walk = func(f *ssa.Function) {
		if f == nil || seen[f] || f.Blocks == nil {
			return
		}
		pk := fnPkg(f)
		if pk == nil || pk != p.Root.Pkg {
			return
		}
		seen[f] = true
		for _, st := range StoresTo(f, "DataStreamProcessor", "LastTrigger") {
			n++
			v, isC := constInt(stripConv(st.Val))
			r.Fn(FuncName(f))
			r.Check(isC && v < -(1<<40), "C02.R6", "initial LastTrigger in "+FuncName(f), p.InstrPos(st),
				"far-past constant", "on the start path the hold-off reference LastTrigger is set to a value that is not far in the past: with sources that number their first frame 0, the first record length of the run is never searched by the edge/level passes")
		}
		Instrs(f, func(in ssa.Instruction) {
			if cc := CallOf(in); cc != nil {
				if sc := cc.StaticCallee(); sc != nil {
					walk(sc)
				}
			}
		})
	}
	walk(prep)
	if n == 0 {
		r.Bad("C02.R6", "initial LastTrigger", p.Pos(prep.Pos()), "the start path never initialises the hold-off reference")
	}
	// every other store (reconfiguration requests): LastTrigger may only be moved to a frame
	// where a record really was emitted (R4, in TriggerData) or back to a constant that is not
	// later than the first frame of any run (<= 0).  Anything else claims a trigger where there
	// was none, and the hold-off after it hides real pulses.
	trig := p.Func("", "DataStreamProcessor", "TriggerData")
	for _, f := range p.LibFuncs() {
		if seen[f] || f == trig || fnPkg(f) != p.Root.Pkg {
			continue
		}
		for _, st := range StoresTo(f, "DataStreamProcessor", "LastTrigger") {
			v, isC := constInt(stripConv(st.Val))
			r.Fn(FuncName(f))
			r.Check(isC && v <= 0, "C02.R6", "LastTrigger reset in "+FuncName(f), p.InstrPos(st),
				"constant not later than the first frame of a run", "outside the trigger pass the hold-off reference LastTrigger is set to a computed frame: no record was emitted there, yet the edge/level passes skip one record length after it and the auto trigger waits a full delay from it, so pulses right after the request are lost")
		}
	}
}

// ---- R7: record creation is gated by the enable flag and by a direction flag -----------------

// flagTest: the If tests a bool field of TriggerState, possibly negated; returns the field and
// the successor taken when the tested expression is true.
func flagTest(in ssa.Instruction) (flag string, onTrue *ssa.BasicBlock, flagTrue *ssa.BasicBlock, ok bool) {
	iff, isIf := in.(*ssa.If)
	if !isIf {
		return
	}
	cond := iff.Cond
	neg := false
	if u, isU := cond.(*ssa.UnOp); isU && u.Op == token.NOT {
		cond, neg = u.X, true
	}
	o, f, _, isF := FieldOf(cond)
	if !isF || o != "TriggerState" {
		return
	}
	if b, isB := cond.Type().Underlying().(*types.Basic); !isB || b.Kind() != types.Bool {
		return
	}
	blk := iff.Block()
	ft := blk.Succs[0]
	if neg {
		ft = blk.Succs[1]
	}
	return f, blk.Succs[0], ft, true
}

func c02R7(p *Prog, r *Report) {
	trig := p.Func("", "DataStreamProcessor", "TriggerData")
	if trig == nil {
		r.Unk("C02.R7", "TriggerData", "-", "name-keyed anchor not found")
		return
	}
	// the passes: functions called from TriggerData that create records (call a function returning *DataRecord)
	makesRecord := func(in ssa.Instruction) bool {
		c, ok := in.(*ssa.Call)
		if !ok || c.Call.StaticCallee() == nil {
			return false
		}
		return typeName(c.Type()) == "DataRecord" && c.Call.StaticCallee().Signature.Recv() != nil
	}
	var passes []*ssa.Function
	seenPass := map[*ssa.Function]bool{}
	Instrs(trig, func(in ssa.Instruction) {
		for _, f := range p.calledFuncs(in) {
			has := false
			Instrs(f, func(x ssa.Instruction) {
				if makesRecord(x) {
					has = true
				}
			})
			if has && !seenPass[f] {
				seenPass[f] = true
				passes = append(passes, f)
			}
		}
	})
	for _, f := range passes {
		r.Fn(FuncName(f))
		// flags tested in the pass, and their successors
		flagTrueSucc := map[string][]*ssa.BasicBlock{}
		condTrueSucc := map[string][]*ssa.BasicBlock{}
		Instrs(f, func(in ssa.Instruction) {
			if fl, _, ft, ok := flagTest(in); ok {
				flagTrueSucc[fl] = append(flagTrueSucc[fl], ft)
				// a branch taken because of the flag's value: a successor that belongs to this test
				// alone (a block where both outcomes meet again selects nothing)
				for _, sc := range in.Block().Succs {
					if len(sc.Preds) == 1 {
						condTrueSucc[fl] = append(condTrueSucc[fl], sc)
					}
				}
			}
		})
		// the enable flag may also be tested by the caller (TriggerData) around the call
		var sites []ssa.Instruction
		Instrs(f, func(in ssa.Instruction) {
			if makesRecord(in) {
				sites = append(sites, in)
			}
		})
		// (a) enable: some flag whose true-successor every path from entry to a record creation passes
		var enable string
		var names []string
		for fl := range flagTrueSucc {
			names = append(names, fl)
		}
		sort.Strings(names)
		for _, fl := range names {
			blocks := map[*ssa.BasicBlock]bool{}
			for _, b := range flagTrueSucc[fl] {
				blocks[b] = true
			}
			esc := ReachAvoiding(f, nil, func(x ssa.Instruction) bool { return blocks[x.Block()] && x == x.Block().Instrs[0] }, func(x ssa.Instruction) bool { return makesRecord(x) })
			if len(esc) == 0 && enable == "" {
				enable = fl
			}
		}
		if enable == "" {
			// gated in the caller?
			Instrs(trig, func(in ssa.Instruction) {
				if cc := CallOf(in); cc != nil && cc.StaticCallee() == f {
					for _, ct := range controllingIfs(in.Block()) {
						if fl, _, _, ok := flagTest(ct.If); ok {
							enable = fl + " (tested in " + FuncName(trig) + ")"
						}
					}
				}
			})
		}
		r.Check(enable != "", "C02.R7", FuncName(f)+": records are created only when the pass is enabled", p.Pos(f.Pos()),
			"every path to a record creation passes the true side of "+enable,
			"a record can be created on a path that never tested an enable flag of the trigger state: records appear although that kind of trigger is switched off")
		// (c) exclusivity: the edge-multi criterion replaces all the others; a pass that is not the
		// edge-multi pass creates records only on the false side of a test of that flag (in the
		// pass, or around its call)
		if !strings.HasPrefix(enable, "EdgeMulti") && enable != "" {
			excl := ""
			falseSide := map[*ssa.BasicBlock]bool{}
			Instrs(f, func(in ssa.Instruction) {
				if fl, _, ft, ok := flagTest(in); ok && fl == "EdgeMulti" {
					for _, sc := range in.Block().Succs {
						if sc != ft {
							falseSide[sc] = true
						}
					}
				}
			})
			if len(falseSide) > 0 {
				esc := ReachAvoiding(f, nil, func(x ssa.Instruction) bool { return falseSide[x.Block()] && x == x.Block().Instrs[0] }, func(x ssa.Instruction) bool { return makesRecord(x) })
				if len(esc) == 0 {
					excl = "the false side of EdgeMulti in the pass"
				}
			}
			if excl == "" {
				all, any := true, false
				Instrs(trig, func(in ssa.Instruction) {
					if CallOf(in) == nil {
						return
					}
					calls := false
					for _, g := range p.calledFuncs(in) {
						calls = calls || g == f
					}
					if !calls {
						return
					}
					any = true
					gated := false
					for _, ct := range controllingIfs(in.Block()) {
						if fl, _, ft, ok := flagTest(ct.If); ok && fl == "EdgeMulti" && ct.If.Block().Succs[ct.Branch] != ft {
							gated = true
						}
					}
					all = all && gated
				})
				if any && all {
					excl = "the false side of EdgeMulti around its call in " + FuncName(trig)
				}
			}
			r.Check(excl != "", "C02.R7", FuncName(f)+": no records while the edge-multi trigger is in use", p.Pos(f.Pos()),
				"every path to a record creation passes "+excl,
				"this pass can create records while EdgeMulti is set: the edge-multi trigger is exclusive of all other kinds, so the channel then gets records that belong to no edge, duplicates of an edge's record and overlapping records")
		}
		// (b) direction: the other flags tested in the pass select the criterion; every path from
		// entry to a record creation passes the true side of one of those tests
		var dirs []string
		blocks := map[*ssa.BasicBlock]bool{}
		for _, fl := range names {
			if fl == enable {
				continue
			}
			dirs = append(dirs, fl)
			for _, b := range condTrueSucc[fl] {
				blocks[b] = true
			}
		}
		if len(dirs) == 0 {
			continue
		}
		// thresholds selected by the flags: `riseAt := <unreachable>; if dsp.EdgeRising { riseAt = level }`.
		// The variable is a phi of constants and of one value assigned under a direction flag;
		// a comparison with it is that direction's criterion, switched by the flag through the value.
		isDir := map[string]bool{}
		for _, d := range dirs {
			isDir[d] = true
		}
		selected := map[ssa.Value]string{}
		weakSentinel := ""
		Instrs(f, func(in ssa.Instruction) {
			ph, ok := in.(*ssa.Phi)
			if !ok {
				return
			}
			own := ""
			// a threshold variable: at least one input is a constant no sum of four samples reaches
			nSent := 0
			for _, e := range ph.Edges {
				if k, isC := constInt(stripConv(e)); isC && (k >= 1<<20 || k <= -(1<<20)) {
					nSent++
				}
			}
			if nSent == 0 {
				return
			}
			for i, e := range ph.Edges {
				if k, isC := constInt(stripConv(e)); isC {
					if k < 1<<20 && k > -(1<<20) {
						own = "-" // a constant a sum of four samples can reach is not "switched off"
						weakSentinel = fmt.Sprintf("%s (constant %d)", p.InstrPos(ph), k)
					}
					continue
				}
				pred := ph.Block().Preds[i]
				fl := ""
				// the assignment sits directly under `if <direction flag>`
				direct := false
				if len(pred.Preds) == 1 {
					if d, _, ft, okf := flagTest(pred.Preds[0].Instrs[len(pred.Preds[0].Instrs)-1]); okf && isDir[d] && ft == pred {
						direct = true
					}
				}
				if !direct {
					own = "-"
					continue
				}
				for _, ct := range controllingIfs(pred) {
					d, _, ft, okf := flagTest(ct.If)
					if !okf || !isDir[d] {
						continue
					}
					if ct.If.Block().Succs[ct.Branch] == ft {
						if fl == "" {
							fl = d
						}
					} else {
						// installed only while another direction is off
						r.Bad("C02.R7", FuncName(f)+": each direction's criterion is switched by its own flag alone", p.InstrPos(ph),
							"the threshold assigned at "+p.InstrPos(pred.Instrs[0])+" is installed only when "+d+" is off: with both directions enabled that direction's edges satisfy an enabled criterion and yet produce no record (nor lie in another record's dead time)")
					}
				}
				if fl == "" || (own != "" && own != fl) {
					own = "-"
				} else {
					own = fl
				}
			}
			if own != "" && own != "-" {
				selected[ph] = own
			}
		})
		usesSelected := func(x ssa.Instruction) bool {
			iff, ok := x.(*ssa.If)
			if !ok {
				return false
			}
			bo, ok := iff.Cond.(*ssa.BinOp)
			if !ok {
				return false
			}
			for _, side := range []ssa.Value{bo.X, bo.Y} {
				side = stripConv(side)
				if u, isU := side.(*ssa.UnOp); isU && u.Op == token.SUB {
					side = stripConv(u.X)
				}
				if selected[side] != "" {
					return true
				}
			}
			return false
		}
		_ = weakSentinel
		esc := ReachAvoiding(f, nil, func(x ssa.Instruction) bool {
			return (blocks[x.Block()] && x == x.Block().Instrs[0]) || usesSelected(x)
		}, func(x ssa.Instruction) bool { return makesRecord(x) })
		pos := p.Pos(f.Pos())
		if len(esc) > 0 {
			pos = p.InstrPos(esc[0])
		}
		_ = sites
		r.Check(len(esc) == 0, "C02.R7", FuncName(f)+": each record creation follows a test of a direction flag ("+strings.Join(dirs, ", ")+")", pos,
			"no path reaches a record creation without taking a branch that belongs to one outcome of a direction test",
			"a record creation is reachable without any of the direction flags ("+strings.Join(dirs, ", ")+") having selected its criterion: with only one direction enabled, samples that satisfy only the other direction's comparison still produce records (unsound triggers), and their dead time hides genuine ones")
	}
	if len(passes) == 0 {
		r.Bad("C02.R7", "trigger passes", p.Pos(trig.Pos()), "no record-creating pass is called from the trigger function")
	}
}

// ---- R8: a shifted sample is compared in the type in which it was shifted --------------------

// c02R8: the level pass makes signed data comparable by adding a constant to every sample in the
// sample type (the addition wraps).  A bare sample of that shifted buffer must then be compared
// with a threshold of the same type that received the same constant in the same type; comparing
// after widening (or shifting the threshold in a wider type) orders negative thresholds wrongly.
func c02R8(p *Prog, r *Report) {
	trig := p.Func("", "DataStreamProcessor", "TriggerData")
	if trig == nil {
		return
	}
	n := 0
	seenR8 := map[*ssa.Function]bool{}
	Instrs(trig, func(in ssa.Instruction) {
		for _, f := range p.calledFuncs(in) {
			if seenR8[f] {
				continue
			}
			seenR8[f] = true
			// shifted buffers: MakeSlice B with a store B[i] = B[i] + K
			type shift struct {
				buf ssa.Value
				k   int64
				t   types.Type
			}
			var shifts []shift
			Instrs(f, func(x ssa.Instruction) {
				st, ok := x.(*ssa.Store)
				if !ok {
					return
				}
				ia, ok := st.Addr.(*ssa.IndexAddr)
				if !ok {
					return
				}
				bo, ok := st.Val.(*ssa.BinOp)
				if !ok || bo.Op != token.ADD {
					return
				}
				k, isC := constInt(bo.Y)
				ld, isLd := bo.X.(*ssa.UnOp)
				if !isC || !isLd {
					return
				}
				if la, ok := ld.X.(*ssa.IndexAddr); !ok || la.X != ia.X {
					return
				}
				shifts = append(shifts, shift{ia.X, k, bo.Type()})
			})
			if len(shifts) == 0 {
				return
			}
			fromShifted := func(v ssa.Value) (shift, bool) {
				ld, ok := v.(*ssa.UnOp)
				if !ok || ld.Op != token.MUL {
					return shift{}, false
				}
				ia, ok := ld.X.(*ssa.IndexAddr)
				if !ok {
					return shift{}, false
				}
				for _, s := range shifts {
					if ia.X == s.buf {
						return s, true
					}
					if ph, ok := ia.X.(*ssa.Phi); ok {
						for _, e := range ph.Edges {
							if e == s.buf {
								return s, true
							}
						}
					}
				}
				return shift{}, false
			}
			Instrs(f, func(x ssa.Instruction) {
				bo, ok := x.(*ssa.BinOp)
				if !ok {
					return
				}
				switch bo.Op {
				case token.LSS, token.LEQ, token.GTR, token.GEQ:
				default:
					return
				}
				for _, pair := range [][2]ssa.Value{{bo.X, bo.Y}, {bo.Y, bo.X}} {
					s, ok := fromShifted(stripConv(pair[0]))
					if !ok {
						continue
					}
					n++
					r.Fn(FuncName(f))
					same := types.Identical(pair[0].Type(), s.t)
					// the other operand: phi(level, level + K) with the addition done in the sample type
					thrOK := false
					if ph, isPhi := pair[1].(*ssa.Phi); isPhi {
						for _, e := range ph.Edges {
							if add, isAdd := e.(*ssa.BinOp); isAdd && add.Op == token.ADD && types.Identical(add.Type(), s.t) {
								if k, isC := constInt(add.Y); isC && k == s.k {
									thrOK = true
								}
							}
						}
					}
					key := fmt.Sprintf("%s: comparison of a shifted sample #%d is made in the sample type with an equally shifted threshold", FuncName(f), n)
					r.Check(same && thrOK, "C02.R8", key, p.InstrPos(bo), "sample and threshold both carry +"+fmt.Sprint(s.k)+" applied in "+s.t.String(),
						"the samples were shifted by "+fmt.Sprint(s.k)+" in "+s.t.String()+" (wrapping), but the comparison is made after widening the sample or against a threshold shifted in another type: for thresholds at or beyond the wrap point (negative levels of signed data) the order of sample and threshold is reversed and the trigger never, or always, fires")
				}
			})
		}
	})
}

// maxTerms: v as the largest of a list of values (a builtin max, nested, or just v).
func maxTerms(c *PolyCtx, v ssa.Value) []Poly {
	v = sccpLive(c, v)
	// a helper of the same receiver that returns the larger of several values
	if call, ok := v.(*ssa.Call); ok {
		if h := call.Call.StaticCallee(); h != nil && isModuleFn(h) && h.Blocks != nil && !call.Call.IsInvoke() && len(call.Call.Args) == 1 && len(h.Params) == 1 && minMaxKind(h) == "" {
			if ret := singleReturnInstr(h); ret != nil && len(ret.Results) == 1 {
				if _, isMax := minMaxArgs(ret.Results[0], "max"); isMax {
					hc := NewPolyCtx(h)
					tr, _ := callTranslator(h, call, c, hc)
					var out []Poly
					for _, t := range maxTerms(hc, ret.Results[0]) {
						out = append(out, tr(t))
					}
					return out
				}
			}
		}
	}
	if call, ok := v.(*ssa.Call); ok {
		isMax := false
		if b, isB := call.Call.Value.(*ssa.Builtin); isB && b.Name() == "max" {
			isMax = true
		} else if callee := call.Call.StaticCallee(); callee != nil && isIntLike(call.Type()) && minMaxKind(callee) == "max" {
			isMax = true
		}
		if isMax {
			var out []Poly
			for _, a := range call.Call.Args {
				out = append(out, maxTerms(c, a)...)
			}
			return out
		}
	}
	return []Poly{c.Of(v)}
}

// scanStartDelay analyses a function that must return max(LastTrigger - firstFrameIndex + D,
// NPresamples) and returns D as a list of terms whose largest it is (polynomials over fn's own
// names).  Forms understood: two returns with the NPresamples arm guarded by `start <
// NPresamples`; one return of the builtin max; delegation of the whole computation to a helper
// method of the same receiver that takes D as its parameter.  msg != "" reports a violation.
func scanStartDelay(p *Prog, r *Report, fn *ssa.Function, depth int) (dTerms []Poly, desc, msg string) {
	return scanStartDelayEnv(p, r, fn, depth, nil)
}

// scanStartDelayEnv: as scanStartDelay, for the function called with the constant arguments env.
func scanStartDelayEnv(p *Prog, r *Report, fn *ssa.Function, depth int, env map[ssa.Value]lat) (dTerms []Poly, desc, msg string) {
	c := NewPolyCtx(fn)
	if len(env) > 0 {
		c.res = sccp(fn, env)
	}
	recv := fn.Params[0].Name()
	hold := polySym(recv + ".LastTrigger").Sub(polySym(recv + ".stream.DataSegment.firstFrameIndex"))
	npre := polySym(recv + ".NPresamples")
	var rets []*ssa.Return
	Instrs(fn, func(in ssa.Instruction) {
		if ret, ok := in.(*ssa.Return); ok {
			rets = append(rets, ret)
		}
	})
	// delegation
	if len(rets) == 1 && depth < 2 {
		if call, ok := rets[0].Results[0].(*ssa.Call); ok {
			h := call.Call.StaticCallee()
			if isModuleFn(h) && h.Signature.Recv() != nil && len(call.Call.Args) == 2 && resolveCell(call.Call.Args[0]) == ssa.Value(fn.Params[0]) && len(h.Params) == 2 && isIntLike(h.Params[1].Type()) {
				r.Fn(FuncName(h))
				hTerms, hdesc, hmsg := scanStartDelay(p, r, h, depth+1)
				if hmsg != "" {
					return nil, hdesc, hmsg
				}
				hc := NewPolyCtx(h)
				prm := hc.Of(h.Params[1])
				if len(hTerms) != 1 || !hTerms[0].Equal(prm) {
					return nil, hdesc, fmt.Sprintf("the helper %s starts the scan at %s, which is not hold-off start + its delay parameter", FuncName(h), hdesc)
				}
				ts := maxTerms(c, call.Call.Args[1])
				var ds []string
				for _, t := range ts {
					ds = append(ds, t.String())
				}
				return ts, "LastTrigger - firstFrameIndex + max(" + strings.Join(ds, ", ") + ")", ""
			}
		}
	}
	// one return of max(hold + D, NPresamples)
	if _, isPhi := rets[0].Results[0].(*ssa.Phi); len(rets) == 1 && !isPhi {
		ts := maxTerms(c, rets[0].Results[0])
		var rest []Poly
		sawPre := false
		var ds []string
		for _, t := range ts {
			ds = append(ds, t.String())
			if t.Equal(npre) {
				sawPre = true
			} else {
				rest = append(rest, t)
			}
		}
		desc = "max(" + strings.Join(ds, ", ") + ")"
		if !sawPre || len(rest) != 1 {
			return nil, desc, "the scan start is " + desc + ", want max(LastTrigger - firstFrameIndex + delay, NPresamples)"
		}
		// hold + D with D itself the larger of several values: read off the addition's operands
		for _, tv := range maxTermVals(rets[0].Results[0]) {
			if bo, ok := stripConv(tv).(*ssa.BinOp); ok && bo.Op == token.ADD {
				for _, pair := range [][2]ssa.Value{{bo.X, bo.Y}, {bo.Y, bo.X}} {
					if c.Of(pair[0]).Equal(hold) {
						return maxTerms(c, pair[1]), desc, ""
					}
				}
			}
		}
		return splitDelay(c, rest[0], hold), desc, ""
	}
	// several alternatives (returns, or the values merged into one result variable): the
	// NPresamples arm under `start < NPresamples` (or `NPresamples > start`), the other hold + D
	type alt struct {
		v     ssa.Value
		under []ctrl // the branch conditions this alternative is taken under
	}
	var alts []alt
	for _, ret := range rets {
		if ph, isPhi := ret.Results[0].(*ssa.Phi); isPhi && len(rets) == 1 {
			for i, e := range ph.Edges {
				pred := ph.Block().Preds[i]
				under := controllingIfs(pred)
				if iff, ok := pred.Instrs[len(pred.Instrs)-1].(*ssa.If); ok {
					if k := branchOf(iff, pred, ph.Block()); k >= 0 {
						under = append(under, ctrl{If: iff, Branch: k})
					}
				}
				alts = append(alts, alt{e, under})
			}
			continue
		}
		alts = append(alts, alt{ret.Results[0], controllingIfs(ret.Block())})
	}
	for _, a := range alts {
		v := c.Of(a.v)
		if v.Equal(npre) {
			okc := false
			for _, ci := range a.under {
				bo, ok := ci.If.Cond.(*ssa.BinOp)
				if !ok {
					continue
				}
				if bo.Op == token.LSS && c.Of(bo.Y).Equal(npre) && ci.Branch == 0 {
					okc = true
				}
				if bo.Op == token.GTR && c.Of(bo.X).Equal(npre) && ci.Branch == 0 {
					okc = true
				}
				if bo.Op == token.GEQ && c.Of(bo.Y).Equal(npre) && ci.Branch == 1 {
					okc = true
				}
				if bo.Op == token.LEQ && c.Of(bo.X).Equal(npre) && ci.Branch == 1 {
					okc = true
				}
			}
			if !okc {
				return nil, v.String(), "the NPresamples return is not guarded by `start < NPresamples`"
			}
			continue
		}
		dTerms = append(dTerms, splitDelay(c, v, hold)...)
		desc = v.String()
	}
	if len(alts) < 2 {
		return nil, desc, "the scan start is not the larger of the hold-off start and NPresamples"
	}
	return dTerms, desc, ""
}

// splitDelay: v - hold, as max-terms when the remainder is a single builtin-max symbol.
func splitDelay(c *PolyCtx, v, hold Poly) []Poly {
	rest := v.Sub(hold)
	syms := rest.Symbols()
	if len(syms) == 1 && len(rest) == 1 && rest[syms[0]] == 1 && strings.HasPrefix(syms[0], "max(") {
		if args := c.opArgs[syms[0]]; len(args) > 0 {
			return args
		}
	}
	return []Poly{rest}
}

// c02HelperSyncs: the call runs a module helper that, on every path, stores into the EMTState
// field `small` of the processor rooted at `root` (in the caller's names) a value that is one of
// wantVals: taken from a parameter (then the argument passed is compared) or read from the big
// copy of the same processor inside the helper.
func c02HelperSyncs(c *PolyCtx, call *ssa.Call, small, big, root string, wantVals []string) bool {
	h := call.Call.StaticCallee()
	if !isModuleFn(h) || len(h.Params) != len(call.Call.Args) {
		return false
	}
	hc := NewPolyCtx(h)
	matches := func(got string) bool {
		for _, w := range wantVals {
			if got == w || basePath(got) == w {
				return true
			}
		}
		return false
	}
	isGood := func(x ssa.Instruction) bool {
		st, ok := x.(*ssa.Store)
		if !ok {
			return false
		}
		o, f, ok := lastField(st.Addr)
		if !ok || o != "EMTState" || f != small {
			return false
		}
		hpath, okp := hc.accessPath(st.Addr)
		if !okp {
			return false
		}
		// which parameter the stored-to object hangs off, and what that is in the caller
		for j, prm := range h.Params {
			pn := prm.Name()
			if hpath != pn && !strings.HasPrefix(hpath, pn+".") {
				continue
			}
			argPath, okA := c.accessPath(call.Call.Args[j])
			if !okA {
				return false
			}
			callerPath := argPath + strings.TrimPrefix(hpath, pn)
			if !strings.HasPrefix(callerPath, root+".") {
				return false
			}
			got := stripNarrow(hc.Of(st.Val))
			// the value: a parameter of the helper ...
			for k, q := range h.Params {
				if isIntLike(q.Type()) && got == hc.Of(q).String() {
					return matches(stripNarrow(c.Of(call.Call.Args[k])))
				}
			}
			// ... or the big copy of the same object, read inside the helper
			if strings.HasPrefix(basePath(got), pn+".") {
				return matches(argPath + strings.TrimPrefix(basePath(got), pn))
			}
			return false
		}
		return false
	}
	return len(ReachAvoiding(h, nil, isGood, isReturn)) == 0
}

// maxTermVals: like maxTerms, as values.
// sccpLive: v, or - when the function is analysed under constant assumptions - the one input of
// the phi v that can arrive.
func sccpLive(c *PolyCtx, v ssa.Value) ssa.Value {
	for i := 0; i < 4; i++ {
		ph, ok := v.(*ssa.Phi)
		if !ok || c == nil || c.res == nil || c.res.fn != ph.Parent() {
			return v
		}
		live, n := -1, 0
		for k := range ph.Edges {
			if c.res.EdgeExecutable(ph.Block().Preds[k], ph.Block()) {
				live = k
				n++
			}
		}
		if n != 1 {
			return v
		}
		v = ph.Edges[live]
	}
	return v
}

func maxTermVals(v ssa.Value) []ssa.Value {
	if args, ok := minMaxArgs(v, "max"); ok {
		var out []ssa.Value
		for _, a := range args {
			out = append(out, maxTermVals(a)...)
		}
		return out
	}
	return []ssa.Value{v}
}

// ---- R9 -----------------------------------------------------------------------------------

// c02R9: a pass that walks the records found so far with a cursor (records[k].trigFrame), and the
// LastTrigger bookkeeping that takes the last record as the latest, need those records in time
// order.  Decided in TriggerData: every such consumer receives a value that is empty, or was put
// in order by a sort that dominates the use, or is the result of a pass whose every return either
// hands its (ordered) argument back unchanged or is dominated by a sort of the returned slice.
func c02R9(p *Prog, r *Report) {
	td := p.Func("", "DataStreamProcessor", "TriggerData")
	if td == nil {
		return // reported by R4
	}
	isRecSlice := func(t types.Type) bool {
		sl, ok := t.Underlying().(*types.Slice)
		if !ok {
			return false
		}
		pt, ok := sl.Elem().(*types.Pointer)
		if !ok {
			return false
		}
		n, ok := pt.Elem().(*types.Named)
		return ok && n.Obj().Name() == "DataRecord"
	}
	// cellOf: v is a load of a local variable kept in memory (captured by a closure): that variable
	cellOf := func(v ssa.Value) *ssa.Alloc {
		if ld, ok := v.(*ssa.UnOp); ok && ld.Op == token.MUL {
			if a, ok := ld.X.(*ssa.Alloc); ok {
				return a
			}
		}
		return nil
	}
	storesTo := func(a *ssa.Alloc) []*ssa.Store {
		var out []*ssa.Store
		for _, ref := range *a.Referrers() {
			if st, ok := ref.(*ssa.Store); ok && st.Addr == ssa.Value(a) {
				out = append(out, st)
			}
		}
		return out
	}
	before := func(a, b ssa.Instruction) bool { // a can execute before b
		if a.Block() == b.Block() {
			for _, in := range a.Block().Instrs {
				if in == a {
					return true
				}
				if in == b {
					break
				}
			}
		}
		return a.Block() != b.Block() && BlockReaches(a.Block(), b.Block()) || InstrReaches(a, b)
	}
	// sorted(fn, v, at): a sort of v (or of the variable v was loaded from, not assigned since)
	// dominates `at`
	sorted := func(fn *ssa.Function, v ssa.Value, at ssa.Instruction) bool {
		done := false
		Instrs(fn, func(in ssa.Instruction) {
			call, ok := in.(*ssa.Call)
			if !ok || call.Call.IsInvoke() || len(call.Call.Args) == 0 || done {
				return
			}
			switch CalleeName(&call.Call) {
			case "sort.Sort", "sort.Stable", "sort.Slice", "sort.SliceStable", "slices.SortFunc", "slices.SortStableFunc":
			default:
				return
			}
			a := call.Call.Args[0]
			for {
				switch x := a.(type) {
				case *ssa.MakeInterface:
					a = x.X
					continue
				case *ssa.ChangeType:
					a = x.X
					continue
				case *ssa.Convert:
					a = x.X
					continue
				}
				break
			}
			if !InstrDominates(in, at) {
				return
			}
			if a == v {
				done = true
				return
			}
			if ca, cv := cellOf(a), cellOf(v); ca != nil && ca == cv {
				clean := true
				for _, st := range storesTo(ca) {
					if before(in, st) && before(st, at) {
						clean = false
					}
				}
				done = clean
			}
		})
		return done
	}
	// the records parameter of a pass: its index, or -1
	recParam := func(g *ssa.Function) int {
		for k, prm := range g.Params {
			if isRecSlice(prm.Type()) {
				return k
			}
		}
		return -1
	}
	// aliases of parameter j inside g and its closures: the parameter, loads of the local
	// variable it was stored into, loads of that variable in closures
	aliases := func(g *ssa.Function, j int) (map[ssa.Value]bool, *ssa.Alloc) {
		out := map[ssa.Value]bool{g.Params[j]: true}
		var cell *ssa.Alloc
		for _, ref := range *g.Params[j].Referrers() {
			if st, ok := ref.(*ssa.Store); ok && st.Val == ssa.Value(g.Params[j]) {
				if a, ok := st.Addr.(*ssa.Alloc); ok {
					cell = a
				}
			}
		}
		if cell != nil {
			var addrs []ssa.Value
			addrs = append(addrs, cell)
			for _, ref := range *cell.Referrers() {
				if mc, ok := ref.(*ssa.MakeClosure); ok {
					for k, b := range mc.Bindings {
						if b == ssa.Value(cell) {
							addrs = append(addrs, mc.Fn.(*ssa.Function).FreeVars[k])
						}
					}
				}
			}
			for _, a := range addrs {
				for _, ref := range *a.Referrers() {
					if ld, ok := ref.(*ssa.UnOp); ok && ld.Op == token.MUL {
						out[ld] = true
					}
				}
			}
		}
		return out, cell
	}
	// consumes: the pass looks at the records it was given (not only appends to them / returns them)
	consumes := func(g *ssa.Function, j int) bool {
		if g == nil || g.Blocks == nil || j < 0 {
			return false
		}
		al, _ := aliases(g, j)
		for v := range al {
			for _, ref := range *v.Referrers() {
				switch x := ref.(type) {
				case *ssa.IndexAddr, *ssa.Index, *ssa.Range:
					return true
				case *ssa.Store:
					if _, isCell := x.Addr.(*ssa.Alloc); !isCell && x.Val == v {
						return true // kept in a structure (a cursor object)
					}
				case *ssa.Call:
					if h := x.Call.StaticCallee(); h != nil && isModuleFn(h) && !x.Call.IsInvoke() {
						return true
					}
				}
			}
		}
		return false
	}
	// The analysis is made twice, once assuming the edge-multi flag set and once assuming it
	// clear (conditional constant propagation over every function looked at): the passes exclude
	// each other through that flag, so which returns can run, and which list is still empty,
	// depends on it.
	type verdict struct {
		why string
		bad bool
		at  ssa.Instruction
	}
	worst := map[string]verdict{}
	var order []string
	note := func(key, why string, bad bool, at ssa.Instruction, assume string) {
		if why != "" {
			why = "(" + assume + ") " + why
		}
		old, seen := worst[key]
		if !seen {
			order = append(order, key)
			worst[key] = verdict{why, bad, at}
			return
		}
		if (why != "" && old.why == "") || (bad && !old.bad) {
			worst[key] = verdict{why, bad, at}
		}
	}
	isNil := func(v ssa.Value) bool {
		c, ok := v.(*ssa.Const)
		return ok && c.IsNil()
	}
	for _, flagVal := range []bool{true, false} {
		assume := "edge-multi trigger off"
		if flagVal {
			assume = "edge-multi trigger on"
		}
		fenv := map[string]lat{"EdgeMulti": latBool(flagVal)}
		memo := map[*ssa.Function]*sccpResult{}
		resOf := func(g *ssa.Function) *sccpResult {
			if rs, ok := memo[g]; ok {
				return rs
			}
			// a function that stores the flag is analysed without the assumption
			fe := fenv
			if len(StoresTo(g, "", "EdgeMulti")) > 0 {
				fe = nil
			}
			rs := sccpFields(g, nil, fe)
			memo[g] = rs
			return rs
		}
		resTD := resOf(td)
		// passOut: time order (why == "" when ordered) and emptiness of what pass g returns,
		// given the state of its argument
		passOut := func(g *ssa.Function, j int, argWhy string, argBad, argEmpty bool) (why string, bad, empty bool) {
			if g == nil || g.Blocks == nil || !isModuleFn(g) {
				return "result of a call that is not resolved", false, false
			}
			rs := resOf(g)
			var al map[ssa.Value]bool
			var cell *ssa.Alloc
			if j >= 0 {
				al, cell = aliases(g, j)
			}
			empty = argEmpty
			nret := 0
			Instrs(g, func(in ssa.Instruction) {
				ret, ok := in.(*ssa.Return)
				if !ok || why != "" || !rs.Executable(ret) {
					return
				}
				for _, res := range ret.Results {
					if !isRecSlice(res.Type()) {
						continue
					}
					nret++
					pass := j >= 0 && res == ssa.Value(g.Params[j])
					if !pass && al[res] && cell != nil && cellOf(res) == cell {
						// the variable still holds the argument: no other assignment can come before
						pass = true
						for _, st := range storesTo(cell) {
							if st.Val != ssa.Value(g.Params[j]) && before(st, ret) {
								pass = false
							}
						}
					}
					if pass {
						if argWhy != "" {
							why, bad = argWhy, argBad
						}
						continue
					}
					empty = false
					if sorted(g, res, ret) {
						continue
					}
					if argEmpty {
						continue // first pass: appends in scan order onto an empty list
					}
					why = fmt.Sprintf("%s returns at %s a list it appended to (after the records of the earlier passes) without putting it in time order", FuncName(g), p.InstrPos(ret))
					// a pass that looks at the earlier records knows there can be some; one that never
					// does was written as a first pass, and whether it is ever handed any is not decided
					bad = consumes(g, j)
				}
			})
			if nret == 0 {
				empty = false
			}
			return why, bad, empty
		}
		// a table of passes run in a loop, records = pass(records): the passes in order, the value
		// the loop starts from
		tableLoop := func(x *ssa.Call) (fns []*ssa.Function, init ssa.Value, j int, ok bool) {
			if x.Call.IsInvoke() || x.Call.StaticCallee() != nil {
				return
			}
			vals, _ := unrollArrayLoop(x, x.Call.Value)
			if len(vals) == 0 {
				return
			}
			j = -1
			for k, a := range x.Call.Args {
				if isRecSlice(a.Type()) {
					j = k
				}
			}
			if j < 0 {
				return
			}
			phi, isPhi := x.Call.Args[j].(*ssa.Phi)
			if !isPhi || len(phi.Edges) != 2 {
				return
			}
			switch {
			case phi.Edges[0] == ssa.Value(x):
				init = phi.Edges[1]
			case phi.Edges[1] == ssa.Value(x):
				init = phi.Edges[0]
			default:
				return
			}
			for _, v := range vals {
				var g *ssa.Function
				switch f := v.(type) {
				case *ssa.MakeClosure:
					g = Unwrap(f.Fn.(*ssa.Function))
				case *ssa.Function:
					g = Unwrap(f)
				}
				if g == nil {
					return nil, nil, 0, false
				}
				fns = append(fns, g)
			}
			return fns, init, j, true
		}
		var ordered func(v ssa.Value, at ssa.Instruction, depth int) (why string, bad, empty bool)
		// runTable: the state after each pass of a table loop; reports the consumers when report is set
		runTable := func(x *ssa.Call, fns []*ssa.Function, init ssa.Value, depth int, report bool) (string, bool, bool) {
			why, bad, empty := ordered(init, x, depth+1)
			for _, g := range fns {
				j := recParam(g)
				if report && consumes(g, j) {
					note(FuncName(g)+" walks time-ordered records", why, bad, x, assume)
				}
				why, bad, empty = passOut(g, j, why, bad, empty)
			}
			return why, bad, empty
		}
		ordered = func(v ssa.Value, at ssa.Instruction, depth int) (string, bool, bool) {
			if depth > 8 {
				return "too many steps", false, false
			}
			if isNil(v) {
				return "", false, true
			}
			if sorted(td, v, at) {
				return "", false, false
			}
			switch x := v.(type) {
			case *ssa.Phi:
				allEmpty := true
				n := 0
				for i, e := range x.Edges {
					if !resTD.EdgeExecutable(x.Block().Preds[i], x.Block()) {
						continue
					}
					n++
					w, b, em := ordered(e, at, depth+1)
					if w != "" {
						return w, b, false
					}
					allEmpty = allEmpty && em
				}
				return "", false, allEmpty && n > 0
			case *ssa.Call:
				if fns, init, _, ok := tableLoop(x); ok {
					return runTable(x, fns, init, depth, false)
				}
				g := x.Call.StaticCallee()
				if g == nil || x.Call.IsInvoke() {
					return "result of a call that is not resolved", false, false
				}
				j := -1
				for k, a := range x.Call.Args {
					if isRecSlice(a.Type()) {
						j = k
					}
				}
				argWhy, argBad, argEmpty := "", false, false
				if j >= 0 {
					argWhy, argBad, argEmpty = ordered(x.Call.Args[j], x, depth+1)
				}
				return passOut(g, j, argWhy, argBad, argEmpty)
			}
			return "value of a form that is not followed", false, false
		}
		c := NewPolyCtx(td)
		Instrs(td, func(in ssa.Instruction) {
			if !resTD.Executable(in) {
				return
			}
			switch x := in.(type) {
			case *ssa.Call:
				if fns, init, _, ok := tableLoop(x); ok {
					runTable(x, fns, init, 0, true)
					return
				}
				g := x.Call.StaticCallee()
				if g == nil || x.Call.IsInvoke() || !isModuleFn(g) {
					return
				}
				for k, a := range x.Call.Args {
					if isRecSlice(a.Type()) && consumes(g, k) {
						why, bad, _ := ordered(a, x, 0)
						note(FuncName(g)+" walks time-ordered records", why, bad, x, assume)
					}
				}
			case *ssa.IndexAddr:
				if !isRecSlice(x.X.Type()) {
					return
				}
				// the element taken as "the last trigger": index len-1
				if c.Of(x.Index).Equal(c.lenOf(x.X).Sub(polyConst(1))) {
					why, bad, _ := ordered(x.X, x, 0)
					note("the last record is the latest", why, bad, x, assume)
				}
			}
		})
	}
	for _, key := range order {
		v := worst[key]
		switch {
		case v.why == "":
			r.OK("C02.R9", key, p.InstrPos(v.at), "empty, sorted before the use, or returned by passes that sort what they append (with the edge-multi trigger on and off)")
		case v.bad:
			r.Bad("C02.R9", key, p.InstrPos(v.at), v.why+": the cursor over the found triggers then meets them out of order (records next to an already triggered pulse, auto records repeated over the same stretch)")
		default:
			r.Unk("C02.R9", key, p.InstrPos(v.at), "not decided whether the records are in time order here: "+v.why)
		}
	}
}

// c02EdgeValue: one value that can arrive at a loop phi round the loop: v + plus, leaving block from.
type c02EdgeValue struct {
	v    ssa.Value
	plus Poly
	from *ssa.BasicBlock
}

// c02EdgeValues: e, an input of the loop phi head, unfolded through `x + const` and inner phis
// (the post block of a for loop joins the `continue` paths): the values with the block each
// comes from.
func c02EdgeValues(e ssa.Value, head *ssa.Phi, depth int) []c02EdgeValue {
	var out []c02EdgeValue
	var walk func(v ssa.Value, plus Poly, from *ssa.BasicBlock, d int)
	walk = func(v ssa.Value, plus Poly, from *ssa.BasicBlock, d int) {
		switch x := v.(type) {
		case *ssa.BinOp:
			if x.Op == token.ADD {
				if k, isC := constInt(x.Y); isC {
					walk(x.X, plus.Add(polyConst(k)), from, d)
					return
				}
			}
		case *ssa.Phi:
			if x != head && d < depth {
				for i, e2 := range x.Edges {
					walk(e2, plus, x.Block().Preds[i], d+1)
				}
				return
			}
		}
		if from != nil {
			out = append(out, c02EdgeValue{v, plus, from})
		}
	}
	walk(e, Poly{}, nil, 0)
	return out
}

// ---- R9 (addition): a pass that thins out the found records keeps all of this block's ---------

// c02R9b: the level and auto passes give way to the triggers found so far (edge before level
// before auto).  A pass may leave out records that lie before anything this block can trigger on,
// i.e. before the scan start common to all passes (firstPotentialTriggerFrame); thinning the list
// with a later position - the pass's own first candidate - drops records of this very block, and
// the pass then triggers right next to them (an auto record a few samples after an edge record).
// Decided at the call sites of helpers that copy the records under a comparison with a parameter.
func c02R9b(p *Prog, r *Report) {
	trig := p.Func("", "DataStreamProcessor", "TriggerData")
	if trig == nil {
		return
	}
	n := 0
	seen := map[*ssa.Function]bool{}
	Instrs(trig, func(in ssa.Instruction) {
		for _, pass := range p.calledFuncs(in) {
			if seen[pass] || !isModuleFn(pass) {
				continue
			}
			seen[pass] = true
			Instrs(pass, func(x ssa.Instruction) {
				call, ok := x.(*ssa.Call)
				if !ok || call.Call.IsInvoke() {
					return
				}
				h := call.Call.StaticCallee()
				if !isModuleFn(h) || len(h.Blocks) == 0 || len(h.Params) != len(call.Call.Args) {
					return
				}
				// h copies elements of a []*DataRecord parameter under a comparison with an integer parameter
				var recPrm, cutPrm *ssa.Parameter
				for _, q := range h.Params {
					if strings.HasSuffix(q.Type().String(), "[]*github.com/usnistgov/dastard.DataRecord") {
						recPrm = q
					}
				}
				if recPrm == nil {
					return
				}
				for _, l := range RangeLoops(h) {
					if l.Over != ssa.Value(recPrm) {
						continue
					}
					Instrs(h, func(y ssa.Instruction) {
						ap, ok := y.(*ssa.Call)
						if !ok || !l.Contains(ap.Block()) {
							return
						}
						if b, isB := ap.Call.Value.(*ssa.Builtin); !isB || b.Name() != "append" {
							return
						}
						for _, ct := range controllingIfs(ap.Block()) {
							if !l.Contains(ct.If.Block()) {
								continue
							}
							bo, ok := ct.If.Cond.(*ssa.BinOp)
							if !ok {
								continue
							}
							for _, side := range []ssa.Value{bo.X, bo.Y} {
								if q, isPrm := stripConv(side).(*ssa.Parameter); isPrm && isIntLike(q.Type()) {
									cutPrm = q
								}
							}
						}
					})
				}
				if cutPrm == nil {
					return
				}
				n++
				r.Fn(FuncName(h))
				var arg ssa.Value
				for i, q := range h.Params {
					if q == cutPrm {
						arg = stripConv(call.Call.Args[i])
					}
				}
				key := FuncName(pass) + ": found records are left out only before the scan start common to all passes"
				ac, isCall := arg.(*ssa.Call)
				switch {
				case isCall && ac.Call.StaticCallee() != nil && ac.Call.StaticCallee().Name() == "firstPotentialTriggerFrame":
					r.OK("C02.R9", key, p.InstrPos(call), FuncName(h)+" is given firstPotentialTriggerFrame()")
				case isCall && ac.Call.StaticCallee() != nil && strings.HasPrefix(ac.Call.StaticCallee().Name(), "firstPotential"):
					r.Bad("C02.R9", key, p.InstrPos(call), FuncName(h)+" drops the found records before "+ac.Call.StaticCallee().Name()+"(), this pass's own first candidate, which lies later than the scan start of the passes before it: a record they found in between (in this very block) no longer holds this pass off, so it creates a record right after it - overlapping it, on a sample that meets no enabled criterion - and the result depends on how the stream is cut into blocks")
				default:
					r.Unk("C02.R9", key, p.InstrPos(call), FuncName(h)+" leaves out found records before a position that is not the result of a scan-start function: not decided")
				}
			})
		}
	})
	_ = n
}
