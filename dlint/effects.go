package main

// E4: field-level read/write effects per function, direct and transitive.

import (
	"go/token"
	"go/types"
	"sort"
	"strings"

	"golang.org/x/tools/go/ssa"
)

// FieldKey identifies a struct field by its declaring named struct type.
// Field "*" means "the whole struct"; suffix "[]" means elements reached
// through the slice/map/array stored in the field.
type FieldKey struct {
	Owner string
	Field string
}

func (k FieldKey) String() string { return k.Owner + "." + k.Field }

func ownerName(t types.Type) string {
	for {
		if p, ok := t.(*types.Pointer); ok {
			t = p.Elem()
			continue
		}
		break
	}
	if n, ok := t.(*types.Named); ok {
		o := n.Obj()
		if o.Pkg() != nil && o.Pkg().Path() != modPath {
			pp := strings.TrimPrefix(o.Pkg().Path(), modPath+"/")
			return pp + "." + o.Name()
		}
		return o.Name()
	}
	if p, ok := t.Underlying().(*types.Pointer); ok {
		return ownerName(p.Elem())
	}
	return t.String()
}

type Access struct {
	Key   FieldKey
	Write bool
	Instr ssa.Instruction
}

// addrKey resolves an address value to the field it designates.
// elem=true when the address is an element of the container held in the field.
func addrKey(v ssa.Value) (k FieldKey, elem bool, ok bool) {
	switch x := v.(type) {
	case *ssa.FieldAddr:
		st := derefStruct(x.X.Type())
		if st == nil {
			return
		}
		if root := addrRoot(x); root != nil {
			if _, fresh := root.(*ssa.Alloc); fresh {
				// a field of an object allocated in this very function (composite
				// literal, new(T), local struct): not shared state at this point
				return
			}
		}
		return FieldKey{ownerName(x.X.Type()), st.Field(x.Field).Name()}, false, true
	case *ssa.IndexAddr:
		// element of slice/array: find the field the container was loaded from
		c := x.X
		if u, isU := c.(*ssa.UnOp); isU && u.Op == token.MUL {
			if k, _, ok := addrKey(u.X); ok {
				return k, true, true
			}
		}
		if k, _, ok := addrKey(c); ok { // array field addressed in place
			return k, true, true
		}
		if sl, isSl := c.(*ssa.Slice); isSl {
			if u, isU := sl.X.(*ssa.UnOp); isU && u.Op == token.MUL {
				if k, _, ok := addrKey(u.X); ok {
					return k, true, true
				}
			}
		}
	}
	return
}

// DirectAccesses lists the field accesses performed by fn's own instructions.
func DirectAccesses(fn *ssa.Function) []Access {
	var out []Access
	add := func(k FieldKey, elem, w bool, in ssa.Instruction) {
		if elem {
			k.Field += "[]"
		}
		out = append(out, Access{k, w, in})
	}
	Instrs(fn, func(in ssa.Instruction) {
		switch x := in.(type) {
		case *ssa.Store:
			if k, elem, ok := addrKey(x.Addr); ok {
				add(k, elem, true, in)
				// a store of a whole struct writes every field of that struct
				if st := derefStruct(x.Val.Type()); st != nil && !elem {
					if _, isNamed := x.Val.Type().(*types.Named); isNamed {
						out = append(out, Access{FieldKey{ownerName(x.Val.Type()), "*"}, true, in})
					}
				}
			} else if st := derefStruct(x.Val.Type()); st != nil {
				if _, isNamed := x.Val.Type().(*types.Named); isNamed {
					// *p = structValue
					if _, isAlloc := addrRoot(x.Addr).(*ssa.Alloc); !isAlloc {
						out = append(out, Access{FieldKey{ownerName(x.Val.Type()), "*"}, true, in})
					}
				}
			}
		case *ssa.UnOp:
			if x.Op == token.MUL {
				if k, elem, ok := addrKey(x.X); ok {
					add(k, elem, false, in)
				} else if st := derefStruct(x.Type()); st != nil {
					if _, isNamed := x.Type().(*types.Named); isNamed {
						if _, isAlloc := addrRoot(x.X).(*ssa.Alloc); !isAlloc {
							out = append(out, Access{FieldKey{ownerName(x.Type()), "*"}, false, in})
						}
					}
				}
			}
		case *ssa.Field:
			st := derefStruct(x.X.Type())
			if st != nil {
				out = append(out, Access{FieldKey{ownerName(x.X.Type()), st.Field(x.Field).Name()}, false, in})
			}
		case *ssa.MapUpdate:
			if u, isU := x.Map.(*ssa.UnOp); isU && u.Op == token.MUL {
				if k, _, ok := addrKey(u.X); ok {
					add(k, true, true, in)
				}
			}
		case *ssa.Lookup:
			if u, isU := x.X.(*ssa.UnOp); isU && u.Op == token.MUL {
				if k, _, ok := addrKey(u.X); ok {
					add(k, true, false, in)
				}
			}
		case *ssa.Call:
			// append(field, ...) result stored back is seen as a Store; copy(dst,...) writes elements
			if b, isB := x.Call.Value.(*ssa.Builtin); isB && b.Name() == "copy" {
				dst := x.Call.Args[0]
				if sl, isSl := dst.(*ssa.Slice); isSl {
					dst = sl.X
				}
				if u, isU := dst.(*ssa.UnOp); isU && u.Op == token.MUL {
					if k, _, ok := addrKey(u.X); ok {
						add(k, true, true, in)
					}
				}
			}
			if b, isB := x.Call.Value.(*ssa.Builtin); isB && b.Name() == "delete" {
				if u, isU := x.Call.Args[0].(*ssa.UnOp); isU && u.Op == token.MUL {
					if k, _, ok := addrKey(u.X); ok {
						add(k, true, true, in)
					}
				}
			}
		}
	})
	return out
}

// EffectSet is a set of accesses with one witness each.
type EffectSet struct {
	R map[FieldKey]ssa.Instruction
	W map[FieldKey]ssa.Instruction
}

func newEffectSet() *EffectSet {
	return &EffectSet{R: map[FieldKey]ssa.Instruction{}, W: map[FieldKey]ssa.Instruction{}}
}

func (e *EffectSet) add(a Access) {
	if a.Write {
		if _, ok := e.W[a.Key]; !ok {
			e.W[a.Key] = a.Instr
		}
	} else {
		if _, ok := e.R[a.Key]; !ok {
			e.R[a.Key] = a.Instr
		}
	}
}

func (e *EffectSet) merge(o *EffectSet) {
	for k, v := range o.R {
		if _, ok := e.R[k]; !ok {
			e.R[k] = v
		}
	}
	for k, v := range o.W {
		if _, ok := e.W[k]; !ok {
			e.W[k] = v
		}
	}
}

// TransEffects computes the accesses of fn and everything it can call
// (static, VTA-resolved; goroutines it starts included), optionally skipping
// instructions for which skip returns true (in fn itself only) and callees for
// which stopAt returns true.
func (p *Prog) TransEffects(fn *ssa.Function, skip func(ssa.Instruction) bool, stopAt func(*ssa.Function) bool) *EffectSet {
	out := newEffectSet()
	seen := map[*ssa.Function]bool{}
	var visit func(f *ssa.Function, top bool)
	visit = func(f *ssa.Function, top bool) {
		if f == nil || seen[f] || f.Blocks == nil {
			return
		}
		seen[f] = true
		pk := fnPkg(f)
		if pk == nil || !strings.HasPrefix(pk.Path(), modPath) {
			return
		}
		for _, a := range DirectAccesses(f) {
			if top && skip != nil && skip(a.Instr) {
				continue
			}
			out.add(a)
		}
		Instrs(f, func(in ssa.Instruction) {
			if CallOf(in) == nil {
				return
			}
			if top && skip != nil && skip(in) {
				return
			}
			for _, c := range p.callees(in) {
				if stopAt != nil && stopAt(c) {
					continue
				}
				visit(c, false)
			}
		})
	}
	visit(fn, true)
	return out
}

// Conflicts returns the keys written in a and accessed (read or written) in b,
// honouring the "*" whole-struct wildcard.
func Conflicts(a, b *EffectSet) []FieldKey {
	var out []FieldKey
	has := func(m map[FieldKey]ssa.Instruction, k FieldKey) bool {
		if _, ok := m[k]; ok {
			return true
		}
		if k.Field == "*" {
			for kk := range m {
				if kk.Owner == k.Owner {
					return true
				}
			}
			return false
		}
		_, ok := m[FieldKey{k.Owner, "*"}]
		return ok
	}
	for k := range a.W {
		if has(b.R, k) || has(b.W, k) {
			out = append(out, k)
		}
	}
	sort.Slice(out, func(i, j int) bool { return out[i].String() < out[j].String() })
	return out
}

// addrRoot walks an address expression (field of field of element of array ...)
// down to the value it is rooted in.
func addrRoot(v ssa.Value) ssa.Value {
	for {
		switch x := v.(type) {
		case *ssa.FieldAddr:
			v = resolveCell(x.X)
		case *ssa.IndexAddr:
			if _, isPtr := x.X.Type().Underlying().(*types.Pointer); isPtr {
				v = x.X // element of an array addressed in place
				continue
			}
			return v
		default:
			return v
		}
	}
}
