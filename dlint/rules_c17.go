package main

import (
	"fmt"
	"go/token"
	"go/types"
	"sort"
	"strings"

	"golang.org/x/tools/go/ssa"
)

func init() {
	register(&RuleSet{
		Property: "C17",
		Explanation: "Static lockset / ownership analysis of every struct field of the module (E8).  Goroutine roles are the `go` statements of library code plus the RPC role; for every field the analysis collects (role, function, read/write, must-held mutexes) accesses and reports pairs with at least one write that can run concurrently and hold no common mutex. " +
			"Concurrency is decided from: what a spawner does before `go` (happens-before the goroutine); fork-join windows (WaitGroup.Wait, or one result received per spawned goroutine); request context (request closures run in the core goroutine while the one RPC goroutine is blocked on the rendezvous); the run-done barrier and the Inactive life-cycle test for goroutines that provably end with the run (their last action closes a channel an ending goroutine receives from); close-then-observe ordering; same-function signal ordering (writes dominating a close/send vs reads dominated by the receive); one-source-at-a-time; per-instance objects of multi-instance goroutines (arguments of the go statement, what they contain, and what they point to through fields only ever assigned fresh objects); ownership transfer of message types; private copies and request/reply objects. " +
			"(R1) conflicts between different roles; (R2) conflicts between sibling instances of one role (fork-join families); (R3) a sender does not write through a reference after sending it. " +
			"This is neither a proof of race freedom (objects are abstracted by type and field; memory reached only through locals is ignored; the single-client assumption orders RPC handlers) nor free of idiom tables; every table entry is printed in the evidence.",
		RuleDocs: []string{
			"C17.R1 role-pair conflicts on a field: write + concurrent access, no common mutex, not ordered by any of the listed mechanisms",
			"C17.R2 (joins) a WaitGroup join requires an Add that dominates the go statement in the spawner; an Add made inside the goroutine is reported",
			"C17.R2 sibling conflicts inside a multi-instance role: writes to a shared (captured) object or to a non-partitioned field; goroutines whose result channel is handed back to the caller are joined by a collecting loop there that receives once per started goroutine and has no other way out",
			"C17.R3 after a send of a pointer/slice/map the sending function does not store through it",
			"C17.R3b a struct sent by value: every slice/map/pointer it holds (followed through interface boxes and struct locals) that was made before the send is not written through again, by the sender or a helper given the reference or the struct that holds it, on a way back to a send that does not re-make it",
			"C17.R5 a map-typed local passed to or captured by a goroutine is not used with a write by the goroutine and, after the go statement, by its spawner",
			"C17.R4 a slice stored into a message under construction is not a (re)slice of a slice held in a field of a long-lived object (definite views only)",
		},
		Assumptions: []string{
			"one RPC client: requests are served one at a time (rpc_server.go serves each connection synchronously)",
			"objects are identified by (struct type, field); two objects of one type are not told apart except by the per-instance partition rule",
			"net / os level causality (a reader goroutine exits because its socket was closed) is listed in the phase table, not derived",
		},
		Run: runC17,
	})
}

func shortRole(r *Role) string {
	id := strings.TrimPrefix(r.ID, "go ")
	if i := strings.Index(id, " in "); i > 0 {
		id = id[:i]
	}
	return id
}

// phaseTable: orderings that come from outside the Go code (one reason each).
var c17PhaseTable = []struct {
	owner, field string
	fnA, fnB     string // function names of the two accesses (either order)
	reason       string
}{
	{"AbacoUDPReceiver", "conn", "start$1$1", "stop", "the UDP receive goroutine clears the field only while exiting, and it exits because stop() closed the socket after reading the field (net poller synchronisation orders the two)"},
}

func runC17(p *Prog, r *Report) {
	rv, err := FindRendezvous(p)
	if err != nil {
		r.Unk("C17.anchor", "rendezvous", "-", err.Error())
		return
	}
	e := NewRaceEngine(p, rv)
	r.MinInstances["C17.R1"] = 200
	r.MinInstances["C17.R2"] = 4
	r.MinInstances["C17.R3"] = 10
	r.MinInstances["C17.R3b"] = 3
	r.MinInstances["C17.R4"] = 6
	for _, ro := range e.Roles {
		var names []string
		for f := range ro.Reach {
			names = append(names, FuncName(f))
		}
		for _, n := range names {
			r.Fn(n)
		}
		kind := "single"
		if ro.Multi {
			kind = "multi-instance"
		}
		join := ""
		if ro.Join != nil {
			join = ", joined by WaitGroup.Wait"
		}
		if ro.Scoped {
			join = ", results collected before the spawner returns"
		}
		ends := ""
		if e.endsWithRun(ro) {
			ends = ", ends with the run"
		}
		if e.lingers(ro) {
			ends = ", may outlive its spawner (successive instances can overlap)"
		}
		r.Notes = append(r.Notes, fmt.Sprintf("role %s: %s%s%s, %d functions, source tag %q", shortRole(ro), kind, join, ends, len(ro.Reach), roleTag(ro)))
	}
	r.Notes = append(r.Notes, e.Notes...)
	for _, t := range c17PhaseTable {
		r.Notes = append(r.Notes, fmt.Sprintf("phase table: %s.%s (%s vs %s): %s", t.owner, t.field, t.fnA, t.fnB, t.reason))
	}
	ordered := func(a, b RAccess) string {
		for _, t := range c17PhaseTable {
			if a.Key.Owner == t.owner && strings.TrimSuffix(a.Key.Field, "[]") == t.field {
				na, nb := a.Fn.Name(), b.Fn.Name()
				if (na == t.fnA && nb == t.fnB) || (na == t.fnB && nb == t.fnA) {
					return t.reason
				}
			}
		}
		return ""
	}
	cs := e.Conflicts(ordered)
	byKey := map[FieldKey][]Conflict{}
	for _, c := range cs {
		byKey[c.Key] = append(byKey[c.Key], c)
	}
	oos := map[string]bool{}
	unkRoles := map[string]bool{}
	var keys []FieldKey
	for k := range e.acc {
		keys = append(keys, k)
	}
	sort.Slice(keys, func(i, j int) bool { return keys[i].String() < keys[j].String() })
	for _, k := range keys {
		// fields with a single role and no write are not interesting obligations
		roles := map[*Role]bool{}
		wr := false
		for _, a := range e.acc[k] {
			roles[a.Role] = true
			if a.Write {
				wr = true
			}
		}
		if !wr {
			continue
		}
		multi := false
		for ro := range roles {
			if ro.Multi {
				multi = true
			}
		}
		if len(roles) < 2 && !multi {
			continue
		}
		confl := byKey[k]
		if len(confl) == 0 {
			var rs []string
			for ro := range roles {
				rs = append(rs, shortRole(ro))
			}
			sort.Strings(rs)
			var ws []string
			for w, n := range e.Why[k] {
				ws = append(ws, fmt.Sprintf("%s (%d pairs)", w, n))
			}
			sort.Strings(ws)
			r.OK("C17.R1", "field "+k.String(), "-", fmt.Sprintf("%d accesses in roles {%s}; write/access pairs ordered by: %s", len(e.acc[k]), strings.Join(rs, ", "), strings.Join(ws, "; ")))
			continue
		}
		seen := map[string]bool{}
		inScope := 0
		_ = unkRoles
		for _, c := range confl {
			if c17OutOfScope(c.A) || c17OutOfScope(c.B) {
				continue
			}
			inScope++
		}
		if inScope == 0 {
			r.OK("C17.R1", "field "+k.String(), "-", fmt.Sprintf("%d accesses; the only unordered pairs involve the ROACH source, which the property's workload does not include (see notes)", len(e.acc[k])))
		}
		for _, c := range confl {
			if c17OutOfScope(c.A) || c17OutOfScope(c.B) {
				oos[fmt.Sprintf("%s: %s/%s x %s/%s", k, shortRole(c.A.Role), FuncName(c.A.Fn), shortRole(c.B.Role), FuncName(c.B.Fn))] = true
				continue
			}
			rule := "C17.R1"
			if c.A.Role == c.B.Role {
				rule = "C17.R2"
			}
			// a goroutine family whose results are collected by a caller of its spawner: the
			// analysis does not follow that join, so pairs with it are undecided, said once per family
			jr := joinElsewhere(c.A.Role, c.B.Role)
			if jr == nil {
				// ... or goroutines started by code that such a family runs
				for _, q := range e.Roles {
					if q.JoinElsewhere && ((c.A.Role.In != nil && q.Reach[c.A.Role.In]) || (c.B.Role.In != nil && q.Reach[c.B.Role.In])) {
						jr = q
					}
				}
			}
			if rule == "C17.R2" && c17IndexShares(c.A.Role) {
				ukey := "the instances of " + shortRole(c.A.Role) + " share a container by index ranges computed from their own argument"
				if !unkRoles[ukey] {
					unkRoles[ukey] = true
					r.Unk("C17.R2", ukey, p.InstrPos(c.A.Role.Go), "each goroutine of this family walks elements of a shared container at indices derived from an integer it was started with (a worker that takes a share of the channels): whether the shares are disjoint, and cover every element, depends on the arithmetic of the bounds and is not decided (field "+k.String()+" and others)")
				}
				continue
			}
			if jr != nil {
				ukey := "goroutines started in " + FuncName(jr.In) + " (" + shortRole(jr) + ") are collected by a caller of that function"
				if !seen[ukey] {
					seen[ukey] = true
					if !unkRoles[ukey] {
						unkRoles[ukey] = true
						r.Unk("C17.R1", ukey, p.InstrPos(jr.Go), "the goroutines report on a channel that the spawning function returns: where their results are collected is outside that function and not followed, so their accesses are not ordered against the rest of the program (field "+k.String()+" and others)")
					}
				}
				continue
			}
			what := "read"
			if c.B.Write {
				what = "write"
			}
			key := fmt.Sprintf("field %s: write in %s/%s x %s in %s/%s", k, shortRole(c.A.Role), FuncName(c.A.Fn), what, shortRole(c.B.Role), FuncName(c.B.Fn))
			if seen[key] {
				continue
			}
			seen[key] = true
			r.Bad(rule, key, p.InstrPos(c.A.Instr), fmt.Sprintf("unsynchronised concurrent access: %s written at %s (goroutine %s, locks %v) while goroutine %s can %s it at %s (locks %v); no common mutex, no ordering found",
				k, p.InstrPos(c.A.Instr), shortRole(c.A.Role), setList(c.A.Locks), shortRole(c.B.Role), what, p.InstrPos(c.B.Instr), setList(c.B.Locks)))
		}
	}
	if len(oos) > 0 {
		var ks []string
		for k := range oos {
			ks = append(ks, k)
		}
		sort.Strings(ks)
		r.Notes = append(r.Notes, fmt.Sprintf("out of scope: %d unordered pair(s) involve the ROACH source (roach.go), which is not in the property's workload (simulated sources, Abaco, Lancero); its packet readers are never joined, so the analysis cannot order them against the next run: %s", len(ks), strings.Join(ks, "; ")))
	}
	// R2 floor helper: report the fork-join families checked
	for _, ro := range e.Roles {
		if ro.Multi {
			var ts []string
			for t := range ro.PartTy {
				ts = append(ts, t)
			}
			sort.Strings(ts)
			r.OK("C17.R2", "fork-join family "+shortRole(ro)+": per-instance object types", p.InstrPos(ro.Go), strings.Join(ts, ", "))
		}
	}
	for _, bj := range e.BadJoins {
		if strings.Contains(bj[1], "raise the WaitGroup counter themselves") {
			r.Bad("C17.R2", "goroutine family "+bj[0]+" is joined before its starter goes on", "-", bj[1]+": what follows the Wait (the per-channel processing of the same buffers, the next block) then runs concurrently with these goroutines, with no ordering between their accesses")
			continue
		}
		r.Bad("C17.R2", "goroutine family "+bj[0]+" is collected before its starter's caller goes on", "-", bj[1]+": a goroutine that is still starting or sampling then runs concurrently with what follows (closing the devices, the next start), with no ordering between their accesses")
	}
	c17R3(p, r)
	c17R3b(p, r)
	c17R4(p, r, e)
	c17R5(p, r, e)
}

func setList(m map[string]bool) []string {
	var out []string
	for k := range m {
		out = append(out, k)
	}
	sort.Strings(out)
	return out
}

// c17R3: after sending a reference the sender does not write through it.
func c17R3(p *Prog, r *Report) {
	n := map[string]int{}
	for _, fn := range p.LibFuncs() {
		Instrs(fn, func(in ssa.Instruction) {
			var sent ssa.Value
			switch x := in.(type) {
			case *ssa.Send:
				sent = x.X
			default:
				return
			}
			switch sent.Type().Underlying().(type) {
			case *types.Pointer, *types.Slice, *types.Map:
			default:
				return
			}
			if _, isC := sent.(*ssa.Const); isC {
				return
			}
			r.Fn(FuncName(fn))
			bad := ""
			def, _ := sent.(ssa.Instruction)
			hits := ReachAvoiding(fn, in, func(x ssa.Instruction) bool { return def != nil && x == def }, func(x ssa.Instruction) bool {
				st, ok := x.(*ssa.Store)
				if !ok {
					return false
				}
				return reachesValue(st.Addr, sent)
			})
			if len(hits) > 0 {
				bad = p.InstrPos(hits[0])
			}
			base := "send of " + typeName(sent.Type()) + " in " + FuncName(fn)
			n[base]++
			key := fmt.Sprintf("%s #%d", base, n[base])
			r.Check(bad == "", "C17.R3", key, p.InstrPos(in), "no store through the sent reference after the send", "after the send the function writes through the same reference at "+bad+": the receiver reads it concurrently")
		})
	}
}

// reachesValue: the address is derived from v through field selection,
// indexing and dereferences only.
func reachesValue(addr, v ssa.Value) bool {
	for i := 0; i < 16; i++ {
		if addr == v {
			return true
		}
		switch x := addr.(type) {
		case *ssa.FieldAddr:
			addr = x.X
		case *ssa.IndexAddr:
			addr = x.X
		case *ssa.UnOp:
			addr = x.X
		case *ssa.Slice:
			addr = x.X
		default:
			return false
		}
	}
	return false
}

// c17OutOfScope: the property quantifies over simulated sources and Abaco/Lancero producers;
// the ROACH source is not part of its workload.
func c17OutOfScope(a RAccess) bool {
	return roleTag(a.Role) == "roach" || sourceTag(a.Fn) == "roach"
}

// ---- R4: a message does not carry a view of a buffer its sender keeps ----------------------

// c17R4: for every slice stored into a field of a message object under construction (a struct
// of a type that travels through channels, allocated in the storing function), the slice must
// not be a view (the slice itself or a reslice) of a slice held in a field of a long-lived
// object: the receiver reads it while the owner keeps writing the same backing array.  Only
// definite views are reported; parameters and opaque call results are not.
func c17R4(p *Prog, r *Report, e *RaceEngine) {
	type origin int
	const (
		unknown origin = iota
		fresh
		moved // taken from another message
		view
	)
	var where string
	var msgStore ssa.Instruction // the store that puts the slice into the message
	// persistent: the local cell lives across iterations of the loop in which the message is built
	persistent := func(al *ssa.Alloc) bool {
		if msgStore == nil || !InLoop(msgStore) {
			return false
		}
		return al.Block() != msgStore.Block() && !InLoopWith(al, msgStore) && al.Block().Dominates(msgStore.Block())
	}
	var classify func(fn *ssa.Function, v ssa.Value, d int) origin
	// embeddedInLongLived: fa selects a field of a message-typed struct that is itself an embedded
	// field of a non-message struct (DataStream embeds DataSegment): that object is not a message.
	longLived := func(fa *ssa.FieldAddr) bool {
		owner := ownerName(derefType(fa.X.Type()))
		if !e.msgTy[owner] {
			return true
		}
		for x := fa.X; ; {
			in, ok := x.(*ssa.FieldAddr)
			if !ok {
				return false
			}
			st := derefStruct(in.X.Type())
			if st != nil && st.Field(in.Field).Embedded() && !e.msgTy[ownerName(derefType(in.X.Type()))] {
				return true
			}
			x = in.X
		}
	}
	classify = func(fn *ssa.Function, v ssa.Value, d int) origin {
		if d > 8 {
			return unknown
		}
		switch x := v.(type) {
		case *ssa.MakeSlice:
			return fresh
		case *ssa.Const:
			return fresh
		case *ssa.Slice:
			if _, isAlloc := x.X.(*ssa.Alloc); isAlloc {
				return fresh
			}
			return classify(fn, x.X, d+1)
		case *ssa.Call:
			if b, ok := x.Call.Value.(*ssa.Builtin); ok && b.Name() == "append" {
				return classify(fn, x.Call.Args[0], d+1)
			}
			// a helper of the module that hands out the buffer: look at what it returns
			if callee := x.Call.StaticCallee(); callee != nil && callee.Blocks != nil && inModule(callee) && d < 3 {
				res := unknown
				sawView := false
				Instrs(callee, func(in ssa.Instruction) {
					ret, ok := in.(*ssa.Return)
					if !ok || len(ret.Results) == 0 {
						return
					}
					saved := msgStore
					msgStore = nil // loop-carried reasoning does not apply across the call
					if classify(callee, ret.Results[0], d+1) == view {
						sawView = true
					}
					msgStore = saved
				})
				if sawView {
					return view
				}
				return res
			}
			return unknown
		case *ssa.Phi:
			// a slice carried around the loop in which the message is built (same buffer handed
			// out again in a later iteration): the phi at a loop header reaches itself through a back edge
			if msgStore != nil && naturalLoopContains(x.Block(), msgStore.Block()) {
				for i, ed := range x.Edges {
					if !x.Block().Dominates(x.Block().Preds[i]) {
						continue
					}
					// only the way back that follows the hand-over in the same iteration matters: a
					// buffer that keeps growing through iterations in which nothing is handed over is fine
					if !reachesWithout(msgStore.Block(), x.Block().Preds[i], x.Block()) {
						continue
					}
					seenPhi := map[ssa.Value]bool{}
					var reaches func(w ssa.Value) bool
					reaches = func(w ssa.Value) bool {
						if w == ssa.Value(x) {
							return true
						}
						ph, ok := w.(*ssa.Phi)
						if !ok || seenPhi[w] {
							return false
						}
						seenPhi[w] = true
						for _, e2 := range ph.Edges {
							if reaches(e2) {
								return true
							}
						}
						return false
					}
					if reaches(ed) {
						where = "the local buffer " + x.Comment + " that is carried over from the previous iteration of the loop (" + p.InstrPos(x) + ")"
						return view
					}
				}
			}
			res := fresh
			for _, ed := range x.Edges {
				if ed == v {
					continue
				}
				switch classify(fn, ed, d+1) {
				case view:
					return view
				case unknown:
					res = unknown
				case moved:
					if res == fresh {
						res = moved
					}
				}
			}
			return res
		case *ssa.UnOp:
			if x.Op != token.MUL {
				return unknown
			}
			switch a := x.X.(type) {
			case *ssa.FieldAddr:
				if _, isSlice := derefType(a.Type()).Underlying().(*types.Slice); !isSlice {
					return unknown
				}
				// a field of a struct built in this function: what was stored there
				if al, ok := addrRoot(a).(*ssa.Alloc); ok {
					res := unknown
					for _, ref := range *a.Referrers() {
						if st, ok := ref.(*ssa.Store); ok && st.Addr == ssa.Value(a) {
							res = classify(fn, st.Val, d+1)
						}
					}
					if res == unknown {
						// the local struct is a copy of a long-lived one (stream := dsp.stream): the
						// slice header is copied, the backing array is still the owner's
						for _, ref := range *al.Referrers() {
							st, ok := ref.(*ssa.Store)
							if !ok || st.Addr != ssa.Value(al) {
								continue
							}
							if ld, ok := st.Val.(*ssa.UnOp); ok && ld.Op == token.MUL {
								if _, fromAlloc := addrRoot(ld.X).(*ssa.Alloc); !fromAlloc && longLived(a) {
									stt := derefStruct(a.X.Type())
									where = "the copy of " + typeName(ld.Type()) + "'s " + stt.Field(a.Field).Name() + " (struct copied at " + p.InstrPos(st) + ")"
									return view
								}
							}
						}
					}
					return res
				}
				if longLived(a) {
					st := derefStruct(a.X.Type())
					if fieldRemadeBefore(x, typeName(a.X.Type()), st.Field(a.Field).Name()) {
						return fresh // made afresh earlier in this very call
					}
					if fieldHandedOver(x) {
						return moved // the owner starts over with a new slice before it goes on
					}
					where = ownerName(derefType(a.X.Type())) + "." + st.Field(a.Field).Name() + " (loaded at " + p.InstrPos(x) + ")"
					return view
				}
				return moved
			case *ssa.IndexAddr:
				// element of an array / slice of slices kept in a local that outlives the iteration
				if al, ok := a.X.(*ssa.Alloc); ok && persistent(al) {
					where = "the local buffer set " + al.Comment + " kept across iterations (element loaded at " + p.InstrPos(x) + ")"
					return view
				}
				return classify(fn, a.X, d+1) // element of a slice of slices: as its container
			case *ssa.Alloc:
				if persistent(a) {
					if _, isSlice := derefType(a.Type()).Underlying().(*types.Slice); isSlice {
						where = "the local buffer " + a.Comment + " kept across iterations (loaded at " + p.InstrPos(x) + ")"
						return view
					}
				}
				// local variable: single store
				res := unknown
				n := 0
				for _, ref := range *a.Referrers() {
					if st, ok := ref.(*ssa.Store); ok && st.Addr == ssa.Value(a) {
						res = classify(fn, st.Val, d+1)
						n++
					}
				}
				if n == 1 {
					return res
				}
				return unknown
			}
		}
		return unknown
	}
	cnt := map[string]int{}
	// slices sent on a channel as such (the byte buffers queued for the file writer goroutines):
	// the value, or for a parameter the argument at every call site, must not be a definite view
	for _, fn := range p.LibFuncs() {
		Instrs(fn, func(in ssa.Instruction) {
			var sent ssa.Value
			switch x := in.(type) {
			case *ssa.Send:
				sent = x.X
			case *ssa.Select:
				for _, st := range x.States {
					if st.Dir == types.SendOnly {
						sent = st.Send
					}
				}
			}
			if sent == nil {
				return
			}
			if _, isSlice := sent.Type().Underlying().(*types.Slice); !isSlice {
				return
			}
			r.Fn(FuncName(fn))
			msgStore = in
			where = ""
			o := classify(fn, sent, 0)
			at := p.InstrPos(in)
			if prm, isPrm := sent.(*ssa.Parameter); isPrm && o != view {
				idx := -1
				for i, q := range fn.Params {
					if q == prm {
						idx = i
					}
				}
				if n := e.p.CallGraph().Nodes[fn]; n != nil && idx >= 0 {
					for _, edge := range n.In {
						if edge.Site == nil || edge.Caller.Func == nil || !inModule(edge.Caller.Func) {
							continue
						}
						args := edge.Site.Common().Args
						if edge.Site.Common().IsInvoke() {
							continue
						}
						if idx < len(args) {
							msgStore = edge.Site
							where = ""
							if classify(edge.Caller.Func, args[idx], 0) == view {
								o = view
								at = p.InstrPos(edge.Site)
							}
						}
					}
				}
			}
			base := "slice sent on a channel in " + FuncName(fn)
			cnt[base]++
			r.Check(o != view, "C17.R4", fmt.Sprintf("%s #%d", base, cnt[base]), at, "not a definite view of a buffer kept by the sender",
				"the slice handed to another goroutine through the channel is a view of a buffer the sender keeps ("+where+"): the sender builds the next item in the same memory while the receiver may still be reading it")
		})
	}
	for _, fn := range p.LibFuncs() {
		Instrs(fn, func(in ssa.Instruction) {
			st, ok := in.(*ssa.Store)
			if !ok {
				return
			}
			fa, ok := st.Addr.(*ssa.FieldAddr)
			if !ok {
				return
			}
			if _, isSlice := st.Val.Type().Underlying().(*types.Slice); !isSlice {
				return
			}
			owner := ownerName(derefType(fa.X.Type()))
			if !e.msgTy[owner] {
				return
			}
			// message under construction: the struct is allocated in this function (directly or as
			// an element of a slice made here)
			root := addrRoot(fa)
			if ia, ok := root.(*ssa.IndexAddr); ok {
				root = ia.X
			}
			switch root.(type) {
			case *ssa.Alloc, *ssa.MakeSlice:
			default:
				return
			}
			stt := derefStruct(fa.X.Type())
			fname := stt.Field(fa.Field).Name()
			base := fmt.Sprintf("%s.%s filled in %s", owner, fname, FuncName(fn))
			cnt[base]++
			r.Fn(FuncName(fn))
			where = ""
			msgStore = st
			o := classify(fn, st.Val, 0)
			// a fresh slice of slices: what was put into its elements counts too
			if mk, isMk := st.Val.(*ssa.MakeSlice); isMk && o == fresh {
				if _, nested := mk.Type().Underlying().(*types.Slice).Elem().Underlying().(*types.Slice); nested {
					for _, ref := range *mk.Referrers() {
						ia, isIA := ref.(*ssa.IndexAddr)
						if !isIA {
							continue
						}
						for _, r2 := range *ia.Referrers() {
							if es, isSt := r2.(*ssa.Store); isSt && es.Addr == ssa.Value(ia) {
								if classify(fn, es.Val, 0) == view {
									o = view
								}
							}
						}
					}
				}
			}
			key := fmt.Sprintf("%s #%d", base, cnt[base])
			names := map[origin]string{unknown: "not a definite view (parameter, call result or unresolved local)", fresh: "freshly allocated", moved: "taken over from another message"}
			r.Check(o != view, "C17.R4", key, p.InstrPos(st), names[o],
				"the message carries a view of "+where+", a buffer its long-lived owner keeps writing (trim / append in place): the goroutine that receives the message reads the same backing array without synchronisation")
		})
	}
}

// reachesWithout: block b is reachable from a without passing through avoid (a == b counts).
func reachesWithout(a, b, avoid *ssa.BasicBlock) bool {
	seen := map[*ssa.BasicBlock]bool{avoid: true}
	var walk func(x *ssa.BasicBlock) bool
	walk = func(x *ssa.BasicBlock) bool {
		if x == b {
			return true
		}
		if seen[x] {
			return false
		}
		seen[x] = true
		for _, sc := range x.Succs {
			if walk(sc) {
				return true
			}
		}
		return false
	}
	return walk(a)
}

// ---- R5: a map handed to a goroutine is not also used by its spawner ---------------------------

// c17R5: maps are reference values: `go f(m)` (or a closure capturing m) gives the goroutine the
// same table the spawner holds.  For every go statement that passes or captures a map-typed
// local, the accesses through it in the goroutine (following it into module callees by
// parameter position) and the accesses of the spawning function that can execute after the
// go statement (inside the fork-join window for joined goroutines) must not include a write on
// either side.  Locals are invisible to R1, which works on struct fields.
func c17R5(p *Prog, r *Report, e *RaceEngine) {
	type use struct {
		write bool
		at    ssa.Instruction
	}
	var usesOf func(fn *ssa.Function, v ssa.Value, depth int, seen map[ssa.Value]bool) []use
	usesOf = func(fn *ssa.Function, v ssa.Value, depth int, seen map[ssa.Value]bool) []use {
		var out []use
		if seen[v] || depth > 4 {
			return nil
		}
		seen[v] = true
		for _, ref := range *v.Referrers() {
			switch x := ref.(type) {
			case *ssa.MapUpdate:
				if x.Map == v {
					out = append(out, use{true, x})
				}
			case *ssa.Lookup:
				if x.X == v {
					out = append(out, use{false, x})
				}
			case *ssa.Range:
				out = append(out, use{false, x})
			case ssa.CallInstruction:
				cc := x.Common()
				if b, ok := cc.Value.(*ssa.Builtin); ok {
					if b.Name() == "delete" && len(cc.Args) > 0 && cc.Args[0] == v {
						out = append(out, use{true, x})
					}
					continue
				}
				if _, isGo := x.(*ssa.Go); isGo {
					continue
				}
				if callee := cc.StaticCallee(); callee != nil && callee.Blocks != nil && inModule(callee) {
					for i, a := range cc.Args {
						if a == v && i < len(callee.Params) {
							for _, u := range usesOf(callee, callee.Params[i], depth+1, seen) {
								out = append(out, use{u.write, x})
							}
						}
					}
				}
			}
		}
		return out
	}
	n := 0
	for _, ro := range e.Roles {
		if ro.Go == nil {
			continue
		}
		// map values given to the goroutine: arguments and captured variables
		type handed struct {
			inSpawner ssa.Value // the value (or the captured cell) in the spawning function
			inCallee  ssa.Value
			callee    *ssa.Function
		}
		var hs []handed
		if callee := ro.Go.Call.StaticCallee(); callee != nil {
			for i, a := range ro.Go.Call.Args {
				if _, isMap := a.Type().Underlying().(*types.Map); isMap && i < len(callee.Params) {
					hs = append(hs, handed{a, callee.Params[i], callee})
				}
			}
		}
		if mc, ok := ro.Go.Call.Value.(*ssa.MakeClosure); ok {
			if cl, _ := mc.Fn.(*ssa.Function); cl != nil {
				for i, b := range mc.Bindings {
					if i >= len(cl.FreeVars) {
						continue
					}
					if _, isMap := derefType(b.Type()).Underlying().(*types.Map); isMap {
						hs = append(hs, handed{b, cl.FreeVars[i], cl})
					}
				}
			}
		}
		for _, h := range hs {
			n++
			r.Fn(FuncName(ro.In))
			// goroutine side
			var gUses []use
			cv := h.inCallee
			if _, isCell := cv.Type().Underlying().(*types.Pointer); isCell {
				for _, ref := range *cv.Referrers() {
					if ld, ok := ref.(*ssa.UnOp); ok && ld.Op == token.MUL {
						gUses = append(gUses, usesOf(h.callee, ld, 0, map[ssa.Value]bool{})...)
					}
				}
			} else {
				gUses = usesOf(h.callee, cv, 0, map[ssa.Value]bool{})
			}
			// spawner side, after the go statement
			win := e.window[ro.Go]
			var sUses []use
			sv := h.inSpawner
			var cands []use
			if _, isCell := sv.Type().Underlying().(*types.Pointer); isCell {
				for _, ref := range *sv.Referrers() {
					if ld, ok := ref.(*ssa.UnOp); ok && ld.Op == token.MUL {
						cands = append(cands, usesOf(ro.In, ld, 0, map[ssa.Value]bool{})...)
					}
				}
			} else {
				cands = usesOf(ro.In, sv, 0, map[ssa.Value]bool{})
			}
			for _, u := range cands {
				if win[u.at] {
					sUses = append(sUses, u)
				}
			}
			bad := ""
			for _, g := range gUses {
				for _, s := range sUses {
					if (g.write || s.write) && bad == "" {
						bad = fmt.Sprintf("the goroutine uses it at %s (write=%v) while the spawner can still use it at %s (write=%v)", p.InstrPos(g.at), g.write, p.InstrPos(s.at), s.write)
					}
				}
			}
			r.Check(bad == "", "C17.R5", fmt.Sprintf("map handed to goroutine %s by %s #%d", shortRole(ro), FuncName(ro.In), n), p.InstrPos(ro.Go), fmt.Sprintf("%d uses in the goroutine, %d in the spawner after the go statement, no write among concurrent pairs", len(gUses), len(sUses)),
				"a map is shared between the goroutine and the function that started it without synchronisation: "+bad+" (maps are not safe for concurrent use: the runtime can abort with 'concurrent map read and map write')")
		}
	}
	if n == 0 {
		r.Notes = append(r.Notes, "C17.R5: no go statement passes or captures a map-typed local on this tree (the kept variant C17-9 is the positive example in the thorough tier)")
	}
}

// ---- R3b: messages sent by value do not share a backing array the sender keeps writing ----------

// c17R3b: a struct sent on a channel by value still shares whatever its slice, map and pointer
// fields refer to.  When such a reference was made before the send and is not made afresh on the
// way back to the next send, any later write through it (in the sender, or in a helper that is
// handed the reference or the struct it sits in) reaches memory the receiver may still be
// reading: the send orders nothing after it.  Found by following the sent value back through
// interface boxes, struct locals and their field stores to the references it holds.
func c17R3b(p *Prog, r *Report) {
	isRef := func(t types.Type) bool {
		switch t.Underlying().(type) {
		case *types.Slice, *types.Map, *types.Pointer:
			return true
		}
		return false
	}
	n := map[string]int{}
	for _, fn := range p.LibFuncs() {
		Instrs(fn, func(in ssa.Instruction) {
			snd, ok := in.(*ssa.Send)
			if !ok {
				return
			}
			if _, isStruct := snd.X.Type().Underlying().(*types.Struct); !isStruct {
				return
			}
			// references held by the message, and the struct locals whose content went into it
			type held struct {
				ref   ssa.Value
				owner *ssa.Alloc
				field string
			}
			var refs []held
			seen := map[ssa.Value]bool{}
			var collect func(v ssa.Value, d int)
			collect = func(v ssa.Value, d int) {
				if v == nil || seen[v] || d > 6 {
					return
				}
				seen[v] = true
				switch x := v.(type) {
				case *ssa.MakeInterface:
					collect(x.X, d+1)
				case *ssa.UnOp:
					if x.Op != token.MUL {
						return
					}
					al, ok := x.X.(*ssa.Alloc)
					if !ok {
						return
					}
					if _, isStruct := x.Type().Underlying().(*types.Struct); !isStruct {
						return
					}
					for _, ref := range *al.Referrers() {
						fa, ok := ref.(*ssa.FieldAddr)
						if !ok {
							continue
						}
						fname := derefStruct(fa.X.Type()).Field(fa.Field).Name()
						for _, r2 := range *fa.Referrers() {
							st, ok := r2.(*ssa.Store)
							if !ok || st.Addr != ssa.Value(fa) {
								continue
							}
							if isRef(st.Val.Type()) {
								if _, isC := st.Val.(*ssa.Const); !isC {
									refs = append(refs, held{st.Val, al, fname})
								}
							} else {
								collect(st.Val, d+1)
							}
						}
					}
				}
			}
			collect(snd.X, 0)
			if len(refs) == 0 {
				return
			}
			r.Fn(FuncName(fn))
			base := "message of " + typeName(snd.X.Type()) + " sent in " + FuncName(fn)
			n[base]++
			key := fmt.Sprintf("%s #%d shares no reference the sender writes through afterwards", base, n[base])
			bad := ""
			for _, h := range refs {
				def, _ := h.ref.(ssa.Instruction)
				hits := ReachAvoiding(fn, in, func(x ssa.Instruction) bool { return def != nil && x == def }, func(x ssa.Instruction) bool {
					switch y := x.(type) {
					case *ssa.Store:
						// through the reference itself, or through the field of the struct local that holds it
						if reachesValue(y.Addr, h.ref) {
							return true
						}
						return throughRefField(y.Addr, h.owner, h.field)
					case *ssa.Call:
						g := y.Call.StaticCallee()
						if g == nil || !isModuleFn(g) || g.Blocks == nil || len(g.Params) != len(y.Call.Args) {
							return false
						}
						for k, a := range y.Call.Args {
							if a == h.ref || a == ssa.Value(h.owner) {
								if writesThroughRefOf(g, k, a == h.ref, h.field) {
									return true
								}
							}
						}
					}
					return false
				})
				if len(hits) > 0 && bad == "" {
					bad = fmt.Sprintf("the %s held in field %s of the message was made at %s, before this send, and is written through again at %s without being made afresh: successive messages share one backing store, which the receiving goroutine reads while the sender overwrites it", strings.TrimPrefix(fmt.Sprintf("%T", h.ref.Type().Underlying()), "*types."), h.field, p.InstrPos(def), p.InstrPos(hits[0]))
				}
			}
			r.Check(bad == "", "C17.R3b", key, p.InstrPos(in), fmt.Sprintf("%d reference(s) held; none written through after the send without being re-made", len(refs)), bad)
		})
	}
}

// throughRefField: addr goes through a load of owner.field (the reference kept in a struct local).
func throughRefField(addr ssa.Value, owner *ssa.Alloc, field string) bool {
	for i := 0; i < 16; i++ {
		switch x := addr.(type) {
		case *ssa.FieldAddr:
			addr = x.X
		case *ssa.IndexAddr:
			addr = x.X
		case *ssa.Slice:
			addr = x.X
		case *ssa.UnOp:
			if fa, ok := x.X.(*ssa.FieldAddr); ok && fa.X == ssa.Value(owner) && derefStruct(fa.X.Type()).Field(fa.Field).Name() == field {
				return true
			}
			addr = x.X
		default:
			return false
		}
	}
	return false
}

// writesThroughRefOf: g stores through its k-th parameter: through the parameter itself when it is
// the reference (direct), or through a load of the named reference field of the struct it points to.
func writesThroughRefOf(g *ssa.Function, k int, direct bool, field string) bool {
	prm := g.Params[k]
	found := false
	Instrs(g, func(in ssa.Instruction) {
		st, ok := in.(*ssa.Store)
		if !ok || found {
			return
		}
		addr := st.Addr
		for i := 0; i < 16; i++ {
			if direct && addr == ssa.Value(prm) && addr != st.Addr {
				found = true
				return
			}
			switch x := addr.(type) {
			case *ssa.FieldAddr:
				addr = x.X
			case *ssa.IndexAddr:
				addr = x.X
			case *ssa.Slice:
				addr = x.X
			case *ssa.UnOp:
				if fa, ok := x.X.(*ssa.FieldAddr); ok && !direct && fa.X == ssa.Value(prm) && derefStruct(fa.X.Type()).Field(fa.Field).Name() == field {
					found = true
					return
				}
				addr = x.X
			default:
				return
			}
		}
	})
	return found
}

func joinElsewhere(rs ...*Role) *Role {
	for _, r := range rs {
		if r != nil && r.JoinElsewhere {
			return r
		}
	}
	return nil
}

// c17IndexShares: the goroutines of the family are started with an integer that differs per
// instance (derived from the loop variable of the loop that starts them) and index containers
// with values computed from it.
func c17IndexShares(r *Role) bool {
	if r == nil || r.Go == nil || !r.Multi {
		return false
	}
	var cl *ssa.Function
	if mc, ok := r.Go.Call.Value.(*ssa.MakeClosure); ok {
		cl, _ = mc.Fn.(*ssa.Function)
	} else {
		cl = r.Go.Call.StaticCallee()
	}
	if cl == nil || len(cl.Params) != len(r.Go.Call.Args) {
		return false
	}
	induction := func(v ssa.Value) bool {
		for i := 0; i < 5; i++ {
			switch x := v.(type) {
			case *ssa.Phi:
				return true
			case *ssa.BinOp:
				if _, isPhi := x.X.(*ssa.Phi); isPhi {
					return true
				}
				if _, isPhi := x.Y.(*ssa.Phi); isPhi {
					return true
				}
				v = x.X
			case *ssa.Convert:
				v = x.X
			default:
				return false
			}
		}
		return false
	}
	for i, q := range cl.Params {
		if !isIntLike(q.Type()) || !induction(r.Go.Call.Args[i]) {
			continue
		}
		uses := false
		Instrs(cl, func(in ssa.Instruction) {
			ia, ok := in.(*ssa.IndexAddr)
			if !ok || uses {
				return
			}
			if stripConv(ia.Index) != ssa.Value(q) && dependsOn(ia.Index, q) {
				uses = true // computed from the argument (the argument itself as index: see partitionTypes)
			}
		})
		if uses {
			return true
		}
	}
	return false
}
