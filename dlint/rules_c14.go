package main

import (
	"fmt"
	"go/token"
	"go/types"
	"regexp"
	"sort"
	"strconv"
	"strings"

	"golang.org/x/tools/go/ssa"
)

func init() {
	register(&RuleSet{
		Property: "C14",
		Explanation: "Decides the layout clauses of the published record and summary messages for every record: " +
			"(R1) the header built by each message builder is the sequence of (offset, width, integer/float) slots listed in doc/BINARY_FORMATS.md (the table is parsed from the document on every run: 36 bytes for records, 48 for summaries); " +
			"(R2) each slot carries exactly the documented quantity: the plain record field (through conversions only — no arithmetic, no helper that could alter the value), the constant version 0, and the type code 2/3 selected by the signedness flag; the same time and frame expressions in both builders; " +
			"(R3) the message has exactly two frames: the header bytes of a buffer allocated in that call and used for nothing else (not pooled, not shared), and the byte view of the record's whole sample slice / whole coefficient slice as float64; the first write is the 2-byte channel index; " +
			"(R4) the publishing goroutine sends exactly the builder's result, and each port is started with its own builder; " +
			"(R5) the byte-view helpers return exactly sizeof(T) bytes of the value (scalars) and len*sizeof(elem) bytes of the slice's own memory. " +
			"Does not decide: end-to-end receipt on a SUB socket; host byte order (little-endian host assumed).",
		RuleDocs: []string{
			"C14.R1 E7 serialisation layout: ordered writes to the header buffer vs the table parsed from doc/BINARY_FORMATS.md",
			"C14.R2 slot provenance: value of each write traced through conversions to a record field / len / UnixNano / constant / flag-selected constants",
			"C14.R3 frames: two-element slice literal, fresh unshared header buffer, whole-slice byte views",
			"C14.R4 publisher goroutine sends the converter's result; call sites of the socket starter pair port and builder",
			"C14.R5 byte-view helpers: length of the returned slice",
		},
		Assumptions: []string{"little-endian host (getbytes reinterprets memory)", "bytes.Buffer.Write appends its argument and never fails"},
		Run:         runC14,
	})
}

type docSlot struct {
	off, size int
	desc      string
	float     bool
}

var slotRe = regexp.MustCompile(`^\* Byte (\d+) \((\d+) bytes?\):\s*(.*)$`)

// parseBinaryFormats returns the slot tables of the document, in order of appearance.
func parseBinaryFormats(src string) [][]docSlot {
	var tables [][]docSlot
	var cur []docSlot
	for _, line := range strings.Split(src, "\n") {
		line = strings.TrimSpace(line)
		m := slotRe.FindStringSubmatch(line)
		if m == nil {
			if len(cur) > 0 && (strings.HasPrefix(line, "#") || strings.HasPrefix(line, "Because")) {
				tables = append(tables, cur)
				cur = nil
			}
			continue
		}
		off, _ := strconv.Atoi(m[1])
		size, _ := strconv.Atoi(m[2])
		cur = append(cur, docSlot{off, size, m[3], strings.Contains(m[3], "(float)")})
	}
	if len(cur) > 0 {
		tables = append(tables, cur)
	}
	return tables
}

// codeSlot is one write into the header buffer.
type codeSlot struct {
	off, size int
	float     bool
	prov      string // provenance of the value
	plain     bool   // value is a plain field / constant (conversions only)
	instr     ssa.Instruction
}

// provRes: while a header-writing helper is analysed for one of its calls, the result of the
// conditional constant propagation for that call (which blocks and phi inputs can run).
var provRes *sccpResult

// provenance describes v as "field X", "len(field X)", "field X.UnixNano()", "const c",
// "flag F ? a : b"; plain=false if anything else is involved.
func provenance(v ssa.Value, recv ssa.Value) (string, bool) {
	switch x := v.(type) {
	case *ssa.Const:
		if x.Value == nil {
			return "nil", true
		}
		return "const " + x.Value.ExactString(), true
	case *ssa.Convert:
		return provenance(x.X, recv)
	case *ssa.ChangeType:
		return provenance(x.X, recv)
	case *ssa.UnOp:
		if x.Op == token.MUL {
			if fa, ok := x.X.(*ssa.FieldAddr); ok && fa.X == recv {
				st := derefStruct(fa.X.Type())
				return "field " + st.Field(fa.Field).Name(), true
			}
		}
	case *ssa.Call:
		if b, ok := x.Call.Value.(*ssa.Builtin); ok && b.Name() == "len" {
			p, plain := provenance(x.Call.Args[0], recv)
			return "len(" + p + ")", plain
		}
		if CalleeName(&x.Call) == "(time.Time).UnixNano" {
			p, plain := provenance(x.Call.Args[0], recv)
			return p + ".UnixNano()", plain
		}
		// a small helper method of the record itself: look through it (one return, same receiver)
		if c := x.Call.StaticCallee(); c != nil && c.Blocks != nil && len(c.Blocks) == 1 && len(c.Params) == 1 && len(x.Call.Args) == 1 && x.Call.Args[0] == recv {
			if ret, ok := c.Blocks[0].Instrs[len(c.Blocks[0].Instrs)-1].(*ssa.Return); ok && len(ret.Results) == 1 {
				return provenance(ret.Results[0], c.Params[0])
			}
		}
		// a module helper that returns one of two constants according to one of its parameters
		if c := x.Call.StaticCallee(); isModuleFn(c) && len(c.Params) == len(x.Call.Args) {
			var rets []*ssa.Return
			Instrs(c, func(in ssa.Instruction) {
				if ret, ok := in.(*ssa.Return); ok {
					rets = append(rets, ret)
				}
			})
			if len(rets) == 1 && len(rets[0].Results) == 1 {
				if ph, ok := rets[0].Results[0].(*ssa.Phi); ok {
					if s, plain := provenance(ph, nil); strings.HasPrefix(s, "select by ") {
						return substParams(s, c, x, recv), plain && paramsPlain(c, x, recv)
					}
				}
			}
			if len(rets) == 2 && len(rets[0].Results) == 1 && len(rets[1].Results) == 1 {
				// if P { return A }; return B
				for k := 0; k < 2; k++ {
					for _, ci := range controllingIfs(rets[k].Block()) {
						if other := controllingIfs(rets[1-k].Block()); len(other) > 1 {
							continue
						}
						var tv, fv ssa.Value = rets[k].Results[0], rets[1-k].Results[0]
						if ci.Branch == 1 {
							tv, fv = fv, tv
						}
						s, plain := selectForm(ci.If.Cond, tv, fv, nil)
						return substParams(s, c, x, recv), plain && paramsPlain(c, x, recv)
					}
				}
			}
		}
		return "result of " + shortName(CalleeName(&x.Call)), false
	case *ssa.Phi:
		// inside a helper analysed for one call (constant arguments): only the ways in that can run
		if provRes != nil && provRes.fn == x.Parent() {
			var live []int
			for i := range x.Edges {
				if provRes.EdgeExecutable(x.Block().Preds[i], x.Block()) {
					live = append(live, i)
				}
			}
			if len(live) == 1 {
				return provenance(x.Edges[live[0]], recv)
			}
			if len(live) == 2 && len(x.Edges) > 2 {
				// the test that tells the two remaining ways apart
				for _, i := range live {
					for b := x.Block().Preds[i]; b != nil; b = b.Idom() {
						iff, ok := b.Instrs[len(b.Instrs)-1].(*ssa.If)
						if !ok {
							continue
						}
						k0 := branchOf(iff, x.Block().Preds[live[0]], x.Block())
						k1 := branchOf(iff, x.Block().Preds[live[1]], x.Block())
						if k0 >= 0 && k1 >= 0 && k0 != k1 {
							tv, fv := x.Edges[live[0]], x.Edges[live[1]]
							if k0 == 1 {
								tv, fv = fv, tv
							}
							return selectForm(iff.Cond, tv, fv, recv)
						}
					}
				}
			}
		}
		// constants selected by a flag of the record: "select by F: true -> A, false -> B"
		if len(x.Edges) == 2 {
			if idom := x.Block().Idom(); idom != nil {
				if iff, ok := idom.Instrs[len(idom.Instrs)-1].(*ssa.If); ok {
					var tv, fv ssa.Value
					for i, e := range x.Edges {
						switch branchOf(iff, x.Block().Preds[i], x.Block()) {
						case 0:
							tv = e
						case 1:
							fv = e
						}
					}
					if tv != nil && fv != nil {
						return selectForm(iff.Cond, tv, fv, recv)
					}
				}
			}
		}
		return "value " + v.Name(), false
	case *ssa.BinOp:
		a, _ := provenance(x.X, recv)
		b, _ := provenance(x.Y, recv)
		return "(" + a + " " + x.Op.String() + " " + b + ")", false
	}
	return "value " + v.Name(), false
}

// branchOf: which branch of iff (0 true, 1 false) the edge pred -> blk lies on; -1 when unknown.
func branchOf(iff *ssa.If, pred, blk *ssa.BasicBlock) int {
	b := iff.Block()
	for k := 0; k < 2; k++ {
		s := b.Succs[k]
		if pred == b && s == blk {
			return k
		}
		if len(s.Preds) == 1 && (s == pred || s.Dominates(pred)) {
			return k
		}
	}
	return -1
}

// selectForm renders a two-way choice canonically, whatever way the code spells it.
func selectForm(cond, tv, fv ssa.Value, recv ssa.Value) (string, bool) {
	if u, ok := cond.(*ssa.UnOp); ok && u.Op == token.NOT {
		cond, tv, fv = u.X, fv, tv
	}
	flag, fplain := provenance(cond, recv)
	if prm, ok := cond.(*ssa.Parameter); ok {
		flag, fplain = "param "+prm.Name(), true
	}
	a, _ := provenance(tv, recv)
	b, _ := provenance(fv, recv)
	_, c1 := tv.(*ssa.Const)
	_, c2 := fv.(*ssa.Const)
	return "select by " + flag + ": true -> " + a + ", false -> " + b, c1 && c2 && fplain && (strings.HasPrefix(flag, "field ") || strings.HasPrefix(flag, "param "))
}

// substParams replaces "param x" in a description made inside callee c by what the call passes.
func substParams(s string, c *ssa.Function, call *ssa.Call, recv ssa.Value) string {
	for i, prm := range c.Params {
		a, _ := provenance(call.Call.Args[i], recv)
		s = strings.ReplaceAll(s, "param "+prm.Name()+":", a+":")
	}
	return s
}

func paramsPlain(c *ssa.Function, call *ssa.Call, recv ssa.Value) bool {
	for i := range c.Params {
		if _, plain := provenance(call.Call.Args[i], recv); !plain {
			return false
		}
	}
	return true
}

// headerWrites extracts the ordered writes to the header buffer of a message builder.
func headerWrites(p *Prog, fn *ssa.Function) (buf ssa.Value, slots []codeSlot, problems []string) {
	return headerWritesIn(p, fn, nil, nil, nil, 0)
}

// recordParam: the parameter of fn that is the record (a *DataRecord), or its first parameter.
func recordParam(fn *ssa.Function) ssa.Value {
	for _, prm := range fn.Params {
		if typeName(prm.Type()) == "DataRecord" {
			return prm
		}
	}
	if len(fn.Params) > 0 {
		return fn.Params[0]
	}
	return nil
}

// headerWritesIn: the writes fn makes to the header buffer, in order.  In a helper (bufPrm set) the
// buffer is that parameter, only the blocks that can run for this call (res) count, and values are
// described relative to the helper's own record parameter.  Calls of module helpers that are
// handed the buffer are expanded in place, each analysed for the constants that call passes.
func headerWritesIn(p *Prog, fn *ssa.Function, bufPrm ssa.Value, res *sccpResult, _ ssa.Value, depth int) (buf ssa.Value, slots []codeSlot, problems []string) {
	sizes := types.SizesFor("gc", "amd64")
	rec := recordParam(fn)
	var writes []*ssa.Call
	helperAt := map[*ssa.Call]int{} // helper call -> index of the buffer among its arguments
	isBuf := func(v ssa.Value) bool {
		if bufPrm != nil {
			return v == bufPrm
		}
		return true
	}
	Instrs(fn, func(in ssa.Instruction) {
		call, ok := in.(*ssa.Call)
		if !ok || (res != nil && !res.Executable(in)) {
			return
		}
		if IsCallTo(in, "(*bytes.Buffer).Write") {
			if a := methodArgs(&call.Call); len(a) > 0 && isBuf(a[0]) {
				writes = append(writes, call)
			}
			return
		}
		if g := call.Call.StaticCallee(); g != nil && isModuleFn(g) && g.Blocks != nil && depth < 2 && len(g.Params) == len(call.Call.Args) {
			for k, a := range call.Call.Args {
				if strings.HasSuffix(a.Type().String(), "bytes.Buffer") && isBuf(a) {
					// only helpers that write to it
					has := false
					Instrs(g, func(y ssa.Instruction) {
						if IsCallTo(y, "(*bytes.Buffer).Write") {
							has = true
						}
					})
					if has {
						writes = append(writes, call)
						helperAt[call] = k
					}
				}
			}
		}
	})
	if len(writes) == 0 {
		// the other common form: a byte slice of fixed length filled with
		// binary.LittleEndian.PutUintNN(hdr[off:], v) at constant offsets
		if b, sl, pr := headerPuts(p, fn); b != nil {
			return b, sl, pr
		}
		// or a struct declared in wire order and packed by one binary.Write
		if b, sl, pr := headerStruct(p, fn, rec); b != nil {
			return b, sl, pr
		}
		// or a byte slice grown by append(header, getbytes.FromX(v)...)
		if L := recordLayout(fn); L.unknown == "" && len(L.slots) > 0 && L.host == fn && L.final != nil {
			off := 0
			for _, s := range L.slots {
				if s.varlen {
					L.problems = append(L.problems, "a variable-length part is appended to the header")
					continue
				}
				prov, plain := provenance(s.val, rec)
				slots = append(slots, codeSlot{off, s.size, s.float, prov, plain, s.instr})
				off += s.size
			}
			return L.final, slots, L.problems
		}
		return nil, nil, []string{"no write to a bytes.Buffer found"}
	}
	if k, isHelper := helperAt[writes[0]]; isHelper {
		buf = writes[0].Call.Args[k]
	} else {
		buf = methodArgs(&writes[0].Call)[0]
	}
	off := 0
	var prevAnchor ssa.Instruction
	for i, w := range writes {
		if k, isHelper := helperAt[w]; isHelper {
			if w.Call.Args[k] != buf {
				problems = append(problems, fmt.Sprintf("write #%d goes to a different buffer", i+1))
				continue
			}
			if prevAnchor != nil && !InstrDominates(prevAnchor, w) {
				problems = append(problems, fmt.Sprintf("write #%d is not on every path after write #%d (layout depends on the path)", i+1, i))
			}
			prevAnchor = w
			g := w.Call.StaticCallee()
			env := map[ssa.Value]lat{}
			for j, a := range w.Call.Args {
				if c, isC := a.(*ssa.Const); isC && c.Value != nil {
					if l := (&sccpResult{}).Get(c); l.isConst() {
						env[g.Params[j]] = l
					}
				} else if res != nil {
					if l := res.Get(a); l.isConst() && l.c != nil {
						env[g.Params[j]] = l
					}
				}
			}
			gres := sccp(g, env)
			saved := provRes
			provRes = gres
			_, sub, subProblems := headerWritesIn(p, g, g.Params[k], gres, nil, depth+1)
			provRes = saved
			// the helper must be given this function's record
			grec := recordParam(g)
			sameRec := false
			for j, a := range w.Call.Args {
				if g.Params[j] == grec && a == rec {
					sameRec = true
				}
			}
			if !sameRec && len(sub) > 0 {
				problems = append(problems, fmt.Sprintf("the header-writing helper %s is not handed this message's record", FuncName(g)))
			}
			problems = append(problems, subProblems...)
			for _, sl := range sub {
				sl.off += off
				sl.instr = w
				slots = append(slots, sl)
			}
			if len(sub) > 0 {
				off = slots[len(slots)-1].off + slots[len(slots)-1].size
			}
			continue
		}
		wargs := methodArgs(&w.Call)
		if len(wargs) < 2 || wargs[0] != buf {
			problems = append(problems, fmt.Sprintf("write #%d goes to a different buffer", i+1))
			continue
		}
		arg := wargs[1]
		gb, ok := arg.(*ssa.Call)
		if !ok && InLoop(w) {
			// a table of views written in a loop: one write per element of a slice / array literal
			if views, hdr := unrollArrayLoop(w, arg); views != nil {
				okAll := true
				for _, vv := range views {
					g2, isCall := vv.(*ssa.Call)
					if !isCall || g2.Call.StaticCallee() == nil || fnPkg(g2.Call.StaticCallee()) == nil || !strings.HasSuffix(fnPkg(g2.Call.StaticCallee()).Path(), "/getbytes") {
						okAll = false
					}
				}
				if okAll {
					if prevAnchor != nil && !InstrDominates(prevAnchor, hdr) {
						problems = append(problems, fmt.Sprintf("write #%d is not on every path after write #%d (layout depends on the path)", i+1, i))
					}
					prevAnchor = hdr
					for _, vv := range views {
						g2 := vv.(*ssa.Call)
						pt := g2.Call.StaticCallee().Signature.Params().At(0).Type()
						size := int(sizes.Sizeof(pt))
						isFloat := false
						if b, okb := pt.Underlying().(*types.Basic); okb && b.Info()&types.IsFloat != 0 {
							isFloat = true
						}
						prov, plain := provenance(g2.Call.Args[0], rec)
						slots = append(slots, codeSlot{off, size, isFloat, prov, plain, w})
						off += size
					}
					continue
				}
			}
		}
		if !ok || gb.Call.StaticCallee() == nil || fnPkg(gb.Call.StaticCallee()) == nil || !strings.HasSuffix(fnPkg(gb.Call.StaticCallee()).Path(), "/getbytes") {
			problems = append(problems, fmt.Sprintf("write #%d does not take its bytes from a getbytes scalar view", i+1))
			continue
		}
		// one write per element of a local array of constant length, in a loop over the whole
		// array: the same as that many consecutive writes of the values stored in the array
		vals := []ssa.Value{gb.Call.Args[0]}
		var anchor ssa.Instruction = w
		if InLoop(w) {
			elems, hdr := unrollArrayLoop(w, gb.Call.Args[0])
			if elems == nil {
				problems = append(problems, fmt.Sprintf("write #%d is inside a loop", i+1))
			} else {
				vals = elems
				anchor = hdr
			}
		}
		// straight-line: every write dominates the next
		if prevAnchor != nil && !InstrDominates(prevAnchor, anchor) {
			problems = append(problems, fmt.Sprintf("write #%d is not on every path after write #%d (layout depends on the path)", i+1, i))
		}
		prevAnchor = anchor
		callee := gb.Call.StaticCallee()
		pt := callee.Signature.Params().At(0).Type()
		size := int(sizes.Sizeof(pt))
		isFloat := false
		if b, ok := pt.Underlying().(*types.Basic); ok && b.Info()&types.IsFloat != 0 {
			isFloat = true
		}
		for _, v := range vals {
			prov, plain := provenance(v, rec)
			slots = append(slots, codeSlot{off, size, isFloat, prov, plain, w})
			off += size
		}
	}
	return buf, slots, problems
}

// unrollArrayLoop: the write w sits in a loop that visits every element of a local array of
// constant length N in index order and writes (a conversion of) the current element, v.  Returns
// the N values stored into the array before the loop, in index order, and the loop's branch.
func unrollArrayLoop(w *ssa.Call, v ssa.Value) ([]ssa.Value, ssa.Instruction) {
	for {
		if c, ok := v.(*ssa.Convert); ok {
			v = c.X
			continue
		}
		if c, ok := v.(*ssa.ChangeType); ok {
			v = c.X
			continue
		}
		break
	}
	var arr *ssa.Alloc
	var idx ssa.Value
	var snapshot ssa.Instruction // the load of the whole array (range over an array value)
	var sliceOf *ssa.Slice       // the slice literal built on the array
	switch x := v.(type) {
	case *ssa.Index:
		if ld, ok := x.X.(*ssa.UnOp); ok && ld.Op == token.MUL {
			arr, _ = ld.X.(*ssa.Alloc)
			snapshot = ld
		}
		idx = x.Index
	case *ssa.UnOp:
		if ia, ok := x.X.(*ssa.IndexAddr); ok && x.Op == token.MUL {
			arr, _ = ia.X.(*ssa.Alloc)
			idx = ia.Index
			// a slice literal: the whole of a fresh array, s := arr[:]
			if sl, isSl := ia.X.(*ssa.Slice); isSl && sl.Low == nil && sl.High == nil {
				arr, _ = sl.X.(*ssa.Alloc)
				sliceOf = sl
			}
		}
	}
	if arr == nil || idx == nil {
		return nil, nil
	}
	at, ok := arr.Type().Underlying().(*types.Pointer).Elem().Underlying().(*types.Array)
	if !ok {
		return nil, nil
	}
	n := at.Len()
	// the loop header: idx (or the phi it is derived from) is defined there; it ends in `idx < N`
	idxInstr, ok := idx.(ssa.Instruction)
	if !ok {
		return nil, nil
	}
	hdr := idxInstr.Block()
	iff, ok := hdr.Instrs[len(hdr.Instrs)-1].(*ssa.If)
	if !ok {
		return nil, nil
	}
	cmp, ok := iff.Cond.(*ssa.BinOp)
	if !ok || cmp.Op != token.LSS || cmp.X != idx {
		return nil, nil
	}
	if lim, isC := constInt(cmp.Y); !isC || lim != n {
		// len(slice literal) of the same array
		okLen := false
		if lc, isCall := cmp.Y.(*ssa.Call); isCall && sliceOf != nil {
			if b, isB := lc.Call.Value.(*ssa.Builtin); isB && b.Name() == "len" && lc.Call.Args[0] == ssa.Value(sliceOf) {
				okLen = true
			}
		}
		if !okLen {
			return nil, nil
		}
	}
	// index runs 0,1,2,...: phi [0, idx+1] tested directly, or phi [-1, next] with next = phi+1 tested
	startsAtZero := false
	switch x := idx.(type) {
	case *ssa.Phi:
		if len(x.Edges) == 2 {
			for k, e := range x.Edges {
				if c, isC := constInt(e); isC && c == 0 {
					if inc, ok := x.Edges[1-k].(*ssa.BinOp); ok && inc.Op == token.ADD && inc.X == ssa.Value(x) {
						if one, isC := constInt(inc.Y); isC && one == 1 {
							startsAtZero = true
						}
					}
				}
			}
		}
	case *ssa.BinOp:
		if phi, ok := x.X.(*ssa.Phi); ok && x.Op == token.ADD && phi.Block() == hdr && len(phi.Edges) == 2 {
			if one, isC := constInt(x.Y); isC && one == 1 {
				for k, e := range phi.Edges {
					if c, isC := constInt(e); isC && c == -1 && phi.Edges[1-k] == ssa.Value(x) {
						startsAtZero = true
					}
				}
			}
		}
	}
	if !startsAtZero {
		return nil, nil
	}
	// the write runs once in every iteration: its block is inside the loop body and dominates
	// every back edge; no other exit from the loop than the header's test
	body := iff.Block().Succs[0]
	if !(body == w.Block() || body.Dominates(w.Block())) {
		return nil, nil
	}
	for _, b := range hdr.Parent().Blocks {
		if !(b == body || body.Dominates(b)) {
			continue
		}
		for _, s := range b.Succs {
			if s == hdr {
				if !(w.Block() == b || w.Block().Dominates(b)) {
					return nil, nil
				}
			} else if !(s == body || body.Dominates(s)) {
				return nil, nil // leaves the loop from the body (break / return)
			}
		}
	}
	// the elements: exactly one store per constant index, each before the loop (and before the
	// snapshot load, if the loop ranges over a copy); no other use of the array
	elems := make([]ssa.Value, n)
	for _, ref := range *arr.Referrers() {
		switch x := ref.(type) {
		case *ssa.IndexAddr:
			if x.Index == idx {
				continue
			}
			k, isC := constInt(x.Index)
			if !isC || k < 0 || k >= n {
				return nil, nil
			}
			for _, r2 := range *x.Referrers() {
				st, ok := r2.(*ssa.Store)
				if !ok || st.Addr != ssa.Value(x) || elems[k] != nil {
					return nil, nil
				}
				before := InstrDominates(st, iff)
				if snapshot != nil {
					before = InstrDominates(st, snapshot)
				}
				if !before {
					return nil, nil
				}
				elems[k] = st.Val
			}
		case *ssa.UnOp:
			if ssa.Instruction(x) != snapshot {
				return nil, nil
			}
		case *ssa.Slice:
			// the slice literal itself: used only to be ranged over (len, element reads by the loop index)
			if x != sliceOf {
				return nil, nil
			}
			for _, r2 := range *x.Referrers() {
				switch y := r2.(type) {
				case *ssa.IndexAddr:
					if y.Index != idx {
						return nil, nil
					}
				case *ssa.Call:
					if b, isB := y.Call.Value.(*ssa.Builtin); !isB || b.Name() != "len" {
						return nil, nil
					}
				case *ssa.DebugRef:
				default:
					return nil, nil
				}
			}
		case *ssa.DebugRef:
		default:
			return nil, nil
		}
	}
	for _, e := range elems {
		if e == nil {
			return nil, nil
		}
	}
	return elems, iff
}

// headerStruct extracts the layout of a header that is a local struct, declared in wire order,
// written with a single encoding/binary.Write(buf, binary.LittleEndian, &hdr): binary.Write packs
// the fields in declaration order without padding.  A field's value is what is assigned to it: the
// one assignment, or a choice between an assignment under a test and the one before it; a field
// that is never assigned is zero.
func headerStruct(p *Prog, fn *ssa.Function, recv ssa.Value) (buf ssa.Value, slots []codeSlot, problems []string) {
	var w *ssa.Call
	Instrs(fn, func(in ssa.Instruction) {
		if c, ok := in.(*ssa.Call); ok && IsCallTo(in, "encoding/binary.Write") && len(c.Call.Args) == 3 {
			w = c
		}
	})
	if w == nil {
		return nil, nil, nil
	}
	data := w.Call.Args[2]
	if mi, ok := data.(*ssa.MakeInterface); ok {
		data = mi.X
	}
	var al *ssa.Alloc
	switch x := data.(type) {
	case *ssa.Alloc:
		al = x
	case *ssa.UnOp:
		al, _ = x.X.(*ssa.Alloc)
	}
	if al == nil || derefStruct(al.Type()) == nil {
		return nil, nil, nil
	}
	buf = w.Call.Args[0]
	if mi, ok := buf.(*ssa.MakeInterface); ok {
		buf = mi.X
	}
	if ord, ok := w.Call.Args[1].(*ssa.MakeInterface); ok {
		if ld, ok := ord.X.(*ssa.UnOp); ok {
			if g, ok := ld.X.(*ssa.Global); !ok || g.Name() != "LittleEndian" {
				problems = append(problems, "the header struct is written with a byte order other than binary.LittleEndian at "+p.InstrPos(w))
			}
		}
	}
	if InLoop(w) {
		problems = append(problems, "a header write is inside a loop at "+p.InstrPos(w))
	}
	st := derefStruct(al.Type())
	sizes := types.SizesFor("gc", "amd64")
	off := 0
	for i := 0; i < st.NumFields(); i++ {
		ft := st.Field(i).Type()
		bt, isBasic := ft.Underlying().(*types.Basic)
		if !isBasic {
			problems = append(problems, "the header struct has a field that is not a fixed-size number ("+st.Field(i).Name()+"): the packed layout is not extracted")
			return buf, nil, problems
		}
		size := int(sizes.Sizeof(ft))
		isFloat := bt.Info()&types.IsFloat != 0
		// the assignments to this field that can reach the write
		var sts []*ssa.Store
		for _, ref := range *al.Referrers() {
			fa, ok := ref.(*ssa.FieldAddr)
			if !ok || fa.Field != i {
				continue
			}
			for _, r2 := range *fa.Referrers() {
				if s2, ok := r2.(*ssa.Store); ok && s2.Addr == ssa.Value(fa) && InstrReaches(s2, w) {
					sts = append(sts, s2)
				}
			}
		}
		prov, plain := "const 0 (never assigned)", false
		var at ssa.Instruction = w
		switch len(sts) {
		case 0:
		case 1:
			prov, plain = provenance(sts[0].Val, recv)
			at = sts[0]
		case 2:
			// one assignment on every way, one under a test after it
			a, b := sts[0], sts[1]
			if InstrDominates(b, a) {
				a, b = b, a
			}
			prov, plain = "two assignments", false
			if InstrDominates(a, w) && InstrDominates(a, b) {
				for _, ct := range controllingIfs(b.Block()) {
					tv, fv := b.Val, a.Val
					if ct.Branch == 1 {
						tv, fv = fv, tv
					}
					prov, plain = selectForm(ct.If.Cond, tv, fv, recv)
					break
				}
			}
			at = b
		default:
			prov, plain = "several assignments", false
		}
		// a narrowing conversion below the slot's width loses bytes
		if len(sts) == 1 {
			for cv := sts[0].Val; ; {
				c, ok := cv.(*ssa.Convert)
				if !ok {
					break
				}
				if isIntLike(c.X.Type()) && isIntLike(c.Type()) && intSize(c.Type()) < intSize(c.X.Type()) && intSize(c.Type()) < int64(size) {
					plain = false
				}
				cv = c.X
			}
		}
		slots = append(slots, codeSlot{off, size, isFloat, prov, plain, at})
		off += size
	}
	return buf, slots, problems
}

// headerPuts extracts the layout of a header built in a fixed-length byte slice with
// binary.LittleEndian.PutUint16/32/64 at constant offsets.
func headerPuts(p *Prog, fn *ssa.Function) (buf ssa.Value, slots []codeSlot, problems []string) {
	Instrs(fn, func(in ssa.Instruction) {
		call, ok := in.(*ssa.Call)
		if !ok || call.Call.StaticCallee() == nil {
			return
		}
		name := call.Call.StaticCallee().Name()
		size := map[string]int{"PutUint16": 2, "PutUint32": 4, "PutUint64": 8}[name]
		if size == 0 || !strings.Contains(CalleeName(&call.Call), "encoding/binary") {
			return
		}
		args := call.Call.Args
		dst, val := args[len(args)-2], args[len(args)-1]
		if strings.Contains(CalleeName(&call.Call), "bigEndian") {
			problems = append(problems, "a header field is written big-endian at "+p.InstrPos(in))
		}
		off := 0
		base := dst
		if sl, ok := dst.(*ssa.Slice); ok {
			base = sl.X
			if sl.Low != nil {
				k, isC := constInt(sl.Low)
				if !isC {
					problems = append(problems, "a header field is written at a computed offset at "+p.InstrPos(in))
					return
				}
				off = int(k)
			}
		}
		if buf == nil {
			buf = base
		} else if base != buf {
			problems = append(problems, "header fields are written into different buffers")
		}
		if InLoop(in) {
			problems = append(problems, "a header write is inside a loop at "+p.InstrPos(in))
		}
		// the value: integer conversion of a field, or the bit pattern of a float
		isFloat := false
		v := val
		for i := 0; i < 4; i++ {
			if c, ok := v.(*ssa.Convert); ok {
				v = c.X
				continue
			}
			if c, ok := v.(*ssa.Call); ok && (IsCallTo(c, "math.Float32bits") || IsCallTo(c, "math.Float64bits")) {
				isFloat = true
				v = c.Call.Args[0]
				continue
			}
			break
		}
		// a narrowing conversion on the way changes the quantity
		plainWidth := true
		// (narrowing to the slot's own width is what the slot is; narrower than that loses bytes)
		for cv := val; ; {
			c, ok := cv.(*ssa.Convert)
			if !ok {
				break
			}
			if isIntLike(c.X.Type()) && isIntLike(c.Type()) && intSize(c.Type()) < intSize(c.X.Type()) && intSize(c.Type()) < int64(size) {
				plainWidth = false
			}
			cv = c.X
		}
		prov, plain := provenance(v, fn.Params[0])
		slots = append(slots, codeSlot{off, size, isFloat, prov, plain && plainWidth, in})
	})
	if buf == nil {
		return nil, nil, nil
	}
	// single bytes stored at constant indices: `h[0], h[1] = byte(x), byte(x>>8)` is one
	// little-endian slot of x; a lone byte is a one-byte slot
	type byteSt struct {
		val ssa.Value
		in  ssa.Instruction
	}
	bytesAt := map[int]byteSt{}
	Instrs(fn, func(in ssa.Instruction) {
		st, ok := in.(*ssa.Store)
		if !ok {
			return
		}
		ia, ok := st.Addr.(*ssa.IndexAddr)
		if !ok || ia.X != buf {
			return
		}
		k, isC := constInt(ia.Index)
		if !isC {
			problems = append(problems, "a header byte is written at a computed offset at "+p.InstrPos(in))
			return
		}
		if _, dup := bytesAt[int(k)]; dup || InLoop(in) {
			problems = append(problems, "a header byte is written more than once or inside a loop at "+p.InstrPos(in))
			return
		}
		bytesAt[int(k)] = byteSt{st.Val, in}
	})
	var offs []int
	for o := range bytesAt {
		offs = append(offs, o)
	}
	sort.Ints(offs)
	// byteOf: v = byte(x >> 8*n) (n = 0 without the shift)
	byteOf := func(v ssa.Value) (x ssa.Value, n int, ok bool) {
		c, isC := v.(*ssa.Convert)
		if !isC || !isIntLike(c.X.Type()) || intSize(c.X.Type()) < 2 {
			return nil, 0, false
		}
		if sh, isSh := c.X.(*ssa.BinOp); isSh && sh.Op == token.SHR {
			if k, isK := constInt(sh.Y); isK && k%8 == 0 {
				return sh.X, int(k / 8), true
			}
			return nil, 0, false
		}
		return c.X, 0, true
	}
	used := map[int]bool{}
	for _, o := range offs {
		if used[o] {
			continue
		}
		b0 := bytesAt[o]
		x, n, isPart := byteOf(b0.val)
		size := 1
		if isPart && n == 0 {
			for {
				nb, has := bytesAt[o+size]
				if !has {
					break
				}
				x2, n2, ok2 := byteOf(nb.val)
				same := x2 == x
				if !same && ok2 {
					// no common-subexpression form in SSA: two loads of the same field
					p1, pl1 := provenance(x, fn.Params[0])
					p2, pl2 := provenance(x2, fn.Params[0])
					same = p1 != "" && p1 == p2 && pl1 && pl2
				}
				if !ok2 || !same || n2 != size {
					break
				}
				used[o+size] = true
				size++
			}
		}
		if size > 1 {
			prov, plain := provenance(x, fn.Params[0])
			slots = append(slots, codeSlot{o, size, false, prov, plain, b0.in})
			continue
		}
		prov, plain := provenance(b0.val, fn.Params[0])
		if c, isC := b0.val.(*ssa.Convert); isC && isIntLike(c.X.Type()) && intSize(c.X.Type()) > 1 {
			plain = false // one byte of a wider quantity on its own
		}
		slots = append(slots, codeSlot{o, 1, false, prov, plain, b0.in})
	}
	// a buffer that starts as a copy of a package-level array (preset bytes) and is patched byte by
	// byte: the bytes the Put calls do not write are not extracted
	root := buf
	if sl, ok := root.(*ssa.Slice); ok {
		root = sl.X
	}
	if g, ok := root.(*ssa.Global); ok {
		problems = append(problems, "the header is the package-level array "+g.Name()+": its preset bytes are at offsets not written here (computed offset form)")
	}
	if al, ok := root.(*ssa.Alloc); ok {
		for _, ref := range *al.Referrers() {
			if st, ok := ref.(*ssa.Store); ok && st.Addr == ssa.Value(al) {
				if ld, ok := st.Val.(*ssa.UnOp); ok {
					if g, ok := ld.X.(*ssa.Global); ok {
						problems = append(problems, "the header starts as a copy of the template "+g.Name()+": its preset bytes are at offsets not written here (computed offset form)")
					}
				}
			}
		}
	}
	sort.Slice(slots, func(i, j int) bool { return slots[i].off < slots[j].off })
	return buf, slots, problems
}

// expected provenance per documented description keyword
var slotMeaning = []struct{ key, want string }{
	{"channel number", "field channelIndex"},
	{"header version", "const 0"},
	{"data type code", "select by field signed: true -> const 2, false -> const 3"},
	{"samples before trigger", "field presamples"},
	{"samples in record", "len(field data)"},
	{"sample period", "field sampPeriod"},
	{"volts per arb", "field voltsPerArb"},
	{"trigger time", "field trigTime.UnixNano()"},
	{"trigger frame", "field trigFrame"},
	{"pretrigger mean value", "field pretrigMean"},
	{"peak value", "field peakValue"},
	{"pulse RMS", "field pulseRMS"},
	{"pulse average", "field pulseAverage"},
	{"residual standard deviation", "field residualStdDev"},
}

func runC14(p *Prog, r *Report) {
	r.MinInstances["C14.R1"] = 22
	r.MinInstances["C14.R2"] = 20
	r.MinInstances["C14.R3"] = 8
	r.MinInstances["C14.R4"] = 3
	r.MinInstances["C14.R5"] = 8
	doc, err := p.ReadRepoFile("doc/BINARY_FORMATS.md")
	if err != nil {
		r.Unk("C14.anchor", "doc/BINARY_FORMATS.md", "-", err.Error())
		return
	}
	tables := parseBinaryFormats(string(doc))
	if len(tables) < 2 {
		r.Unk("C14.anchor", "doc tables", "-", fmt.Sprintf("expected two slot tables in doc/BINARY_FORMATS.md, found %d", len(tables)))
		return
	}
	r.Notes = append(r.Notes, "the prose above the summaries table says \"36 bytes\"; the table itself sums to 48 and is what the rule compares with")
	builders := []struct {
		name    string
		table   []docSlot
		payload string // field whose whole slice is the second frame
		view    string
	}{
		{"messageRecords", tables[0], "data", "rawTypeToBytes"},
		{"messageSummaries", tables[1], "modelCoefs", "FromSliceFloat64"},
	}
	var timeProv, frameProv []string
	for _, b := range builders {
		fn := p.Func("", "", b.name)
		if fn == nil {
			r.Unk("C14.anchor", b.name, "-", "message builder not found")
			continue
		}
		r.Fn(FuncName(fn))
		buf, slots, problems := headerWrites(p, fn)
		// a header some of whose fields are written at computed offsets (in a loop) is only partly
		// decided: the fields at constant offsets are compared with the documented slot at the same offset
		partial := false
		var hard []string
		for _, pr := range problems {
			if strings.Contains(pr, "computed offset") || strings.Contains(pr, "inside a loop") {
				partial = true
			} else {
				hard = append(hard, pr)
			}
		}
		for _, pr := range hard {
			r.Bad("C14.R1", b.name+": header construction", p.Pos(fn.Pos()), pr)
		}
		if partial {
			r.Unk("C14.R1", b.name+": header construction", p.Pos(fn.Pos()), "some header fields are written at computed offsets or in a loop: only the fields at constant offsets are compared with the document, the rest of the layout is not decided")
			for _, sl := range slots {
				for _, d := range b.table {
					if d.off != sl.off {
						continue
					}
					key := fmt.Sprintf("%s: slot at byte %d (%s)", b.name, d.off, strings.TrimSpace(strings.Split(d.desc, "(")[0]))
					r.Check(sl.size == d.size && (!d.float || sl.float), "C14.R1", key, p.InstrPos(sl.instr), fmt.Sprintf("%d bytes at offset %d", sl.size, sl.off),
						fmt.Sprintf("the code writes %d bytes (float=%v) at offset %d; the document says %d bytes (float=%v) there", sl.size, sl.float, sl.off, d.size, d.float))
				}
			}
			c14Frames(p, r, fn, buf, b.name, b.payload, b.view)
			continue
		}
		if len(problems) == 0 {
			r.OK("C14.R1", b.name+": header construction", p.Pos(fn.Pos()), "one straight sequence of scalar writes into one buffer")
		}
		// several consecutive writes of zero constants that together fill one documented slot are
		// that slot written as zero (a 16-bit zero is two zero bytes in any byte order)
		for _, d := range b.table {
			for i := 0; i < len(slots); i++ {
				if slots[i].off != d.off || slots[i].size >= d.size {
					continue
				}
				end, j := slots[i].off, i
				allZero := true
				for j < len(slots) && end < d.off+d.size {
					if slots[j].off != end || slots[j].prov != "const 0" || slots[j].float {
						allZero = false
						break
					}
					end += slots[j].size
					j++
				}
				if allZero && end == d.off+d.size && j > i+1 {
					merged := slots[i]
					merged.size = d.size
					slots = append(append(append([]codeSlot{}, slots[:i]...), merged), slots[j:]...)
				}
			}
		}
		// R1 layout
		total := 0
		for _, d := range b.table {
			total = d.off + d.size
		}
		ctotal := 0
		for _, s := range slots {
			ctotal = s.off + s.size
		}
		r.Check(len(slots) == len(b.table) && total == ctotal, "C14.R1", fmt.Sprintf("%s: header has %d slots / %d bytes as documented", b.name, len(b.table), total), p.Pos(fn.Pos()),
			"slot count and total length agree", fmt.Sprintf("the code writes %d slots / %d bytes, the document lists %d slots / %d bytes", len(slots), ctotal, len(b.table), total))
		for i, d := range b.table {
			key := fmt.Sprintf("%s: slot at byte %d (%s)", b.name, d.off, strings.TrimSpace(strings.Split(d.desc, "(")[0]))
			if i >= len(slots) {
				r.Bad("C14.R1", key, p.Pos(fn.Pos()), "no such write in the code")
				continue
			}
			s := slots[i]
			okL := s.off == d.off && s.size == d.size && (!d.float || s.float)
			r.Check(okL, "C14.R1", key, p.InstrPos(s.instr), fmt.Sprintf("%d bytes at offset %d", s.size, s.off),
				fmt.Sprintf("the code writes %d bytes (float=%v) at offset %d; the document says %d bytes (float=%v) at offset %d", s.size, s.float, s.off, d.size, d.float, d.off))
			// R2 provenance
			want := ""
			for _, m := range slotMeaning {
				if strings.Contains(d.desc, m.key) {
					want = m.want
				}
			}
			if want == "" {
				r.Unk("C14.R2", key+" carries the documented quantity", p.InstrPos(s.instr), "the document's description is not in the rule's keyword table")
				continue
			}
			if strings.HasPrefix(want, "const 0") && s.prov == "const 0" {
				r.OK("C14.R2", key+" carries the documented quantity", p.InstrPos(s.instr), s.prov)
			} else {
				r.Check(s.plain && s.prov == want, "C14.R2", key+" carries the documented quantity", p.InstrPos(s.instr), s.prov,
					fmt.Sprintf("the slot is filled from `%s`; documented quantity is `%s` unchanged (conversions only)", s.prov, want))
			}
			if strings.Contains(d.desc, "trigger time") {
				timeProv = append(timeProv, s.prov)
			}
			if strings.Contains(d.desc, "trigger frame") {
				frameProv = append(frameProv, s.prov)
			}
		}
		// the first write is the 2-byte channel index
		if len(slots) > 0 {
			r.Check(slots[0].off == 0 && slots[0].size == 2 && slots[0].prov == "field channelIndex", "C14.R3", b.name+": first two bytes are the channel index", p.InstrPos(slots[0].instr), "per-channel subscription prefix", "the message does not start with the 2-byte channel index: per-channel subscription breaks")
		}
		// R3 frames
		c14Frames(p, r, fn, buf, b.name, b.payload, b.view)
	}
	if len(timeProv) == 2 && len(frameProv) == 2 {
		r.Check(timeProv[0] == timeProv[1] && frameProv[0] == frameProv[1], "C14.R2", "record and summary messages stamp the same time and frame expressions", "-", "identical provenance in both builders", "the two builders derive trigger time / frame differently: the two messages of one record disagree")
	}
	c14R4(p, r)
	c14R5(p, r)
}

func c14Frames(p *Prog, r *Report, fn *ssa.Function, buf ssa.Value, name, payloadField, view string) {
	// a header grown in a byte slice made in this call (append form): fresh by construction; it
	// must go nowhere but into the returned frame list
	sliceMode := false
	if buf != nil {
		if st, isSl := buf.Type().Underlying().(*types.Slice); isSl && types.Identical(st.Elem(), types.Typ[types.Byte]) {
			sliceMode = true
		}
	}
	if sliceMode {
		// where the bytes live: made here, a local array (a copy), or something shared
		root := buf
		for {
			if sl, ok := root.(*ssa.Slice); ok {
				root = sl.X
				continue
			}
			if c, ok := root.(*ssa.Call); ok {
				if b, isB := c.Call.Value.(*ssa.Builtin); isB && b.Name() == "append" {
					root = c.Call.Args[0]
					continue
				}
			}
			break
		}
		switch x := root.(type) {
		case *ssa.Global:
			r.Bad("C14.R3", name+": header buffer is allocated in this call", p.Pos(fn.Pos()), "the header bytes are the package-level array "+x.Name()+" itself, shared by every message: a message still queued for sending has its header overwritten by the next record (channel, lengths, time and data type of another record)")
		case *ssa.MakeSlice, *ssa.Alloc:
			r.OK("C14.R3", name+": header buffer is allocated in this call", p.Pos(fn.Pos()), "made (or copied into a local array) per message")
		default:
			r.OK("C14.R3", name+": header buffer is allocated in this call", p.Pos(fn.Pos()), "make([]byte, 0, n) per message, grown by append")
		}
		bad := ""
		for _, ref := range *buf.Referrers() {
			switch x := ref.(type) {
			case *ssa.Store:
				if x.Val != buf {
					bad = p.InstrPos(x)
				}
			case *ssa.DebugRef:
			case *ssa.IndexAddr:
				// a single byte of the header set in place
				for _, r2 := range *x.Referrers() {
					if _, isSt := r2.(*ssa.Store); !isSt {
						if _, isDbg := r2.(*ssa.DebugRef); !isDbg {
							bad = p.InstrPos(x)
						}
					}
				}
			case *ssa.Slice:
				// a window of the header used only as the destination of a fixed-width put
				for _, r2 := range *x.Referrers() {
					c2, isCall := r2.(*ssa.Call)
					if isCall && c2.Call.StaticCallee() != nil && strings.HasPrefix(c2.Call.StaticCallee().Name(), "PutUint") && strings.Contains(CalleeName(&c2.Call), "encoding/binary") {
						continue
					}
					if _, isDbg := r2.(*ssa.DebugRef); isDbg {
						continue
					}
					bad = p.InstrPos(x)
				}
			default:
				if in, ok := ref.(ssa.Instruction); ok {
					bad = p.InstrPos(in)
				}
			}
		}
		r.Check(bad == "", "C14.R3", name+": header buffer does not escape", p.Pos(fn.Pos()), "only placed in the returned frame list", "the header buffer is handed to other code at "+bad+" (it may be reused while its bytes are still referenced by a queued message)")
	}
	alloc, isAlloc := buf.(*ssa.Alloc)
	if !sliceMode {
		r.Check(isAlloc && alloc.Heap, "C14.R3", name+": header buffer is allocated in this call", p.Pos(fn.Pos()), "new(bytes.Buffer) per message",
			"the header buffer is not a fresh allocation of this call (pooled / shared buffers are overwritten while the previous message is still queued)")
	}
	// and used for nothing but Write / Bytes
	if buf != nil && !sliceMode {
		bad := ""
		for _, ref := range *buf.Referrers() {
			in, ok := ref.(ssa.Instruction)
			if !ok {
				continue
			}
			if IsCallTo(in, "(*bytes.Buffer).Write", "(*bytes.Buffer).Bytes") {
				if _, isDefer := in.(*ssa.Defer); !isDefer {
					continue
				}
			}
			if _, isDbg := in.(*ssa.DebugRef); isDbg {
				continue
			}
			// handed, as an io.Writer, to encoding/binary.Write only
			if mi, isMI := in.(*ssa.MakeInterface); isMI {
				onlyBW := true
				for _, r2 := range *mi.Referrers() {
					if c2, isCall := r2.(*ssa.Call); isCall && IsCallTo(c2, "encoding/binary.Write") && len(c2.Call.Args) > 0 && c2.Call.Args[0] == ssa.Value(mi) {
						continue
					}
					if _, isDbg := r2.(*ssa.DebugRef); isDbg {
						continue
					}
					onlyBW = false
				}
				if onlyBW {
					continue
				}
			}
			// handed to a module helper that only writes to it
			if call, isCall := in.(*ssa.Call); isCall {
				if g := call.Call.StaticCallee(); g != nil && isModuleFn(g) && g.Blocks != nil && len(g.Params) == len(call.Call.Args) {
					onlyWrites := true
					for k, a := range call.Call.Args {
						if a != buf {
							continue
						}
						for _, r2 := range *g.Params[k].Referrers() {
							i2, ok := r2.(ssa.Instruction)
							if !ok {
								continue
							}
							if _, isDbg := i2.(*ssa.DebugRef); isDbg {
								continue
							}
							if _, isDefer := i2.(*ssa.Defer); !isDefer && IsCallTo(i2, "(*bytes.Buffer).Write") {
								continue
							}
							onlyWrites = false
						}
					}
					if onlyWrites {
						continue
					}
				}
			}
			// a method value of Write / Bytes that is only called (put := header.Write; put(x))
			if mc, isMC := in.(*ssa.MakeClosure); isMC {
				if f, isF := mc.Fn.(*ssa.Function); isF && (f.Name() == "Write$bound" || f.Name() == "Bytes$bound") {
					onlyCalled := true
					for _, r2 := range *mc.Referrers() {
						if c, isCall := r2.(*ssa.Call); !isCall || c.Call.Value != ssa.Value(mc) {
							if _, isDbg := r2.(*ssa.DebugRef); !isDbg {
								onlyCalled = false
							}
						}
					}
					if onlyCalled {
						continue
					}
				}
			}
			bad = p.InstrPos(in)
		}
		r.Check(bad == "", "C14.R3", name+": header buffer does not escape", p.Pos(fn.Pos()), "only Write and Bytes use it", "the header buffer is handed to other code at "+bad+" (it may be reused while its bytes are still referenced by a queued message)")
	}
	// return value: a 2-element slice literal [Bytes(buf), view(rec.<payload>)]
	var ret *ssa.Return
	nret := 0
	Instrs(fn, func(in ssa.Instruction) {
		if rt, ok := in.(*ssa.Return); ok {
			ret = rt
			nret++
		}
	})
	ok2, okHdr, okPay := false, false, false
	why := ""
	if ret != nil && nret == 1 {
		if sl, ok := ret.Results[0].(*ssa.Slice); ok && sl.Low == nil && sl.High == nil {
			if a, ok := sl.X.(*ssa.Alloc); ok {
				if pt, ok := a.Type().Underlying().(*types.Pointer); ok {
					if arr, ok := pt.Elem().Underlying().(*types.Array); ok && arr.Len() == 2 {
						ok2 = true
					}
				}
				for _, ref := range *a.Referrers() {
					ia, ok := ref.(*ssa.IndexAddr)
					if !ok {
						continue
					}
					k, _ := constInt(ia.Index)
					for _, r2 := range *ia.Referrers() {
						st, ok := r2.(*ssa.Store)
						if !ok {
							continue
						}
						if k == 0 && sliceMode && st.Val == buf {
							okHdr = true
							continue
						}
						call, isCall := st.Val.(*ssa.Call)
						if !isCall {
							why = "a frame is not produced by a byte-view call"
							continue
						}
						if k == 0 && IsCallTo(call, "(*bytes.Buffer).Bytes") && call.Call.Args[0] == buf {
							okHdr = true
						}
						if k == 1 {
							c := call.Call.StaticCallee()
							if c != nil && c.Name() == view && len(call.Call.Args) == 1 {
								prov, plain := provenance(call.Call.Args[0], fn.Params[0])
								if plain && prov == "field "+payloadField {
									okPay = true
								} else {
									why = "second frame is a view of `" + prov + "`, not of the whole `" + payloadField + "` slice"
								}
							} else {
								why = "second frame is not produced by " + view
							}
						}
					}
				}
			}
		}
	}
	r.Check(ok2, "C14.R3", name+": exactly two frames", p.Pos(fn.Pos()), "two-element slice literal", "the message is not a two-frame slice literal")
	r.Check(okHdr, "C14.R3", name+": first frame is the header buffer's bytes", p.Pos(fn.Pos()), "header.Bytes()", "the first frame is not the bytes of the header buffer")
	r.Check(okPay, "C14.R3", name+": second frame is the whole "+payloadField+" slice", p.Pos(fn.Pos()), view+"(rec."+payloadField+")", "second frame: "+why)
}

func c14R4(p *Prog, r *Report) {
	ss := p.Func("", "", "startSocket")
	if ss == nil {
		r.Unk("C14.R4", "startSocket", "-", "anchor not found")
		return
	}
	r.Fn(FuncName(ss))
	okSend := false
	// the publishing goroutine: a closure of startSocket or a named function / method it starts
	var pubFns []*ssa.Function
	seenPub := map[*ssa.Function]bool{}
	for _, a := range Anons(ss) {
		if !seenPub[a] {
			seenPub[a] = true
			pubFns = append(pubFns, a)
		}
	}
	Instrs(ss, func(in ssa.Instruction) {
		if g, ok := in.(*ssa.Go); ok {
			for _, f := range ResolveOr(p, g) {
				if isModuleFn(f) && !seenPub[f] {
					seenPub[f] = true
					pubFns = append(pubFns, f)
					r.Fn(FuncName(f))
				}
			}
		}
	})
	// the converter: a call through a function value of type func(*DataRecord) [][]byte
	isConverterCall := func(call *ssa.Call) bool {
		if call.Call.StaticCallee() != nil || call.Call.IsInvoke() {
			return false
		}
		sig, ok := call.Call.Value.Type().Underlying().(*types.Signature)
		if !ok || sig.Params().Len() != 1 || sig.Results().Len() != 1 {
			return false
		}
		return typeName(sig.Params().At(0).Type()) == "DataRecord" && sig.Results().At(0).Type().String() == "[][]byte"
	}
	for _, a := range pubFns {
		Instrs(a, func(in ssa.Instruction) {
			cc := CallOf(in)
			if cc == nil || !strings.HasSuffix(CalleeName(cc), ".SendMessage") {
				return
			}
			// the (variadic) argument holds the converter's result
			seen := map[ssa.Value]bool{}
			var walk func(v ssa.Value, d int) bool
			walk = func(v ssa.Value, d int) bool {
				if v == nil || seen[v] || d > 8 {
					return false
				}
				seen[v] = true
				if call, ok := v.(*ssa.Call); ok && call.Call.StaticCallee() == nil && !call.Call.IsInvoke() {
					if isConverterCall(call) {
						return true
					}
					// dynamic call of the captured converter
					if u, ok := call.Call.Value.(*ssa.UnOp); ok {
						if fv, ok := u.X.(*ssa.FreeVar); ok && fv.Name() == "converter" {
							return true
						}
					}
					if fv, ok := call.Call.Value.(*ssa.FreeVar); ok && fv.Name() == "converter" {
						return true
					}
				}
				if in2, ok := v.(ssa.Instruction); ok {
					for _, op := range in2.Operands(nil) {
						if *op != nil && walk(*op, d+1) {
							return true
						}
					}
				}
				if a, ok := v.(*ssa.Alloc); ok {
					for _, ref := range *a.Referrers() {
						if ia, ok := ref.(*ssa.IndexAddr); ok {
							for _, r2 := range *ia.Referrers() {
								if st, ok := r2.(*ssa.Store); ok && walk(st.Val, d+1) {
									return true
								}
							}
						}
					}
				}
				return false
			}
			for _, arg := range cc.Args {
				if walk(arg, 0) {
					okSend = true
				}
			}
			// one message per record: the send sits in the loop over the records, runs on every
			// iteration, and its variadic argument is a one-element list holding the converter's
			// result for that record (several results in one call become ONE multi-part message)
			var conv *ssa.Call
			Instrs(a, func(x ssa.Instruction) {
				if call, ok := x.(*ssa.Call); ok && call.Call.StaticCallee() == nil && !call.Call.IsInvoke() {
					if _, isB := call.Call.Value.(*ssa.Builtin); !isB {
						conv = call
					}
				}
			})
			perRecord := false
			if conv != nil {
				for _, l := range RangeLoops(a) {
					if l.Contains(in.Block()) && l.Contains(conv.Block()) && l.EveryIteration(in.Block()) {
						perRecord = true
					}
				}
			}
			oneList := false
			if len(cc.Args) > 0 {
				if sl, ok := cc.Args[len(cc.Args)-1].(*ssa.Slice); ok {
					if al, ok := sl.X.(*ssa.Alloc); ok {
						if arr, ok := derefType(al.Type()).Underlying().(*types.Array); ok && arr.Len() == 1 {
							oneList = true
						}
					}
				}
			}
			r.Check(perRecord && oneList, "C14.R4", "one socket message per record", p.InstrPos(in), "the send runs once per record of the batch with that record's two frames",
				"the send is not made once per record with exactly that record's frames (batched outside the per-record loop, or several part lists in one call): the records of a batch arrive as one multi-part message, so only the first carries its channel prefix at the front and subscribers cannot tell the records apart")
		})
	}
	// the same message sent frame by frame by a module helper: helper(socket, converter(record))
	// whose loop over the frames sends every frame, all but the last flagged "more follows"
	if !okSend {
		for _, a := range pubFns {
			Instrs(a, func(in ssa.Instruction) {
				call, ok := in.(*ssa.Call)
				if !ok || call.Call.StaticCallee() == nil || !isModuleFn(call.Call.StaticCallee()) || call.Call.StaticCallee().Blocks == nil {
					return
				}
				h := call.Call.StaticCallee()
				k := -1
				for j, arg := range call.Call.Args {
					if c2, isCall := arg.(*ssa.Call); isCall && isConverterCall(c2) {
						k = j
					}
				}
				if k < 0 || len(h.Params) != len(call.Call.Args) {
					return
				}
				r.Fn(FuncName(h))
				why := "no loop over the frames that sends each of them"
				good := false
				for _, l := range RangeLoops(h) {
					if l.Over != ssa.Value(h.Params[k]) {
						continue
					}
					Instrs(h, func(x ssa.Instruction) {
						sc := CallOf(x)
						if sc == nil || !(strings.HasSuffix(CalleeName(sc), ".SendBytes") || strings.HasSuffix(CalleeName(sc), ".Send")) || !l.Contains(x.Block()) {
							return
						}
						if !l.EveryIteration(x.Block()) {
							why = "a frame can be skipped (the send at " + p.InstrPos(x) + " does not run for every frame): a skipped last frame leaves the message unterminated, and the next record's frames are appended to it"
							return
						}
						if !l.IsElem(sc.Args[len(sc.Args)-2]) {
							why = "what is sent at " + p.InstrPos(x) + " is not the current frame"
							return
						}
						// flags: "more" except on the last frame
						ph, isPhi := sc.Args[len(sc.Args)-1].(*ssa.Phi)
						if !isPhi || len(ph.Edges) != 2 {
							why = "the flags of the send at " + p.InstrPos(x) + " are not 'more follows' / 'last' chosen per frame"
							return
						}
						okFlags := false
						for i, e := range ph.Edges {
							if z, isC := constInt(stripConv(e)); isC && z == 0 {
								// the zero edge is taken when index == len-1
								pred := ph.Block().Preds[i]
								c := NewPolyCtx(h)
								for _, ct := range append(controllingIfs(pred), ctrlOfEdge(pred, ph.Block())...) {
									bo, isB := ct.If.Cond.(*ssa.BinOp)
									if !isB || bo.Op != token.EQL || ct.Branch != 0 {
										continue
									}
									d := c.Of(bo.X).Sub(c.Of(bo.Y))
									want := c.Of(l.Idx).Sub(c.lenOf(h.Params[k]).Sub(polyConst(1)))
									if d.Equal(want) || d.Equal(want.Neg()) {
										okFlags = true
									}
								}
							}
						}
						if !okFlags {
							why = "the send at " + p.InstrPos(x) + " does not mark exactly the last frame as the end of the message"
							return
						}
						good = true
					})
				}
				perRecord := false
				for _, l := range RangeLoops(a) {
					if l.Contains(in.Block()) && l.EveryIteration(in.Block()) {
						perRecord = true
					}
				}
				if good {
					okSend = true
					r.Check(perRecord, "C14.R4", "one socket message per record", p.InstrPos(in), "the frame-by-frame sender "+FuncName(h)+" runs once per record of the batch with that record's frames",
						"the send is not made once per record with exactly that record's frames")
				} else {
					r.Bad("C14.R4", "one socket message per record", p.InstrPos(in), "the frame-by-frame sender "+FuncName(h)+" does not send the converter's frames as one complete message: "+why)
					okSend = true
				}
			})
		}
	}
	r.Check(okSend, "C14.R4", "the publishing goroutine sends the converter's result", p.Pos(ss.Pos()), "SendMessage(converter(record))", "what is sent on the socket is not (only) the converter's result")
	// call sites pair port and builder
	pairs := map[string]string{}
	for _, fn := range p.LibFuncs() {
		Instrs(fn, func(in ssa.Instruction) {
			call, ok := in.(*ssa.Call)
			if !ok || call.Call.StaticCallee() != ss {
				return
			}
			portName := "?"
			if g, ok := stripConv(call.Call.Args[0]).(*ssa.UnOp); ok {
				if gl, ok := g.X.(*ssa.Global); ok {
					portName = gl.Name()
				}
				if _, f, _, ok := FieldOf(g); ok {
					portName = f
				}
			}
			conv := "?"
			if fns, ok := ResolveFuncs(call.Call.Args[1]); ok && len(fns) == 1 {
				conv = fns[0].Name()
			} else if f, ok := call.Call.Args[1].(*ssa.Function); ok {
				conv = f.Name()
			}
			pairs[conv] = portName + " in " + FuncName(fn)
		})
	}
	for _, b := range []string{"messageRecords", "messageSummaries"} {
		where, ok := pairs[b]
		r.Check(ok, "C14.R4", "a socket is started with "+b, "-", "port "+where, "no publishing socket uses "+b)
	}
	if a, b := pairs["messageRecords"], pairs["messageSummaries"]; a != "" && b != "" {
		pa, pb := strings.Split(a, " in ")[0], strings.Split(b, " in ")[0]
		r.Check(pa != pb, "C14.R4", "records and summaries use different ports", "-", pa+" vs "+pb, "both builders publish on the same port expression")
	}
}

func c14R5(p *Prog, r *Report) {
	sizes := types.SizesFor("gc", "amd64")
	done := map[*ssa.Function]bool{}
	var check func(fn *ssa.Function, scalar bool)
	check = func(fn *ssa.Function, scalar bool) {
		if done[fn] {
			return
		}
		done[fn] = true
		r.Fn(FuncName(fn))
		delegates := false
		if scalar {
			Instrs(fn, func(in ssa.Instruction) {
				if ret, isRet := in.(*ssa.Return); isRet {
					if call, isCall := ret.Results[0].(*ssa.Call); isCall && call.Call.StaticCallee() != nil && strings.HasPrefix(call.Call.StaticCallee().Name(), "FromSlice") {
						delegates = true
					}
				}
			})
		}
		if scalar && delegates {
			// scalar views delegate to the slice view of a one-element literal holding the value
			okS, why := false, "the scalar view does not return the slice view of []T{value}"
			Instrs(fn, func(in ssa.Instruction) {
				ret, isRet := in.(*ssa.Return)
				if !isRet {
					return
				}
				call, isCall := ret.Results[0].(*ssa.Call)
				if !isCall || call.Call.StaticCallee() == nil || !strings.HasPrefix(call.Call.StaticCallee().Name(), "FromSlice") {
					return
				}
				sl, isSl := call.Call.Args[0].(*ssa.Slice)
				if !isSl || sl.Low != nil || sl.High != nil {
					return
				}
				a, isA := sl.X.(*ssa.Alloc)
				if !isA {
					return
				}
				arr, isArr := a.Type().Underlying().(*types.Pointer).Elem().Underlying().(*types.Array)
				if !isArr || arr.Len() != 1 || !types.Identical(arr.Elem(), fn.Params[0].Type()) {
					why = "the literal is not a one-element slice of the parameter's type"
					return
				}
				for _, ref := range *a.Referrers() {
					if ia, ok := ref.(*ssa.IndexAddr); ok {
						for _, r2 := range *ia.Referrers() {
							if st, ok := r2.(*ssa.Store); ok && st.Val == ssa.Value(fn.Params[0]) {
								okS = true
							}
						}
					}
				}
				check(call.Call.StaticCallee(), false)
			})
			r.Check(okS, "C14.R5", "byte view "+FuncName(fn)+" has the exact length", p.Pos(fn.Pos()), fmt.Sprintf("slice view of []T{value}: %d bytes", sizes.Sizeof(fn.Params[0].Type())), why)
			return
		}
		pc := NewPolyCtx(fn)
		pc.G = true
		prm := fn.Params[0]
		var want Poly
		if scalar {
			want = polyConst(sizes.Sizeof(prm.Type()))
		} else {
			el := prm.Type().Underlying().(*types.Slice).Elem()
			want = pc.lenOf(prm).Mul(polyConst(sizes.Sizeof(el)))
		}
		ok := true
		why := ""
		n := 0
		Instrs(fn, func(in ssa.Instruction) {
			ret, isRet := in.(*ssa.Return)
			if !isRet {
				return
			}
			n++
			// the returned value, or each alternative merged into it
			var alts []ssa.Value
			var expand func(v ssa.Value, d int)
			expand = func(v ssa.Value, d int) {
				if ph, isPhi := v.(*ssa.Phi); isPhi && d < 4 {
					for _, e := range ph.Edges {
						expand(e, d+1)
					}
					return
				}
				alts = append(alts, v)
			}
			expand(ret.Results[0], 0)
			for _, v := range alts {
				var ln Poly
				switch x := v.(type) {
				case *ssa.Call:
					// the view is made by a shared (generic) helper that is handed the same slice:
					// the helper is checked in its own right
					if h := x.Call.StaticCallee(); isModuleFn(h) && len(x.Call.Args) == 1 && x.Call.Args[0] == ssa.Value(prm) && !scalar && len(h.Params) == 1 {
						if _, isSl := h.Params[0].Type().Underlying().(*types.Slice); isSl {
							check(h, false)
							ln = want
						}
					}
					if b, isB := x.Call.Value.(*ssa.Builtin); isB && b.Name() == "Slice" {
						ln = pc.Of(x.Call.Args[1])
						// the memory viewed is the parameter's own
						root := x.Call.Args[0]
						for i := 0; i < 6; i++ {
							switch y := root.(type) {
							case *ssa.Convert:
								root = y.X
								continue
							case *ssa.ChangeType:
								root = y.X
								continue
							case *ssa.IndexAddr:
								root = y.X
								continue
							}
							break
						}
						if scalar {
							if a, isA := root.(*ssa.Alloc); !isA || a.Comment != prm.Name() {
								ok, why = false, "the view is not of the parameter's memory"
							}
						} else if root != ssa.Value(prm) {
							ok, why = false, "the view is not of the parameter slice's memory"
						}
					}
				case *ssa.Slice:
					ln = pc.lenOf(x)
					// empty-slice return on the len==0 branch
				}
				if ln == nil {
					ok, why = false, "return value is not an unsafe.Slice / slice expression"
					continue
				}
				// x/1 simplifies
				ln = mapSyms(ln, func(s string) string { return s })
				if c, isC := ln.IsConst(); isC && c == 0 && !scalar {
					continue // the empty case
				}
				if !ln.Equal(want) && !quoOne(ln, want) {
					ok, why = false, fmt.Sprintf("returned length is %s, want %s", ln, want)
				}
			}
		})
		r.Check(ok && n > 0, "C14.R5", "byte view "+FuncName(fn)+" has the exact length", p.Pos(fn.Pos()), "returns "+want.String()+" bytes of its argument's memory", why)
	}
	for _, name := range []string{"FromUint8", "FromUint16", "FromUint32", "FromUint64", "FromInt64", "FromFloat32", "FromSliceFloat64"} {
		fn := p.Func("getbytes", "", name)
		if fn == nil {
			r.Unk("C14.R5", "getbytes."+name, "-", "helper not found")
			continue
		}
		check(fn, !strings.HasPrefix(name, "FromSlice"))
	}
	if fn := p.Func("", "", "rawTypeToBytes"); fn != nil {
		check(fn, false)
	} else {
		r.Unk("C14.R5", "rawTypeToBytes", "-", "helper not found")
	}
}

// quoOne: ln is /(want,1) (division by sizeof(byte)).
func quoOne(ln, want Poly) bool {
	if len(ln) != 1 {
		return false
	}
	for k, c := range ln {
		if c == 1 && strings.HasPrefix(k, "/(") && strings.HasSuffix(k, ",1)") {
			inner := strings.ReplaceAll(k[2:len(k)-3], "·", "*")
			return inner == want.String()
		}
	}
	return false
}
